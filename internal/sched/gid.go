//go:build !amd64

package sched

import (
	"runtime"
)

// curGoroutineID parses the id of the calling goroutine from its stack header ("goroutine N [").
func curGoroutineID() int64 {
	var buf [64]byte
	n := runtime.Stack(buf[:], false)
	var id int64
	for i := len("goroutine "); i < n; i++ {
		c := buf[i]
		if c < '0' || c > '9' {
			break
		}
		id = id*10 + int64(c-'0')
	}
	return id
}
