// Package sched is a cooperative scheduler for goroutines that each run one gopher-lua LState, plus
// a depth-first explorer over all schedules up to a pre-emption bound. Scheduling points are the
// channel operations of the Lua channel library (announced by the reflect shim) and, optionally,
// every VM instruction (step hook). A shadow model of Go channel semantics decides which parked
// operations are enabled, forces select choices, detects deadlock and predicts every result.
package sched

import (
	"fmt"
	"reflect"
	"sort"
	"strings"
	"sync"
	"time"

	rshim "github.com/yuin/gopher-lua/verifshim/rshim"
)

// ---- dispatcher: routes shim callbacks to the controller that owns the channel --------------------------

type dispatcher struct {
	mu   sync.RWMutex
	byCh map[uintptr]*Controller
}

var disp = &dispatcher{byCh: map[uintptr]*Controller{}}

func init() { rshim.Sched = disp }

func (d *dispatcher) find(op *rshim.Op) *Controller {
	d.mu.RLock()
	defer d.mu.RUnlock()
	if op.Chan != 0 {
		if c := d.byCh[op.Chan]; c != nil {
			return c
		}
	}
	for _, cs := range op.Cases {
		if cs.Chan != 0 {
			if c := d.byCh[cs.Chan]; c != nil {
				return c
			}
		}
	}
	return nil
}

func (d *dispatcher) BeforeOp(op *rshim.Op) int {
	c := d.find(op)
	if c == nil {
		return -1
	}
	return c.beforeOp(op)
}

func (d *dispatcher) AfterOp(op *rshim.Op, res *rshim.Result) {
	if c := d.find(op); c != nil {
		c.afterOp(op, res)
	}
}

// ---- shadow model ---------------------------------------------------------------------------------------------

type shadowChan struct {
	id     uintptr
	name   string
	cap    int
	buf    []interface{}
	closed bool
	raw    reflect.Value
}

// Abort is the panic payload used to unwind parked threads at the end of an execution.
type Abort struct{}

func (Abort) String() string { return "verif-sched-abort" }
func (Abort) Error() string  { return "verif-sched-abort" }

type thread struct {
	id      int
	name    string
	wake    chan decision
	op      *rshim.Op // pending operation while parked (nil: at a step point or finished)
	atStep  bool
	done    bool
	err     error
	expect  []string // model's prediction of this thread's observations, in order
	waiting bool
	aborted bool
	pendRes *expectRes
}

type decision struct {
	abort  bool
	choice int
}

type expectRes struct {
	kind  string
	index int
	val   interface{}
	ok    bool
	panic bool
}

// Transition is one enabled step of the system.
type Transition struct {
	Desc    string
	threads []int // threads released (1, or 2 for a rendezvous)
	primary int   // the thread whose scheduling this is (for pre-emption accounting)
	apply   func()
}

type Controller struct {
	mu       sync.Mutex
	threads  []*thread
	chans    map[uintptr]*shadowChan
	running  int
	idle     chan struct{}
	tlsMu    sync.Mutex
	tls      map[int64]int
	Errors   []string // harness/model disagreements
	History  []string
	lastRan  int
	watchdog time.Duration
	current  map[*rshim.Op]int
}

// NewController creates a controller for one execution over the given channels.
func NewController() *Controller {
	return &Controller{chans: map[uintptr]*shadowChan{}, idle: make(chan struct{}, 64), tls: map[int64]int{}, lastRan: -1, watchdog: 20 * time.Second, current: map[*rshim.Op]int{}}
}

// AddChan registers a channel (created by the harness) with the controller and the dispatcher.
func (c *Controller) AddChan(name string, ch interface{}) {
	v := reflect.ValueOf(ch)
	sc := &shadowChan{id: v.Pointer(), name: name, cap: v.Cap(), raw: v}
	c.chans[sc.id] = sc
	disp.mu.Lock()
	disp.byCh[sc.id] = c
	disp.mu.Unlock()
}

func (c *Controller) release() {
	disp.mu.Lock()
	for id := range c.chans {
		delete(disp.byCh, id)
	}
	disp.mu.Unlock()
}

// callerOf identifies the thread performing op by the goroutine it runs on (thread goroutines
// register their goroutine id in Run).
func (c *Controller) callerOf(op *rshim.Op) *thread {
	gid := curGoroutineID()
	c.tlsMu.Lock()
	id, ok := c.tls[gid]
	c.tlsMu.Unlock()
	if !ok {
		return nil
	}
	return c.threads[id]
}

func (c *Controller) beforeOp(op *rshim.Op) int {
	t := c.callerOf(op)
	if t == nil {
		return -1
	}
	if t.aborted {
		panic(Abort{})
	}
	c.mu.Lock()
	t.op = op
	t.waiting = true
	c.running--
	c.mu.Unlock()
	c.signal()
	d := <-t.wake
	if d.abort {
		t.aborted = true
		panic(Abort{})
	}
	return d.choice
}

func (c *Controller) signal() {
	select {
	case c.idle <- struct{}{}:
	default:
	}
}

func (c *Controller) afterOp(op *rshim.Op, res *rshim.Result) {
	t := c.callerOf(op)
	if t == nil {
		return
	}
	c.mu.Lock()
	defer c.mu.Unlock()
	exp := t.pendRes
	t.pendRes = nil
	if exp == nil {
		return
	}
	bad := ""
	switch {
	case exp.panic != (res.Panicked != nil):
		bad = fmt.Sprintf("model expects panic=%v, real operation panicked=%v (%v)", exp.panic, res.Panicked != nil, res.Panicked)
	case exp.panic:
	case op.Kind == "recv" || (op.Kind == "select" && exp.kind == "recv"):
		if op.Kind == "select" && res.Index != exp.index {
			bad = fmt.Sprintf("select returned case %d, scheduler forced case %d", res.Index, exp.index)
		} else if res.OK != exp.ok || (exp.ok && !sameVal(res.Val, exp.val)) {
			bad = fmt.Sprintf("received (%v, ok=%v), the channel model predicts (%v, ok=%v)", res.Val, res.OK, exp.val, exp.ok)
		}
	case op.Kind == "select":
		if res.Index != exp.index {
			bad = fmt.Sprintf("select returned case %d, scheduler forced case %d", res.Index, exp.index)
		}
	}
	if bad != "" {
		c.Errors = append(c.Errors, fmt.Sprintf("thread %s %s: %s", t.name, op.Kind, bad))
	}
}

func sameVal(a, b interface{}) bool {
	return fmt.Sprint(a) == fmt.Sprint(b) && reflect.TypeOf(a) == reflect.TypeOf(b)
}

// StepPoint parks the calling thread at an instruction boundary (interference scenarios).
func (c *Controller) StepPoint() {
	gid := curGoroutineID()
	c.tlsMu.Lock()
	id, ok := c.tls[gid]
	c.tlsMu.Unlock()
	if !ok {
		return
	}
	t := c.threads[id]
	if t.aborted {
		panic(Abort{})
	}
	c.mu.Lock()
	t.atStep = true
	t.waiting = true
	c.running--
	c.mu.Unlock()
	c.signal()
	d := <-t.wake
	if d.abort {
		t.aborted = true
		panic(Abort{})
	}
}

// ---- enabled transitions --------------------------------------------------------------------------------------------

func fmtVal(v interface{}) string { return fmt.Sprint(v) }

func (c *Controller) enabled() []Transition {
	var out []Transition
	parked := func(t *thread) bool { return t.waiting && !t.done }
	// helper: partners
	type sendOffer struct {
		t     *thread
		ch    uintptr
		val   interface{}
		selIx int // -1 plain
	}
	type recvOffer struct {
		t     *thread
		ch    uintptr
		selIx int
	}
	var sends []sendOffer
	var recvs []recvOffer
	for _, t := range c.threads {
		if !parked(t) || t.op == nil {
			continue
		}
		switch t.op.Kind {
		case "send":
			sends = append(sends, sendOffer{t, t.op.Chan, t.op.Val, -1})
		case "recv":
			recvs = append(recvs, recvOffer{t, t.op.Chan, -1})
		case "select":
			for i, cs := range t.op.Cases {
				if cs.Chan == 0 {
					continue
				}
				if _, mine := c.chans[cs.Chan]; !mine {
					continue
				}
				if cs.Dir == reflect.SelectSend {
					sends = append(sends, sendOffer{t, cs.Chan, cs.Val, i})
				} else if cs.Dir == reflect.SelectRecv {
					recvs = append(recvs, recvOffer{t, cs.Chan, i})
				}
			}
		}
	}
	exp := func(t *thread, s string) { t.expect = append(t.expect, s) }
	for _, t := range c.threads {
		if !parked(t) {
			continue
		}
		t := t
		if t.atStep {
			out = append(out, Transition{Desc: fmt.Sprintf("%s:step", t.name), threads: []int{t.id}, primary: t.id, apply: func() {}})
			continue
		}
		op := t.op
		switch op.Kind {
		case "close":
			ch := c.chans[op.Chan]
			if ch == nil {
				continue
			}
			out = append(out, Transition{Desc: fmt.Sprintf("%s:close(%s)", t.name, ch.name), threads: []int{t.id}, primary: t.id, apply: func() {
				if ch.closed {
					t.pendRes = &expectRes{panic: true}
					exp(t, "close:panic")
				} else {
					ch.closed = true
					t.pendRes = &expectRes{}
					exp(t, "close:ok")
				}
			}})
		}
	}
	// sends
	for _, s := range sends {
		s := s
		ch := c.chans[s.ch]
		if ch == nil {
			continue
		}
		mk := func(desc string, threads []int, apply func()) {
			out = append(out, Transition{Desc: desc, threads: threads, primary: s.t.id, apply: apply})
		}
		tag := func(t *thread, ix int) string {
			if ix >= 0 {
				return fmt.Sprintf("%s:select#%d", t.name, ix)
			}
			return t.name
		}
		if ch.closed {
			mk(fmt.Sprintf("%s:send(%s,%s)->panic", tag(s.t, s.selIx), ch.name, fmtVal(s.val)), []int{s.t.id}, func() {
				s.t.pendRes = &expectRes{panic: true, index: s.selIx}
				exp(s.t, "send:panic")
			})
			continue
		}
		if len(ch.buf) < ch.cap {
			mk(fmt.Sprintf("%s:send(%s,%s)", tag(s.t, s.selIx), ch.name, fmtVal(s.val)), []int{s.t.id}, func() {
				ch.buf = append(ch.buf, s.val)
				s.t.pendRes = &expectRes{kind: "send", index: s.selIx}
				if s.selIx >= 0 {
					exp(s.t, fmt.Sprintf("select:%d:sent", s.selIx))
				} else {
					exp(s.t, "send:ok")
				}
				s.t.choice(s.selIx)
			})
			continue
		}
		if ch.cap == 0 || len(ch.buf) == ch.cap {
			// blocked unless (unbuffered) a receiver is parked: rendezvous
			if ch.cap != 0 {
				continue
			}
			for _, r := range recvs {
				r := r
				if r.ch != s.ch || r.t == s.t {
					continue
				}
				mk(fmt.Sprintf("%s:send(%s,%s)<->%s:recv", tag(s.t, s.selIx), ch.name, fmtVal(s.val), tag(r.t, r.selIx)), []int{s.t.id, r.t.id}, func() {
					s.t.pendRes = &expectRes{kind: "send", index: s.selIx}
					r.t.pendRes = &expectRes{kind: "recv", index: r.selIx, val: s.val, ok: true}
					if s.selIx >= 0 {
						exp(s.t, fmt.Sprintf("select:%d:sent", s.selIx))
					} else {
						exp(s.t, "send:ok")
					}
					if r.selIx >= 0 {
						exp(r.t, fmt.Sprintf("select:%d:recv:%s:true", r.selIx, fmtVal(s.val)))
					} else {
						exp(r.t, fmt.Sprintf("recv:%s:true", fmtVal(s.val)))
					}
					s.t.choice(s.selIx)
					r.t.choice(r.selIx)
				})
			}
		}
	}
	// receives from buffers / closed channels
	for _, r := range recvs {
		r := r
		ch := c.chans[r.ch]
		if ch == nil {
			continue
		}
		tagn := r.t.name
		if r.selIx >= 0 {
			tagn = fmt.Sprintf("%s:select#%d", r.t.name, r.selIx)
		}
		if len(ch.buf) > 0 {
			out = append(out, Transition{Desc: fmt.Sprintf("%s:recv(%s)", tagn, ch.name), threads: []int{r.t.id}, primary: r.t.id, apply: func() {
				v := ch.buf[0]
				ch.buf = ch.buf[1:]
				r.t.pendRes = &expectRes{kind: "recv", index: r.selIx, val: v, ok: true}
				if r.selIx >= 0 {
					exp(r.t, fmt.Sprintf("select:%d:recv:%s:true", r.selIx, fmtVal(v)))
				} else {
					exp(r.t, fmt.Sprintf("recv:%s:true", fmtVal(v)))
				}
				r.t.choice(r.selIx)
			}})
		} else if ch.closed {
			out = append(out, Transition{Desc: fmt.Sprintf("%s:recv(%s)->closed", tagn, ch.name), threads: []int{r.t.id}, primary: r.t.id, apply: func() {
				r.t.pendRes = &expectRes{kind: "recv", index: r.selIx, ok: false}
				if r.selIx >= 0 {
					exp(r.t, fmt.Sprintf("select:%d:recv:nil:false", r.selIx))
				} else {
					exp(r.t, "recv:nil:false")
				}
				r.t.choice(r.selIx)
			}})
		}
	}
	// select default: only when no other case of that select is ready
	for _, t := range c.threads {
		if !parked(t) || t.op == nil || t.op.Kind != "select" {
			continue
		}
		t := t
		def := -1
		for i, cs := range t.op.Cases {
			if cs.Dir == reflect.SelectDefault {
				def = i
			}
		}
		if def < 0 {
			continue
		}
		ready := false
		for _, tr := range out {
			for _, id := range tr.threads {
				if id == t.id {
					ready = true
				}
			}
		}
		if !ready {
			out = append(out, Transition{Desc: fmt.Sprintf("%s:select#%d(default)", t.name, def), threads: []int{t.id}, primary: t.id, apply: func() {
				t.pendRes = &expectRes{kind: "default", index: def}
				exp(t, fmt.Sprintf("select:%d:default", def))
				t.choice(def)
			}})
		}
	}
	// canonical order: transitions of the thread that ran last first, then by thread id, then description
	sort.SliceStable(out, func(i, j int) bool {
		pi, pj := out[i].primary, out[j].primary
		if (pi == c.lastRan) != (pj == c.lastRan) {
			return pi == c.lastRan
		}
		if pi != pj {
			return pi < pj
		}
		return out[i].Desc < out[j].Desc
	})
	return out
}

var nextChoice sync.Map

func (t *thread) choice(ix int) { nextChoice.Store(t, ix) }

// ---- running one execution -----------------------------------------------------------------------------------------

// Body is the code of one thread. It must call nothing but its own LState.
type Body struct {
	Name string
	Run  func() error
}

// Point is one decision point of an execution.
type Point struct {
	Enabled         []string
	Chosen          int
	LastRanEnabled  bool // the previously running thread had an enabled transition (choosing another is a pre-emption)
	ChosenIsLastRan bool
}

type Execution struct {
	Points    []Point
	Deadlock  bool
	Parked    []string // operations parked at deadlock
	Expect    map[string][]string
	Errors    []string
	ThreadErr map[string]string
	StateKeys []string
}

// Run executes the bodies under the schedule prefix (then default choices). beforeStart is called
// after the controller is installed. stateKey, if non-nil, is evaluated at every decision point.
func (c *Controller) Run(bodies []Body, prefix []int, stateKey func() string) *Execution {
	ex := &Execution{Expect: map[string][]string{}, ThreadErr: map[string]string{}}
	c.threads = nil
	for i, b := range bodies {
		c.threads = append(c.threads, &thread{id: i, name: b.Name, wake: make(chan decision, 1)})
	}
	var wg sync.WaitGroup
	c.mu.Lock()
	c.running = len(bodies)
	c.mu.Unlock()
	for i, b := range bodies {
		wg.Add(1)
		t := c.threads[i]
		b := b
		go func() {
			defer wg.Done()
			gid := curGoroutineID()
			c.tlsMu.Lock()
			c.tls[gid] = t.id
			c.tlsMu.Unlock()
			defer func() {
				c.tlsMu.Lock()
				delete(c.tls, gid)
				c.tlsMu.Unlock()
			}()
			// every thread parks once before running any Lua code, so that the start order is a decision
			func() {
				defer func() {
					if r := recover(); r != nil {
						if _, ok := r.(Abort); !ok {
							t.err = fmt.Errorf("panic: %v", r)
						}
					}
				}()
				c.StepPoint()
				t.err = b.Run()
			}()
			c.mu.Lock()
			t.done = true
			t.waiting = false
			c.running--
			c.mu.Unlock()
			c.signal()
		}()
	}
	step := 0
	for {
		// wait until nobody runs
		for {
			c.mu.Lock()
			r := c.running
			c.mu.Unlock()
			if r <= 0 {
				break
			}
			select {
			case <-c.idle:
			case <-time.After(c.watchdog):
				c.mu.Lock()
				var who []string
				for _, t := range c.threads {
					if !t.done && !t.waiting {
						who = append(who, t.name)
					}
				}
				c.mu.Unlock()
				ex.Errors = append(ex.Errors, fmt.Sprintf("thread(s) %v did not come back within %v although the channel model says their operation is enabled", who, c.watchdog))
				ex.Points = append(ex.Points, Point{})
				return ex
			}
		}
		// consistency of the real channels with the shadow model
		for _, ch := range c.chans {
			if ch.raw.Len() != len(ch.buf) {
				c.Errors = append(c.Errors, fmt.Sprintf("channel %s holds %d values, the channel model says %d", ch.name, ch.raw.Len(), len(ch.buf)))
			}
		}
		allDone := true
		for _, t := range c.threads {
			if !t.done {
				allDone = false
			}
		}
		if allDone {
			break
		}
		en := c.enabled()
		if len(en) == 0 {
			ex.Deadlock = true
			for _, t := range c.threads {
				if !t.done && t.op != nil {
					ex.Parked = append(ex.Parked, t.name+":"+t.op.Kind)
				}
			}
			sort.Strings(ex.Parked)
			// unwind
			c.mu.Lock()
			n := 0
			for _, t := range c.threads {
				if !t.done && t.waiting {
					t.waiting = false
					n++
					t.wake <- decision{abort: true}
				}
			}
			c.running += n
			c.mu.Unlock()
			continue
		}
		choice := 0
		if step < len(prefix) {
			choice = prefix[step]
			if choice >= len(en) {
				ex.Errors = append(ex.Errors, fmt.Sprintf("replay divergence at point %d: choice %d of %d enabled", step, choice, len(en)))
				choice = 0
			}
		}
		p := Point{Chosen: choice}
		for _, tr := range en {
			p.Enabled = append(p.Enabled, tr.Desc)
			if tr.primary == c.lastRan {
				p.LastRanEnabled = true
			}
		}
		tr := en[choice]
		p.ChosenIsLastRan = tr.primary == c.lastRan
		ex.Points = append(ex.Points, p)
		if stateKey != nil {
			ex.StateKeys = append(ex.StateKeys, c.modelKey()+"|"+stateKey())
		}
		c.History = append(c.History, tr.Desc)
		tr.apply()
		c.lastRan = tr.primary
		c.mu.Lock()
		for _, id := range tr.threads {
			t := c.threads[id]
			ch := -1
			if v, ok := nextChoice.LoadAndDelete(t); ok {
				ch = v.(int)
			}
			t.waiting = false
			t.atStep = false
			t.op = nil
			c.running++
			t.wake <- decision{choice: ch}
		}
		c.mu.Unlock()
		step++
	}
	wg.Wait()
	for _, t := range c.threads {
		ex.Expect[t.name] = t.expect
		if t.err != nil {
			ex.ThreadErr[t.name] = t.err.Error()
		}
	}
	ex.Errors = append(ex.Errors, c.Errors...)
	c.release()
	return ex
}

func (c *Controller) modelKey() string {
	var parts []string
	for _, ch := range c.chans {
		parts = append(parts, fmt.Sprintf("%s[%v]%v", ch.name, ch.buf, ch.closed))
	}
	sort.Strings(parts)
	for _, t := range c.threads {
		parts = append(parts, fmt.Sprintf("%s:%d:%v", t.name, len(t.expect), t.done))
	}
	return strings.Join(parts, ";")
}

// ---- explorer ----------------------------------------------------------------------------------------------------------

type Explorer struct {
	Bound      int // pre-emption bound
	Executions int
	MaxPoints  int
	Cap        int // maximum number of executions (0: none)
	Capped     bool
}

// Explore enumerates every schedule with at most Bound pre-emptions. run executes one schedule
// prefix and returns the execution; visit is called for every complete execution.
func (e *Explorer) Explore(run func(prefix []int) *Execution, visit func(prefix []int, ex *Execution) bool) {
	var rec func(prefix []int)
	stop := false
	rec = func(prefix []int) {
		if stop {
			return
		}
		if e.Cap > 0 && e.Executions >= e.Cap {
			e.Capped = true
			return
		}
		ex := run(prefix)
		e.Executions++
		if len(ex.Points) > e.MaxPoints {
			e.MaxPoints = len(ex.Points)
		}
		choices := make([]int, len(ex.Points))
		for i, p := range ex.Points {
			choices[i] = p.Chosen
		}
		if !visit(choices, ex) {
			stop = true
			return
		}
		// pre-emptions used before each point
		used := 0
		for i := 0; i < len(ex.Points); i++ {
			p := ex.Points[i]
			if i >= len(prefix) {
				for alt := 1; alt < len(p.Enabled); alt++ {
					cost := used
					// alternative `alt` is a pre-emption if the last-ran thread is enabled (then
					// choice 0 belongs to it by the canonical order) and alt does not belong to it
					if p.LastRanEnabled && !altIsLastRan(p, alt) {
						cost++
					}
					if cost > e.Bound {
						continue
					}
					np := append(append([]int{}, choices[:i]...), alt)
					rec(np)
					if stop {
						return
					}
				}
			}
			if p.LastRanEnabled && !p.ChosenIsLastRan {
				used++
			}
		}
	}
	rec(nil)
}

// ExploreParallel enumerates the same set of schedules as Explore with a pool of workers: every
// alternative prefix found in an execution is an independent subtree and becomes a task. run and
// visit are called concurrently (each execution has its own controller and state). Without a cap
// the set of executions is exactly that of Explore; only the order differs.
func (e *Explorer) ExploreParallel(workers int, run func(prefix []int) *Execution, visit func(prefix []int, ex *Execution) bool) {
	if workers < 1 {
		workers = 1
	}
	var mu sync.Mutex
	cond := sync.NewCond(&mu)
	queue := [][]int{nil}
	active := 0
	stop := false
	var wg sync.WaitGroup
	for w := 0; w < workers; w++ {
		wg.Add(1)
		go func() {
			defer wg.Done()
			for {
				mu.Lock()
				for len(queue) == 0 && active > 0 && !stop {
					cond.Wait()
				}
				if stop || (len(queue) == 0 && active == 0) {
					mu.Unlock()
					cond.Broadcast()
					return
				}
				if e.Cap > 0 && e.Executions >= e.Cap {
					e.Capped = true
					queue = nil
					if active == 0 {
						mu.Unlock()
						cond.Broadcast()
						return
					}
					mu.Unlock()
					continue
				}
				// depth-first flavour: take the most recently added prefix
				prefix := queue[len(queue)-1]
				queue = queue[:len(queue)-1]
				active++
				e.Executions++
				mu.Unlock()

				ex := run(prefix)
				choices := make([]int, len(ex.Points))
				for i, p := range ex.Points {
					choices[i] = p.Chosen
				}
				ok := visit(choices, ex)
				var children [][]int
				if ok {
					used := 0
					for i := 0; i < len(ex.Points); i++ {
						p := ex.Points[i]
						if i >= len(prefix) {
							for alt := 1; alt < len(p.Enabled); alt++ {
								cost := used
								if p.LastRanEnabled && !altIsLastRan(p, alt) {
									cost++
								}
								if cost > e.Bound {
									continue
								}
								children = append(children, append(append([]int{}, choices[:i]...), alt))
							}
						}
						if p.LastRanEnabled && !p.ChosenIsLastRan {
							used++
						}
					}
				}
				mu.Lock()
				if len(ex.Points) > e.MaxPoints {
					e.MaxPoints = len(ex.Points)
				}
				if !ok {
					stop = true
				}
				queue = append(queue, children...)
				active--
				mu.Unlock()
				cond.Broadcast()
			}
		}()
	}
	wg.Wait()
}

// the canonical order puts all transitions of the last-ran thread first; they share the prefix
// "<name>:" of Enabled[0]
func altIsLastRan(p Point, alt int) bool {
	if !p.LastRanEnabled || len(p.Enabled) == 0 {
		return false
	}
	name := p.Enabled[0]
	if i := strings.IndexByte(name, ':'); i >= 0 {
		name = name[:i+1]
	}
	return strings.HasPrefix(p.Enabled[alt], name)
}
