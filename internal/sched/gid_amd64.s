//go:build amd64

#include "textflag.h"

// func getg() uintptr — the address of the running goroutine's g (unique while the goroutine lives)
TEXT ·getg(SB),NOSPLIT,$0-8
	MOVQ (TLS), R14
	MOVQ R14, ret+0(FP)
	RET
