//go:build amd64

package sched

func getg() uintptr

// curGoroutineID identifies the calling goroutine by the address of its g structure: constant for
// the life of the goroutine, read from thread-local storage in a few nanoseconds. (runtime.Stack,
// the portable way, walks and formats the whole stack under a global lock: it took three quarters
// of the exploration's CPU time.)
func curGoroutineID() int64 { return int64(getg()) }
