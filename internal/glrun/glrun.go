// Package glrun runs source text on gopher-lua and the corresponding luaref term on the reference
// interpreter, with the same host functions on both sides, and compares the observable traces.
package glrun

import (
	"fmt"
	"math"
	"regexp"
	"strconv"
	"strings"
	"sync"
	"sync/atomic"

	lua "github.com/yuin/gopher-lua"

	"verif/internal/luaref"
)

const ChunkName = "<string>"

// ---- step budget through the global step hook ---------------------------------------------------

type Budget struct {
	Count int64
	Limit int64
	// Fault, when non-nil, is called at every instruction boundary (after counting) and may raise.
	Fault func(L *lua.LState, n int64)
}

var budgets sync.Map // *lua.Global -> *Budget
var hookOnce sync.Once

type BudgetExceeded struct{}

func (BudgetExceeded) Error() string { return "verif: instruction budget exceeded" }

func installHook() {
	hookOnce.Do(func() {
		lua.VerifInstallStepHook(func(L *lua.LState) {
			v, ok := budgets.Load(L.G)
			if !ok {
				return
			}
			b := v.(*Budget)
			n := atomic.AddInt64(&b.Count, 1)
			if b.Limit > 0 && n > b.Limit {
				panic(BudgetExceeded{})
			}
			if b.Fault != nil {
				b.Fault(L, n)
			}
		})
	})
}

// ---- implementation side --------------------------------------------------------------------------

type Event struct {
	Kind string
	Args []string
	At   int64 // instruction count (step hook) when the host call happened
}

type Outcome struct {
	Events  []Event
	Results []string
	Failed  bool
	ErrTok  string // serialised error value
	ErrKind string // "" | "syntax" | "run" | "panic" | "budget" | "other"
	ErrText string
	Steps   int64
}

type Impl struct {
	L        *lua.LState
	Opts     lua.Options
	baseline map[string]lua.LValue
	ids      map[lua.LValue]string
	counts   map[byte]int
	events   []Event
	B        *Budget
	Runs     int
	Extra    func(m *Impl) // registers additional host functions on a fresh state
	Userdata []*lua.LUserData
	Notes    []string // free-form per-run notes written by extra host functions
	residue0 string
	// NoResidueCheck: the caller changes the state's configuration between runs itself (context, options)
	NoResidueCheck bool
	NoAutoFresh    bool // do not replace the LState after 2000 runs (callers that configure the state themselves)
	// ShrinkRegistry: before every run a growable registry is cut back to its initial capacity, so
	// that every run meets the growth steps (a reused state would otherwise grow once and for all)
	ShrinkRegistry bool
}

func NewImpl(opts lua.Options, extra func(m *Impl)) *Impl {
	installHook()
	m := &Impl{Opts: opts, Extra: extra}
	m.fresh()
	return m
}

func (m *Impl) Close() {
	if m.L != nil {
		budgets.Delete(m.L.G)
		m.L.Close()
		m.L = nil
	}
}

func (m *Impl) fresh() {
	m.Close()
	m.L = lua.NewState(m.Opts)
	oldB := m.B
	m.B = &Budget{}
	if oldB != nil {
		m.B.Fault = oldB.Fault // a fault injector installed by the caller survives the state turnover
	}
	budgets.Store(m.L.G, m.B)
	m.registerHost()
	if m.Extra != nil {
		m.Extra(m)
	}
	m.baseline = map[string]lua.LValue{}
	m.L.G.Global.ForEach(func(k, v lua.LValue) {
		if s, ok := k.(lua.LString); ok {
			m.baseline[string(s)] = v
		}
	})
	m.Runs = 0
}

// Fresh discards the state and starts a new one.
func (m *Impl) Fresh() { m.fresh() }

func (m *Impl) resetGlobals() {
	G := m.L.G.Global
	var drop []lua.LValue
	G.ForEach(func(k, v lua.LValue) {
		if s, ok := k.(lua.LString); ok {
			if _, ok := m.baseline[string(s)]; ok {
				return
			}
		}
		drop = append(drop, k)
	})
	for _, k := range drop {
		G.RawSet(k, lua.LNil)
	}
	for k, v := range m.baseline {
		if G.RawGetString(k) != v {
			G.RawSetString(k, v)
		}
	}
	G.Metatable = lua.LNil
}

func (m *Impl) Tok(v lua.LValue) string {
	switch x := v.(type) {
	case *lua.LNilType:
		return "nil"
	case lua.LBool:
		if bool(x) {
			return "true"
		}
		return "false"
	case lua.LNumber:
		return NumTok(float64(x))
	case lua.LString:
		return "s:" + string(x)
	}
	if v == nil {
		return "<go-nil>"
	}
	if id, ok := m.ids[v]; ok {
		return id
	}
	var c byte
	switch v.Type() {
	case lua.LTTable:
		c = 'T'
	case lua.LTFunction:
		c = 'F'
	case lua.LTThread:
		c = 'C'
	case lua.LTUserData:
		c = 'U'
	default:
		c = 'X'
	}
	m.counts[c]++
	id := fmt.Sprintf("%c%d", c, m.counts[c])
	m.ids[v] = id
	return id
}

func NumTok(f float64) string {
	if f != f {
		return "n:nan"
	}
	if f == 0 && math.Signbit(f) {
		return "n:-0"
	}
	return "n:" + strconv.FormatFloat(f, 'g', -1, 64)
}

// ResetTrace clears the per-run identity numbering and event list (for drivers that do not use Run).
func (m *Impl) ResetTrace() {
	m.ids = map[lua.LValue]string{}
	m.counts = map[byte]int{}
	m.events = nil
	m.Notes = nil
}

// RecordEvent records a host call with the arguments currently on L's stack.
func (m *Impl) RecordEvent(kind string, L *lua.LState) { m.record(kind, L) }

func (m *Impl) record(kind string, L *lua.LState) {
	n := L.GetTop()
	args := make([]string, n)
	for i := 1; i <= n; i++ {
		args[i-1] = m.Tok(L.Get(i))
	}
	m.events = append(m.events, Event{kind, args, atomic.LoadInt64(&m.B.Count)})
	if !lua.VerifIsCurrentThread(L) {
		// white-box invariant, recorded as an event of its own so that every trace comparison reports it
		m.events = append(m.events, Event{"WRONG-CURRENT-THREAD", []string{"host function " + kind + " runs on a thread that G.CurrentThread does not name"}, atomic.LoadInt64(&m.B.Count)})
	}
}

func (m *Impl) registerHost() {
	L := m.L
	L.SetGlobal("emit", L.NewFunction(func(L *lua.LState) int { m.record("emit", L); return 0 }))
	// hid(...): host callee returning all its arguments
	L.SetGlobal("hid", L.NewFunction(func(L *lua.LState) int { m.record("hid", L); return L.GetTop() }))
	// hn(k): host callee returning k values 101..100+k
	L.SetGlobal("hn", L.NewFunction(func(L *lua.LState) int {
		m.record("hn", L)
		k := L.ToInt(1)
		L.SetTop(0)
		for i := 1; i <= k; i++ {
			L.Push(lua.LNumber(100 + i))
		}
		return k
	}))
	// hpush(p, c): pushes p values 1..p on top of its two arguments and returns count c
	L.SetGlobal("hpush", L.NewFunction(func(L *lua.LState) int {
		m.record("hpush", L)
		p, c := L.ToInt(1), L.ToInt(2)
		for i := 1; i <= p; i++ {
			L.Push(lua.LNumber(i))
		}
		return c
	}))
	// newud(tag): fresh userdata; udmeta(ud, mt): set its metatable
	L.SetGlobal("newud", L.NewFunction(func(L *lua.LState) int {
		m.record("newud", L)
		ud := L.NewUserData()
		ud.Value = float64(L.ToNumber(1))
		L.Push(ud)
		return 1
	}))
	L.SetGlobal("udmeta", L.NewFunction(func(L *lua.LState) int {
		m.record("udmeta", L)
		ud := L.CheckUserData(1)
		if L.Get(2) == lua.LNil {
			ud.Metatable = lua.LNil
		} else {
			ud.Metatable = L.CheckTable(2)
		}
		L.Push(ud)
		return 1
	}))
	// hcall(f, ...): host function calling back into Lua, returning all results
	L.SetGlobal("hcall", L.NewFunction(func(L *lua.LState) int {
		m.record("hcall", L)
		n := L.GetTop()
		L.Call(n-1, lua.MultRet)
		return L.GetTop()
	}))
}

// Run loads and runs src on the (reused) state. budget <= 0 means 5 million instructions.
// residueDiff lists the fields of two VerifResidue renderings that differ.
func residueDiff(a, b string) string {
	fa, fb := strings.Fields(a), strings.Fields(b)
	var d []string
	for i := 0; i < len(fa) && i < len(fb); i++ {
		if fa[i] != fb[i] {
			d = append(d, fa[i]+" -> "+fb[i])
		}
	}
	if len(fa) != len(fb) {
		d = append(d, "field lists differ")
	}
	return strings.Join(d, ", ")
}

func (m *Impl) Run(src string, budget int64) (out Outcome) {
	return m.runWith(func(L *lua.LState) (*lua.LFunction, error) { return L.Load(strings.NewReader(src), ChunkName) }, budget)
}

// RunProto runs an already compiled prototype (possibly shared with other states) the same way.
func (m *Impl) RunProto(proto *lua.FunctionProto, budget int64) (out Outcome) {
	return m.runWith(func(L *lua.LState) (*lua.LFunction, error) { return L.NewFunctionFromProto(proto), nil }, budget)
}

func (m *Impl) runWith(load func(L *lua.LState) (*lua.LFunction, error), budget int64) (out Outcome) {
	if m.Runs >= 2000 && !m.NoAutoFresh {
		m.fresh()
	}
	m.Runs++
	L := m.L
	if m.ShrinkRegistry {
		lua.VerifShrinkRegistry(L)
	}
	m.ids = map[lua.LValue]string{}
	m.counts = map[byte]int{}
	m.events = nil
	m.Notes = nil
	if budget <= 0 {
		budget = 5_000_000
	}
	atomic.StoreInt64(&m.B.Count, 0)
	m.B.Limit = budget
	defer func() {
		out.Steps = atomic.LoadInt64(&m.B.Count)
		m.B.Limit = 0
		if r := recover(); r != nil {
			out.Events = m.events
			out.Failed = true
			out.ErrKind = "panic"
			out.ErrText = fmt.Sprintf("Go panic escaped Load/PCall: %v", r)
			m.fresh()
			return
		}
		L.SetTop(0)
		m.resetGlobals()
	}()
	// (taken before every run, not once per state: callers attach contexts between runs)
	m.residue0 = lua.VerifResidue(L)
	fn, err := load(L)
	if err != nil {
		out.Failed = true
		out.ErrKind = "syntax"
		out.ErrText = err.Error()
		if ae, ok := err.(*lua.ApiError); !ok || ae.Type != lua.ApiErrorSyntax {
			out.ErrKind = "other"
		}
		return
	}
	L.Push(fn)
	err = L.PCall(0, lua.MultRet, nil)
	if q := lua.VerifQuiescent(L); q != "" && L == m.L {
		// white-box: after the outermost protected call nothing of the run may be left behind
		m.events = append(m.events, Event{"STATE-NOT-QUIESCENT", []string{q}, atomic.LoadInt64(&m.B.Count)})
	}
	if L == m.L && !m.NoResidueCheck {
		// white-box: flags and counters of the state's bookkeeping are as they were on the new state
		if res := lua.VerifResidue(L); res != m.residue0 {
			m.events = append(m.events, Event{"STATE-RESIDUE", []string{residueDiff(m.residue0, res)}, atomic.LoadInt64(&m.B.Count)})
		}
	}
	out.Events = m.events
	if err != nil {
		out.Failed = true
		out.ErrText = err.Error()
		ae, ok := err.(*lua.ApiError)
		switch {
		case !ok:
			out.ErrKind = "other"
		case ae.Type == lua.ApiErrorRun:
			out.ErrKind = "run"
			out.ErrTok = m.Tok(ae.Object)
		case ae.Type == lua.ApiErrorPanic:
			out.ErrKind = "panic"
			if _, isb := ae.Cause.(BudgetExceeded); isb || strings.Contains(out.ErrText, "instruction budget exceeded") {
				out.ErrKind = "budget"
			}
		default:
			out.ErrKind = "other"
		}
		if strings.Contains(out.ErrText, "instruction budget exceeded") {
			out.ErrKind = "budget" // also when the panic crossed a coroutine boundary and became a Lua error
		}
		return
	}
	for i := 1; i <= L.GetTop(); i++ {
		out.Results = append(out.Results, m.Tok(L.Get(i)))
	}
	return
}

// ---- model side -------------------------------------------------------------------------------------

type MTok struct {
	S  string
	Op *luaref.Opaque
}

type MEvent struct {
	Kind string
	Args []MTok
}

type MOutcome struct {
	Events        []MEvent
	Results       []MTok
	Failed        bool
	Err           MTok
	Indeterminate string
	Steps         int
	NormalResumes int // the program tried to resume a coroutine whose status is normal
}

type modelIDs struct {
	ids    map[interface{}]string
	counts map[byte]int
}

func (m *modelIDs) tok(v luaref.Value) MTok {
	switch x := v.(type) {
	case nil:
		return MTok{S: "nil"}
	case bool:
		if x {
			return MTok{S: "true"}
		}
		return MTok{S: "false"}
	case float64:
		return MTok{S: NumTok(x)}
	case string:
		return MTok{S: "s:" + x}
	case *luaref.Opaque:
		return MTok{Op: x}
	}
	if id, ok := m.ids[v]; ok {
		return MTok{S: id}
	}
	var c byte
	switch v.(type) {
	case *luaref.Table:
		c = 'T'
	case *luaref.Function:
		c = 'F'
	case *luaref.Coroutine:
		c = 'C'
	case *luaref.Userdata:
		c = 'U'
	default:
		c = 'X'
	}
	m.counts[c]++
	id := fmt.Sprintf("%c%d", c, m.counts[c])
	m.ids[v] = id
	return MTok{S: id}
}

// NewModel builds a reference interpreter with the same host functions as the implementation side.
func NewModel() *luaref.Interp {
	in := luaref.NewInterp()
	in.Host("hid", func(in *luaref.Interp, a []luaref.Value) []luaref.Value { return a })
	in.Host("hn", func(in *luaref.Interp, a []luaref.Value) []luaref.Value {
		k := 0
		if len(a) > 0 {
			if f, ok := a[0].(float64); ok {
				k = int(f)
			}
		}
		var out []luaref.Value
		for i := 1; i <= k; i++ {
			out = append(out, float64(100+i))
		}
		return out
	})
	in.Host("hpush", func(in *luaref.Interp, a []luaref.Value) []luaref.Value {
		p, c := 0, 0
		if len(a) > 0 {
			if f, ok := a[0].(float64); ok {
				p = int(f)
			}
		}
		if len(a) > 1 {
			if f, ok := a[1].(float64); ok {
				c = int(f)
			}
		}
		stack := append([]luaref.Value(nil), a...)
		for i := 1; i <= p; i++ {
			stack = append(stack, float64(i))
		}
		if c > len(stack) || c < 0 {
			panic(luaref.Indeterminate{Why: "hpush returning more values than its stack holds"})
		}
		return stack[len(stack)-c:]
	})
	in.Host("newud", func(in *luaref.Interp, a []luaref.Value) []luaref.Value {
		tag := 0.0
		if len(a) > 0 {
			tag, _ = a[0].(float64)
		}
		return []luaref.Value{&luaref.Userdata{Tag: tag}}
	})
	in.Host("udmeta", func(in *luaref.Interp, a []luaref.Value) []luaref.Value {
		ud := a[0].(*luaref.Userdata)
		if len(a) < 2 || a[1] == nil {
			ud.Meta = nil
		} else {
			ud.Meta = a[1].(*luaref.Table)
		}
		return []luaref.Value{ud}
	})
	in.Host("hcall", func(in *luaref.Interp, a []luaref.Value) []luaref.Value {
		return in.CallFromHost(a[0], a[1:])
	})
	return in
}

// RunModel evaluates a chunk on a fresh reference interpreter.
func RunModel(chunk *luaref.Block, setup func(in *luaref.Interp)) MOutcome {
	in := NewModel()
	defer in.Close()
	if setup != nil {
		setup(in)
	}
	res := in.Run(chunk)
	ids := &modelIDs{ids: map[interface{}]string{}, counts: map[byte]int{}}
	var out MOutcome
	out.Steps = res.Steps
	out.Indeterminate = res.Indeterminate
	out.NormalResumes = in.NormalResumes
	for _, e := range res.Events {
		me := MEvent{Kind: e.Kind}
		for _, a := range e.Args {
			me.Args = append(me.Args, ids.tok(a))
		}
		out.Events = append(out.Events, me)
	}
	if res.Err != nil {
		out.Failed = true
		out.Err = ids.tok(res.Err.Value)
	} else {
		for _, v := range res.Results {
			out.Results = append(out.Results, ids.tok(v))
		}
	}
	return out
}

// ---- comparison ---------------------------------------------------------------------------------------

// StrictExprLines: a reported line must lie within the lines of the innermost failing expression
// (when the reference knows it), not merely within the statement.
var StrictExprLines = true

var posRe = regexp.MustCompile(`^` + regexp.QuoteMeta(ChunkName) + `:(\d+): ?`)

func matchTok(m MTok, got string) bool {
	if m.Op == nil {
		return m.S == got
	}
	if m.Op.Kind == "linenum" {
		if !strings.HasPrefix(got, "n:") {
			return false
		}
		n, err := strconv.Atoi(got[2:])
		return err == nil && n >= m.Op.Lo && n <= m.Op.Hi
	}
	if !strings.HasPrefix(got, "s:") {
		return false
	}
	text := got[2:]
	switch m.Op.Kind {
	case "anystring":
		return true
	case "endswith":
		return strings.HasSuffix(text, m.Op.Rest)
	case "fault", "pos":
		loc := posRe.FindStringSubmatchIndex(text)
		if loc == nil {
			return false
		}
		n, _ := strconv.Atoi(text[loc[2]:loc[3]])
		lo, hi := m.Op.Lo, m.Op.Hi
		if StrictExprLines && m.Op.ELo > 0 {
			lo, hi = m.Op.ELo, m.Op.EHi
		}
		if n < lo || n > hi {
			return false
		}
		if m.Op.Kind == "pos" {
			return text[loc[1]:] == m.Op.Rest
		}
		return true
	}
	return false
}

func (t MTok) String() string {
	if t.Op == nil {
		return t.S
	}
	switch t.Op.Kind {
	case "fault":
		return fmt.Sprintf("<run-time fault at line %d..%d (expression %d..%d)>", t.Op.Lo, t.Op.Hi, t.Op.ELo, t.Op.EHi)
	case "pos":
		return fmt.Sprintf("<%q prefixed with position line %d..%d (expression %d..%d)>", t.Op.Rest, t.Op.Lo, t.Op.Hi, t.Op.ELo, t.Op.EHi)
	case "endswith":
		return fmt.Sprintf("<string ending with %q>", t.Op.Rest)
	case "linenum":
		return fmt.Sprintf("<line number in %d..%d>", t.Op.Lo, t.Op.Hi)
	}
	return "<some string>"
}

func mtoks(ts []MTok) string {
	s := make([]string, len(ts))
	for i, t := range ts {
		s[i] = t.String()
	}
	return "(" + strings.Join(s, ", ") + ")"
}

// Compare returns "" when the implementation outcome matches the model outcome, else a description
// and a short class of the difference.
func Compare(m MOutcome, o Outcome) (class, diff string) {
	n := len(m.Events)
	if len(o.Events) < n {
		n = len(o.Events)
	}
	for i := 0; i < n; i++ {
		me, oe := m.Events[i], o.Events[i]
		ok := me.Kind == oe.Kind && len(me.Args) == len(oe.Args)
		if ok {
			for j := range me.Args {
				if !matchTok(me.Args[j], oe.Args[j]) {
					ok = false
				}
			}
		}
		if !ok {
			return "event", fmt.Sprintf("host call #%d differs: reference %s%s, gopher-lua %s(%s)", i+1, me.Kind, mtoks(me.Args), oe.Kind, strings.Join(oe.Args, ", "))
		}
	}
	if len(m.Events) != len(o.Events) {
		if len(m.Events) > n {
			return "event-missing", fmt.Sprintf("gopher-lua made %d host calls, reference %d; first missing: %s%s (gopher-lua ended with: failed=%v %s)", len(o.Events), len(m.Events), m.Events[n].Kind, mtoks(m.Events[n].Args), o.Failed, o.ErrText)
		}
		return "event-extra", fmt.Sprintf("gopher-lua made %d host calls, reference %d; first extra: %s(%s)", len(o.Events), len(m.Events), o.Events[n].Kind, strings.Join(o.Events[n].Args, ", "))
	}
	if m.Failed != o.Failed {
		if o.Failed {
			return "unexpected-error", fmt.Sprintf("gopher-lua failed (%s: %s), reference returned %s", o.ErrKind, o.ErrText, mtoks(m.Results))
		}
		return "missing-error", fmt.Sprintf("reference raises %s, gopher-lua returned (%s)", m.Err, strings.Join(o.Results, ", "))
	}
	if m.Failed {
		if o.ErrKind != "run" {
			return "error-kind", fmt.Sprintf("reference raises %s, gopher-lua failed with %s: %s", m.Err, o.ErrKind, o.ErrText)
		}
		if !matchTok(m.Err, o.ErrTok) {
			return "error-value", fmt.Sprintf("error value differs: reference %s, gopher-lua %s", m.Err, o.ErrTok)
		}
		return "", ""
	}
	if len(m.Results) != len(o.Results) {
		return "results", fmt.Sprintf("chunk results differ: reference %s, gopher-lua (%s)", mtoks(m.Results), strings.Join(o.Results, ", "))
	}
	for i := range m.Results {
		if !matchTok(m.Results[i], o.Results[i]) {
			return "results", fmt.Sprintf("chunk results differ: reference %s, gopher-lua (%s)", mtoks(m.Results), strings.Join(o.Results, ", "))
		}
	}
	return "", ""
}
