package c08lua

import (
	"sort"
	"strings"
)

// NTok is the number of real tokens (the final KEOF excluded).
func (in *Info) NTok() int {
	n := len(in.Toks)
	if n > 0 && in.Toks[n-1].Kind == KEOF {
		n--
	}
	return n
}

// Gap returns the source text before token i (i == NTok(): the text after the last token).
func (in *Info) Gap(i int) string {
	from := 0
	if i > 0 {
		from = in.Toks[i-1].End
	}
	to := len(in.Src)
	if i < len(in.Toks) {
		to = in.Toks[i].Start
	}
	return in.Src[from:to]
}

// GapAllowsNewline says whether a newline may be put in gap i: not between a prefix expression and
// the '(' of its call arguments (Lua 5.1 rejects that as ambiguous).
func (in *Info) GapAllowsNewline(i int) bool {
	return !(i < len(in.CallParen) && in.CallParen[i])
}

func wordByte(c byte) bool { return isAlnum(c) || c == '_' }

// NeedsBlank reports whether tokens a and b could fuse (or change meaning) when written without a
// blank between them. It errs on the side of the blank.
func NeedsBlank(a, b *Token) bool {
	if a.Text == "" || b.Text == "" {
		return false
	}
	la, fb := a.Text[len(a.Text)-1], b.Text[0]
	switch {
	case wordByte(la) && wordByte(fb):
		return true
	case a.Kind == KNumber && fb == '.':
		return true
	case la == '.' && (fb == '.' || isDigit(fb)):
		return true
	case la == '-' && fb == '-':
		return true
	case la == '[' && (fb == '[' || fb == '='):
		return true
	case (la == '=' || la == '<' || la == '>' || la == '~') && fb == '=':
		return true
	case la == ':' && fb == ':':
		return true
	}
	return false
}

// Join renders the token stream with sep(i) between token i-1 and token i.
func (in *Info) Join(sep func(i int) string) string {
	var b strings.Builder
	n := in.NTok()
	for i := 0; i < n; i++ {
		if i > 0 {
			b.WriteString(sep(i))
		}
		b.WriteString(in.Toks[i].Text)
	}
	return b.String()
}

// Minimal: one line, a blank only where two tokens would fuse.
func (in *Info) Minimal() string {
	return in.Join(func(i int) string {
		if NeedsBlank(&in.Toks[i-1], &in.Toks[i]) {
			return " "
		}
		return ""
	})
}

// Sep: every token separated by s (no comments, one line unless s has a newline).
func (in *Info) Sep(s string) string { return in.Join(func(int) string { return s }) }

// OnePerLine: nl between tokens, except before call parentheses.
func (in *Info) OnePerLine(nl string) string {
	return in.Join(func(i int) string {
		if !in.GapAllowsNewline(i) {
			return " "
		}
		return nl
	})
}

// WithInsert re-emits the original text with pre[i] written immediately before token i and post[i]
// immediately after it.
func (in *Info) WithInsert(pre, post map[int]string) string {
	var b strings.Builder
	n := in.NTok()
	for i := 0; i < n; i++ {
		b.WriteString(in.Gap(i))
		b.WriteString(pre[i])
		b.WriteString(in.Toks[i].Text)
		b.WriteString(post[i])
	}
	b.WriteString(in.Gap(n))
	return b.String()
}

// Semicolons: ';' after every statement that has none.
func (in *Info) Semicolons() string {
	post := map[int]string{}
	for _, e := range in.StmtEnds {
		post[e] += ";"
	}
	return in.WithInsert(nil, post)
}

// Ranges returns the distinct parenthesisable token ranges, inner ones first.
func (in *Info) Ranges() [][2]int {
	seen := map[[2]int]bool{}
	var out [][2]int
	for _, r := range in.ParenRanges {
		if r[1] < r[0] || seen[r] {
			continue
		}
		// `a = nil` + newline + `(f)()` are two statements, but `a = (nil)` + `(f)()` is one call:
		// an expression followed by '(' (the next statement) must stay unwrapped
		if nt := in.Toks[r[1]+1]; nt.Kind == KOp && nt.Text == "(" {
			continue
		}
		seen[r] = true
		out = append(out, r)
	}
	sort.Slice(out, func(i, j int) bool {
		li, lj := out[i][1]-out[i][0], out[j][1]-out[j][0]
		if li != lj {
			return li < lj
		}
		return out[i][0] < out[j][0]
	})
	return out
}

// Parens wraps the given ranges in parentheses (times deep).
func (in *Info) Parens(ranges [][2]int, times int, semis bool) string {
	pre, post := map[int]string{}, map[int]string{}
	open, cl := strings.Repeat("(", times), strings.Repeat(")", times)
	for _, r := range ranges {
		pre[r[0]] += open
		post[r[1]] += cl
	}
	if semis {
		for _, e := range in.StmtEnds {
			post[e] += ";"
		}
	}
	return in.WithInsert(pre, post)
}

// InsertInGap writes text at the end of gap g, immediately before token g (g == NTok(): at the end
// of the source). A blank is added where the text would fuse with a neighbouring token.
func (in *Info) InsertInGap(g int, text string) string {
	n := in.NTok()
	at := len(in.Src)
	if g < n {
		at = in.Toks[g].Start
	}
	lead := ""
	if gap := in.Gap(g); g == n && strings.Contains(gap, "--") && !strings.HasSuffix(gap, "\n") {
		lead = "\n" // the source may end inside a line comment
	}
	if g > 0 && text != "" && in.Gap(g) == "" {
		prev := in.Toks[g-1].Text
		if text[0] == '-' && prev[len(prev)-1] == '-' {
			lead = " "
		}
	}
	return in.Src[:at] + lead + text + in.Src[at:]
}

// LineEnds replaces every LF of src by nl (src must not contain CR).
func LineEnds(src, nl string) string { return strings.ReplaceAll(src, "\n", nl) }

// TokKey identifies a token for the comparison of two token streams.
type TokKey struct {
	K Kind
	T string
}

// TokenKeys returns the token stream of in without the one-character operators listed in skip
// (e.g. "();"). Strings are compared by value: the spelling of a newline inside a string may change
// with the line-end style.
func TokenKeys(in *Info, skip string) []TokKey {
	out := make([]TokKey, 0, in.NTok())
	for i := 0; i < in.NTok(); i++ {
		t := &in.Toks[i]
		if skip != "" && t.Kind == KOp && len(t.Text) == 1 && strings.Contains(skip, t.Text) {
			continue
		}
		key := t.Text
		if t.Kind == KString {
			key = t.Val
		}
		out = append(out, TokKey{t.Kind, key})
	}
	return out
}

// SameKeys compares two token streams.
func SameKeys(a, b []TokKey) bool {
	if len(a) != len(b) {
		return false
	}
	for i := range a {
		if a[i] != b[i] {
			return false
		}
	}
	return true
}
