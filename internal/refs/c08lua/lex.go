// Package c08lua is the reference model of check C08: an independent Lua 5.1 tokenizer and syntax
// recogniser (extended with `goto Name` and `::Name::`, `goto` reserved), written from llex.c /
// lparser.c of PUC-Lua 5.1 as remembered, not from gopher-lua's scanner or grammar. It answers
// "does the Lua 5.1 grammar accept these bytes" with Accept / Reject / Unknown (Unknown wherever
// the manual or the C implementation leaves room), keeps every token with its exact spelling, and
// records where layout may be changed without changing meaning (statement ends, call parentheses,
// operands that may be parenthesised).
package c08lua

import (
	"fmt"
	"strings"
)

type Kind uint8

const (
	KEOF Kind = iota
	KName
	KKeyword
	KNumber
	KString
	KOp  // operator or punctuation
	KBad // a byte that starts no Lua token (the parser reports "unexpected symbol")
)

// Token is one lexical element with its exact source spelling.
type Token struct {
	Kind    Kind
	Text    string // exact spelling in the source
	Val     string // decoded value (KString only)
	Start   int    // byte offsets in the source
	End     int
	Line    int // line on which the token starts (1-based)
	EndLine int // line on which it ends
}

// Notes are lexical features seen that matter when classifying a deviation.
type Notes uint32

const (
	NoteFF            Notes = 1 << iota // form feed used as white space
	NoteVT                              // vertical tab used as white space
	NoteCmtEq                           // short comment that starts like a long one: --[= … without the second [
	NoteNestedLong                      // "[[" inside a level-0 long bracket (LUA_COMPAT_LSTR dependent)
	NoteHexFloat                        // hexadecimal numeral with p exponent (strtod dependent)
	NoteDecEscape                       // \ddd escape present
	NoteCR                              // a carriage return occurs in the source
	NoteLongStr                         // a long string or long comment occurs
	NoteEscNL                           // backslash-newline inside a quoted string
	NoteUnknownEscape                   // backslash before a character the manual does not list (value unspecified)
)

func (n Notes) String() string {
	var s []string
	add := func(f Notes, name string) {
		if n&f != 0 {
			s = append(s, name)
		}
	}
	add(NoteFF, "ws-ff")
	add(NoteVT, "ws-vt")
	add(NoteCmtEq, "cmt-eq")
	add(NoteNestedLong, "nested-long")
	add(NoteHexFloat, "hexfloat")
	return strings.Join(s, "+")
}

// SynError is a lexical or syntactic rejection by the reference.
type SynError struct {
	Class   string // stable slug, e.g. "unfinished-string"
	Msg     string
	Pos     int  // byte offset
	Unknown bool // the reference does not judge this input (not a rejection)
}

func (e *SynError) Error() string { return fmt.Sprintf("%s at %d: %s", e.Class, e.Pos, e.Msg) }

var keywords = map[string]bool{
	"and": true, "break": true, "do": true, "else": true, "elseif": true, "end": true, "false": true,
	"for": true, "function": true, "if": true, "in": true, "local": true, "nil": true, "not": true,
	"or": true, "repeat": true, "return": true, "then": true, "true": true, "until": true, "while": true,
	"goto": true,
}

// IsKeyword reports whether s is reserved (Lua 5.1 words plus goto).
func IsKeyword(s string) bool { return keywords[s] }

func isDigit(c byte) bool  { return '0' <= c && c <= '9' }
func isAlpha(c byte) bool  { return 'a' <= c && c <= 'z' || 'A' <= c && c <= 'Z' }
func isAlnum(c byte) bool  { return isAlpha(c) || isDigit(c) }
func isXDigit(c byte) bool { return isDigit(c) || 'a' <= c && c <= 'f' || 'A' <= c && c <= 'F' }
func isNL(c byte) bool     { return c == '\n' || c == '\r' }

type lexer struct {
	src   string
	p     int
	line  int
	notes Notes
}

const eoz = -1

func (lx *lexer) cur() int {
	if lx.p >= len(lx.src) {
		return eoz
	}
	return int(lx.src[lx.p])
}

func (lx *lexer) at(i int) int {
	if lx.p+i >= len(lx.src) {
		return eoz
	}
	return int(lx.src[lx.p+i])
}

// incline skips one newline sequence: \n, \r, \n\r or \r\n.
func (lx *lexer) incline() {
	old := lx.src[lx.p]
	lx.p++
	if lx.p < len(lx.src) && isNL(lx.src[lx.p]) && lx.src[lx.p] != old {
		lx.p++
	}
	lx.line++
}

// skipSep: at '[' or ']'; consumes it and the '='s after it; returns count if the same bracket
// follows, else -count-1.
func (lx *lexer) skipSep() int {
	s := lx.src[lx.p]
	lx.p++
	count := 0
	for lx.cur() == '=' {
		lx.p++
		count++
	}
	if lx.cur() == int(s) {
		return count
	}
	return -count - 1
}

// readLong reads a long bracket body; lx.p is at the second '['. Returns the decoded value.
func (lx *lexer) readLong(sep int, start int, comment bool) (string, *SynError) {
	lx.notes |= NoteLongStr
	lx.p++ // second '['
	if lx.p < len(lx.src) && isNL(lx.src[lx.p]) {
		lx.incline()
	}
	var val []byte
	for {
		c := lx.cur()
		switch {
		case c == eoz:
			if comment {
				return "", &SynError{Class: "unfinished-long-comment", Msg: "unfinished long comment", Pos: start}
			}
			return "", &SynError{Class: "unfinished-long-string", Msg: "unfinished long string", Pos: start}
		case c == '[':
			q := lx.p
			if lx.skipSep() == sep {
				lx.p++
				if sep == 0 {
					lx.notes |= NoteNestedLong
				}
			}
			val = append(val, lx.src[q:lx.p]...)
		case c == ']':
			q := lx.p
			if lx.skipSep() == sep {
				lx.p++
				return string(val), nil
			}
			val = append(val, lx.src[q:lx.p]...)
		case c == '\n' || c == '\r':
			val = append(val, '\n')
			lx.incline()
		default:
			val = append(val, byte(c))
			lx.p++
		}
	}
}

func (lx *lexer) readString(start int) (string, *SynError) {
	del := lx.src[lx.p]
	lx.p++
	var val []byte
	for {
		c := lx.cur()
		if c == int(del) {
			lx.p++
			return string(val), nil
		}
		switch c {
		case eoz, '\n', '\r':
			return "", &SynError{Class: "unfinished-string", Msg: "unfinished string", Pos: start}
		case '\\':
			lx.p++
			e := lx.cur()
			switch e {
			case 'a':
				val = append(val, '\a')
				lx.p++
			case 'b':
				val = append(val, '\b')
				lx.p++
			case 'f':
				val = append(val, '\f')
				lx.p++
			case 'n':
				val = append(val, '\n')
				lx.p++
			case 'r':
				val = append(val, '\r')
				lx.p++
			case 't':
				val = append(val, '\t')
				lx.p++
			case 'v':
				val = append(val, '\v')
				lx.p++
			case '\n', '\r':
				val = append(val, '\n')
				lx.notes |= NoteEscNL
				lx.incline()
			case eoz:
				// reported as unfinished string by the next iteration
			default:
				if !isDigit(byte(e)) {
					// \" \' \\ stand for themselves; PUC 5.1 treats any other character the same way, but
					// the manual does not list those escapes (and later versions reject them)
					if e != '"' && e != '\'' && e != '\\' {
						lx.notes |= NoteUnknownEscape
					}
					val = append(val, byte(e))
					lx.p++
				} else {
					lx.notes |= NoteDecEscape
					n := 0
					for i := 0; i < 3 && lx.cur() != eoz && isDigit(byte(lx.cur())); i++ {
						n = n*10 + int(lx.src[lx.p]-'0')
						lx.p++
					}
					if n > 255 {
						return "", &SynError{Class: "escape-too-large", Msg: "escape sequence too large", Pos: start}
					}
					val = append(val, byte(n))
				}
			}
		default:
			val = append(val, byte(c))
			lx.p++
		}
	}
}

// classifyNumeral judges the text gathered by read_numeral the way luaO_str2d (strtod, then
// strtoul base 16) does on every C library; forms that depend on the C library are Unknown.
func classifyNumeral(s string) (ok bool, unknown bool) {
	if len(s) > 2 && s[0] == '0' && (s[1] == 'x' || s[1] == 'X') {
		allHex, hasP := true, false
		for i := 2; i < len(s); i++ {
			if s[i] == 'p' || s[i] == 'P' {
				hasP = true
			}
			if !isXDigit(s[i]) {
				allHex = false
			}
		}
		if allHex {
			return true, false
		}
		if hasP {
			return false, true // C99 strtod reads hexadecimal floats, C89 does not
		}
		return false, false
	}
	// decimal: digits [. digits] | . digits, optional exponent
	i := 0
	nd := 0
	for i < len(s) && isDigit(s[i]) {
		i++
		nd++
	}
	if i < len(s) && s[i] == '.' {
		i++
		for i < len(s) && isDigit(s[i]) {
			i++
			nd++
		}
	}
	if nd == 0 {
		return false, false
	}
	if i < len(s) && (s[i] == 'e' || s[i] == 'E') {
		i++
		if i < len(s) && (s[i] == '+' || s[i] == '-') {
			i++
		}
		ne := 0
		for i < len(s) && isDigit(s[i]) {
			i++
			ne++
		}
		if ne == 0 {
			return false, false
		}
	}
	return i == len(s), false
}

func (lx *lexer) readNumeral(start int) *SynError {
	// the first character (a digit, or the digit after a leading '.') is at lx.p
	for {
		lx.p++
		c := lx.cur()
		if !(c != eoz && (isDigit(byte(c)) || c == '.')) {
			break
		}
	}
	if c := lx.cur(); c == 'e' || c == 'E' {
		lx.p++
		if c := lx.cur(); c == '+' || c == '-' {
			lx.p++
		}
	}
	for {
		c := lx.cur()
		if c != eoz && (isAlnum(byte(c)) || c == '_') {
			lx.p++
			continue
		}
		break
	}
	ok, unknown := classifyNumeral(lx.src[start:lx.p])
	if unknown {
		lx.notes |= NoteHexFloat
		return &SynError{Class: "numeral-libc-dependent", Msg: "numeral whose reading depends on the C library: " + lx.src[start:lx.p], Pos: start, Unknown: true}
	}
	if !ok {
		return &SynError{Class: "malformed-number:" + malformedKind(lx.src[start:lx.p]), Msg: "malformed number near " + lx.src[start:lx.p], Pos: start}
	}
	return nil
}

// malformedKind sub-classifies a malformed numeral (for narrow signatures).
func malformedKind(s string) string {
	if len(s) >= 2 && s[0] == '0' && (s[1] == 'x' || s[1] == 'X') {
		if len(s) > 2 && isXDigit(s[2]) {
			return "hex-tail" // hexadecimal digits followed by other letters or '_'
		}
		return "hex-empty"
	}
	if strings.Count(s, ".") > 1 {
		return "dots"
	}
	i := 0
	for i < len(s) && (isDigit(s[i]) || s[i] == '.') {
		i++
	}
	if i < len(s) && (s[i] == 'e' || s[i] == 'E') {
		i++
		if i < len(s) && (s[i] == '+' || s[i] == '-') {
			i++
		}
		if i == len(s) || !isDigit(s[i]) {
			return "exponent" // exponent without digits
		}
	}
	return "tail" // a numeral followed by letters, digits or '_'
}

// Lex splits src into tokens (the last one is KEOF). On a lexical error the tokens read so far are
// returned together with the error.
func Lex(src string) ([]Token, Notes, *SynError) {
	lx := &lexer{src: src, line: 1}
	if strings.IndexByte(src, '\r') >= 0 {
		lx.notes |= NoteCR
	}
	var toks []Token
	emit := func(k Kind, start, line int, val string) {
		toks = append(toks, Token{Kind: k, Text: src[start:lx.p], Val: val, Start: start, End: lx.p, Line: line, EndLine: lx.line})
	}
	for {
		c := lx.cur()
		start, line := lx.p, lx.line
		switch {
		case c == eoz:
			emit(KEOF, start, line, "")
			return toks, lx.notes, nil
		case c == '\n' || c == '\r':
			lx.incline()
		case c == ' ' || c == '\t':
			lx.p++
		case c == '\f':
			lx.notes |= NoteFF
			lx.p++
		case c == '\v':
			lx.notes |= NoteVT
			lx.p++
		case c == '-':
			if lx.at(1) != '-' {
				lx.p++
				emit(KOp, start, line, "")
				continue
			}
			lx.p += 2
			if lx.cur() == '[' {
				sep := lx.skipSep()
				if sep >= 0 {
					if _, err := lx.readLong(sep, start, true); err != nil {
						return toks, lx.notes, err
					}
					continue
				}
				if sep < -1 {
					lx.notes |= NoteCmtEq
				}
			}
			for lx.cur() != eoz && !isNL(byte(lx.cur())) {
				lx.p++
			}
		case c == '[':
			sep := lx.skipSep()
			if sep >= 0 {
				v, err := lx.readLong(sep, start, false)
				if err != nil {
					return toks, lx.notes, err
				}
				emit(KString, start, line, v)
			} else if sep == -1 {
				emit(KOp, start, line, "")
			} else {
				return toks, lx.notes, &SynError{Class: "invalid-long-delimiter", Msg: "invalid long string delimiter", Pos: start}
			}
		case c == '=' || c == '<' || c == '>' || c == '~':
			lx.p++
			if lx.cur() == '=' {
				lx.p++
				emit(KOp, start, line, "")
			} else if c == '~' {
				emit(KBad, start, line, "")
			} else {
				emit(KOp, start, line, "")
			}
		case c == '"' || c == '\'':
			v, err := lx.readString(start)
			if err != nil {
				return toks, lx.notes, err
			}
			emit(KString, start, line, v)
		case c == '.':
			if lx.at(1) == '.' {
				if lx.at(2) == '.' {
					lx.p += 3
				} else {
					lx.p += 2
				}
				emit(KOp, start, line, "")
			} else if d := lx.at(1); d != eoz && isDigit(byte(d)) {
				if err := lx.readNumeral(start); err != nil {
					return toks, lx.notes, err
				}
				emit(KNumber, start, line, "")
			} else {
				lx.p++
				emit(KOp, start, line, "")
			}
		case c == ':':
			// `::` is one token of the goto extension
			if lx.at(1) == ':' {
				lx.p += 2
			} else {
				lx.p++
			}
			emit(KOp, start, line, "")
		case isDigit(byte(c)):
			if err := lx.readNumeral(start); err != nil {
				return toks, lx.notes, err
			}
			emit(KNumber, start, line, "")
		case isAlpha(byte(c)) || c == '_':
			for lx.cur() != eoz && (isAlnum(byte(lx.cur())) || lx.cur() == '_') {
				lx.p++
			}
			if keywords[src[start:lx.p]] {
				emit(KKeyword, start, line, "")
			} else {
				emit(KName, start, line, "")
			}
		case strings.IndexByte("+*/%^#(){}];,", byte(c)) >= 0:
			lx.p++
			emit(KOp, start, line, "")
		default:
			lx.p++
			emit(KBad, start, line, "")
		}
	}
}
