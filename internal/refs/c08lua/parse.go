package c08lua

// Recursive-descent recogniser shaped like lparser.c of Lua 5.1 (statement / exprstat /
// primaryexp / simpleexp / subexpr with the 5.1 priority table), plus `goto Name` and `::Name::`
// as ordinary statements. It builds no tree; it records the places where layout can change.

type Verdict uint8

const (
	Accept Verdict = iota
	Reject
	Unknown
)

func (v Verdict) String() string { return [...]string{"accept", "reject", "unknown"}[v] }

// Info is the result of analysing one source text.
type Info struct {
	Src     string
	Verdict Verdict
	Reason  string // class slug when Verdict != Accept
	Near    string // class of the token at which the parser stopped (empty for lexical errors)
	Detail  string
	ErrPos  int
	Toks    []Token // includes the final KEOF when lexing succeeded
	Notes   Notes

	CallParen   []bool   // per token: '(' that opens call arguments (no newline may precede it)
	StmtEnds    []int    // token indices after which a ';' may be inserted
	TopStmts    [][2]int // token ranges [first,last] of the statements of the main chunk (with their ';')
	ParenRanges [][2]int // token ranges of expressions that may be wrapped in parentheses
	HasGoto     bool
	MaxDepth    int
	EmptyStmts  int // empty statements (';' where a statement is expected) read over
}

const (
	maxSyntaxDepth = 150 // PUC stops at 200 C levels; beyond this the reference does not judge
	maxLocals      = 150 // PUC: 200 per function
	maxListLen     = 100 // PUC: about 250 registers
)

type labelInfo struct {
	name  string
	tok   int
	block *blockState
}

type gotoInfo struct {
	name  string
	tok   int
	block *blockState
}

type blockState struct {
	parent    *blockState
	isLoop    bool
	localToks []int // token index of each local declaration made directly in this block
	nlocals   int
}

type funcState struct {
	parent  *funcState
	vararg  bool
	block   *blockState
	labels  []labelInfo
	gotos   []gotoInfo
	nactive int // active local variables (PUC allows 200)
}

type parser struct {
	info  *Info
	toks  []Token
	pos   int
	fs    *funcState
	depth int
	// lastLine emulates LexState.lastline: the line on which the last consumed token ended, except
	// after a look-ahead (table constructor), where PUC has already advanced the line counter.
	lastLine    int
	lookedAhead int // token index of a Name PUC has looked ahead from, or -1
	// parenInnerOpen: the last parenthesised primary expression wrapped a bare call or '...'
	parenInnerOpen bool
}

func (p *parser) tok() *Token { return &p.toks[p.pos] }

func (p *parser) fail(class, msg string) {
	panic(&SynError{Class: class, Msg: msg, Pos: p.tok().Start})
}

func (p *parser) unknown(class, msg string) {
	panic(&SynError{Class: class, Msg: msg, Pos: p.tok().Start, Unknown: true})
}

func (p *parser) next() {
	p.lastLine = p.tok().EndLine
	if p.tok().Kind != KEOF {
		p.pos++
	}
}

func (p *parser) is(text string) bool {
	t := p.tok()
	return (t.Kind == KOp || t.Kind == KKeyword) && t.Text == text
}

func (p *parser) testNext(text string) bool {
	if p.is(text) {
		p.next()
		return true
	}
	return false
}

func (p *parser) check(text string) {
	if !p.is(text) {
		p.fail("expected-"+text, "'"+text+"' expected near "+p.near())
	}
}

func (p *parser) checkNext(text string) { p.check(text); p.next() }

func (p *parser) checkMatch(what, who string) {
	if !p.testNext(what) {
		p.fail("expected-"+what, "'"+what+"' expected (to close '"+who+"') near "+p.near())
	}
}

func (p *parser) near() string {
	if p.tok().Kind == KEOF {
		return "<eof>"
	}
	return "'" + p.tok().Text + "'"
}

func (p *parser) checkName() string {
	if p.tok().Kind != KName {
		p.fail("expected-name", "<name> expected near "+p.near())
	}
	s := p.tok().Text
	p.next()
	return s
}

func (p *parser) enterLevel() {
	p.depth++
	if p.depth > p.info.MaxDepth {
		p.info.MaxDepth = p.depth
	}
	if p.depth > maxSyntaxDepth {
		p.unknown("too-many-syntax-levels", "nesting deeper than the reference judges")
	}
}
func (p *parser) leaveLevel() { p.depth-- }

func (p *parser) blockFollow() bool {
	t := p.tok()
	if t.Kind == KEOF {
		return true
	}
	if t.Kind != KKeyword {
		return false
	}
	switch t.Text {
	case "else", "elseif", "end", "until":
		return true
	}
	return false
}

func (p *parser) openFunc(vararg bool) {
	fs := &funcState{parent: p.fs, vararg: vararg}
	fs.block = &blockState{}
	p.fs = fs
}

func (p *parser) closeFunc() {
	fs := p.fs
	// goto / label rules (Lua 5.2 reading of "extended with goto/labels"); anything the versions
	// disagree about is left unjudged.
	seen := map[string]int{}
	for _, l := range fs.labels {
		seen[l.name]++
	}
	for _, g := range fs.gotos {
		var target *labelInfo
		for i := range fs.labels {
			l := &fs.labels[i]
			if l.name != g.name {
				continue
			}
			for b := g.block; b != nil; b = b.parent {
				if b == l.block {
					target = l
					break
				}
			}
			if target != nil {
				break
			}
		}
		if target == nil {
			panic(&SynError{Class: "no-visible-label", Msg: "no visible label '" + g.name + "' for goto", Pos: p.toks[g.tok].Start})
		}
		if seen[g.name] > 1 {
			panic(&SynError{Class: "goto-duplicate-label", Msg: "label '" + g.name + "' occurs twice in one function", Pos: p.toks[g.tok].Start, Unknown: true})
		}
		if target.tok > g.tok {
			for _, lt := range target.block.localToks {
				if lt > g.tok && lt < target.tok {
					panic(&SynError{Class: "goto-over-local", Msg: "goto '" + g.name + "' passes a local declaration of the label's block", Pos: p.toks[g.tok].Start, Unknown: true})
				}
			}
		}
	}
	for name, n := range seen {
		if n > 1 {
			panic(&SynError{Class: "goto-duplicate-label", Msg: "label '" + name + "' occurs twice in one function", Pos: 0, Unknown: true})
		}
	}
	p.fs = fs.parent
}

func (p *parser) enterBlock(isLoop bool) {
	p.fs.block = &blockState{parent: p.fs.block, isLoop: isLoop}
}
func (p *parser) leaveBlock() {
	p.fs.nactive -= p.fs.block.nlocals
	p.fs.block = p.fs.block.parent
}

func (p *parser) declareLocal(tokIdx int, n int) {
	p.fs.block.localToks = append(p.fs.block.localToks, tokIdx)
	p.fs.block.nlocals += n
	p.fs.nactive += n
	if p.fs.nactive > maxLocals {
		p.unknown("too-many-locals", "more local variables than the reference judges")
	}
}

// chunk parses statements up to a block follower. top marks the main chunk.
func (p *parser) chunk(top bool) {
	p.enterLevel()
	last := false
	for !last && !p.blockFollow() {
		if p.is(";") {
			// an empty statement: Lua 5.1 rejects it, Lua 5.2 and gopher-lua (deliberately: its own test
			// scripts use it) accept it. The reference reads on and does not judge such a text.
			p.info.EmptyStmts++
			p.next()
			continue
		}
		first := p.pos
		last = p.statement()
		end := p.pos - 1
		if p.is(";") {
			p.next()
		} else {
			p.info.StmtEnds = append(p.info.StmtEnds, end)
		}
		if top {
			p.info.TopStmts = append(p.info.TopStmts, [2]int{first, p.pos - 1})
		}
	}
	p.leaveLevel()
}

func (p *parser) block() {
	p.enterBlock(false)
	p.chunk(false)
	p.leaveBlock()
}

func (p *parser) statement() (isLast bool) {
	t := p.tok()
	if t.Kind == KKeyword {
		switch t.Text {
		case "if":
			p.ifStat()
			return false
		case "while":
			p.next()
			p.cond()
			p.checkNext("do")
			p.enterBlock(true)
			p.block()
			p.leaveBlock()
			p.checkMatch("end", "while")
			return false
		case "do":
			p.next()
			p.block()
			p.checkMatch("end", "do")
			return false
		case "for":
			p.forStat()
			return false
		case "repeat":
			p.next()
			p.enterBlock(true)
			p.enterBlock(false)
			p.chunk(false)
			p.checkMatch("until", "repeat")
			p.cond()
			p.leaveBlock()
			p.leaveBlock()
			return false
		case "function":
			p.next()
			p.checkName()
			for p.is(".") {
				p.next()
				p.checkName()
			}
			if p.is(":") {
				p.next()
				p.checkName()
			}
			p.body()
			return false
		case "local":
			at := p.pos
			p.next()
			if p.testNext("function") {
				p.checkName()
				p.declareLocal(at, 1)
				p.body()
			} else {
				n := 1
				p.checkName()
				for p.testNext(",") {
					p.checkName()
					n++
				}
				if p.testNext("=") {
					p.exprList()
				}
				p.declareLocal(at, n)
			}
			return false
		case "return":
			p.next()
			if p.blockFollow() || p.is(";") {
				return true
			}
			p.exprList()
			return true
		case "break":
			ok := false
			for b := p.fs.block; b != nil; b = b.parent {
				if b.isLoop {
					ok = true
					break
				}
			}
			if !ok {
				p.fail("no-loop-to-break", "no loop to break")
			}
			p.next()
			return true
		case "goto":
			p.info.HasGoto = true
			at := p.pos
			p.next()
			name := p.checkName()
			p.fs.gotos = append(p.fs.gotos, gotoInfo{name, at, p.fs.block})
			return false
		}
	}
	if t.Kind == KOp && t.Text == "::" {
		p.info.HasGoto = true
		at := p.pos
		p.next()
		name := p.checkName()
		p.checkNext("::")
		p.fs.labels = append(p.fs.labels, labelInfo{name, at, p.fs.block})
		return false
	}
	p.exprStat()
	return false
}

func (p *parser) cond() { p.expr(true) }

func (p *parser) ifStat() {
	p.next()
	p.cond()
	p.checkNext("then")
	p.block()
	for p.is("elseif") {
		p.next()
		p.cond()
		p.checkNext("then")
		p.block()
	}
	if p.testNext("else") {
		p.block()
	}
	p.checkMatch("end", "if")
}

func (p *parser) forStat() {
	at := p.pos
	p.next()
	p.enterBlock(true) // scope for loop and control variables
	p.checkName()
	switch {
	case p.is("="):
		p.next()
		p.expr(true)
		p.checkNext(",")
		p.expr(true)
		if p.testNext(",") {
			p.expr(true)
		}
		p.declareLocal(at, 4)
	case p.is(",") || p.is("in"):
		n := 1
		for p.testNext(",") {
			p.checkName()
			n++
		}
		p.checkNext("in")
		p.exprList()
		p.declareLocal(at, n+3)
	default:
		p.fail("expected-=-or-in", "'=' or 'in' expected near "+p.near())
	}
	p.checkNext("do")
	p.block()
	p.leaveBlock()
	p.checkMatch("end", "for")
}

func (p *parser) body() {
	p.checkNext("(")
	vararg := false
	n := 0
	if !p.is(")") {
		for {
			if p.is("...") {
				p.next()
				vararg = true
			} else if p.tok().Kind == KName {
				p.next()
				n++
			} else {
				p.fail("expected-name", "<name> or '...' expected near "+p.near())
			}
			if vararg || !p.testNext(",") {
				break
			}
		}
	}
	p.openFunc(vararg)
	p.fs.block.nlocals, p.fs.nactive = n, n
	p.checkNext(")")
	p.chunk(false)
	p.checkMatch("end", "function")
	p.closeFunc()
}

// exprList parses expr {',' expr}.
func (p *parser) exprList() {
	n := 1
	p.expr(true)
	for p.testNext(",") {
		p.expr(true)
		n++
		if n > maxListLen {
			p.unknown("list-too-long", "expression list longer than the reference judges")
		}
	}
}

// exprKind: 0 ordinary (one value), 1 open (bare call or '...'), 2 variable (Name or indexed),
// 3 parenthesised or other non-variable primary expression
const (
	ekPlain = iota
	ekOpen
	ekVar
	ekParen
)

func (p *parser) exprStat() {
	k := p.primaryExp()
	if k == ekOpen {
		return // call statement
	}
	// assignment
	n := 1
	for {
		if k != ekVar {
			// a parenthesised expression is neither a call nor a variable
			if n == 1 && k == ekParen && !p.is("=") && !p.is(",") {
				if p.parenInnerOpen {
					p.fail("paren-call-as-statement", "syntax error near "+p.near()+" (parenthesised call used as a statement)")
				}
				p.fail("paren-expr-as-statement", "syntax error near "+p.near()+" (parenthesised expression used as a statement)")
			}
			p.fail("syntax-error-assignment", "syntax error near "+p.near())
		}
		if !p.testNext(",") {
			break
		}
		k = p.primaryExp()
		n++
		if n > maxListLen {
			p.unknown("list-too-long", "assignment with more targets than the reference judges")
		}
	}
	p.checkNext("=")
	p.exprList()
}

// primaryExp returns ekVar, ekOpen (call) or ekParen.
func (p *parser) primaryExp() int {
	var k int
	t := p.tok()
	// whether the prefix is a Name that PUC has looked ahead from (table constructor item): set by
	// the constructor through p.lookedAhead
	prefixTok := p.pos
	switch {
	case t.Kind == KName:
		p.next()
		k = ekVar
	case p.is("("):
		p.next()
		ik := p.expr(true)
		p.checkMatch(")", "(")
		k = ekParen
		p.parenInnerOpen = ik == ekOpen
	default:
		p.fail("unexpected-symbol", "unexpected symbol near "+p.near())
	}
	for {
		switch {
		case p.is("."):
			p.next()
			p.checkName()
			k = ekVar
		case p.is("["):
			p.next()
			p.expr(true)
			p.checkNext("]")
			k = ekVar
		case p.is(":"):
			p.next()
			p.checkName()
			p.funcArgs(-1)
			k = ekOpen
		case p.is("(") || p.is("{") || p.tok().Kind == KString:
			la := -1
			if p.lookedAhead == prefixTok && p.pos == prefixTok+1 {
				la = prefixTok
			}
			p.funcArgs(la)
			k = ekOpen
		default:
			return k
		}
	}
}

func (p *parser) funcArgs(lookAheadPrefix int) {
	switch {
	case p.is("("):
		// "ambiguous syntax (function call x new statement)": the '(' is on another line than the end
		// of the token before it — except right after a Name from which PUC has looked ahead (first
		// token of a table constructor item), where the line counter had already advanced.
		if lookAheadPrefix < 0 && p.tok().Line != p.lastLine {
			p.fail("ambiguous-call", "ambiguous syntax (function call x new statement) near "+p.near())
		}
		if lookAheadPrefix >= 0 && p.tok().Line != p.lastLine {
			// the manual forbids a line break before the '(' of a call everywhere; PUC-Lua 5.1 happens to
			// miss it here because of its one-token look-ahead: neither outcome is judged
			panic(&SynError{Class: "ambiguous-call-after-lookahead", Msg: "line break before '(' of a call right after a looked-ahead name (PUC accepts by accident, the manual forbids it)", Pos: p.tok().Start, Unknown: true})
		}
		p.info.CallParen[p.pos] = true
		p.next()
		if p.is(")") {
			p.next()
			return
		}
		p.exprList()
		p.checkMatch(")", "(")
	case p.is("{"):
		p.constructor()
	case p.tok().Kind == KString:
		p.next()
	default:
		p.fail("function-arguments-expected", "function arguments expected near "+p.near())
	}
}

func (p *parser) constructor() {
	p.checkNext("{")
	for !p.is("}") {
		if p.is(",") || p.is(";") {
			p.fail("empty-table-field", "unexpected symbol near "+p.near()+" (field expected)")
		}
		switch {
		case p.tok().Kind == KName:
			// PUC looks one token ahead here
			if nt := p.toks[p.pos+1]; nt.Kind == KOp && nt.Text == "=" {
				p.next()
				p.next()
				p.expr(true)
			} else {
				p.lookedAhead = p.pos
				p.expr(true)
				p.lookedAhead = -1
			}
		case p.is("["):
			p.next()
			p.expr(true)
			p.checkNext("]")
			p.checkNext("=")
			p.expr(true)
		default:
			p.expr(true)
		}
		if !p.testNext(",") && !p.testNext(";") {
			break
		}
	}
	p.checkMatch("}", "{")
}

var binPri = map[string][2]int{
	"+": {6, 6}, "-": {6, 6}, "*": {7, 7}, "/": {7, 7}, "%": {7, 7},
	"^": {10, 9}, "..": {5, 4},
	"~=": {3, 3}, "==": {3, 3}, "<": {3, 3}, "<=": {3, 3}, ">": {3, 3}, ">=": {3, 3},
	"and": {2, 2}, "or": {1, 1},
}

const unaryPri = 8

// expr parses a full expression; wrap says whether the whole expression may be recorded as a
// parenthesisable range (when it yields exactly one value).
func (p *parser) expr(wrap bool) int {
	first := p.pos
	k := p.subExpr(0)
	if wrap && k != ekOpen {
		p.info.ParenRanges = append(p.info.ParenRanges, [2]int{first, p.pos - 1})
	}
	return k
}

func (p *parser) simpleExp() int {
	t := p.tok()
	switch {
	case t.Kind == KNumber, t.Kind == KString:
		p.next()
		return ekPlain
	case t.Kind == KKeyword && (t.Text == "nil" || t.Text == "true" || t.Text == "false"):
		p.next()
		return ekPlain
	case p.is("..."):
		if !p.fs.vararg {
			p.fail("vararg-outside-vararg-function", "cannot use '...' outside a vararg function")
		}
		p.next()
		return ekOpen
	case p.is("{"):
		p.constructor()
		return ekPlain
	case p.is("function"):
		p.next()
		p.body()
		return ekPlain
	}
	k := p.primaryExp()
	if k == ekOpen {
		return ekOpen
	}
	return ekPlain
}

// subExpr parses (simpleexp | unop subexpr) { binop subexpr } while the operator binds tighter than
// limit. Operand ranges are recorded as parenthesisable.
func (p *parser) subExpr(limit int) int {
	p.enterLevel()
	first := p.pos
	var k int
	t := p.tok()
	if (t.Kind == KKeyword && t.Text == "not") || (t.Kind == KOp && (t.Text == "-" || t.Text == "#")) {
		p.next()
		of := p.pos
		p.subExpr(unaryPri)
		p.info.ParenRanges = append(p.info.ParenRanges, [2]int{of, p.pos - 1})
		k = ekPlain
	} else {
		k = p.simpleExp()
	}
	nops := 0
	for {
		t := p.tok()
		if t.Kind != KOp && t.Kind != KKeyword {
			break
		}
		pri, ok := binPri[t.Text]
		if !ok || pri[0] <= limit {
			break
		}
		// the expression read so far is the left operand
		p.info.ParenRanges = append(p.info.ParenRanges, [2]int{first, p.pos - 1})
		p.next()
		rf := p.pos
		p.subExpr(pri[1])
		p.info.ParenRanges = append(p.info.ParenRanges, [2]int{rf, p.pos - 1})
		k = ekPlain
		nops++
		if nops > maxListLen {
			p.unknown("operator-chain-too-long", "operator chain longer than the reference judges")
		}
	}
	p.leaveLevel()
	return k
}

// TokenClass names a token for signatures: operators and keywords by spelling, the rest by kind.
func TokenClass(t *Token) string {
	switch t.Kind {
	case KEOF:
		return "<eof>"
	case KName:
		return "<name>"
	case KNumber:
		return "<number>"
	case KString:
		return "<string>"
	case KBad:
		return "<byte " + hex2(t.Text[0]) + ">"
	}
	return t.Text
}

func hex2(b byte) string {
	const d = "0123456789abcdef"
	return "0x" + string([]byte{d[b>>4], d[b&15]})
}

// ReasonKey is the rejection class with the token at which the parser stopped.
func (in *Info) ReasonKey() string {
	if in.Near == "" {
		return in.Reason
	}
	return in.Reason + "@" + in.Near
}

// Analyze lexes and parses src.
func Analyze(src string) (info *Info) {
	info = &Info{Src: src}
	toks, notes, lerr := Lex(src)
	info.Toks, info.Notes = toks, notes
	if lerr != nil {
		info.Reason, info.Detail, info.ErrPos = lerr.Class, lerr.Msg, lerr.Pos
		if lerr.Unknown {
			info.Verdict = Unknown
		} else {
			info.Verdict = Reject
		}
		return info
	}
	info.CallParen = make([]bool, len(toks))
	p := &parser{info: info, toks: toks, lookedAhead: -1, lastLine: 1}
	defer func() {
		if e := recover(); e != nil {
			se, ok := e.(*SynError)
			if !ok {
				panic(e)
			}
			info.Reason, info.Detail, info.ErrPos = se.Class, se.Msg, se.Pos
			info.Near = TokenClass(p.tok())
			if se.Unknown {
				info.Verdict = Unknown
			} else {
				info.Verdict = Reject
			}
		}
	}()
	p.openFunc(true)
	p.chunk(true)
	if p.tok().Kind != KEOF {
		p.fail("expected-eof", "'<eof>' expected near "+p.near())
	}
	p.closeFunc()
	if info.Notes&NoteNestedLong != 0 {
		info.Verdict, info.Reason, info.Detail = Unknown, "nested-long-bracket", "'[[' inside a level-0 long bracket: an error or not depending on LUA_COMPAT_LSTR"
		return info
	}
	if info.EmptyStmts > 0 {
		info.Verdict, info.Reason, info.Detail = Unknown, "extension-empty-statement", "';' as an empty statement (Lua 5.2 syntax that gopher-lua accepts on purpose)"
		return info
	}
	if info.Notes&NoteUnknownEscape != 0 {
		info.Verdict, info.Reason, info.Detail = Unknown, "unspecified-escape", "backslash before a character the Lua 5.1 manual does not list"
		return info
	}
	info.Verdict = Accept
	return info
}
