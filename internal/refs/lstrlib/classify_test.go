package lstrlib

import "testing"

// The static classifier and the matcher must agree: a pattern classified well-formed never makes
// the matcher raise, and a pattern classified malformed never produces a successful match
// (exhaustive over the C14 alphabets up to a small bound).
func TestClassifierAgreesWithMatcher(t *testing.T) {
	const palpha, salpha = "ab.%*+-?^$()[]1ds", "ab1 ("
	gen := func(alpha string, n int) []string {
		out, prev := []string{""}, []string{""}
		for l := 1; l <= n; l++ {
			var next []string
			for _, p := range prev {
				for i := range alpha {
					next = append(next, p+alpha[i:i+1])
				}
			}
			out = append(out, next...)
			prev = next
		}
		return out
	}
	subs := gen(salpha, 3)
	bad := 0
	for _, p := range gen(palpha, 4) {
		for _, aware := range []bool{true, false} {
			in := Classify(p, aware)
			for _, s := range subs {
				if len(p) == 4 && len(s) > 2 {
					continue
				}
				var err *Error
				matched := false
				if aware {
					var out []Value
					out, err = Find(s, p, 1, false, false)
					matched = err == nil && !(len(out) == 1 && out[0].Kind == 'z')
				} else {
					var out [][]Value
					out, _, err = Gmatch(s, p, -1)
					matched = err == nil && len(out) > 0
				}
				if in.Malformed == "" && err != nil && bad < 10 {
					bad++
					t.Errorf("pattern %q (anchorAware=%v) classified well-formed, but subject %q raises %q", p, aware, s, err.Msg)
				}
				if in.Malformed != "" && matched && bad < 10 {
					bad++
					t.Errorf("pattern %q (anchorAware=%v) classified malformed (%s), but matches subject %q", p, aware, in.Malformed, s)
				}
			}
		}
	}
}

func TestClassifyFlags(t *testing.T) {
	if in := Classify("(()%1)", true); !in.BackrefToOpen || in.Malformed != "invalid capture index" {
		t.Errorf("(()%%1): %+v", in)
	}
	if in := Classify("(%1)", true); !in.BackrefToOpen {
		t.Errorf("(%%1): %+v", in)
	}
	if in := Classify("(a)%2", true); in.BackrefToOpen {
		t.Errorf("(a)%%2: %+v", in)
	}
	if in := Classify("[a--]", true); !in.RangeToDash || in.Malformed != "" || in.Unspecified != "" {
		t.Errorf("[a--]: %+v", in)
	}
	if in := Classify("[a-]", true); in.RangeToDash {
		t.Errorf("[a-]: %+v", in)
	}
	if in := Classify("()%1", true); !in.BackrefToPos || in.Unspecified == "" {
		t.Errorf("()%%1: %+v", in)
	}
	if in := Classify("^a", false); in.Anchored {
		t.Errorf("^a in gmatch mode: %+v", in)
	}
}

func TestClassifyExamples(t *testing.T) {
	for _, c := range []struct{ p, mal, unspec string }{
		{"a", "", ""}, {"(a)%1", "", ""}, {"[a-b]", "", ""}, {"[]]", "", ""}, {"[^]]", "", ""}, {"%b()", "", ""}, {"a$", "", ""}, {"^*", "", ""}, {"]", "", ""},
		{"(a", "unfinished capture", ""}, {"a)", "invalid pattern capture", ""}, {"%", "malformed pattern (ends with '%')", ""}, {"[a", "malformed pattern (missing ']')", ""},
		{"[]", "malformed pattern (missing ']')", ""}, {"%b(", "unbalanced pattern", ""}, {"%1", "invalid capture index", ""}, {"(%1)", "invalid capture index", ""}, {"(a)%2", "invalid capture index", ""},
		{"%0", "invalid capture index", ""}, {"()%1", "", "back-reference"}, {"[%a-z]", "", "set with a class"}, {"[a-%d]", "", "set with an escape"}, {"%f[a]", "", "%f"},
		{"[a-b-c]", "", "'-' directly"}, {"[a-]", "", ""}, {"[a%-z]", "", ""}, {"[%a-]", "", ""},
	} {
		in := Classify(c.p, true)
		if in.Malformed != c.mal {
			t.Errorf("Classify(%q).Malformed = %q, want %q", c.p, in.Malformed, c.mal)
		}
		if (c.unspec == "") != (in.Unspecified == "") || (c.unspec != "" && len(in.Unspecified) >= len(c.unspec) && in.Unspecified[:len(c.unspec)] != c.unspec) {
			t.Errorf("Classify(%q).Unspecified = %q, want prefix %q", c.p, in.Unspecified, c.unspec)
		}
	}
}
