package lstrlib

import (
	"fmt"
	"strings"
	"testing"
)

// Conformance table: hand-transcribed expectations from the Lua 5.1 reference manual (§5.4,
// §5.4.1) and from PUC-Rio's 5.1 test script pm.lua (ASCII cases only).

func render(vs []Value) string {
	var sb strings.Builder
	for i, v := range vs {
		if i > 0 {
			sb.WriteByte('|')
		}
		switch v.Kind {
		case 'z':
			sb.WriteString("nil")
		case 'n':
			sb.WriteString("#" + v.ToStr())
		case 's':
			sb.WriteString(v.Str)
		default:
			sb.WriteString("?" + string(v.Kind))
		}
	}
	return sb.String()
}

func TestMatchFind(t *testing.T) {
	type tc struct {
		s, p string
		init int
		find bool
		want string
	}
	m := func(s, p, want string) tc { return tc{s, p, 1, false, want} }
	f := func(s, p string, init int, want string) tc { return tc{s, p, init, true, want} }
	cases := []tc{
		f("", "", 1, "#1|#0"), f("alo", "", 1, "#1|#0"), f("alo", "", 3, "#3|#2"), f("alo", "", 10, "#4|#3"),
		f("a\x00o a\x00o a\x00o", "a", 1, "#1|#1"), f("a\x00o a\x00o a\x00o", "a\x00o", 2, "#5|#7"),
		f("abc", "b", -1, "nil"), f("abc", "c", -1, "#3|#3"), f("abc", "b", -2, "#2|#2"), f("abc", "a", -10, "#1|#1"),
		f("hello world", "l+", 1, "#3|#4"), f("hello world", "(o)( )", 1, "#5|#6|o| "), f("abc", "()b()", 1, "#2|#2|#2|#3"),
		f("a", "a*", 5, "#2|#1"), f("abc", "^b", 2, "#2|#2"), f("abc", "^b", 1, "nil"),
		m("aaab", ".*b", "aaab"), m("aaa", ".*a", "aaa"), m("b", ".*b", "b"),
		m("aaab", ".+b", "aaab"), m("aaa", ".+a", "aaa"), m("b", ".+b", "nil"),
		m("aaab", ".?b", "ab"), m("aaa", ".?a", "aa"), m("b", ".?b", "b"),
		m("aloALO", "%l*", "alo"), m("aLo_ALO", "%a*", "aLo"),
		m("aaab", "a-", ""), m("aaa", "^.-$", "aaa"), m("aabaaabaaabaaaba", "b.*b", "baaabaaabaaab"), m("aabaaabaaabaaaba", "b.-b", "baaab"),
		m("alo xo", ".o$", "xo"), m(" \n isto e assim", "%S%S*", "isto"), m(" \n isto e assim", "%S*$", "assim"), m(" \n isto e assim", "[a-z]*$", "assim"),
		m("um caracter ? extra", "[^%sa-z]", "?"), m("", "a?", ""), m("abl", "a?b?l?", "abl"), m("  abl", "a?b?l?", ""), m("aa", "^aa?a?a", "aa"),
		m("]]]ab", "[^]]", "a"), m("0alo alo", "%x*", "0a"), m("alo alo", "%C+", "alo alo"),
		m("0123456789", "(.+(.?)())", "0123456789||#11"),
		m("alo alx 123 b\x00o b\x00o", "(..*) %1", "b\x00o"), m("axz123= 4= 4 34", "(.+)=(.*)=%2 %1", "3| 4"), m("=======", "^(=*)=%1$", "==="),
		m("hello", "()ll()", "#3|#5"), m("  key = value", "^%s*(%w+)%s*=%s*(%w+)", "key|value"),
		m("THE (quick) fox", "%((%a+)%)", "quick"), m("alo(a(b)c)x", "%b()", "(a(b)c)"), m("a(b", "%b()", "nil"),
		m("x^y", "x^y", "x^y"), m("a$b", "a$b", "a$b"), m("a$", "a$$", "a$"), m("ab", "a$", "nil"),
		m("a-b", "[a-]+", "a-"), m("a]b", "[]a]+", "a]"), m("a^b", "[a^]+", "a^"), m("abc", "[^^]+", "abc"), m("a.b", "[.]", "."), m("a%b", "[%%]", "%"), m("a%b", "%%", "%"),
		m("abc", "[c-a]", "nil"), m("a-c", "[a%-c]+", "a-c"), m("hello", ".-l", "hel"), m("hello", "(h)(e)(l)(l)(o)", "h|e|l|l|o"),
		m("x", "()%1", "nil"),
	}
	for _, c := range cases {
		got, err := Find(c.s, c.p, c.init, false, c.find)
		g := render(got)
		if err != nil {
			g = "error: " + err.Msg
		}
		if g != c.want {
			t.Errorf("find=%v (%q, %q, %d): got %q want %q", c.find, c.s, c.p, c.init, g, c.want)
		}
	}
}

func TestErrors(t *testing.T) {
	for _, c := range [][3]string{
		{"a", "[a", "malformed pattern (missing ']')"}, {"a", "[]", "malformed pattern (missing ']')"}, {"a", "[^]", "malformed pattern (missing ']')"},
		{"a", "[a%]", "malformed pattern (missing ']')"}, {"a", "[a%", "malformed pattern (missing ']')"}, {"a", "%", "malformed pattern (ends with '%')"},
		{"a", "%b", "unbalanced pattern"}, {"a", "%ba", "unbalanced pattern"}, {"a", "%f", "missing '[' after '%f' in pattern"},
		{"a", "(a", "unfinished capture"}, {"a", "a)", "invalid pattern capture"}, {"a", "%1", "invalid capture index"}, {"a", "(%1)", "invalid capture index"},
		{"a", "%0", "invalid capture index"}, {"a", "(a)%2", "invalid capture index"}, {"a", strings.Repeat("()", 33), "too many captures"},
	} {
		_, err := Find(c[0], c[1], 1, false, false)
		if err == nil || err.Msg != c[2] {
			t.Errorf("match(%q,%q): got %v want error %q", c[0], c[1], err, c[2])
		}
	}
	// errors are raised lazily: an unreached defect is not reported
	for _, c := range [][2]string{{"b", "a%"}, {"b", "a)"}, {"b", "a[a"}, {"b", "a%1"}, {"b", "(a"}} {
		got, err := Find(c[0], c[1], 1, false, false)
		if err != nil || render(got) != "nil" {
			t.Errorf("match(%q,%q): got %v %v want nil", c[0], c[1], render(got), err)
		}
	}
}

func TestGsub(t *testing.T) {
	S := func(s string) *Repl { return &Repl{Kind: 's', Str: s} }
	type tc struct {
		s, p   string
		r      *Repl
		max    int
		hasMax bool
		want   string
	}
	upper := &Repl{Kind: 'f', Call: func(a []Value) Value { return Str(strings.ToUpper(a[0].Str)) }}
	tab := &Repl{Kind: 't', Index: func(k Value) Value {
		switch k.ToStr() {
		case "a":
			return Str("x")
		case "b":
			return False()
		case "c":
			return Num(7)
		}
		return Nil
	}}
	cases := []tc{
		{"alo ulo  ", " +$", S(""), 0, false, "alo ulo|1"}, {"  alo alo  ", "^%s*(.-)%s*$", S("%1"), 0, false, "alo alo|1"},
		{"alo  alo  \n 123\n ", "%s+", S(" "), 0, false, "alo alo 123 |3"}, {"abc d", "(.)", S("%1@"), 0, false, "a@b@c@ @d@|5"},
		{"abc", "%w", S("%1%0"), 0, false, "aabbcc|3"}, {"abc", "%w+", S("%0%1"), 0, false, "abcabc|1"},
		{"", "^", S("r"), 0, false, "r|1"}, {"", "$", S("r"), 0, false, "r|1"}, {"abc", "", S("-"), 0, false, "-a-b-c-|4"},
		{"a b cd", " *", S("-"), 0, false, "-a--b--c-d-|7"} /* 5.1: an empty match directly after a non-empty one counts (changed in 5.3.3) */, {"abc", "b*", S("x"), 0, false, "xaxxcx|4"},
		{"hello world", "%w+", S("%0 %0"), 1, true, "hello hello world|1"}, {"hello world", "o", S("0"), 0, true, "hello world|0"}, {"hello world", "o", S("0"), -1, true, "hello world|0"},
		{"hello world", "(o)", S("[%1]"), 0, false, "hell[o] w[o]rld|2"}, {"hello", "", S("%%"), 0, false, "%h%e%l%l%o%|6"},
		{"um (dois) tres (quatro)", "(%(%w+%))", upper, 0, false, "um (DOIS) tres (QUATRO)|2"},
		{"alo (foo (bar)) x", "%b()", S(""), 0, false, "alo  x|1"}, {"abcd", "%w", tab, 0, false, "xb7d|4"},
		{"abc", "()", S("%1"), 0, false, "1a2b3c4|4"}, {"abc", "^a", S("x"), 0, false, "xbc|1"}, {"aaa", "^a", S("x"), 0, false, "xaa|1"},
		{"abc", "(a)", S("%2"), 0, false, "error: invalid capture index"}, {"abc", "a", S("%2"), 0, false, "error: invalid capture index"}, {"abc", "a", S("%1"), 0, false, "abc|1"},
		{"abc", "(a", S("x"), 0, false, "xbc|1"}, {"abc", "(a", S("%1"), 0, false, "error: unfinished capture"},
		{"abc", "b", &Repl{Kind: 'f', Call: func(a []Value) Value { return Value{Kind: 'o'} }}, 0, false, "error: invalid replacement value (a table)"},
		{"abc", "b", &Repl{Kind: 'f', Call: func(a []Value) Value { return Float(1.5) }}, 0, false, "a1.5c|1"},
	}
	for _, c := range cases {
		res, n, _, err := Gsub(c.s, c.p, c.r, c.max, c.hasMax)
		g := fmt.Sprintf("%s|%d", res, n)
		if err != nil {
			g = "error: " + err.Msg
		}
		if g != c.want {
			t.Errorf("gsub(%q,%q,%v): got %q want %q", c.s, c.p, c.r.Str, g, c.want)
		}
	}
}

func TestGmatch(t *testing.T) {
	for _, c := range [][3]string{
		{"abcde", "()", "#1;#2;#3;#4;#5;#6"}, {"13 14 10 = 11, 15= 16, 22=23", "(%d+)%s*=%s*(%d+)", "10|11;15|16;22|23"},
		{"hello world from Lua", "%a+", "hello;world;from;Lua"}, {"abc", "b*", ";b;;"}, {"aaa", "^a", ""}, {"a^a", "^a", "^a"}, {"", "", ""},
		{"abc", "", ";;;"}, {"a", "(a", "error: unfinished capture"},
	} {
		out, _, err := Gmatch(c[0], c[1], -1)
		var parts []string
		for _, vs := range out {
			parts = append(parts, render(vs))
		}
		g := strings.Join(parts, ";")
		if err != nil {
			g = "error: " + err.Msg
		}
		if g != c[2] {
			t.Errorf("gmatch(%q,%q): got %q want %q", c[0], c[1], g, c[2])
		}
	}
}
