// Package lstrlib is a direct Go port of the pattern-matching part of PUC-Rio Lua 5.1.4's
// lstrlib.c (match, max_expand, min_expand, start_capture, end_capture, match_capture,
// matchbalance, singlematch, matchbracketclass, classEnd, check_capture, capture_to_close,
// str_find_aux, gmatch_aux, str_gsub, add_s, add_value, push_onecapture, push_captures).
//
// It is the reference oracle of check C14 and shares no code with gopher-lua's pm package.
// C pointers are byte offsets; the pattern is read as a NUL-terminated C string (a read at
// len(pat) yields 0), the subject is length-delimited with a readable terminating 0, exactly as
// Lua strings are. Character classification is that of the C locale.
package lstrlib

const (
	MaxCaptures   = 32 // LUA_MAXCAPTURES
	capUnfinished = -1 // CAP_UNFINISHED
	capPosition   = -2 // CAP_POSITION
	lESC          = '%'
)

// Error is a Lua error raised by the reference (luaL_error).
type Error struct{ Msg string }

func (e *Error) Error() string { return e.Msg }

func throw(msg string) { panic(&Error{msg}) }

type capture struct {
	init int
	len  int
}

type matchState struct {
	src     []byte // src_init is offset 0, src_end is len(src)
	pat     []byte
	level   int
	capture [MaxCaptures]capture
	steps   int64 // work counter (not part of lstrlib): lets callers bound the reference itself
	maxStep int64
}

// StepLimit is raised (as a panic of *StepLimitError) when the reference itself exceeds its
// step budget; it is not a Lua error.
type StepLimitError struct{}

func (ms *matchState) pc(i int) byte { // *p with NUL terminator
	if i < len(ms.pat) {
		return ms.pat[i]
	}
	return 0
}

func (ms *matchState) sc(i int) byte { // *s with the terminating NUL of a Lua string
	if i < len(ms.src) {
		return ms.src[i]
	}
	return 0
}

// ---- <ctype.h>, C locale ------------------------------------------------------------------

func isalpha(c int) bool  { return c >= 'a' && c <= 'z' || c >= 'A' && c <= 'Z' }
func isdigit(c int) bool  { return c >= '0' && c <= '9' }
func islower(c int) bool  { return c >= 'a' && c <= 'z' }
func isupper(c int) bool  { return c >= 'A' && c <= 'Z' }
func isalnum(c int) bool  { return isalpha(c) || isdigit(c) }
func iscntrl(c int) bool  { return c >= 0 && c < 0x20 || c == 0x7f }
func isspace(c int) bool  { return c == ' ' || c >= '\t' && c <= '\r' }
func isxdigit(c int) bool { return isdigit(c) || c >= 'a' && c <= 'f' || c >= 'A' && c <= 'F' }
func ispunct(c int) bool  { return c > 0x20 && c < 0x7f && !isalnum(c) }
func tolower(c int) int {
	if isupper(c) {
		return c + ('a' - 'A')
	}
	return c
}

// ---- the matcher --------------------------------------------------------------------------

func (ms *matchState) checkCapture(l int) int {
	l -= '1'
	if l < 0 || l >= ms.level || ms.capture[l].len == capUnfinished {
		throw("invalid capture index")
	}
	return l
}

func (ms *matchState) captureToClose() int {
	level := ms.level
	for level--; level >= 0; level-- {
		if ms.capture[level].len == capUnfinished {
			return level
		}
	}
	throw("invalid pattern capture")
	return 0
}

func (ms *matchState) classEnd(p int) int {
	c := ms.pc(p)
	p++
	switch c {
	case lESC:
		if ms.pc(p) == 0 {
			throw("malformed pattern (ends with '%')")
		}
		return p + 1
	case '[':
		if ms.pc(p) == '^' {
			p++
		}
		for { // do { ... } while (*p != ']')
			if ms.pc(p) == 0 {
				throw("malformed pattern (missing ']')")
			}
			c := ms.pc(p)
			p++
			if c == lESC && ms.pc(p) != 0 {
				p++ // skip escapes (e.g. `%]')
			}
			if ms.pc(p) == ']' {
				break
			}
		}
		return p + 1
	default:
		return p
	}
}

func matchClass(c, cl int) bool {
	var res bool
	switch tolower(cl) {
	case 'a':
		res = isalpha(c)
	case 'c':
		res = iscntrl(c)
	case 'd':
		res = isdigit(c)
	case 'l':
		res = islower(c)
	case 'p':
		res = ispunct(c)
	case 's':
		res = isspace(c)
	case 'u':
		res = isupper(c)
	case 'w':
		res = isalnum(c)
	case 'x':
		res = isxdigit(c)
	case 'z':
		res = c == 0
	default:
		return cl == c
	}
	if islower(cl) {
		return res
	}
	return !res
}

// matchbracketclass: p points at '[', ec at the closing ']'.
func (ms *matchState) matchBracketClass(c int, p, ec int) bool {
	sig := true
	if ms.pc(p+1) == '^' {
		sig = false
		p++ // skip the `^'
	}
	for p++; p < ec; p++ {
		if ms.pc(p) == lESC {
			p++
			if matchClass(c, int(ms.pc(p))) {
				return sig
			}
		} else if ms.pc(p+1) == '-' && p+2 < ec {
			p += 2
			if int(ms.pc(p-2)) <= c && c <= int(ms.pc(p)) {
				return sig
			}
		} else if int(ms.pc(p)) == c {
			return sig
		}
	}
	return !sig
}

func (ms *matchState) singleMatch(c int, p, ep int) bool {
	switch ms.pc(p) {
	case '.':
		return true // matches any char
	case lESC:
		return matchClass(c, int(ms.pc(p+1)))
	case '[':
		return ms.matchBracketClass(c, p, ep-1)
	default:
		return int(ms.pc(p)) == c
	}
}

const null = -1 // NULL

func (ms *matchState) matchBalance(s, p int) int {
	if ms.pc(p) == 0 || ms.pc(p+1) == 0 {
		throw("unbalanced pattern")
	}
	if ms.sc(s) != ms.pc(p) {
		return null
	}
	b := ms.pc(p)
	e := ms.pc(p + 1)
	cont := 1
	for s++; s < len(ms.src); s++ {
		ms.tick()
		if ms.src[s] == e {
			cont--
			if cont == 0 {
				return s + 1
			}
		} else if ms.src[s] == b {
			cont++
		}
	}
	return null // string ends out of balance
}

func (ms *matchState) tick() {
	ms.steps++
	if ms.maxStep > 0 && ms.steps > ms.maxStep {
		panic(&StepLimitError{})
	}
}

func (ms *matchState) maxExpand(s, p, ep int) int {
	i := 0 // counts maximum expand for item
	for s+i < len(ms.src) && ms.singleMatch(int(ms.src[s+i]), p, ep) {
		i++
		ms.tick()
	}
	// keeps trying to match with the maximum repetitions
	for i >= 0 {
		res := ms.match(s+i, ep+1)
		if res != null {
			return res
		}
		i-- // else didn't match; reduce 1 repetition to try again
	}
	return null
}

func (ms *matchState) minExpand(s, p, ep int) int {
	for {
		res := ms.match(s, ep+1)
		if res != null {
			return res
		} else if s < len(ms.src) && ms.singleMatch(int(ms.src[s]), p, ep) {
			s++ // try with one more repetition
		} else {
			return null
		}
	}
}

func (ms *matchState) startCapture(s, p, what int) int {
	level := ms.level
	if level >= MaxCaptures {
		throw("too many captures")
	}
	ms.capture[level].init = s
	ms.capture[level].len = what
	ms.level = level + 1
	res := ms.match(s, p)
	if res == null { // match failed?
		ms.level-- // undo capture
	}
	return res
}

func (ms *matchState) endCapture(s, p int) int {
	l := ms.captureToClose()
	ms.capture[l].len = s - ms.capture[l].init // close capture
	res := ms.match(s, p)
	if res == null { // match failed?
		ms.capture[l].len = capUnfinished // undo capture
	}
	return res
}

func (ms *matchState) matchCapture(s, l int) int {
	l = ms.checkCapture(l)
	ln := ms.capture[l].len
	// len = (size_t)capture[l].len: CAP_POSITION (-2) becomes a huge unsigned value, so the
	// comparison (size_t)(src_end-s) >= len is false and the item fails to match.
	if ln < 0 {
		return null
	}
	if len(ms.src)-s >= ln && string(ms.src[ms.capture[l].init:ms.capture[l].init+ln]) == string(ms.src[s:s+ln]) {
		return s + ln
	}
	return null
}

func (ms *matchState) match(s, p int) int {
init: // using goto's to optimize tail recursion
	ms.tick()
	switch ms.pc(p) {
	case '(': // start capture
		if ms.pc(p+1) == ')' { // position capture?
			return ms.startCapture(s, p+2, capPosition)
		}
		return ms.startCapture(s, p+1, capUnfinished)
	case ')': // end capture
		return ms.endCapture(s, p+1)
	case lESC:
		switch ms.pc(p + 1) {
		case 'b': // balanced string?
			s = ms.matchBalance(s, p+2)
			if s == null {
				return null
			}
			p += 4
			goto init // else return match(ms, s, p+4);
		case 'f': // frontier?
			p += 2
			if ms.pc(p) != '[' {
				throw("missing '[' after '%f' in pattern")
			}
			ep := ms.classEnd(p) // points to what is next
			var previous byte
			if s != 0 {
				previous = ms.src[s-1]
			}
			if ms.matchBracketClass(int(previous), p, ep-1) || !ms.matchBracketClass(int(ms.sc(s)), p, ep-1) {
				return null
			}
			p = ep
			goto init // else return match(ms, s, ep);
		default:
			if isdigit(int(ms.pc(p + 1))) { // capture results (%0-%9)?
				s = ms.matchCapture(s, int(ms.pc(p+1)))
				if s == null {
					return null
				}
				p += 2
				goto init // else return match(ms, s, p+2)
			}
			// goto dflt
		}
	case 0: // end of pattern
		return s // match succeeded
	case '$':
		if ms.pc(p+1) == 0 { // is the `$' the last char in pattern?
			if s == len(ms.src) { // check end of string
				return s
			}
			return null
		}
		// else goto dflt
	}
	// dflt: it is a pattern item
	{
		ep := ms.classEnd(p) // points to what is next
		m := s < len(ms.src) && ms.singleMatch(int(ms.src[s]), p, ep)
		switch ms.pc(ep) {
		case '?': // optional
			if m {
				if res := ms.match(s+1, ep+1); res != null {
					return res
				}
			}
			p = ep + 1
			goto init // else return match(ms, s, ep+1);
		case '*': // 0 or more repetitions
			return ms.maxExpand(s, p, ep)
		case '+': // 1 or more repetitions
			if m {
				return ms.maxExpand(s+1, p, ep)
			}
			return null
		case '-': // 0 or more repetitions (minimum)
			return ms.minExpand(s, p, ep)
		default:
			if !m {
				return null
			}
			s++
			p = ep
			goto init // else return match(ms, s+1, ep);
		}
	}
}
