package lstrlib

import (
	"strconv"
)

// Value is a Lua value as far as the string library produces or consumes one.
type Value struct {
	Kind byte // 'z' nil, 'f' false, 't' true, 'n' number, 's' string, 'o' other (table, function, ...)
	Num  float64
	Str  string
}

var Nil = Value{Kind: 'z'}

func Num(n int) Value       { return Value{Kind: 'n', Num: float64(n)} }
func Float(f float64) Value { return Value{Kind: 'n', Num: f} }
func Str(s string) Value    { return Value{Kind: 's', Str: s} }
func False() Value          { return Value{Kind: 'f'} }

// ToStr is lua_tolstring on a string or number (LUA_NUMBER_FMT "%.14g").
func (v Value) ToStr() string {
	if v.Kind == 'n' {
		return fmtNumber(v.Num)
	}
	return v.Str
}

func fmtNumber(f float64) string {
	if f == float64(int64(f)) && f > -1e14 && f < 1e14 {
		return strconv.FormatInt(int64(f), 10)
	}
	// %.14g
	s := strconv.FormatFloat(f, 'g', 14, 64)
	return s
}

// Match is one successful match: 0-based half-open extent and the explicit captures.
type Match struct {
	Start, End int
	Caps       []Cap
}

// Cap is an explicit capture: either a position (1-based) or a 0-based half-open substring extent.
type Cap struct {
	IsPos      bool
	Pos        int
	Start, End int
	Unfinished bool // only in Gsub's match log: the capture was still open when the match ended
}

// rawCaps lists the explicit captures without validating them (never raises).
func (ms *matchState) rawCaps() []Cap {
	out := make([]Cap, 0, ms.level)
	for i := 0; i < ms.level; i++ {
		c := ms.capture[i]
		switch c.len {
		case capUnfinished:
			out = append(out, Cap{Unfinished: true, Start: c.init, End: c.init})
		case capPosition:
			out = append(out, Cap{IsPos: true, Pos: c.init + 1})
		default:
			out = append(out, Cap{Start: c.init, End: c.init + c.len})
		}
	}
	return out
}

func newState(s, p []byte) *matchState {
	return &matchState{src: s, pat: p, maxStep: DefaultMaxSteps}
}

// DefaultMaxSteps bounds the work of one reference call (0 = unbounded).
var DefaultMaxSteps int64 = 0

// catch converts a luaL_error into an error return.
func catch(err **Error) {
	if r := recover(); r != nil {
		if e, ok := r.(*Error); ok {
			*err = e
			return
		}
		panic(r)
	}
}

// getOneCapture mirrors push_onecapture but returns the capture structurally.
func (ms *matchState) oneCapture(i int, s, e int) Cap {
	if i >= ms.level {
		if i == 0 { // ms->level == 0, too
			return Cap{Start: s, End: e} // whole match
		}
		throw("invalid capture index")
	}
	l := ms.capture[i].len
	if l == capUnfinished {
		throw("unfinished capture")
	}
	if l == capPosition {
		return Cap{IsPos: true, Pos: ms.capture[i].init + 1}
	}
	return Cap{Start: ms.capture[i].init, End: ms.capture[i].init + l}
}

func (ms *matchState) capValue(c Cap) Value {
	if c.IsPos {
		return Num(c.Pos)
	}
	return Str(string(ms.src[c.Start:c.End]))
}

// captures mirrors push_captures(ms, s, e) with wholeIfNone == (s != NULL).
func (ms *matchState) captures(s, e int, wholeIfNone bool) []Cap {
	nlevels := ms.level
	if ms.level == 0 && wholeIfNone {
		nlevels = 1
	}
	out := make([]Cap, 0, nlevels)
	for i := 0; i < nlevels; i++ {
		out = append(out, ms.oneCapture(i, s, e))
	}
	return out
}

// MatchAt runs match() once at 0-based offset `at` with pattern p taken verbatim (no anchor
// processing) and validates the captures as push_captures would. m == nil means no match.
func MatchAt(s, p string, at int) (m *Match, err *Error) {
	defer catch(&err)
	ms := newState([]byte(s), []byte(p))
	ms.level = 0
	e := ms.match(at, 0)
	if e == null {
		return nil, nil
	}
	return &Match{Start: at, End: e, Caps: ms.captures(at, e, false)}, nil
}

func posrelat(pos, ln int) int {
	if pos < 0 {
		pos += ln + 1
	}
	if pos >= 0 {
		return pos
	}
	return 0
}

// Scan is the matching loop of str_find_aux (pattern branch): the first match at or after the
// 0-based offset init, honouring a leading '^'. It returns the match (nil = none).
func Scan(s, p string, init int) (m *Match, err *Error) {
	defer catch(&err)
	pat := []byte(p)
	anchor := false
	if len(pat) > 0 && pat[0] == '^' {
		anchor = true
		pat = pat[1:]
	}
	ms := newState([]byte(s), pat)
	s1 := init
	for {
		ms.level = 0
		if res := ms.match(s1, 0); res != null {
			return &Match{Start: s1, End: res, Caps: ms.captures(s1, res, false)}, nil
		}
		s1++
		if !(s1-1 < len(ms.src) && !anchor) {
			break
		}
	}
	return nil, nil
}

const specials = "^$*+?.([%-"

func hasSpecials(p string) bool {
	for i := 0; i < len(p); i++ {
		if p[i] == 0 {
			return false // strpbrk stops at the terminator
		}
		for j := 0; j < len(specials); j++ {
			if p[i] == specials[j] {
				return true
			}
		}
	}
	return false
}

// Find is str_find_aux: string.find when find is true, string.match otherwise. init is the Lua
// argument (1-based, may be negative); plain is argument 4 of string.find.
// The result is the list of returned Lua values ([nil] when nothing is found).
func Find(s, p string, init int, plain bool, find bool) (out []Value, err *Error) {
	defer catch(&err)
	l1 := len(s)
	ini := posrelat(init, l1) - 1
	if ini < 0 {
		ini = 0
	} else if ini > l1 {
		ini = l1
	}
	if find && (plain || !hasSpecials(p)) {
		// do a plain search (lmemfind)
		for i := ini; i+len(p) <= l1; i++ {
			if s[i:i+len(p)] == p {
				return []Value{Num(i + 1), Num(i + len(p))}, nil
			}
		}
		return []Value{Nil}, nil
	}
	pat := []byte(p)
	anchor := false
	if len(pat) > 0 && pat[0] == '^' {
		anchor = true
		pat = pat[1:]
	}
	ms := newState([]byte(s), pat)
	s1 := ini
	for {
		ms.level = 0
		if res := ms.match(s1, 0); res != null {
			if find {
				out = append(out, Num(s1+1), Num(res))
				for _, c := range ms.captures(s1, res, false) {
					out = append(out, ms.capValue(c))
				}
				return out, nil
			}
			for _, c := range ms.captures(s1, res, true) {
				out = append(out, ms.capValue(c))
			}
			return out, nil
		}
		s1++
		if !(s1-1 < l1 && !anchor) {
			break
		}
	}
	return []Value{Nil}, nil
}

// Gmatch runs the iterator of string.gmatch to exhaustion (at most maxIter calls; <0 = no bound)
// and returns the values produced by each call. In Lua 5.1 a leading '^' is not an anchor here:
// gmatch_aux hands the pattern to match() verbatim, so it is an ordinary character.
// An error raised by the k-th call is returned together with the results of the earlier calls.
func Gmatch(s, p string, maxIter int) (out [][]Value, matches []Match, err *Error) {
	defer catch(&err)
	ms := newState([]byte(s), []byte(p))
	start := 0 // upvalue 3
	for maxIter != 0 {
		maxIter--
		found := false
		for src := start; src <= len(ms.src); src++ {
			ms.level = 0
			if e := ms.match(src, 0); e != null {
				newstart := e
				if e == src {
					newstart++ // empty match? go to next position
				}
				start = newstart
				caps := ms.captures(src, e, true)
				vals := make([]Value, len(caps))
				for i, c := range caps {
					vals[i] = ms.capValue(c)
				}
				out = append(out, vals)
				matches = append(matches, Match{Start: src, End: e, Caps: ms.captures(src, e, false)})
				found = true
				break
			}
		}
		if !found {
			break
		}
	}
	return out, matches, nil
}

// Repl is the third argument of string.gsub.
type Repl struct {
	Kind  byte                     // 's' string (or number, already converted), 't' table, 'f' function
	Str   string                   // Kind 's'
	Index func(key Value) Value    // Kind 't': lua_gettable(L, 3) (raw or not is the caller's business)
	Call  func(args []Value) Value // Kind 'f': first result of the call (Nil if none)
}

func (ms *matchState) addS(b []byte, news string, s, e int) []byte {
	l := len(news)
	at := func(i int) byte { // news is NUL-terminated
		if i < l {
			return news[i]
		}
		return 0
	}
	for i := 0; i < l; i++ {
		if news[i] != lESC {
			b = append(b, news[i])
		} else {
			i++ // skip ESC
			c := at(i)
			if !isdigit(int(c)) {
				b = append(b, c)
			} else if c == '0' {
				b = append(b, ms.src[s:e]...)
			} else {
				v := ms.capValue(ms.oneCapture(int(c-'1'), s, e))
				b = append(b, v.ToStr()...) // add capture to accumulated result
			}
		}
	}
	return b
}

func typeName(v Value) string {
	switch v.Kind {
	case 'z':
		return "nil"
	case 'f', 't':
		return "boolean"
	case 'n':
		return "number"
	case 's':
		return "string"
	}
	return "table"
}

func (ms *matchState) addValue(b []byte, repl *Repl, s, e int) []byte {
	var v Value
	switch repl.Kind {
	case 's':
		return ms.addS(b, repl.Str, s, e)
	case 'f':
		caps := ms.captures(s, e, true)
		args := make([]Value, len(caps))
		for i, c := range caps {
			args[i] = ms.capValue(c)
		}
		v = repl.Call(args)
	case 't':
		v = repl.Index(ms.capValue(ms.oneCapture(0, s, e)))
	}
	if v.Kind == 'z' || v.Kind == 'f' { // nil or false?
		return append(b, ms.src[s:e]...) // keep original text
	} else if v.Kind != 's' && v.Kind != 'n' {
		throw("invalid replacement value (a " + typeName(v) + ")")
	}
	return append(b, v.ToStr()...) // add result to accumulator
}

// Gsub is str_gsub. hasMax says whether argument 4 was given (otherwise max_s = len+1).
func Gsub(s, p string, repl *Repl, maxS int, hasMax bool) (res string, n int, matches []Match, err *Error) {
	defer catch(&err)
	pat := []byte(p)
	anchor := false
	if len(pat) > 0 && pat[0] == '^' {
		anchor = true
		pat = pat[1:]
	}
	if !hasMax {
		maxS = len(s) + 1
	}
	ms := newState([]byte(s), pat)
	var b []byte
	src := 0
	for n < maxS {
		ms.level = 0
		e := ms.match(src, 0)
		if e != null {
			n++
			matches = append(matches, Match{Start: src, End: e, Caps: ms.rawCaps()})
			b = ms.addValue(b, repl, src, e)
		}
		if e != null && e > src { // non empty match?
			src = e // skip it
		} else if src < len(ms.src) {
			b = append(b, ms.src[src])
			src++
		} else {
			break
		}
		if anchor {
			break
		}
	}
	b = append(b, ms.src[src:]...)
	return string(b), n, matches, nil
}
