package lstrlib

// Static analysis of a pattern, independent of any subject. It answers two questions the oracle
// of C14 needs:
//
//   - is the pattern well-formed Lua 5.1 (so that the reference can never raise on it)?
//   - does it use a construct whose meaning the Lua 5.1 manual leaves open (then results are not
//     compared, only "no crash" is required)?
//
// lstrlib itself reports defects lazily (only when the matcher reaches them), so a malformed
// pattern may well return "no match" from the reference; Info.Malformed names the first defect a
// successful match would have to run into.

type Info struct {
	Malformed     string // "" = well-formed; otherwise the lstrlib message the defect produces
	Unspecified   string // "" = meaning defined by the manual; otherwise why it is not
	Anchored      bool   // leading '^' taken as anchor (only when anchorAware)
	TailAnchor    bool
	NCaptures     int
	PosCaptures   int
	Backrefs      int
	BackrefToPos  bool // some %n refers to a position capture
	BackrefToOpen bool // malformed because some %n refers to a capture that is still open, e.g. (()%1)
	RangeToDash   bool // a set contains a range whose upper end is '-' (e.g. [a--], [+--])
	Balances      int
	Sets          int
	Stars         int // '*'
	Pluses        int // '+'
	Lazies        int // '-'
	Opts          int // '?'
	Items         int // single-character items (with or without suffix)
}

func (in *Info) WellFormed() bool { return in.Malformed == "" }

// Classify parses p the way match() walks it. anchorAware: a leading '^' is an anchor (find,
// match, gsub); otherwise it is an ordinary character (gmatch in 5.1).
func Classify(p string, anchorAware bool) Info {
	var in Info
	n := len(p)
	for i := 0; i < n; i++ {
		if p[i] == 0 {
			in.Unspecified = "embedded NUL ends the pattern in 5.1"
			n = i
			break
		}
		if p[i] >= 0x80 {
			in.Unspecified = "byte >= 0x80 (locale dependent classes)"
		}
	}
	at := func(i int) byte {
		if i < n {
			return p[i]
		}
		return 0
	}
	bad := func(msg string) {
		if in.Malformed == "" {
			in.Malformed = msg
		}
	}
	unspec := func(msg string) {
		if in.Unspecified == "" {
			in.Unspecified = msg
		}
	}
	i := 0
	if anchorAware && at(0) == '^' {
		in.Anchored = true
		i = 1
	}
	type capst struct{ open, pos bool }
	var caps []capst
	var open []int
	// classEnd for a single item starting at i; returns the index after the item or -1
	classEnd := func(i int) int {
		c := at(i)
		i++
		switch c {
		case lESC:
			if at(i) == 0 {
				bad("malformed pattern (ends with '%')")
				return -1
			}
			return i + 1
		case '[':
			in.Sets++
			start := i
			if at(i) == '^' {
				i++
			}
			for {
				if at(i) == 0 {
					bad("malformed pattern (missing ']')")
					return -1
				}
				c := at(i)
				i++
				if c == lESC && at(i) != 0 {
					i++
				}
				if at(i) == ']' {
					break
				}
			}
			ec := i
			// walk the body as matchbracketclass does, looking for constructs without meaning
			q := start
			if at(q) == '^' {
				q++
			}
			for ; q < ec; q++ {
				if at(q) == lESC {
					q++
					if at(q+1) == '-' && q+2 < ec {
						unspec("set with a class before '-' (e.g. [%a-z]): no meaning per manual")
					}
				} else if at(q+1) == '-' && q+2 < ec {
					if at(q+2) == '-' {
						in.RangeToDash = true
					}
					if at(q+2) == lESC {
						unspec("set with an escape as range end (e.g. [a-%d]): no meaning per manual")
					}
					q += 2
					if at(q+1) == '-' && q+2 < ec {
						unspec("'-' directly after a complete range inside a set (e.g. [a-b-c])")
					}
				}
			}
			return ec + 1
		default:
			return i
		}
	}
	for i < n {
		c := at(i)
		switch {
		case c == '(':
			if len(caps) >= MaxCaptures {
				unspec("more than LUA_MAXCAPTURES (32) captures: PUC implementation limit")
			}
			if at(i+1) == ')' {
				caps = append(caps, capst{pos: true})
				in.PosCaptures++
				i += 2
			} else {
				caps = append(caps, capst{open: true})
				open = append(open, len(caps)-1)
				i++
			}
			continue
		case c == ')':
			if len(open) == 0 {
				bad("invalid pattern capture")
				in.NCaptures = len(caps)
				return in
			}
			caps[open[len(open)-1]].open = false
			open = open[:len(open)-1]
			i++
			continue
		case c == lESC && at(i+1) == 'b':
			if at(i+2) == 0 || at(i+3) == 0 {
				bad("unbalanced pattern")
				in.NCaptures = len(caps)
				return in
			}
			in.Balances++
			i += 4
			continue
		case c == lESC && at(i+1) == 'f':
			unspec("%f (frontier) is not part of the documented 5.1 pattern language")
			i += 2
			if at(i) != '[' {
				bad("missing '[' after '%f' in pattern")
				in.NCaptures = len(caps)
				return in
			}
			ep := classEnd(i)
			if ep < 0 {
				in.NCaptures = len(caps)
				return in
			}
			i = ep
			continue
		case c == lESC && isdigit(int(at(i+1))):
			l := int(at(i+1)) - '1'
			if l < 0 || l >= len(caps) || caps[l].open {
				if l >= 0 && l < len(caps) && in.Malformed == "" {
					in.BackrefToOpen = true
				}
				bad("invalid capture index")
				in.NCaptures = len(caps)
				return in
			}
			if caps[l].pos {
				in.BackrefToPos = true
				unspec("back-reference to a position capture (PUC: never matches, by an unsigned cast)")
			}
			in.Backrefs++
			i += 2
			continue
		case c == '$' && i == n-1:
			in.TailAnchor = true
			i++
			continue
		}
		ep := classEnd(i)
		if ep < 0 {
			in.NCaptures = len(caps)
			return in
		}
		in.Items++
		switch at(ep) {
		case '*':
			in.Stars++
			ep++
		case '+':
			in.Pluses++
			ep++
		case '-':
			in.Lazies++
			ep++
		case '?':
			in.Opts++
			ep++
		}
		i = ep
	}
	in.NCaptures = len(caps)
	if len(open) > 0 {
		bad("unfinished capture")
	}
	return in
}

// ReplDefined reports whether a replacement string only uses the sequences the 5.1 manual
// defines: %0-%9 and %%. (5.1.4 copies any other escaped character and reads the terminating NUL
// after a trailing '%'; 5.2+ raises an error. Neither is stated by the 5.1 manual.)
func ReplDefined(r string) bool {
	for i := 0; i < len(r); i++ {
		if r[i] == lESC {
			i++
			if i >= len(r) || !(isdigit(int(r[i])) || r[i] == lESC) {
				return false
			}
		}
	}
	return true
}
