package props

// Pinned cases: the failing input of every defect that was repaired after being reported by a
// sub-agent's side observation (not by an enumeration of this framework) stays in the property's
// check, so that the defect is reported again if it ever returns. Each case runs on a fresh state;
// the chunk's results, rendered with tostring and joined by "|", must equal the expectation, which
// follows the Lua 5.1 sources named in the case. These cases complement the enumerations; they are
// not counted as exploration.

import (
	"fmt"
	"os"
	"path/filepath"
	"regexp"
	"strings"

	lua "github.com/yuin/gopher-lua"

	"verif/internal/harness"
)

type pinnedCase struct {
	prop, name, src, want string
	opts                  *lua.Options
}

var pinnedCases = []pinnedCase{
	// C05
	{"C05", "error-below-empty-named-field", `local t = {[""] = function() error("x") end} local ok, e = pcall(function() t[""]() end) return ok, type(e)`, "false|string", nil},
	{"C05", "uncaught-error-below-empty-named-field", `local t = {[""] = function() error("x") end} t[""]()`, "ERROR", nil},
	{"C05", "xpcall-handler-runs-on-stack-overflow", `local n = 0 local function r() return 1 + r() end local ok, m = xpcall(r, function(m) n = n + 1 return "H" end) return ok, m, n`, "false|H|1", nil},
	{"C05", "xpcall-handler-runs-on-stack-overflow-minstack", `local n = 0 local function r() return 1 + r() end local ok, m = xpcall(r, function(m) n = n + 1 return "H" end) return ok, m, n`, "false|H|1", &lua.Options{CallStackSize: 64, MinimizeStackMemory: true}},
	// C03
	{"C03", "break-reached-by-backward-goto-after-closure", "local f\nfor i = 1, 1 do\n local v = 10\n ::top::\n if f then break end\n f = function() v = v + 1 return v end\n goto top\nend\nlocal a, b, c, d, e = 100, 200, 300, 400, 500\nreturn f(), f(), e", "11|12|500", nil},
	{"C03", "getfenv-invalid-levels", `return pcall(getfenv, 50), pcall(getfenv, -1), pcall(setfenv, 50, {}), pcall(setfenv, -1, {}), getfenv(0) == _G, getfenv(1) == _G`, "false|false|false|false|true|true", nil},
	// C06
	{"C06", "resume-with-more-arguments-than-fit", `local t = {} for i = 1, 3000 do t[i] = i end local co = coroutine.create(function() local function f(...) coroutine.yield() return select("#", ...) end return f(unpack(t)) end) coroutine.resume(co) local ok = pcall(coroutine.resume, co, unpack(t)) return ok, coroutine.status(co), (coroutine.resume(co)), coroutine.status(co)`, "false|suspended|false|dead", nil},
	// C12
	{"C12", "minstack-overflow-is-the-ordinary-error", `local function r(n) return 1 + r(n + 1) end local ok, m = pcall(r, 1) return ok, (m:gsub("^.-:%d+: ", ""))`, "false|stack overflow", &lua.Options{CallStackSize: 32, MinimizeStackMemory: true}},
	{"C12", "fixed-overflow-is-the-ordinary-error", `local function r(n) return 1 + r(n + 1) end local ok, m = pcall(r, 1) return ok, (m:gsub("^.-:%d+: ", ""))`, "false|stack overflow", &lua.Options{CallStackSize: 32}},
	{"C12", "unpack-range-that-cannot-be-returned", `return pcall(function() return select("#", unpack({}, 1, 1e300)) end)`, "false", nil},
	// C15
	{"C15", "numeric-strings-as-integer-arguments", `return string.sub("hello", "2", "3"), string.rep("x", "3"), ("abc"):byte("2"), select("2", "a", "b"), (unpack({7, 8}, "2", "2")), string.char("65"), math.floor("3.7"), pcall(string.sub, "hello", "x")`, "el|xxx|98|b|8|A|3|false", nil},
	{"C15", "math.huge-is-infinity", `return math.huge == 1 / 0, -math.huge == -1 / 0, math.huge > 1.7976931348623157e308`, "true|true|true", nil},
	{"C15", "string.char-range", `return pcall(string.char, 256), pcall(string.char, -1), string.char(0, 255):byte(1, 2)`, "false|false|0|255", nil},
	{"C15", "find-plain-with-extra-argument", `return ("a.b"):find(".", 1, true, "extra")`, "2|2", nil},
	// C18
	{"C18", "numeric-strings-as-positions", `local t = {1, 2, 3} table.insert(t, "2", 9) local r = table.remove(t, "1") return r, table.concat(t, ",", "1", "3")`, "1|9,2,3", nil},
	// C20
	{"C20", "loader-return-value-wins-over-stored-value", `package.preload.m = function(n) package.loaded[n] = "set" return "returned" end return require "m", package.loaded.m`, "returned|returned", nil},
	{"C20", "replaced-package.loaders-is-searched", `package.loaders = {function(n) return function() return "custom:" .. n end end} return require "zzz"`, "custom:zzz", nil},
	{"C20", "package.loaders-must-be-a-table", `package.loaders = 5 return pcall(require, "zzz")`, "false", nil},
	// ---- fifth batch of repairs (conformance with the Lua 5.1 C sources)
	{"C14", "match-failure-is-one-nil", `return string.match("a","b") == nil, select("#", string.match("a","b"))`, "true|1", nil},
	{"C14", "match-init-is-clamped", `return string.match("abc","()",10), string.match("","",2) == ""`, "4|true", nil},
	{"C14", "gsub-number-replacement", `return string.gsub("abc","b",1)`, "a1c|1", nil},
	{"C14", "gsub-negative-max", `return string.gsub("abc","b","x",-3)`, "abc|0", nil},
	{"C14", "gsub-invalid-replacement-value", `local ok,msg=pcall(string.gsub,"abc","b",{b={}}) return ok,(msg:gsub("^.-: ",""))`, "false|invalid replacement value (a table)", nil},
	{"C14", "set-class-then-dash", `return string.find("-","[%a-z]"), string.find("z","[%d-z]"), string.find("e","[a-c-e]"), string.find("d","[a-c-e]")`, "1|1|1|nil", nil},
	{"C14", "gsub-many-matches-is-linear", `local r,n=string.gsub(string.rep("a",200000),"a","bc") return #r,n`, "400000|200000", nil},
	{"C17", "error-level-on-a-tail-call-has-no-position", "local function f() error('boom',2) end local function g() return f() end local function h()\n g()\n end return pcall(h)", "false|boom", nil},
	{"C17", "error-level-beyond-the-stack", `return pcall(error,"x",50)`, "false|x", nil},
	{"C17", "error-level-on-a-go-function", `local function e2() error("lvl2",2) end return pcall(e2)`, "false|lvl2", nil},
	{"C17", "linedefined-of-a-function-statement", "function gk\n(a) end return debug.getinfo(gk,'S').linedefined", "1", nil},
	{"C17", "main-chunk-lines", `local i=debug.getinfo(1,'S') return i.linedefined,i.lastlinedefined`, "0|0", nil},
	{"C04", "unm-handler-gets-the-operand-twice", `return -setmetatable({}, {__unm=function(a,b) return a==b end})`, "true", nil},
	{"C04", "numeric-strings-are-converted-before-handlers", `local mt=getmetatable("") mt.__add=function() return "meta" end mt.__unm=mt.__add local a,b="10"+1,-"2" mt.__add=nil mt.__unm=nil return a,b`, "11|-2", nil},
	{"C04", "callable-table-as-handler", `local c=setmetatable({}, {__call=function() return "called" end}); return pcall(function() return setmetatable({}, {__add=c})+1 end)`, "true|called", nil},
	{"C04", "non-callable-tostring-handler", `local ok,msg=pcall(tostring,setmetatable({}, {__tostring=1})) return ok, msg:find("attempt to call")~=nil`, "false|true", nil},
	{"C04", "print-validates-tostring", `local ok,msg=pcall(print,setmetatable({}, {__tostring=function() return {} end})) return ok,(msg:gsub("^.-: ",""))`, "false|'tostring' must return a string to 'print'", nil},
	{"C04", "setmetatable-needs-a-table", `local ok,msg=pcall(setmetatable,1,{}) return ok, msg:find("table expected, got number")~=nil, getmetatable(1)`, "false|true|nil", nil},
	{"C09", "next-with-a-key-that-is-not-in-the-table", `local ok,msg=pcall(next,{a=1},"zzz") local t={a=1,b=2,c=3} local n=0 for k in pairs(t) do t[k]=nil n=n+1 end return ok,(msg:gsub("^.-: ","")),n,next(t)`, "false|invalid key to 'next'|3|nil", nil},
	{"C18", "concat-range-is-not-clamped", `local ok,msg=pcall(table.concat,{1,2,3},",",0,2) local ok2,msg2=pcall(table.concat,{1,2,3},",",1,5) return ok,(msg:gsub("^.-: ","")),ok2,(msg2:gsub("^.-: ","")),table.concat({1,2,3},",",2,3)`, "false|invalid value (nil) at index 0 in table for 'concat'|false|invalid value (nil) at index 4 in table for 'concat'|2,3", nil},
	{"C18", "concat-number-separator", `return table.concat({1,2,3}, 0)`, "10203", nil},
	{"C18", "insert-argument-count", `local ok,msg=pcall(table.insert,{},1,2,3) return ok,(msg:gsub("^.-: ",""))`, "false|wrong number of arguments to 'insert'", nil},
	{"C18", "remove-outside-the-list", `local t={1,2,3} return select("#",table.remove(t,0)), select("#",table.remove(t,-1)), #t, table.remove(t,1), #t`, "0|0|3|1|2", nil},
	{"C18", "maxn-of-any-numeric-key", `return table.maxn({[1.5]=true}), table.maxn({[2^40]=true})==2^40, table.maxn({1,2,3})`, "1.5|true|3", nil},
	{"C16", "date-yday", `return os.date("!%j",86400*40), os.date("!*t",86400*40).yday`, "041|41", nil},
	{"C16", "tonumber-0x-with-base-16", `return tonumber("0x10",16), tonumber("ff",16), tonumber("0x",16)`, "16|255|nil", nil},
	{"C02", "select-count-marker", `return select("#x",1,2)`, "2", nil},
	{"C20", "not-found-message-format", `package.path="./?.lua" local ok,msg=pcall(require,"zzz") return ok,(msg:match("module.*$"):gsub("\n\t",";"))`, "false|module 'zzz' not found:;no field package.preload['zzz'];no file './zzz.lua'", nil},
	// siblings of repaired inputs (round 6: follow-up edits that re-break a fix for a neighbouring input)
	{"C02", "unpack-short-range-at-high-indices", `local t = {} t[6001] = "x" local function n(...) return select("#", ...) end return n(unpack(t, 6000, 6002)), (select(2, unpack(t, 6000, 6002))), n(unpack(t, 100000, 100001)), n(unpack(t, 2^31, 2^31 + 3)), n(unpack(t, -5, -3)), n(unpack(t, 7, 6))`, "3|x|2|4|3|0", nil},
	{"C03", "break-after-label-in-a-nested-do-block", "local f\nfor i = 1, 1 do\n local v = 10\n do\n  ::top::\n  if f then break end\n  f = function() v = v + 1 return v end\n  goto top\n end\nend\nlocal a, b, c, d, e = 100, 200, 300, 400, 500\nreturn f(), f(), e", "11|12|500", nil},
	{"C03", "break-after-label-in-a-nested-if-block", "local f\nlocal n = 0\nwhile true do\n local v = 20\n if n == 0 then\n  ::again::\n  if f then break end\n  f = function() v = v + 1 return v end\n  goto again\n end\nend\nlocal a, b, c, d, e = 100, 200, 300, 400, 500\nreturn f(), f(), e", "21|22|500", nil},
	{"C03", "break-after-label-two-blocks-deep", "local f\nrepeat\n local v = 30\n do do\n  ::top::\n  if f then break end\n  f = function() v = v + 1 return v end\n  goto top\n end end\nuntil true\nlocal a, b, c, d, e = 100, 200, 300, 400, 500\nreturn f(), f(), e", "31|32|500", nil},
	{"C04", "string-metatable-arithmetic-handler", `local smt = getmetatable("") local T = setmetatable({}, {__add = function() return "T" end, __concat = function() return "Tc" end}) smt.__add = function(a, b) return "S" end local r = {pcall(function() return "10" + {}, "10" + T, T + "10", "abc" + 1, 1 + "abc", "10" + 1, "0x10" + "1" end)} smt.__add = nil return r[1], r[2], r[3], r[4], r[5], r[6], r[7], r[8]`, "true|S|S|T|S|S|11|17", nil},
	{"C16", "tonumber-wide-negative-integer-with-base", `return tonumber("-10000000000000000", 16) == -2^64, tonumber("-0x10000000000000000", 16) == nil or tonumber("-0x10000000000000000", 16) == -2^64, tonumber("-ffffffffffffffffff", 16) == -2^72, tonumber("  -10000000000000000  ", 16) == -2^64, tonumber("-1" .. ("0"):rep(70), 2) == -2^70`, "true|true|true|true|true", nil},
	{"C12", "more-results-than-fit-into-the-resumer-leave-a-dead-coroutine", `local t = {} for i = 1, 4000 do t[i] = i end
local co
local function deep(n) local a1, a2, a3, a4, a5, a6, a7, a8, a9, a10 = 1, 2, 3, 4, 5, 6, 7, 8, 9, 10 if n == 0 then return pcall(function() return select("#", coroutine.resume(co)) end) end local r1, r2 = deep(n - 1) return r1, r2, a1 end
local caught
for depth = 50, 230, 10 do co = coroutine.create(function() return unpack(t) end) local ok, e = deep(depth) if not ok then caught = tostring(e):match("registry overflow") break end end
local s1 = coroutine.status(co)
local ok2, m2 = coroutine.resume(co, "A")
local w = coroutine.wrap(function() return unpack(t) end)
return caught, s1, ok2, type(m2), coroutine.status(co)`, "registry overflow|dead|false|string|dead", nil},
	{"C14", "set-with-escaped-punctuation-before-a-dash", `local function m(s, p) return (s:find(p)) ~= nil end return m("-", "[%.-_]"), m(".", "[%.-_]"), m("_", "[%.-_]"), m("A", "[%.-_]"), m("0", "[%.-_]"), m("-", "[%--x]"), m("a", "[%--x]"), m("b", "[%a-z]") , m("-", "[%a-]"), m("+", "[%+-%.]")`, "true|true|true|false|false|true|false|true|true|true", nil},
	{"C18", "maxn-ignores-cleared-keys", `local t = {1, 2, 3} t[7.5] = "x" t[7.5] = nil t[2^27] = "y" t[2^27] = nil t[-3] = "z" local u = {} u[7.5] = 1 local w = {} w[2^27] = 1 w[2^27] = nil w[9.25] = 2 return table.maxn(t), table.maxn({}), table.maxn(u), table.maxn(w)`, "3|0|7.5|9.25", nil},
	{"C18", "remove-from-a-list-emptied-by-assignment", `local t = {1, 2, 3} t[3] = nil t[2] = nil t[1] = nil local u = {1, 2} u[2] = nil return select("#", table.remove(t)), select("#", table.remove(t, nil)), #t, table.remove(u), select("#", table.remove(u)), #u`, "0|0|0|1|0|0", nil},
	{"C19", "read-by-count-beyond-65536", `local f = io.open("$F", "w") for i = 1, 20 do f:write(("%05d"):format(i):rep(2000)) end f:close() f = io.open("$F") local a = f:read(65536) local p1 = f:seek() local b = f:read(65537) local p2 = f:seek() f:seek("set", 1) local c = f:read(131073) local p3 = f:seek() local d = f:read(300000) local e = f:read(1) f:close() return #a, p1, #b, p2, #c, p3, c:sub(-5), #d, e`, "65536|65536|65537|131073|131073|131074|40001|68926|nil", nil},
	{"C09", "nil-and-nan-keys-raise-also-for-a-nil-value", `local t = {} local nan = 0/0 return pcall(function() t[nil] = nil end), pcall(function() t[nan] = nil end), pcall(function() return {[nil] = nil} end), pcall(function() t[nil] = 1 end), pcall(function() t[nan] = 1 end), pcall(rawset, t, nil, nil), pcall(rawset, t, nan, nil), next(t) == nil, t[nil] == nil and t[nan] == nil`, "false|false|false|false|false|false|false|true|true", nil},
	{"C01", "function-statements-behind-300-constants", `local parts = {"local cp = {"} for i = 1, 300 do parts[#parts + 1] = (i + 0.5) .. "," end parts[#parts + 1] = "} local obj = {} function obj:name(x) return self == obj, x end function obj.plain(x) return x end local a = {b = {}} function a.b.c() return 'abc' end function a.b:m() return self == a.b end function gfun() return 'g' end local function lfun() return 'l' end return obj:name(7), obj.plain(8), a.b.c(), a.b:m(), gfun(), lfun(), #cp" return loadstring(table.concat(parts))()`, "true|8|abc|true|g|l|300", nil},
	{"C02", "tail-call-to-a-vararg-function-keeps-arg", `local out = {}
for np = 0, 3 do
  local params = {} for i = 1, np do params[i] = "p" .. i end
  local plist = table.concat(params, ",") .. (np > 0 and ", ..." or "...")
  local src = "local function f(" .. plist .. ") return type(arg), arg and arg.n, arg and arg[1] end local function direct(...) local a, b, c = f(...) return a, b, c end local function tail(...) return f(...) end local function tailfixed() return f(1, 2, 3) end return direct, tail, tailfixed"
  local direct, tail, tailfixed = loadstring(src)()
  if (tailfixed()) ~= "table" then out[#out + 1] = np .. "/fixed" end
  for nargs = 0, 5 do
    local args = {} for i = 1, nargs do args[i] = i * 10 end
    local a1, b1, c1 = direct(unpack(args)) local a2, b2, c2 = tail(unpack(args))
    if a1 ~= "table" or a1 ~= a2 or b1 ~= b2 or c1 ~= c2 then out[#out + 1] = np .. "/" .. nargs .. ":" .. tostring(a1) .. tostring(b1) .. tostring(c1) .. "~" .. tostring(a2) .. tostring(b2) .. tostring(c2) end
  end
end
return #out, out[1]`, "0|nil", nil},
	{"C04", "events-are-looked-up-raw-in-the-metatable", `local log = {} local Base = {__tostring = function() return "BASE" end, __call = function() return "called" end, __unm = function() return "neg" end, __index = function() return "idx" end, __newindex = function() log[#log + 1] = "ni" end, __eq = function() return true end, __lt = function() return true end, __le = function() return true end, __concat = function() return "cat" end, __add = function() return "add" end, __len = function() return 99 end}
local Derived = setmetatable({}, {__index = Base})
local a, b = setmetatable({}, Derived), setmetatable({}, Derived)
a.stored = 1
return tostring(a):sub(1, 6), pcall(function() return a() end), pcall(function() return -a end), a.missing, rawget(a, "stored"), #log, a == b, pcall(function() return a < b end), pcall(function() return a <= b end), pcall(function() return a .. "x" end), pcall(function() return a + 1 end), #a`, "table:|false|false|nil|1|0|false|false|false|false|false|0", nil},
	{"C14", "backtracking-is-bounded-by-depth-not-by-work", `local s = ("a"):rep(90) local t = ("a"):rep(40) return s:find("^a-a-a-a-b"), t:find("^a*a*a*a*a*b"), (s .. "b"):find("^a-a-a-a-b"), select("#", s:find("^a-a-a-a-b"))`, "nil|nil|1|1", nil},
	{"C01", "function-statements-behind-600-constants", `local parts = {"local cp = {"} for i = 1, 600 do parts[#parts + 1] = (i + 0.5) .. "," end parts[#parts + 1] = "} local obj = {n = 'obj'} function obj:name(x) return self == obj, x end function obj.plain(x) return x end local s = ('abc'):upper() local r1, r2 = obj:name(7) return r1, r2, obj.plain(8), s, obj.n, ('x'):rep(2), #cp" return loadstring(table.concat(parts))()`, "true|7|8|ABC|obj|xx|600", nil},
	{"C12", "huge-call-stack-size-with-segmented-stack/524264", `local function f(n) if n == 0 then return 0 end return 1 + f(n - 1) end local ok, v = pcall(f, 100) local ok2, v2 = pcall(f, 1000) local co = coroutine.wrap(function() return f(200) end) return ok, v, ok2, v2, co()`, "true|100|true|1000|200", &lua.Options{CallStackSize: 524264, MinimizeStackMemory: true}},
	{"C12", "huge-call-stack-size-with-segmented-stack/524280", `local function f(n) if n == 0 then return 0 end return 1 + f(n - 1) end local ok, v = pcall(f, 100) local ok2, v2 = pcall(f, 1000) local co = coroutine.wrap(function() return f(200) end) return ok, v, ok2, v2, co()`, "true|100|true|1000|200", &lua.Options{CallStackSize: 524280, MinimizeStackMemory: true}},
	{"C12", "huge-call-stack-size-with-segmented-stack/524288", `local function f(n) if n == 0 then return 0 end return 1 + f(n - 1) end local ok, v = pcall(f, 100) local ok2, v2 = pcall(f, 1000) local co = coroutine.wrap(function() return f(200) end) return ok, v, ok2, v2, co()`, "true|100|true|1000|200", &lua.Options{CallStackSize: 524288, MinimizeStackMemory: true}},
	{"C12", "huge-call-stack-size-with-segmented-stack/600000", `local function f(n) if n == 0 then return 0 end return 1 + f(n - 1) end local ok, v = pcall(f, 100) local ok2, v2 = pcall(f, 1000) local co = coroutine.wrap(function() return f(200) end) return ok, v, ok2, v2, co()`, "true|100|true|1000|200", &lua.Options{CallStackSize: 600000, MinimizeStackMemory: true}},
	{"C12", "huge-call-stack-size-with-segmented-stack/2097152", `local function f(n) if n == 0 then return 0 end return 1 + f(n - 1) end local ok, v = pcall(f, 100) local ok2, v2 = pcall(f, 1000) local co = coroutine.wrap(function() return f(200) end) return ok, v, ok2, v2, co()`, "true|100|true|1000|200", &lua.Options{CallStackSize: 2097152, MinimizeStackMemory: true}},
	{"C12", "huge-call-stack-size-with-fixed-stack", `local function f(n) if n == 0 then return 0 end return 1 + f(n - 1) end local ok, v = pcall(f, 100) local ok2, v2 = pcall(f, 1000) local co = coroutine.wrap(function() return f(200) end) return ok, v, ok2, v2, co()`, "true|100|true|1000|200", &lua.Options{CallStackSize: 524288}},
	{"C15", "unsigned-conversions-between-2^63-and-2^64", `return string.format("%x %X %o %u", 2^63 + 2048, 2^64 - 2048, 2^63, 2^63 + 2048), string.format("%x %u %x %o", -1, -1, 255, 8), string.format("%x %X", 2^53, 2^63 - 1024)`, "8000000000000800 FFFFFFFFFFFFF800 1000000000000000000000 9223372036854777856|ffffffffffffffff 18446744073709551615 ff 10|20000000000000 7FFFFFFFFFFFFC00", nil},
	// eighth batch
	{"C19", "read-format-must-be-a-number-or-a-string", `local f = io.open("$F") local a, b, c = pcall(f.read, f, true), pcall(f.read, f, nil), pcall(f.read, f, {}) local d = f:read(2, "*l") f:close() return a, b, c, d`, "false|false|false|01", nil},
	{"C19", "io.lines-on-a-closed-default-input-raises-at-once", `io.input("$F") io.close(io.input()) local closed = pcall(io.lines) io.input("$F") local open = pcall(io.lines) return closed, open`, "false|true", nil},
	{"C20", "empty-path-templates-are-skipped", `package.path = "./?.lua;;;./x/?.lua;" local ok, msg = pcall(require, "nosuchmod") package.path = "" local ok2, msg2 = pcall(require, "nosuchmod2") return ok, msg:find("no file ''", 1, true) == nil, select(2, msg:gsub("no file", "")), ok2, msg2:find("no file", 1, true) == nil`, "false|true|2|false|true", nil},
	{"C17", "getinfo-of-a-level-lost-to-a-tail-call", `local function g() local i = debug.getinfo(2, "Sl") local j = debug.getinfo(3, "S") return i.currentline, i.what, i.source, j.what end local function f() return g() end local a, b, c, d = f() return a, b, c, d`, "-1|tail|=(tail call)|main", nil},
	{"C17", "getlocal-of-a-level-lost-to-a-tail-call", `local mainvar = 5 local function g() local inner = 1 return (debug.getlocal(2, 1)), (debug.setlocal(2, 1, "changed")), (debug.getlocal(1, 1)), (debug.getlocal(3, 1)) end local function f() return g() end local a, b, c, d = f() return a, b, c, d, mainvar`, "nil|nil|inner|mainvar|5", nil},
	{"C17", "getlocal-of-levels-lost-to-two-tail-calls", `local mainvar = 5 local function g() return (debug.getlocal(2, 1)), (debug.getlocal(3, 1)), (debug.setlocal(3, 1, "x")), (debug.getlocal(4, 1)) end local function f() local fl = 1 return g() end local function h() local hl = 2 return f() end local a, b, c, d = h() return a, b, c, d, mainvar`, "nil|nil|nil|mainvar|5", nil},
	{"C17", "getlocal-above-a-level-lost-to-a-tail-call", `local function g() return (debug.getlocal(2, 1)), (debug.getlocal(3, 1)), (debug.getlocal(3, 2)) end local function f() return g() end local function outer() local o1, o2 = "a", "b" local r1, r2, r3 = f() return r1, r2, r3 end return outer()`, "nil|o1|o2", nil},
	{"C15", "ldexp-with-an-exponent-beyond-int", `return math.ldexp(1, 2^63) == math.huge, math.ldexp(1, -2^63), math.ldexp(0, 2^63), math.ldexp(2^-1074, 1074), math.ldexp(2^1023, -2000) == 2^-977, math.ldexp(2^-1074, 2097) == 2^1023, math.ldexp(-1, 2^40) == -math.huge, math.ldexp(1, 1024) == math.huge, math.ldexp(1, 1023) == 2^1023`, "true|0|0|1|true|true|true|true|true", nil},
	{"C14", "gsub-returns-a-string-also-without-a-match", `return type((string.gsub(123, "x", "y"))), (string.gsub(123, "x", "y")), select(2, string.gsub(123, "x", "y")), type((string.gsub(123, "2", "y"))), (string.gsub(12.5, "%.", ","))`, "string|123|0|string|12,5", nil},
	// seventh batch
	{"C15", "string-position-minus-2^63", `return ("abc"):sub(-2^63), ("abc"):sub(-math.huge), (("abc"):find("b", -2^63)), (("abc"):byte(-2^63)), ("abc"):sub(-2^63, -2^63), ("abc"):byte(-2^63, -1)`, "abc|abc|2|nil||97|98|99", nil},
	{"C15", "random-argument-count", `math.randomseed(1) local a = math.random(1, 2) return pcall(math.random, 1, 2, 3), a >= 1 and a <= 2, pcall(math.random, 2, 1)`, "false|true|false", nil},
	{"C17", "getlocal-needs-a-positive-number", `local function f(a, b) local c = 3 return debug.getlocal(1, 0), debug.getlocal(1, -1), debug.setlocal(1, 0, "v"), debug.setlocal(1, -2, "v"), (debug.getlocal(1, 1)), a, b, c end local outer = "o" return f(1, 2)`, "nil|nil|nil|nil|a|1|2|3", nil},
	{"C15", "format-missing-argument", `return pcall(string.format, "%s"), pcall(string.format, "%s %s", "a"), pcall(string.format, "%q"), pcall(string.format, "%d")`, "false|false|false|false", nil},
	{"C15", "format-invalid-directive", `return pcall(string.format, "%y", 1), pcall(string.format, "%", 1), pcall(string.format, "%ld", 1), pcall(string.format, "%123d", 1), pcall(string.format, "%.123f", 1), pcall(string.format, "%-+ #0-d", 1), (string.format("%5.2f|%-5d|%+d|%%", 1.5, 3, 4))`, "false|false|false|false|false|false| 1.50|3    |+4|%", nil},
	{"C16", "tonumber-wide-integer-with-base", `return tonumber("0x10000000000000000", 16) == tonumber("0x10000000000000000"), tonumber("10000000000000000", 16) == 2^64, tonumber("ffffffffffffffffff", 16) == 2^72, tonumber("1" .. ("0"):rep(70), 2) == 2^70, tonumber("zz", 36)`, "true|true|true|true|1295", nil},
	{"C16", "date-strips-one-bang", `return os.date("!!%H", 0), os.date("!%H", 0)`, "!00|00", nil},
	// sixth batch
	{"C04", "xpcall-calls-a-callable-object", `local c = setmetatable({}, {__call = function(self, ...) return "called", self ~= nil end}) local a, b, c2 = xpcall(c, function(m) return m end) local d, e = xpcall(nil, function(m) return "H" end) return a, b, c2, d, e`, "true|called|true|false|H", nil},
	{"C19", "setvbuf-keeps-pending-bytes", `local f = io.open("$F", "w") f:setvbuf("full", 1024) f:write("abc") f:setvbuf("no") f:write("def") f:setvbuf("full", 16) f:write("ghi") f:setvbuf("full", 64) f:write("jkl") f:close() local g = io.open("$F") local s = g:read("*a") g:close() return s`, "abcdefghijkl", nil},
	{"C19", "setvbuf-line-mode", `local f = io.open("$F", "w") local ok = pcall(f.setvbuf, f, "line") f:write("abc\n") f:write("de") f:close() local g = io.open("$F") local s = g:read("*a") g:close() return ok, s`, "true|abc\nde", nil},
	{"C19", "failed-number-read-is-one-nil", `local f = io.open("$F", "w") f:write("a\nXY\n") f:close() f = io.open("$F") local n = select("#", f:read("*l", "*n", "*l")) f:seek("set", 0) local a, b = f:read("*l", "*n") f:seek("end") local m = select("#", f:read("*n")) f:close() return n, a, b, m`, "2|a|nil|1", nil},
	{"C19", "read-format-errors", `local f = io.open("$F") local r = {pcall(f.read, f, "*x"), pcall(f.read, f, "*"), pcall(f.read, f, ""), pcall(f.read, f, "l")} f:close() return r[1], r[2], r[3], r[4]`, "false|false|false|false", nil},
	{"C16", "tonumber-number-with-base", `return tonumber(10, 16), tonumber(1e1, 2), tonumber(10), tonumber(10, 10), tonumber(1.5, 16), tonumber(9, 8), tonumber("10", 16), tonumber(255, 36)`, "16|2|10|10|nil|nil|16|2777", nil},
	{"C06", "wrap-prepends-caller-position", "local co = coroutine.wrap(function() error(\"boom\", 0) end)\nlocal ok, e = pcall(function()\n co() end)\nlocal co2 = coroutine.wrap(function() error(\"b2\", 0) end)\nlocal ok2, e2 = pcall(co2)\nlocal co3 = coroutine.wrap(function() error({}, 0) end)\nlocal ok3, e3 = pcall(function() co3() end)\nreturn (e:gsub(\"^.-:\", \"\")), e2, type(e3)", "3: boom|b2|table", nil},
	{"C17", "wrap-prepends-caller-position-to-positioned-message", "local co = coroutine.wrap(function()\n error(\"lvl1\") end)\nlocal ok, e = pcall(function()\n\n co() end)\nreturn (e:gsub(\"[^:]*:(%d+): \", \"%1>\"))", "5>2>lvl1", nil},
	{"C12", "registry-overflow-in-the-resumer-keeps-the-coroutine-consistent", `local t = {} for i = 1, 4000 do t[i] = i end
local co
local function mk() return coroutine.create(function() local x = 1 local function get() return x end local a = coroutine.yield(unpack(t)) x = 2 local b = coroutine.yield("second", a, get()) return "end", b end) end
local function deep(n) local a1, a2, a3, a4, a5, a6, a7, a8, a9, a10 = 1, 2, 3, 4, 5, 6, 7, 8, 9, 10 if n == 0 then return pcall(function() return select("#", coroutine.resume(co)) end) end local r1, r2 = deep(n - 1) return r1, r2, a1 end
local caught
for depth = 50, 230, 10 do co = mk() local ok, e = deep(depth) if not ok then caught = tostring(e):match("registry overflow") break end end
local s1 = coroutine.status(co)
local ok2, tag2, a2, x2 = coroutine.resume(co, "A")
local ok3, tag3, b3 = coroutine.resume(co, "B")
return caught, s1, ok2, tag2, a2, x2, ok3, tag3, b3, coroutine.status(co)`, "registry overflow|suspended|true|second|A|2|true|end|B|dead", nil},
	{"C18", "remove-from-empty-list-returns-nothing", `local t = {10, 20, 30} return select("#", table.remove({})), select("#", table.remove({}, nil)), select("#", table.remove({}, 1)), select("#", table.remove({1, 2}, 5)), table.remove(t), table.remove(t, 1), table.remove(t), select("#", table.remove(t)), #t`, "0|0|0|0|30|10|20|0|0", nil},
	{"C17", "loadfile-skips-a-first-line-starting-with-hash", `local f = io.open("$F", "w") f:write("#!/usr/bin/env lua\nlocal x = 1\nerror(\"at line 3\")\n") f:close() local fn, e = loadfile("$F") if not fn then return "load failed: " .. tostring(e) end local ok, m = pcall(fn) local g = io.open("$F", "w") g:write("#!x\nreturn debug.getinfo(1, \"l\").currentline, ...") g:close() return ok, (m:gsub("^.*:(%d+): ", "%1: ")), loadfile("$F")("a")`, "false|3: at line 3|2|a", nil},
	{"C17", "hidden-for-variables-inactive-in-the-init-expressions", `local out = {}
local function probe(ret) local names, i = {}, 1 while true do local n = debug.getlocal(2, i) if not n then break end names[#names + 1] = n i = i + 1 end out[#out + 1] = table.concat(names, " ") return ret end
local function f() local a, b = 1, 2 for i = probe(1), probe(1), probe(1) do local c = 3 probe() end for k, v in probe(next), {x = 1} do probe() end end
f()
return out[1], out[2], out[3], out[4], out[5], out[6]`, "a b|a b (*temporary)|a b (*temporary) (*temporary)|a b (for index) (for limit) (for step) i c|a b|a b (for generator) (for state) (for control) k v", nil},
	// re-entrancy: a library function whose callback runs the same library function again (each case
	// twice in one chunk: scratch state left by the first round must not leak into the second)
	{"C14", "reentrant/gsub-function-inside-gsub-function", `local function up(w) return (w:gsub("%a", function(c) return c:upper() end)) end local function run() return (("ab cd ef"):gsub("%a+", function(w) return "<" .. up(w) .. ">" end)) end local a = run() local b = run() return a, b, (("x y z w"):gsub("%a", function(c) return (c .. c):gsub("%a", function(d) return d:upper() end) end))`, "<AB> <CD> <EF>|<AB> <CD> <EF>|XX YY ZZ WW", nil},
	{"C14", "reentrant/gmatch-inside-gsub-function", `local function count(w) local n = 0 for _ in w:gmatch("%a") do n = n + 1 end return n end local function run() return (("ab cde f"):gsub("%a+", function(w) return count(w) end)) end return run(), run()`, "2 3 1|2 3 1", nil},
	{"C14", "reentrant/gsub-table-and-find-inside-gsub-function", `local function run() return (("a1 b22 c333"):gsub("%a%d+", function(w) local s, e = w:find("%d+") return w:sub(1, 1) .. (w:sub(s, e):gsub("%d", {["1"] = "x", ["2"] = "y", ["3"] = "z"})) end)) end return run(), run()`, "ax byy czzz|ax byy czzz", nil},
	{"C18", "reentrant/sort-inside-comparator", `local function key(row) local c = {} for i, v in ipairs(row) do c[i] = v end table.sort(c) return table.concat(c, ",") end local function run() local rows = {{3, 1, 2}, {9, 8}, {2, 1}, {5}, {4, 6, 1}, {7, 0}, {3, 3}, {1}} table.sort(rows, function(a, b) return key(a) < key(b) end) local out = {} for i, r in ipairs(rows) do out[i] = table.concat(r, "") end return table.concat(out, " ") end return run(), run()`, "70 1 21 312 461 33 5 98|70 1 21 312 461 33 5 98", nil},
	{"C18", "reentrant/sort-inside-comparator-with-own-comparator", `local function run() local rows = {{1, 3, 2}, {2, 9}, {5, 4, 6}, {0, 8}, {7}, {1, 1}, {4, 2}, {2}, {5}} table.sort(rows, function(a, b) table.sort(a, function(x, y) return x > y end) table.sort(b, function(x, y) return x > y end) return a[1] < b[1] end) local out = {} for i, r in ipairs(rows) do out[i] = table.concat(r, "") end return table.concat(out, " ") end return run(), run()`, "11 2 321 42 5 654 7 80 92|11 2 321 42 5 654 7 80 92", nil},
	// C04: the string metatable's __index replaced after the library was opened: method calls follow it
	{"C04", "replaced-string-index-table", `local smt = getmetatable("") local old = smt.__index smt.__index = {upper = function(s) return "custom:" .. s end, extra = function(s) return "extra:" .. s end} local a, b, c = ("x"):upper(), ("x").upper("y"), ("x"):extra() local d = pcall(function() return ("x"):lower() end) smt.__index = old return a, b, c, d, ("x"):upper()`, "custom:x|custom:y|extra:x|false|X", nil},
	{"C04", "replaced-string-index-function", `local smt = getmetatable("") local old = smt.__index smt.__index = function(s, k) return function(self, ...) return k .. "(" .. self .. ")" end end local a, b = ("x"):upper(), ("x"):anything() smt.__index = old return a, b, ("x"):upper()`, "upper(x)|anything(x)|X", nil},
	// C19 (file cases use the placeholder $F for a scratch file that holds 0123456789)
	{"C19", "io.output-truncates", `io.output("$F") io.write("ab") io.close() local f = io.open("$F") local s = f:read("*a") f:close() return s`, "ab", nil},
	{"C19", "io.lines-missing-file-raises", `return pcall(io.lines, "$F.does-not-exist")`, "false", nil},
	{"C19", "io.lines-default-input-iterator-called-directly", `io.input("$F") local it = io.lines() local a = it() io.close(io.input()) return a`, "0123456789", nil},
	{"C19", "read-negative-count", `local f = io.open("$F") local ok, v = pcall(f.read, f, -1) f:close() return ok, (type(v) == "string" or v == nil)`, "true|true", nil},
}

func runPinned(r *harness.Run, prop string) {
	nilArgsFamily(r, prop)
	for _, pc := range pinnedCases {
		if pc.prop != prop {
			continue
		}
		var L *lua.LState
		if pc.opts != nil {
			L = lua.NewState(*pc.opts)
		} else {
			L = lua.NewState()
		}
		src := pc.src
		if strings.Contains(src, "$F") {
			dir := harness.WorkDir("pinned")
			f := filepath.Join(dir, "pinned-"+pc.name+".txt")
			os.WriteFile(f, []byte("0123456789"), 0o644)
			src = strings.ReplaceAll(src, "$F", f)
			defer os.RemoveAll(dir)
		}
		got := ""
		func() {
			defer func() {
				if rec := recover(); rec != nil {
					got = fmt.Sprintf("GO PANIC: %v", rec)
				}
			}()
			if err := L.DoString(src); err != nil {
				got = "ERROR"
				if pc.want != "ERROR" {
					got = "ERROR: " + err.Error()
				}
				return
			}
			var parts []string
			for i := 1; i <= L.GetTop(); i++ {
				parts = append(parts, L.Get(i).String())
			}
			got = strings.Join(parts, "|")
		}()
		L.Close()
		// results beyond the expected ones (e.g. the message after a `false`) are not compared
		want := pc.want
		gf, wf := strings.Split(got, "|"), strings.Split(want, "|")
		if len(gf) > len(wf) && want != "ERROR" {
			gf = gf[:len(wf)]
		}
		ok := strings.Join(gf, "|") == want
		r.Eval("pinned/"+pc.name, true, func() interface{} {
			return map[string]interface{}{"case": "pinned", "name": pc.name, "source": pc.src, "expected": pc.want}
		})
		if !ok {
			r.Violation("pinned/"+pc.name, fmt.Sprintf("pinned case %s: got %q, expected %q\nsource: %s", pc.name, got, want, pc.src), map[string]interface{}{"source": pc.src, "expected": pc.want, "got": got})
		}
	}
}

// pinnedGoCallByParam: a protected CallByParam whose arguments do not fit into the registry returns
// the error (it pushes the arguments before the protected region starts).
func pinnedGoCallByParam(r *harness.Run) {
	for _, n := range []int{100, 250, 1000, 6000} {
		for _, opts := range []lua.Options{{RegistrySize: 256}, {}} {
			L := lua.NewState(opts)
			fn := L.NewFunction(func(L *lua.LState) int { L.Push(lua.LNumber(L.GetTop())); return 1 })
			args := make([]lua.LValue, n)
			for i := range args {
				args[i] = lua.LNumber(i)
			}
			limit := 5120
			if opts.RegistrySize != 0 {
				limit = opts.RegistrySize
			}
			problem := ""
			func() {
				defer func() {
					if rec := recover(); rec != nil {
						problem = fmt.Sprintf("Go panic escaped the protected CallByParam: %v", rec)
					}
				}()
				top := L.GetTop()
				err := L.CallByParam(lua.P{Fn: fn, NRet: 1, Protect: true}, args...)
				switch {
				case err == nil && n+2 > limit:
					problem = "no error although the arguments cannot fit"
				case err == nil && (L.GetTop() != top+1 || L.Get(-1) != lua.LNumber(n)):
					problem = fmt.Sprintf("wrong result: top %d, value %v", L.GetTop()-top, L.Get(-1))
				case err != nil && n+16 < limit:
					problem = "failed although the arguments fit: " + err.Error()
				case err != nil && L.GetTop() != top:
					problem = fmt.Sprintf("after the failure %d values are left on the caller's stack", L.GetTop()-top)
				}
			}()
			sig := fmt.Sprintf("goapi/callbyparam-args-overflow/n=%d/registry=%d", n, limit)
			r.Eval(sig, true, func() interface{} {
				return map[string]interface{}{"case": "protected CallByParam", "arguments": n, "registry": limit}
			})
			if problem != "" {
				r.Violation("goapi/callbyparam-args-overflow", fmt.Sprintf("%d arguments, registry %d: %s", n, limit, problem), map[string]interface{}{"arguments": n, "registry": limit})
			}
			L.Close()
		}
	}
}

// overflowHistory — "afterwards the interpreter is as if the protected call had returned normally
// ... and all later behaviour": after every history of up to two handled errors (pcall, xpcall
// with a handler that returns / that itself raises, Go-side PCall with and without handler, an
// error inside a coroutine, a handled call-stack overflow), a call-stack overflow is provoked
// under xpcall; the recursion depth reached, the delivered value and the number of handler runs
// must be exactly those of a fresh state — on the main thread and inside a coroutine, for the
// fixed and the auto-growing call stack.
func overflowHistory(r *harness.Run) {
	steps := map[string]string{
		"pcall":          `pcall(error, "e")`,
		"xpcall-ok":      `xpcall(function() error("e") end, function(m) return "h" end)`,
		"xpcall-hfails":  `xpcall(function() error("e") end, function(m) error("in handler") end)`,
		"xpcall-fault":   `xpcall(function() local x = nil + 1 end, function(m) return "h" end)`,
		"gopcall":        `gopcall(function() error("e") end)`,
		"gopcall-h":      `gopcallh(function() error("e") end)`,
		"gopcall-hfails": `gopcallhf(function() error("e") end)`,
		"coroutine":      `coroutine.resume(coroutine.create(function() xpcall(function() error("e") end, function(m) return "h" end) error("x") end))`,
		"overflow":       `xpcall(function() local function r() return 1 + r() end return r() end, function(m) return "h" end)`,
	}
	names := []string{"pcall", "xpcall-ok", "xpcall-hfails", "xpcall-fault", "gopcall", "gopcall-h", "gopcall-hfails", "coroutine", "overflow"}
	probe := `local depth, n = 0, 0
local function r() depth = depth + 1 return 1 + r() end
local ok, m = xpcall(r, function(m) n = n + 1 return "H" end)
return depth, tostring(ok), tostring(m), n`
	for _, opts := range []lua.Options{{CallStackSize: 64}, {CallStackSize: 64, MinimizeStackMemory: true}, {}} {
		for _, where := range []string{"main", "coroutine"} {
			run := func(hist []string) string {
				L := lua.NewState(opts)
				defer L.Close()
				mk := func(handler int) lua.LGFunction {
					return func(L *lua.LState) int {
						var h *lua.LFunction
						switch handler {
						case 1:
							h = L.NewFunction(func(L *lua.LState) int { L.Push(lua.LString("gh")); return 1 })
						case 2:
							h = L.NewFunction(func(L *lua.LState) int { L.RaiseError("go handler fails"); return 0 })
						}
						L.Push(L.Get(1))
						err := L.PCall(0, 0, h)
						L.Push(lua.LBool(err == nil))
						return 1
					}
				}
				L.SetGlobal("gopcall", L.NewFunction(mk(0)))
				L.SetGlobal("gopcallh", L.NewFunction(mk(1)))
				L.SetGlobal("gopcallhf", L.NewFunction(mk(2)))
				src := ""
				for _, h := range hist {
					src += steps[h] + "\n"
				}
				src += probe
				if where == "coroutine" {
					src = "local co = coroutine.create(function()\n" + src + "\nend)\nreturn select(2, coroutine.resume(co))"
				}
				res := ""
				func() {
					defer func() {
						if rec := recover(); rec != nil {
							res = fmt.Sprintf("GO PANIC: %v", rec)
						}
					}()
					if err := L.DoString(src); err != nil {
						res = "ERROR: " + err.Error()
						return
					}
					var parts []string
					for i := 1; i <= L.GetTop(); i++ {
						parts = append(parts, L.Get(i).String())
					}
					res = strings.Join(parts, "|")
				}()
				return res
			}
			base := run(nil)
			cfg := fmt.Sprintf("css=%d/minstack=%v/%s", opts.CallStackSize, opts.MinimizeStackMemory, where)
			var hists [][]string
			for _, a := range names {
				hists = append(hists, []string{a})
				for _, b := range names {
					hists = append(hists, []string{a, b})
				}
			}
			for _, h := range hists {
				got := run(h)
				sig := "overflow-after/" + strings.Join(h, ",")
				r.Eval(sig+"/"+cfg, true, func() interface{} {
					return map[string]interface{}{"case": "call-stack overflow after a history of handled errors", "history": h, "configuration": cfg, "fresh_state_gives": base}
				})
				if got != base {
					r.Violation(sig, fmt.Sprintf("%s: after %v the overflow probe gives (depth|ok|value|handler runs) = %s, a fresh state gives %s", cfg, h, got, base), map[string]interface{}{"history": h, "configuration": cfg})
				}
			}
		}
	}
}

// pinnedGoAPI5: Go-API cases of the fifth batch of repairs.
func pinnedGoAPI5(r *harness.Run, prop string) {
	check := func(sig string, f func(L *lua.LState) string) {
		L := lua.NewState()
		defer L.Close()
		problem := ""
		func() {
			defer func() {
				if rec := recover(); rec != nil {
					problem = fmt.Sprintf("Go panic: %v", rec)
				}
			}()
			problem = f(L)
		}()
		r.Eval(sig, true, func() interface{} { return map[string]interface{}{"case": "pinned Go API", "name": sig} })
		if problem != "" {
			r.Violation(sig, sig+": "+problem, map[string]interface{}{"name": sig})
		}
	}
	if prop == "C10" {
		check("goapi/concat-no-operands", func(L *lua.LState) string {
			if s := L.Concat(); s != "" {
				return fmt.Sprintf("Concat() on an empty stack gives %q", s)
			}
			L.Push(lua.LString("caller-value"))
			if s := L.Concat(); s != "" || L.GetTop() != 1 {
				return fmt.Sprintf("Concat() gives %q, top %d", s, L.GetTop())
			}
			if s := L.Concat(lua.LString("x")); s != "x" {
				return fmt.Sprintf("Concat(x) gives %q", s)
			}
			return ""
		})
		check("goapi/replace-globals-index", func(L *lua.LState) string {
			nt := L.NewTable()
			nt.RawSetString("print", L.GetGlobal("print"))
			L.Replace(lua.GlobalsIndex, nt)
			L.SetGlobal("y", lua.LString("v"))
			if L.Get(lua.GlobalsIndex) != nt || L.GetGlobal("y") != lua.LString("v") {
				return "Get(GlobalsIndex)/GetGlobal do not see the new table"
			}
			if err := L.DoString(`seen = y  z = "from-lua"`); err != nil {
				return err.Error()
			}
			if nt.RawGetString("seen") != lua.LString("v") || L.GetGlobal("z") != lua.LString("from-lua") {
				return fmt.Sprintf("a chunk loaded after Replace(GlobalsIndex) does not use the new table: seen=%v z=%v", nt.RawGetString("seen"), L.GetGlobal("z"))
			}
			th, _ := L.NewThread()
			if th.GetGlobal("y") != lua.LString("v") {
				return "a thread created afterwards does not see the new globals"
			}
			return ""
		})
		check("goapi/replace-upvalue-index-at-top-level", func(L *lua.LState) string {
			L.Push(lua.LNumber(7))
			L.Replace(lua.UpvalueIndex(1), lua.LNumber(1))
			if L.GetTop() != 1 || L.Get(1) != lua.LNumber(7) {
				return fmt.Sprintf("the stack changed: top %d", L.GetTop())
			}
			// inside a host closure the same call replaces the upvalue
			fn := L.NewClosure(func(L *lua.LState) int {
				L.Replace(lua.UpvalueIndex(1), lua.LString("new"))
				L.Replace(lua.UpvalueIndex(5), lua.LString("beyond"))
				L.Push(L.Get(lua.UpvalueIndex(1)))
				return 1
			}, lua.LString("old"))
			if err := L.CallByParam(lua.P{Fn: fn, NRet: 1, Protect: true}); err != nil {
				return err.Error()
			}
			if L.Get(-1) != lua.LString("new") {
				return fmt.Sprintf("Replace on the upvalue of a host closure gave %v", L.Get(-1))
			}
			return ""
		})
		check("goapi/get-upvalue-index-at-top-level", func(L *lua.LState) string {
			if v := L.Get(lua.UpvalueIndex(1)); v != lua.LNil {
				return fmt.Sprintf("got %v", v)
			}
			return ""
		})
	}
	if prop == "C06" {
		check("goapi/resume-on-the-handle-of-a-wrapped-coroutine", func(L *lua.LState) string {
			if err := L.DoString(`w = coroutine.wrap(function(a) th = coroutine.running() local b = coroutine.yield(a + 1) local c = coroutine.yield(b + 1) error("boom", 0) end) first = w(1)`); err != nil {
				return err.Error()
			}
			th := L.GetGlobal("th").(*lua.LState)
			st, err, vals := L.Resume(th, nil, lua.LNumber(10))
			if st != lua.ResumeYield || err != nil || len(vals) != 1 || vals[0] != lua.LNumber(11) {
				return fmt.Sprintf("first Resume: %v %v %v, expected yield [11]", st, err, vals)
			}
			st, err, vals = L.Resume(th, nil, lua.LNumber(20))
			if ae, ok := err.(*lua.ApiError); st != lua.ResumeError || !ok || ae.Object != lua.LString("boom") || vals != nil {
				return fmt.Sprintf("second Resume: %v %v %v, expected the error value boom", st, err, vals)
			}
			if err := L.DoString(`local w2 = coroutine.wrap(function() error("x", 0) end) local ok, e = pcall(w2) assert(ok == false and e == "x", tostring(e))`); err != nil {
				return "a wrap function must still raise in its caller: " + err.Error()
			}
			return ""
		})
		for _, withFn := range []bool{false, true} {
			withFn := withFn
			check(fmt.Sprintf("goapi/resume-on-a-thread-made-by-coroutine.create/fn=%v", withFn), func(L *lua.LState) string {
				if err := L.DoString(`other_ran = false function other() other_ran = true end co = coroutine.create(function(a, b) local c = coroutine.yield(a + b) return "done", c end)`); err != nil {
					return err.Error()
				}
				co := L.GetGlobal("co").(*lua.LState)
				var fn *lua.LFunction
				if withFn {
					fn = L.GetGlobal("other").(*lua.LFunction)
				}
				st, err, vals := L.Resume(co, fn, lua.LNumber(1), lua.LNumber(2))
				if st != lua.ResumeYield || err != nil || len(vals) != 1 || vals[0] != lua.LNumber(3) {
					return fmt.Sprintf("first Resume: %v %v %v, expected yield [3]", st, err, vals)
				}
				st, err, vals = L.Resume(co, fn, lua.LString("x"))
				if st != lua.ResumeOK || err != nil || len(vals) != 2 || vals[0] != lua.LString("done") || vals[1] != lua.LString("x") {
					return fmt.Sprintf("second Resume: %v %v %v, expected ok [done x]", st, err, vals)
				}
				if L.GetGlobal("other_ran") != lua.LFalse {
					return "the function given to Resume ran instead of the thread's own body"
				}
				if err := L.DoString(`assert(coroutine.status(co) == "dead")`); err != nil {
					return err.Error()
				}
				return ""
			})
		}
		check("goapi/resume-new-thread-without-function", func(L *lua.LState) string {
			co, _ := L.NewThread()
			st, err, _ := L.Resume(co, nil)
			if st != lua.ResumeError || err == nil {
				return fmt.Sprintf("Resume(newthread, nil): %v %v, expected an error result", st, err)
			}
			return ""
		})
		check("goapi/host-function-yields-more-values-than-it-got-in-tail-position", func(L *lua.LState) string {
			L.SetGlobal("hostyield", L.NewFunction(func(L *lua.LState) int {
				return L.Yield(lua.LString("y1"), lua.LString("y2"), lua.LString("y3"), L.Get(1))
			}))
			if err := L.DoString(`co = coroutine.create(function(a) return hostyield(a) end) co2 = coroutine.wrap(function(a) local r = hostyield(a) return "ret", r end) function three(...) return select("#", ...), ... end`); err != nil {
				return err.Error()
			}
			if err := L.DoString(`local n, ok, a, b, c, d = three(coroutine.resume(co, "arg")) assert(n == 5 and ok and a == "y1" and b == "y2" and c == "y3" and d == "arg", "tail position: " .. tostring(n) .. " " .. tostring(a) .. " " .. tostring(d))
				local n2, a2, b2, c2, d2 = three(co2("arg2")) assert(n2 == 4 and a2 == "y1" and c2 == "y3" and d2 == "arg2", "call position: " .. tostring(n2))
				local ok3, r3 = coroutine.resume(co, "back") assert(ok3 and r3 == "back" and coroutine.status(co) == "dead", "after the yield: " .. tostring(r3))
				local g = {} for x, y, z in coroutine.wrap(function() return hostyield("it") end) do g[#g + 1] = x .. y .. z break end assert(g[1] == "y1y2y3")`); err != nil {
				return firstLine(err.Error())
			}
			return ""
		})
		check("goapi/refused-resume-leaves-no-frame", func(L *lua.LState) string {
			if err := L.DoString(`count = 0 function body(...) count = count + 1 coroutine.yield() return "done" end`); err != nil {
				return err.Error()
			}
			co, _ := L.NewThread()
			fn := L.GetGlobal("body").(*lua.LFunction)
			many := make([]lua.LValue, 200000)
			for i := range many {
				many[i] = lua.LNumber(i)
			}
			if st, err, _ := L.Resume(co, fn, many...); st != lua.ResumeError || err == nil {
				return "a resume with 200000 arguments was not refused"
			}
			if st, _, _ := L.Resume(co, fn, lua.LNumber(1)); st != lua.ResumeYield {
				return fmt.Sprintf("second resume: state %v", st)
			}
			st, _, vals := L.Resume(co, fn)
			if st != lua.ResumeOK || len(vals) != 1 || vals[0] != lua.LString("done") {
				return fmt.Sprintf("third resume: state %v values %v", st, vals)
			}
			if c := L.GetGlobal("count"); c != lua.LNumber(1) {
				return fmt.Sprintf("the body ran %v times", c)
			}
			return ""
		})
		check("goapi/go-body-yields", func(L *lua.LState) string {
			runs := 0
			goFn := L.NewFunction(func(L *lua.LState) int { runs++; return L.Yield(lua.LString("yielded")) })
			co, _ := L.NewThread()
			st, _, vals := L.Resume(co, goFn, lua.LNumber(0))
			if st != lua.ResumeYield || len(vals) != 1 || vals[0] != lua.LString("yielded") || L.Status(co) != "suspended" {
				return fmt.Sprintf("first resume: state %v values %v status %s", st, vals, L.Status(co))
			}
			st, _, vals = L.Resume(co, goFn, lua.LNumber(10), lua.LString("arg"))
			if st != lua.ResumeOK || len(vals) != 2 || L.Status(co) != "dead" || runs != 1 {
				return fmt.Sprintf("second resume: state %v values %v status %s, body ran %d times", st, vals, L.Status(co), runs)
			}
			if st, err, _ := L.Resume(co, goFn); st != lua.ResumeError || err == nil {
				return "a third resume of the dead thread was not refused"
			}
			return ""
		})
	}
}

// shebangLines — C17 through the file loader: a first line that starts with '#' is skipped but still
// counts as a line: error positions, currentline and linedefined of files with and without such a
// line, with LF / CRLF / CR line ends, with the '#' line being the whole file or not.
func shebangLines(r *harness.Run) {
	dir := harness.WorkDir("shebang")
	defer os.RemoveAll(dir)
	for _, first := range []string{"", "#!/usr/bin/lua", "#", "# a comment line"} {
		for _, eol := range []string{"\n", "\r\n", "\r"} {
			if first != "" && eol == "\r" {
				continue // luaL_loadfile skips the '#' line up to the next LF: a CR-only file is one such line
			}
			for _, body := range []struct {
				name, src                 string
				errLine, curLine, defLine int
			}{
				// lines are given relative to the first body line (1-based)
				{"fault", "local x = 1\nlocal y = nil + x\nreturn y", 2, 0, 0},
				{"currentline", "local a = 1\n\nreturn debug.getinfo(1, 'l').currentline", 0, 3, 0},
				{"linedefined", "local z\n\n\nlocal function f()\nend\nreturn debug.getinfo(f, 'S').linedefined", 0, 0, 4},
				{"error-call", "local q = 2\n\nerror('boom')", 3, 0, 0},
			} {
				text := strings.ReplaceAll(body.src, "\n", eol)
				shift := 0
				if first != "" {
					text = first + eol + text
					shift = 1
				}
				f := filepath.Join(dir, "prog.lua")
				os.WriteFile(f, []byte(text), 0o644)
				L := lua.NewState()
				got, want := "", ""
				fn, err := L.LoadFile(f)
				if err != nil {
					got = "load error: " + err.Error()
				} else {
					L.Push(fn)
					err = L.PCall(0, 1, nil)
					switch {
					case body.errLine > 0:
						want = fmt.Sprintf(":%d:", body.errLine+shift)
						if err == nil {
							got = "no error"
						} else if m := regexp.MustCompile(`prog\.lua:(\d+):`).FindStringSubmatch(err.Error()); m != nil {
							got = ":" + m[1] + ":"
						} else {
							got = err.Error()
						}
					case err != nil:
						got = "error: " + err.Error()
					default:
						got = L.Get(-1).String()
						want = fmt.Sprint(body.curLine + body.defLine + shift)
					}
				}
				L.Close()
				sig := fmt.Sprintf("loadfile-lines/%s/first=%q", body.name, first)
				r.Eval(sig+fmt.Sprintf("/eol=%q", eol), true, func() interface{} {
					return map[string]interface{}{"case": "LoadFile line numbers", "first_line": first, "eol": eol, "body": body.name}
				})
				if got != want {
					r.Violation(sig, fmt.Sprintf("file %q (line end %q): got %s, expected %s", text, eol, got, want), map[string]interface{}{"file": text})
				}
			}
		}
	}
}

// requireHistories — C20 through the embedding API: two-step histories in which the program or the
// host changes what require consults between two requires.
func requireHistories(r *harness.Run) {
	dir := harness.WorkDir("reqhist")
	defer os.RemoveAll(dir)
	type step func(L *lua.LState) string
	lua1 := func(src, want string) step {
		return func(L *lua.LState) string {
			if err := L.DoString(src); err != nil {
				if want == "ERROR" {
					L.SetTop(0)
					return ""
				}
				return "error: " + err.Error()
			}
			var parts []string
			for i := 1; i <= L.GetTop(); i++ {
				parts = append(parts, L.Get(i).String())
			}
			L.SetTop(0)
			if got := strings.Join(parts, "|"); got != want {
				return fmt.Sprintf("%q gives %q, expected %q", src, got, want)
			}
			return ""
		}
	}
	preload := func(name, result string) step {
		return func(L *lua.LState) string {
			L.PreloadModule(name, func(L *lua.LState) int { L.Push(lua.LString(result)); return 1 })
			return ""
		}
	}
	writeFile := func(name, content string) step {
		return func(L *lua.LState) string {
			os.WriteFile(filepath.Join(dir, name), []byte(content), 0o644)
			return ""
		}
	}
	setPath := lua1(fmt.Sprintf("package.path = %q", filepath.Join(dir, "?.lua")), "")
	register := func(name string, fns ...string) step {
		return func(L *lua.LState) string {
			funcs := map[string]lua.LGFunction{}
			for _, fn := range fns {
				fn := fn
				funcs[fn] = func(L *lua.LState) int { L.Push(lua.LString(name + "." + fn)); return 1 }
			}
			if _, ok := L.RegisterModule(name, funcs).(*lua.LTable); !ok {
				return "RegisterModule(" + name + ") did not return a table"
			}
			return ""
		}
	}
	cases := []struct {
		name  string
		steps []step
	}{
		{"preload-from-go-after-lua-replaced-package.preload", []step{lua1(`package.preload = {other = function() return "o" end}`, ""), preload("hostmod", "from-host"), lua1(`return require "hostmod", require "other"`, "from-host|o")}},
		{"preload-from-go-before-and-after-replacement", []step{preload("m1", "one"), lua1(`local old = package.preload package.preload = {} for k, v in pairs(old) do package.preload[k] = v end`, ""), preload("m2", "two"), lua1(`return require "m1", require "m2"`, "one|two")}},
		{"preload-from-go-wins-over-file", []step{setPath, writeFile("both.lua", `return "from-file"`), lua1(`package.preload = {}`, ""), preload("both", "from-host"), lua1(`return require "both"`, "from-host")}},
		{"syntax-error-in-module-file-then-repaired", []step{setPath, writeFile("fixme.lua", `return (`), lua1(`return require "fixme"`, "ERROR"), lua1(`return package.loaded.fixme == nil`, "true"), writeFile("fixme.lua", `return "repaired"`), lua1(`return require "fixme"`, "repaired")}},
		{"non-string-package.path-then-restored", []step{setPath, writeFile("late.lua", `return "late"`), lua1(`local p = package.path package.path = 5 local ok = pcall(require, "late") package.path = p return ok, package.loaded.late == nil, require "late"`, "false|true|late")}},
		{"raising-searcher-then-removed", []step{lua1(`table.insert(package.loaders, 1, function(n) if n == "boom" and not allow then error("searcher fails") end end) local ok = pcall(require, "boom") allow = true package.preload.boom = function() return "ok-now" end return ok, package.loaded.boom == nil, require "boom"`, "false|true|ok-now")}},
		{"non-table-package.preload-then-restored", []step{lua1(`local p = package.preload package.preload = 7 local ok = pcall(require, "pp") package.preload = p p.pp = function() return "pp" end return ok, package.loaded.pp == nil, require "pp"`, "false|true|pp")}},
		{"register-module-twice-adds-functions", []step{register("hm", "f"), register("hm", "g"), lua1(`return hm.f(), hm.g(), require("hm") == hm, package.loaded.hm == hm`, "hm.f|hm.g|true|true")}},
		{"register-module-into-a-table-lua-put-in-package.loaded", []step{lua1(`package.loaded.lm = {own = "kept"}`, ""), register("lm", "f"), lua1(`return lm == nil, package.loaded.lm.f(), package.loaded.lm.own, require("lm") == package.loaded.lm`, "true|lm.f|kept|true")}},
		{"register-module-then-require-then-register-again", []step{register("rm", "a"), lua1(`local m = require "rm" return m.a()`, "rm.a"), register("rm", "b"), lua1(`return require("rm").b(), rm.a()`, "rm.b|rm.a")}},
		{"missing-module-twice-then-provided", []step{lua1(`local a = pcall(require, "later") local b = pcall(require, "later") package.preload.later = function() return "there" end return a, b, require "later"`, "false|false|there")}},
	}
	for _, c := range cases {
		L := lua.NewState()
		problem := ""
		func() {
			defer func() {
				if rec := recover(); rec != nil {
					problem = fmt.Sprintf("Go panic: %v", rec)
				}
			}()
			for i, st := range c.steps {
				if p := st(L); p != "" {
					problem = fmt.Sprintf("step %d: %s", i+1, p)
					return
				}
			}
		}()
		L.Close()
		r.Eval("require-history/"+c.name, true, func() interface{} {
			return map[string]interface{}{"case": "require history through the Go API", "name": c.name}
		})
		if problem != "" {
			r.Violation("require-history/"+c.name, c.name+": "+problem, map[string]interface{}{"name": c.name})
		}
	}
}

// overflowHandlerWork — what the message handler of a call-stack overflow may do: it runs in the
// reserve frames above the limit, and protected calls made *inside* it (which fail, succeed, have
// handlers of their own that return or raise, run coroutines, or enter through the Go API) must leave
// that reserve as it was: the handler goes on calling afterwards. Complete product of activity x
// depth of the calls that follow x stack kind x thread. Oracle: xpcall returns false and the
// handler's value, in which the activity's own results are the ones it gives at top level of a fresh
// state (differential), and the overflow probe afterwards behaves as on a fresh state.
func overflowHandlerWork(r *harness.Run) {
	acts := []struct{ name, expr string }{
		{"none", `"-"`},
		{"pcall-fails", `tostring(pcall(error, "e"))`},
		{"pcall-ok", `tostring(pcall(type, 1))`},
		{"xpcall-fails-handler-returns", `tostring(select(2, xpcall(function() error("e") end, function(m) return "ih" end)))`},
		{"xpcall-fails-handler-raises", `tostring((xpcall(function() error("e") end, function(m) error("again") end)))`},
		{"xpcall-ok", `tostring(select(2, xpcall(function() return "fine" end, function(m) return "ih" end)))`},
		{"xpcall-fault", `tostring(select(2, xpcall(function() local x = nil + 1 end, function(m) return "ih" end)))`},
		{"coroutine-error", `tostring((coroutine.resume(coroutine.create(function() error("x") end))))`},
		{"coroutine-xpcall", `tostring(select(2, coroutine.resume(coroutine.create(function() return select(2, xpcall(function() error("e") end, function(m) return "cih" end)) end))))`},
		{"gopcall-handler-returns", `tostring(gopcallh(function() error("e") end))`},
		{"gopcall-handler-raises", `tostring(gopcallhf(function() error("e") end))`},
		{"two-xpcalls", `tostring(select(2, xpcall(function() error("e") end, function(m) return "i1" end))) .. tostring(select(2, xpcall(function() error("e") end, function(m) return "i2" end)))`},
	}
	probe := `local depth, n = 0, 0
local function r() depth = depth + 1 return 1 + r() end
local ok, m = xpcall(r, function(m) n = n + 1 return "H" end)
return depth, tostring(ok), tostring(m), n`
	for _, opts := range []lua.Options{{CallStackSize: 64}, {CallStackSize: 64, MinimizeStackMemory: true}, {}} {
		for _, where := range []string{"main", "coroutine"} {
			run := func(src string) string {
				L := lua.NewState(opts)
				defer L.Close()
				mk := func(handler int) lua.LGFunction {
					return func(L *lua.LState) int {
						var h *lua.LFunction
						switch handler {
						case 1:
							h = L.NewFunction(func(L *lua.LState) int { L.Push(lua.LString("gh")); return 1 })
						case 2:
							h = L.NewFunction(func(L *lua.LState) int { L.RaiseError("go handler fails"); return 0 })
						}
						L.Push(L.Get(1))
						err := L.PCall(0, 0, h)
						L.Push(lua.LBool(err == nil))
						return 1
					}
				}
				L.SetGlobal("gopcallh", L.NewFunction(mk(1)))
				L.SetGlobal("gopcallhf", L.NewFunction(mk(2)))
				if where == "coroutine" {
					src = "local co = coroutine.create(function()\n" + src + "\nend)\nreturn select(2, coroutine.resume(co))"
				}
				res := ""
				func() {
					defer func() {
						if rec := recover(); rec != nil {
							res = fmt.Sprintf("GO PANIC: %v", rec)
						}
					}()
					if err := L.DoString(src); err != nil {
						res = "ERROR: " + err.Error()
						return
					}
					var parts []string
					for i := 1; i <= L.GetTop(); i++ {
						parts = append(parts, L.Get(i).String())
					}
					res = strings.Join(parts, "|")
				}()
				return res
			}
			cfg := fmt.Sprintf("css=%d/minstack=%v/%s", opts.CallStackSize, opts.MinimizeStackMemory, where)
			// same frame nesting as in the cases below (and not a tail call)
			freshProbe := strings.TrimPrefix(run("local after = (function() "+probe+" end)\nreturn 0, after()"), "0|")
			for _, a := range acts {
				top := run("return " + a.expr) // the activity's own results, outside any handler
				for _, d := range []int{0, 1, 4, 9} {
					src := fmt.Sprintf(`local function nest(k) if k == 0 then return 0 end return 1 + nest(k - 1) end
local runs = 0
local function handler(m)
  runs = runs + 1
  local a = %s
  local d = nest(%d)
  return "H/" .. a .. "/" .. d
end
local function r() return 1 + r() end
local ok, v = xpcall(r, handler)
local after = (function() %s end)
return tostring(ok), v, runs, after()`, a.expr, d, probe)
					got := run(src)
					want := fmt.Sprintf("false|H/%s/%d|1|%s", top, d, freshProbe)
					sig := fmt.Sprintf("overflow-handler-work/%s/then-%d-calls", a.name, d)
					r.Eval(sig+"/"+cfg, true, func() interface{} {
						return map[string]interface{}{"case": "work inside the handler of a call-stack overflow", "activity": a.name, "calls_afterwards": d, "configuration": cfg}
					})
					if got != want {
						r.Violation(sig, fmt.Sprintf("%s: the handler of a call-stack overflow runs %s and then a chain of %d calls; xpcall and the probe afterwards give\n  %s\nexpected (activity evaluated outside a handler, probe on a fresh state)\n  %s", cfg, a.name, d, got, want), map[string]interface{}{"activity": a.name, "calls_afterwards": d, "configuration": cfg, "source": src})
					}
				}
			}
		}
	}
}
