package props

// C16 — text <-> value round trips: string literals, %q, numerals through four readers,
// tostring/tonumber, os.date/os.time.
//
// Bounded exhaustive input enumeration against small reference models written here from the Lua 5.1
// manual and llex.c / lobject.c (luaO_str2d) / lbaselib.c / loslib.c rules. Nothing in this file or
// its siblings (c16_num.go, c16_date.go) reads /repo/parse/lexer.go, utils.go or Go's time package
// to obtain an expected value: literal cases are *constructed* from (source piece, denoted bytes)
// pairs, numerals are judged by a hand-written grammar, dates by a civil-from-days computation.

import (
	"bytes"
	"encoding/hex"
	"encoding/json"
	"fmt"
	"math"
	"regexp"
	"sort"
	"strings"
	"sync"
	"sync/atomic"
	"time"

	lua "github.com/yuin/gopher-lua"

	"verif/internal/harness"
)

func init() {
	harness.Register("C16", "exploration", runC16)
	harness.RegisterReplay("C16", replayC16)
}

// ---- per-worker driver ---------------------------------------------------------------------------

type c16Worker struct {
	L      *lua.LState
	fnNum  *lua.LFunction // batch of string->number readers
	fnNum2 *lua.LFunction // the two further coercion operators
	fnQ    *lua.LFunction // s -> %q text, ok, read-back value
	fnTS   *lua.LFunction // x -> tostring(x), tonumber(tostring(x))
	fnDate *lua.LFunction
	ret    []lua.LValue
}

const c16NumLua = `
local tonumber, pcall = tonumber, pcall
local function add(s) return s + 0 end
return function(s)
  local o1, a = pcall(add, s)
  return tonumber(s), o1, a, tonumber(s, 2), tonumber(s, 8), tonumber(s, 10), tonumber(s, 16), tonumber(s, 36)
end`

const c16Num2Lua = `
local pcall = pcall
local function radd(s) return 0 + s end
local function unm(s) return -s end
return function(s)
  local o2, b = pcall(radd, s)
  local o3, c = pcall(unm, s)
  return o2, b, o3, c
end`

const c16QLua = `
local format, loadstring, pcall = string.format, loadstring, pcall
return function(s)
  local q = format("%q", s)
  local f, err = loadstring("return " .. q)
  if not f then return q, false, err end
  local ok, v = pcall(f)
  return q, ok, v
end`

const c16TSLua = `
local tostring, tonumber = tostring, tonumber
return function(x)
  local s = tostring(x)
  return s, tonumber(s)
end`

func newC16Worker() *c16Worker {
	w := &c16Worker{L: lua.NewState()}
	w.fnNum = w.load(c16NumLua)
	w.fnNum2 = w.load(c16Num2Lua)
	w.fnQ = w.load(c16QLua)
	w.fnTS = w.load(c16TSLua)
	w.fnDate = w.load(c16DateLua())
	return w
}

func (w *c16Worker) load(src string) *lua.LFunction {
	L := w.L
	top := L.GetTop()
	if err := L.DoString(src); err != nil {
		harness.Fatal("c16 load helper: %v", err)
	}
	f, ok := L.Get(-1).(*lua.LFunction)
	if !ok {
		harness.Fatal("c16 helper chunk did not return a function")
	}
	L.SetTop(top)
	return f
}

// call runs fn protected and returns nret values in a buffer owned by the worker.
func (w *c16Worker) call(fn *lua.LFunction, nret int, args ...lua.LValue) (ret []lua.LValue, err error) {
	L := w.L
	top := L.GetTop()
	defer func() {
		if p := recover(); p != nil {
			L.SetTop(top)
			ret, err = nil, fmt.Errorf("go panic: %v", p)
		}
	}()
	if e := L.CallByParam(lua.P{Fn: fn, NRet: nret, Protect: true}, args...); e != nil {
		L.SetTop(top)
		return nil, e
	}
	if cap(w.ret) < nret {
		w.ret = make([]lua.LValue, nret)
	}
	w.ret = w.ret[:nret]
	for i := 0; i < nret; i++ {
		w.ret[i] = L.Get(top + 1 + i)
	}
	L.SetTop(top)
	return w.ret, nil
}

// chunk compiles src as a chunk and calls it for one result. phase: "" ok, "syntax", "runtime", "panic".
func (w *c16Worker) chunk(src string) (v lua.LValue, phase string, msg string) {
	L := w.L
	top := L.GetTop()
	defer func() {
		if p := recover(); p != nil {
			L.SetTop(top)
			v, phase, msg = lua.LNil, "panic", fmt.Sprint(p)
		}
	}()
	fn, err := L.LoadString(src)
	if err != nil {
		L.SetTop(top)
		return lua.LNil, "syntax", err.Error()
	}
	L.Push(fn)
	if err := L.PCall(0, 1, nil); err != nil {
		L.SetTop(top)
		return lua.LNil, "runtime", err.Error()
	}
	v = L.Get(-1)
	L.SetTop(top)
	return v, "", ""
}

type c16Pool struct {
	mu sync.Mutex
	ws map[int]*c16Worker
}

func (p *c16Pool) get(worker int) *c16Worker {
	p.mu.Lock()
	defer p.mu.Unlock()
	if p.ws == nil {
		p.ws = map[int]*c16Worker{}
	}
	w := p.ws[worker]
	if w == nil {
		w = newC16Worker()
		p.ws[worker] = w
	}
	return w
}

func (p *c16Pool) close() {
	for _, w := range p.ws {
		w.L.Close()
	}
	p.ws = nil
}

func c16Hex(b []byte) string { return hex.EncodeToString(b) }

func c16Show(b []byte) string {
	if len(b) > 48 {
		return fmt.Sprintf("%q…(%d bytes)", b[:48], len(b))
	}
	return fmt.Sprintf("%q", b)
}

// =================================================================================================
// Family 1: string literal forms
// =================================================================================================

type c16LitCase struct {
	Src    string // the literal as source text
	Want   []byte // bytes the literal denotes (by construction)
	Judged bool   // false: form whose meaning the Lua 5.1 manual leaves open; outcome only counted
	Sig    string // violation signature of this case class
	Note   string // unjudged: which counter
}

// Lua 5.1 manual §2.1: the escapes with a defined meaning.
var c16NamedEscapes = []struct {
	c byte
	b byte
}{{'a', 7}, {'b', 8}, {'f', 12}, {'n', 10}, {'r', 13}, {'t', 9}, {'v', 11}, {'\\', '\\'}, {'"', '"'}, {'\'', '\''}}

// c16LongRef gives the bytes denoted by raw text between long-bracket delimiters (llex.c
// read_long_string): a newline sequence directly after the opening bracket is skipped; every
// newline sequence (CR, LF, CRLF, LFCR) in the body is one '\n'.
func c16LongRef(raw []byte) []byte {
	isNL := func(c byte) bool { return c == '\n' || c == '\r' }
	i := 0
	if len(raw) > 0 && isNL(raw[0]) {
		i = 1
		if len(raw) > 1 && isNL(raw[1]) && raw[1] != raw[0] {
			i = 2
		}
	}
	var out []byte
	for i < len(raw) {
		c := raw[i]
		if isNL(c) {
			out = append(out, '\n')
			if i+1 < len(raw) && isNL(raw[i+1]) && raw[i+1] != c {
				i++
			}
			i++
			continue
		}
		out = append(out, c)
		i++
	}
	return out
}

func c16LitCases(thorough bool) []c16LitCase {
	var cs []c16LitCase
	add := func(src string, want []byte, sig string) {
		cs = append(cs, c16LitCase{Src: src, Want: want, Judged: true, Sig: sig})
	}
	obs := func(src string, want []byte, note string) {
		cs = append(cs, c16LitCase{Src: src, Want: want, Judged: false, Note: note})
	}
	for _, q := range []byte{'"', '\''} {
		qs := string(q)
		qn := map[byte]string{'"': "dq", '\'': "sq"}[q]
		// empty string, plain text
		add(qs+qs, []byte{}, "lit/short/"+qn+"/empty")
		// (a) named escapes: alone, and between two plain bytes
		for _, e := range c16NamedEscapes {
			esc := "\\" + string(e.c)
			sig := fmt.Sprintf("lit/short/%s/escape/\\%c", qn, e.c)
			add(qs+esc+qs, []byte{e.b}, sig)
			add(qs+"x"+esc+"y"+qs, []byte{'x', e.b, 'y'}, sig)
			add(qs+esc+esc+qs, []byte{e.b, e.b}, sig)
		}
		// (b) decimal escapes \ddd, 0..255, every width that can spell the value, followed by the
		// closing quote, a non-digit, and (three-digit form only) a digit
		for v := 0; v <= 255; v++ {
			for w := 1; w <= 3; w++ {
				d := fmt.Sprintf("%0*d", w, v)
				if len(d) != w {
					continue
				}
				sig := fmt.Sprintf("lit/short/%s/ddd/w=%d", qn, w)
				add(qs+"\\"+d+qs, []byte{byte(v)}, sig+"/follow=quote")
				add(qs+"\\"+d+"z"+qs, []byte{byte(v), 'z'}, sig+"/follow=nondigit")
				add(qs+"k\\"+d+"\\"+d+qs, []byte{'k', byte(v), byte(v)}, sig+"/follow=escape")
				if w == 3 {
					add(qs+"\\"+d+"7"+qs, []byte{byte(v), '7'}, sig+"/follow=digit")
				}
			}
		}
		// \ddd above 255: PUC-Lua rejects ("escape sequence too large"); the statement only speaks
		// about what valid forms denote, so the outcome is counted, not judged
		for v := 256; v <= 999; v++ {
			obs(qs+"\\"+fmt.Sprint(v)+qs, nil, "ddd_above_255")
		}
		// (c) backslash followed by a real newline sequence denotes one newline
		for _, nl := range []string{"\n", "\r", "\r\n", "\n\r"} {
			sig := fmt.Sprintf("lit/short/%s/backslash-newline/%s", qn, c16NLName(nl))
			add(qs+"\\"+nl+qs, []byte{'\n'}, sig)
			add(qs+"x\\"+nl+"y"+qs, []byte{'x', '\n', 'y'}, sig)
			add(qs+"\\"+nl+"\\"+nl+qs, []byte{'\n', '\n'}, sig)
			// a raw (unescaped) newline inside a short string is not a valid literal: counted only
			obs(qs+"x"+nl+"y"+qs, nil, "raw_newline_in_short_string")
		}
		// (d) every raw byte other than the delimiters denotes itself
		for b := 1; b <= 255; b++ {
			c := byte(b)
			if c == q || c == '\\' || c == '\n' || c == '\r' {
				continue
			}
			cls := "ascii"
			if c < 0x20 || c == 0x7f {
				cls = "control"
			} else if c >= 0x80 {
				cls = "high"
			}
			sig := fmt.Sprintf("lit/short/%s/raw-byte/%s", qn, cls)
			add(qs+string([]byte{c})+qs, []byte{c}, sig)
			add(qs+string([]byte{'x', c, c, 'y'})+qs, []byte{'x', c, c, 'y'}, sig)
		}
		obs(qs+"x\x00y"+qs, []byte{'x', 0, 'y'}, "raw_nul_in_short_string")
		// (e) backslash before any other byte: the manual defines no meaning (PUC keeps the byte)
		for b := 0; b <= 255; b++ {
			c := byte(b)
			named := c == '\n' || c == '\r' || (c >= '0' && c <= '9')
			for _, e := range c16NamedEscapes {
				if e.c == c {
					named = true
				}
			}
			if named {
				continue
			}
			obs(qs+"\\"+string([]byte{c})+qs, []byte{c}, "backslash_other_byte")
		}
		// mixed: all named escapes and some decimal escapes in one literal
		var src, want []byte
		for _, e := range c16NamedEscapes {
			src = append(src, '\\', e.c)
			want = append(want, e.b)
		}
		src = append(src, []byte("\\0\\00\\000\\9\\99\\255\\0001\\1a")...)
		want = append(want, 0, 0, 0, 9, 99, 255, 0, '1', 1, 'a')
		add(qs+string(src)+qs, want, "lit/short/"+qn+"/mixed")
	}
	// long brackets
	alpha := []byte{']', '=', '[', '\n', '\r', 'a', '\\'}
	maxLen := 3
	if thorough {
		maxLen = 5
	}
	leads := []string{"", "\n", "\r", "\r\n", "\n\r"}
	var bodies [][]byte
	var gen func(cur []byte)
	gen = func(cur []byte) {
		bodies = append(bodies, append([]byte(nil), cur...))
		if len(cur) == maxLen {
			return
		}
		for _, a := range alpha {
			gen(append(cur, a))
		}
	}
	gen(nil)
	for level := 0; level <= 3; level++ {
		eq := strings.Repeat("=", level)
		open, closer := "["+eq+"[", "]"+eq+"]"
		for _, lead := range leads {
			for _, body := range bodies {
				raw := append([]byte(lead), body...)
				// the text must not contain (or complete, together with the closing bracket) an
				// earlier closing bracket of this level
				if bytes.Index(append(append([]byte(nil), raw...), closer...), []byte(closer)) != len(raw) {
					continue
				}
				src := open + string(raw) + closer
				if level == 0 && bytes.Contains(raw, []byte("[[")) {
					// PUC-Lua 5.1 (LUA_COMPAT_LSTR) raises "nesting of [[...]] is deprecated"
					obs(src, c16LongRef(raw), "long_level0_nested_open")
					continue
				}
				add(src, c16LongRef(raw), fmt.Sprintf("lit/long/level=%d/lead=%s", level, c16NLName(lead)))
			}
		}
	}
	// the same source text can arise twice (a leading-newline spelling plus a body that starts with
	// a newline): keep the first
	seen := map[string]bool{}
	uniq := cs[:0]
	for _, c := range cs {
		if seen[c.Src] {
			continue
		}
		seen[c.Src] = true
		uniq = append(uniq, c)
	}
	return uniq
}

func c16NLName(nl string) string {
	switch nl {
	case "":
		return "none"
	case "\n":
		return "LF"
	case "\r":
		return "CR"
	case "\r\n":
		return "CRLF"
	case "\n\r":
		return "LFCR"
	}
	return "?"
}

// c16EvalLit runs one literal case; returns a violation description or "".
func c16EvalLit(w *c16Worker, c *c16LitCase) (ok bool, outcome string, what string) {
	v, phase, msg := w.chunk("return " + c.Src)
	if phase != "" {
		return false, phase, fmt.Sprintf("`return %s` (source bytes %s): expected the %d-byte string %s, got %s error: %s",
			c16Show([]byte(c.Src)), c16Hex([]byte(c.Src)), len(c.Want), c16Show(c.Want), phase, strings.TrimSpace(msg))
	}
	s, isStr := v.(lua.LString)
	if !isStr {
		return false, "nonstring", fmt.Sprintf("`return %s`: expected a string, got %s", c16Show([]byte(c.Src)), v.Type())
	}
	if string(s) != string(c.Want) {
		return false, "wrongbytes", fmt.Sprintf("`return %s` (source bytes %s): expected bytes %s (%s), got %s (%s)",
			c16Show([]byte(c.Src)), c16Hex([]byte(c.Src)), c16Show(c.Want), c16Hex(c.Want), c16Show([]byte(s)), c16Hex([]byte(s)))
	}
	return true, "ok", ""
}

func c16RunLiterals(r *harness.Run, pool *c16Pool) {
	cases := c16LitCases(r.Thorough())
	agg := &c16Agg{}
	defer agg.flush(r)
	const per = 512
	nsh := (len(cases) + per - 1) / per
	harness.ParallelShards(nsh, func(worker, shard int) {
		if r.Expired() {
			r.NotExhaustive("deadline reached in the string-literal family")
			return
		}
		w := pool.get(worker)
		lo, hi := shard*per, (shard+1)*per
		if hi > len(cases) {
			hi = len(cases)
		}
		for i := lo; i < hi; i++ {
			c := &cases[i]
			ok, outcome, what := c16EvalLit(w, c)
			if !c.Judged {
				// counted only: what the implementation does with forms the manual leaves open
				r.Count("lit_unjudged_"+c.Note, 1)
				switch {
				case outcome == "syntax":
					r.Count("lit_unjudged_"+c.Note+":rejected", 1)
				case c.Want == nil:
					r.Count("lit_unjudged_"+c.Note+":accepted", 1) // PUC-Lua rejects these
				case ok:
					r.Count("lit_unjudged_"+c.Note+":same_bytes_as_puc", 1)
				default:
					r.Count("lit_unjudged_"+c.Note+":other_bytes_than_puc", 1)
				}
				continue
			}
			r.Eval("lit|"+c.Src, true, func() interface{} {
				return map[string]string{"family": "literal", "source": "return " + c.Src, "denotes_hex": c16Hex(c.Want)}
			})
			r.Count("lit_cases", 1)
			if !ok {
				agg.add(c.Sig+"/"+outcome, c.Src, what, map[string]interface{}{"family": "literal", "src_hex": c16Hex([]byte(c.Src)), "want_hex": c16Hex(c.Want)}, 1)
			}
		}
	})
}

// =================================================================================================
// Family 2: string.format("%q", s) read back by the interpreter
// =================================================================================================

var c16QAlpha = []byte{'"', '\\', '\n', '\r', 0, '0', 'a', 0xFF, ']'}

// c16QEscapes lists the backslash escapes (the byte after each escaping backslash) in a %q text.
func c16QEscapes(q string) map[byte]bool {
	m := map[byte]bool{}
	for i := 0; i < len(q); i++ {
		if q[i] == '\\' && i+1 < len(q) {
			m[q[i+1]] = true
			i++
		}
	}
	return m
}

func c16EvalQ(w *c16Worker, s []byte) (ok bool, sig, what string, qtext string) {
	ret, err := w.call(w.fnQ, 3, lua.LString(string(s)))
	if err != nil {
		return false, "q/format-raises", fmt.Sprintf("string.format('%%q', s) raised for s=%s: %v", c16Show(s), err), ""
	}
	q, _ := ret[0].(lua.LString)
	qtext = string(q)
	good := false
	got := ""
	if ret[1] == lua.LTrue {
		if v, isStr := ret[2].(lua.LString); isStr {
			got = fmt.Sprintf("%s (%s)", c16Show([]byte(v)), c16Hex([]byte(v)))
			good = string(v) == string(s)
		} else {
			got = "a " + ret[2].Type().String()
		}
	} else {
		got = "error: " + strings.TrimSpace(ret[2].String())
	}
	if good {
		return true, "", "", qtext
	}
	// classify: escapes that exist in Go's quoting but not in Lua 5.1 (\xNN, \uNNNN, \UNNNNNNNN)
	esc := c16QEscapes(qtext)
	switch {
	case esc['x']:
		sig = `q/roundtrip/go-escape-\x`
	case esc['u'] || esc['U']:
		sig = `q/roundtrip/go-escape-\u`
	default:
		cls := ""
		for _, b := range s {
			switch {
			case b == '"' || b == '\\' || b == '\n' || b == '\r' || b == 0:
				cls += fmt.Sprintf("[%02x]", b)
			case b < 0x20 || b == 0x7f:
				cls += "c"
			case b >= 0x80:
				cls += "h"
			default:
				cls += "p"
			}
		}
		sig = "q/roundtrip/other/" + cls
	}
	what = fmt.Sprintf("s=%s (%s): string.format('%%q', s) = %s; loadstring('return '..q)() gives %s, expected s", c16Show(s), c16Hex(s), c16Show([]byte(qtext)), got)
	return false, sig, what, qtext
}

func c16RunQ(r *harness.Run, pool *c16Pool) {
	// shards: first byte (256) for the all-bytes part; one extra shard for lengths 0,1; 9 shards for the
	// 9-letter alphabet at lengths 3 and 4 (5, 6 in the thorough tier)
	maxAlpha := 4
	if r.Thorough() {
		maxAlpha = 6
	}
	agg := &c16Agg{}
	defer agg.flush(r)
	one := func(w *c16Worker, s []byte) {
		ok, sig, what, q := c16EvalQ(w, s)
		r.Eval("q|"+string(s), true, func() interface{} {
			return map[string]string{"family": "%q", "s_hex": c16Hex(s), "q_text": q}
		})
		r.Count("q_cases", 1)
		if !ok {
			agg.add(sig, string(s), what, map[string]interface{}{"family": "q", "s_hex": c16Hex(s)}, 1)
		}
	}
	harness.ParallelShards(256+1+len(c16QAlpha), func(worker, shard int) {
		if r.Expired() {
			r.NotExhaustive("deadline reached in the %q family")
			return
		}
		w := pool.get(worker)
		switch {
		case shard < 256:
			for b := 0; b < 256; b++ {
				one(w, []byte{byte(shard), byte(b)})
			}
		case shard == 256:
			one(w, []byte{})
			for b := 0; b < 256; b++ {
				one(w, []byte{byte(b)})
			}
		default:
			first := c16QAlpha[shard-257]
			var rec func(cur []byte)
			rec = func(cur []byte) {
				if len(cur) >= 3 {
					one(w, cur)
				}
				if len(cur) == maxAlpha {
					return
				}
				for _, a := range c16QAlpha {
					rec(append(cur, a))
				}
			}
			rec([]byte{first})
		}
	})
}

// =================================================================================================
// Family 4: tonumber(tostring(x)) == x; integral |x| < 2^53 prints as digits only
// =================================================================================================

func c16TSValues(thorough bool) []float64 {
	seen := map[uint64]bool{}
	var out []float64
	add1 := func(x float64) {
		if math.IsNaN(x) || math.IsInf(x, 0) {
			return
		}
		b := math.Float64bits(x)
		if seen[b] {
			return
		}
		seen[b] = true
		out = append(out, x)
	}
	add := func(x float64) {
		for _, y := range []float64{x, math.Nextafter(x, math.Inf(1)), math.Nextafter(x, math.Inf(-1))} {
			add1(y)
			add1(-y)
		}
	}
	maxInt, maxK := 1000, 100
	if thorough {
		maxInt, maxK = 200000, 20000
	}
	for i := -maxInt; i <= maxInt; i++ {
		add(float64(i))
	}
	for k := -1074; k <= 1023; k++ {
		p := math.Ldexp(1, k)
		add(p)
		if k >= 0 && k <= 62 {
			add(p + 1)
			add(p - 1)
		}
	}
	for k := -323; k <= 308; k++ {
		p := math.Pow(10, float64(k)) // any nearby float64 is as good a test value as the exact power
		add(p)
		if k >= 0 && k <= 22 {
			add(p + 1)
			add(p - 1)
		}
	}
	for k := 0; k <= maxK; k++ {
		add(float64(k) / 10)
		if k > 0 {
			add(1 / float64(k))
		}
	}
	add(math.MaxFloat64)
	add(math.SmallestNonzeroFloat64)
	add(math.Ldexp(1, -1022)) // smallest normal
	for _, m := range []uint64{1, 2, 3, 0xF, 0xFFFF, 0xFFFFFFFFFFFFF, 0x8000000000000, 0x5555555555555} {
		add(math.Float64frombits(m)) // subnormals
	}
	add(math.Pi)
	add(math.E)
	add(1e15 + 0.5)
	add(123456789012345678)
	return out
}

var c16DigitsOnly = regexp.MustCompile(`^-?[0-9]+$`)

func c16EvalTS(w *c16Worker, x float64) (ok bool, sig, what, text string) {
	ret, err := w.call(w.fnTS, 2, lua.LNumber(x))
	if err != nil {
		return false, "tostr/raises", fmt.Sprintf("tostring/tonumber raised for x=%v (bits %016x): %v", x, math.Float64bits(x), err), ""
	}
	s, isStr := ret[0].(lua.LString)
	if !isStr {
		return false, "tostr/not-a-string", fmt.Sprintf("tostring(%v) returned a %s", x, ret[0].Type()), ""
	}
	text = string(s)
	if x == math.Trunc(x) && math.Abs(x) < 1<<53 && !c16DigitsOnly.MatchString(text) {
		return false, "tostr/integral-below-2^53-not-digits", fmt.Sprintf("tostring of the integral value %v (bits %016x) is %q: expected decimal digits only", x, math.Float64bits(x), text), text
	}
	back, isNum := ret[1].(lua.LNumber)
	if isNum && float64(back) == x {
		return true, "", "", text
	}
	got := "nil"
	kind := "nil"
	if isNum {
		got = fmt.Sprintf("%v (bits %016x)", float64(back), math.Float64bits(float64(back)))
		kind = "wrongvalue"
	} else if ret[1] != lua.LNil {
		got, kind = "a "+ret[1].Type().String(), "other"
	}
	// diagnosis: the printed text is a decimal numeral with an exponent but no '.', the spelling
	// tonumber's integer path (strconv.ParseInt) cannot read
	tag := "text:" + map[bool]string{true: "dot", false: "nodot"}[strings.Contains(text, ".")] + "," +
		map[bool]string{true: "exp", false: "noexp"}[strings.ContainsAny(text, "eE")]
	if !c16IsDec(strings.TrimPrefix(text, "-")) {
		tag = "text:not-a-decimal-numeral"
	}
	if kind == "nil" && c16IsDec(strings.TrimPrefix(text, "-")) && !strings.Contains(text, ".") && strings.ContainsAny(text, "eE") {
		tag = "exponent-without-dot"
	}
	return false, "tostr/roundtrip/" + kind + "/" + tag, fmt.Sprintf("x=%v (bits %016x): tostring(x) = %q, tonumber of that = %s, expected x", x, math.Float64bits(x), text, got), text
}

func c16RunToString(r *harness.Run, pool *c16Pool) {
	xs := c16TSValues(r.Thorough())
	agg := &c16Agg{}
	defer agg.flush(r)
	const per = 1024
	nsh := (len(xs) + per - 1) / per
	harness.ParallelShards(nsh, func(worker, shard int) {
		if r.Expired() {
			r.NotExhaustive("deadline reached in the tostring/tonumber family")
			return
		}
		w := pool.get(worker)
		lo, hi := shard*per, (shard+1)*per
		if hi > len(xs) {
			hi = len(xs)
		}
		for _, x := range xs[lo:hi] {
			ok, sig, what, text := c16EvalTS(w, x)
			r.Eval(fmt.Sprintf("ts|%016x", math.Float64bits(x)), true, func() interface{} {
				return map[string]string{"family": "tostring", "x_bits": fmt.Sprintf("%016x", math.Float64bits(x)), "tostring": text}
			})
			r.Count("tostring_cases", 1)
			if !ok {
				agg.add(sig, fmt.Sprintf("%03d|%s", len(text), text), what, map[string]interface{}{"family": "tostring", "x_bits": fmt.Sprintf("%016x", math.Float64bits(x))}, 1)
			}
		}
	})
}

// =================================================================================================
// run
// =================================================================================================

func runC16(r *harness.Run) {
	runPinned(r, "C16")
	c16SignedHex(r)
	numLen := 5
	if r.Thorough() {
		numLen = 7
	}
	r.Rule = fmt.Sprintf("five exhaustive input families, each case judged against a reference written from the Lua 5.1 manual/llex.c/lobject.c rules: "+
		"(1) literals: every named escape, \\ddd for 0..255 in every width and follow context, backslash-newline in 4 newline spellings, every raw byte, in both quote styles; long brackets level 0-3 over every text of length <= %d from {] = [ LF CR a \\} with 5 leading-newline spellings — a case is (source text, bytes it denotes by construction); "+
		"(2) %%q: every byte string of length <= 2 over 256 bytes and every string of length 3..%d over {\" \\ LF CR NUL 0 a 0xFF ]}; "+
		"(3) numerals: every string of length <= %d over {0 1 9 . e E x X a f + - _ SP TAB LF} plus a fixed supplementary list, through lexer (two compile paths, only when PUC's read_numeral would take the whole text as one token), tonumber, three arithmetic coercions, tonumber with bases 2 8 10 16 36; non-trivial = strings that are numerals by the reference grammar (for some reader) or single-token lexer candidates; "+
		"(4) tostring/tonumber over the listed float64 value families with +-1 ulp neighbours and negations; "+
		"(5) dates: 3 fixed zones x listed timestamp windows: os.time(os.date('*t',t)) == t, *t fields vs civil-from-days, each supported C89/C99 directive vs the C-locale rendering of those fields. distinct_nontrivial counts distinct judged inputs (literal source, s, numeral spelling, float64 bit pattern, zone+timestamp).",
		map[bool]int{false: 3, true: 5}[r.Thorough()], map[bool]int{false: 4, true: 6}[r.Thorough()], numLen)
	r.Assumptions = []string{
		"only forms the Lua 5.1 manual defines are judged for literals: \\ddd > 255, backslash before an undefined byte, a raw NUL, raw newlines in short strings and [[ nested at level 0 are counted (lit_unjudged_*) but not judged",
		"numerals: leading '+', a sign before 0x, C99 hex floats (0x with '.' or p exponent), inf/nan spellings, and blanks other than SP TAB LF are not judged (ISO C strtod/strtoul and the property text disagree or leave them open); a leading '-' is accepted for the string readers on decimal numerals; for bases other than 10 a sign or (base 16) a 0x prefix is not judged (strtoul accepts them, the manual says unsigned integers only)",
		"tonumber(s, 10) is judged like tonumber(s) (manual: 'in base 10 (the default)')",
		"numerals of the maximal length: the operators 0+s and -s are run only where s+0 succeeded or the reference accepts s (a failing pcall costs ~5 us and all three operators share one conversion routine); every shorter string and every other reader gets all operators (coverage/numeral_lengths_complete)",
		"the lexer is judged only on texts that PUC-Lua's read_numeral takes as exactly one token (so '1-1', '- 1', '0xe+1' are not lexer cases) and that contain no '..' (a concatenation reading is conceivable)",
		"the sign of zero is not judged (comparison by ==)",
		"a decimal numeral whose value overflows float64 denotes +-Inf (strtod's HUGE_VAL); reported under its own signature",
		"dates: time.Local is set by the check to fixed-offset zones; yday is not judged (the statement does not use it); %c %x %X are judged by the C99 \"C\" locale definitions; %P %z %Z (not functions of the *t fields / not ISO C) and directives gopher-lua does not support (%j %U %W %e ...) are not judged",
	}
	// internal deadline at 80 % of the budget (DESIGN §3.9): no new shard starts after it
	if rem := time.Until(r.Deadline); rem > 0 {
		r.Deadline = time.Now().Add(rem * 8 / 10)
	}
	savedLocal := time.Local
	defer func() { time.Local = savedLocal }()
	time.Local = time.UTC

	pool := &c16Pool{}
	defer pool.close()
	t0 := time.Now()
	c16RunLiterals(r, pool)
	r.Extra["wall_literals_s"] = time.Since(t0).Seconds()
	t0 = time.Now()
	c16RunQ(r, pool)
	r.Extra["wall_q_s"] = time.Since(t0).Seconds()
	t0 = time.Now()
	c16RunToString(r, pool)
	r.Extra["wall_tostring_s"] = time.Since(t0).Seconds()
	t0 = time.Now()
	c16RunDates(r, pool)
	r.Extra["wall_dates_s"] = time.Since(t0).Seconds()
	t0 = time.Now()
	c16RunNumerals(r, pool, numLen)
	r.Extra["wall_numerals_s"] = time.Since(t0).Seconds()
	r.Extra["numeral_max_length"] = numLen
}

// =================================================================================================
// replay
// =================================================================================================

var c16ReplayMu sync.Mutex
var c16ReplayCount int64

func replayC16(raw json.RawMessage) (bool, string) {
	c16ReplayMu.Lock()
	defer c16ReplayMu.Unlock()
	atomic.AddInt64(&c16ReplayCount, 1)
	var rec struct {
		Family  string `json:"family"`
		SrcHex  string `json:"src_hex"`
		WantHex string `json:"want_hex"`
		SHex    string `json:"s_hex"`
		XBits   string `json:"x_bits"`
		Zone    int    `json:"zone_offset_s"`
		T       int64  `json:"t"`
		Sig     string `json:"signature"`
	}
	if err := json.Unmarshal(raw, &rec); err != nil {
		return false, "bad replay object: " + err.Error()
	}
	unhex := func(s string) []byte { b, _ := hex.DecodeString(s); return b }
	switch rec.Family {
	case "literal":
		w := newC16Worker()
		defer w.L.Close()
		c := &c16LitCase{Src: string(unhex(rec.SrcHex)), Want: unhex(rec.WantHex), Judged: true}
		ok, outcome, what := c16EvalLit(w, c)
		if ok {
			return true, "literal denotes the intended bytes"
		}
		return false, outcome + ": " + what
	case "q":
		w := newC16Worker()
		defer w.L.Close()
		ok, sig, what, _ := c16EvalQ(w, unhex(rec.SHex))
		if ok {
			return true, "%q round trip holds"
		}
		return false, sig + ": " + what
	case "tostring":
		w := newC16Worker()
		defer w.L.Close()
		var bits uint64
		fmt.Sscanf(rec.XBits, "%x", &bits)
		ok, sig, what, _ := c16EvalTS(w, math.Float64frombits(bits))
		if ok {
			return true, "tostring/tonumber round trip holds"
		}
		return false, sig + ": " + what
	case "numeral":
		w := newC16Worker()
		defer w.L.Close()
		loc := &c16NumLocal{}
		c16EvalNumeral(w, string(unhex(rec.SHex)), nil, loc, false)
		if len(loc.m) == 0 {
			return true, "all readers agree with the reference"
		}
		var lines []string
		hit := rec.Sig == ""
		for k, m := range loc.m {
			mark := "  "
			if k.sig() == rec.Sig {
				hit, mark = true, "* "
			}
			lines = append(lines, mark+k.sig()+": "+m.what(k))
		}
		sort.Strings(lines)
		if !hit {
			return true, "the recorded signature " + rec.Sig + " does not reproduce; other mismatches of this input (known findings or separate reports):\n" + strings.Join(lines, "\n")
		}
		return false, strings.Join(lines, "\n")
	case "date":
		saved := time.Local
		defer func() { time.Local = saved }()
		time.Local = time.FixedZone("Z", rec.Zone)
		w := newC16Worker()
		defer w.L.Close()
		sink := &c16DateSink{}
		c16EvalDate(w, rec.Zone, rec.T, nil, sink)
		if len(sink.m) == 0 {
			return true, "os.date/os.time agree with the reference"
		}
		var lines []string
		hit := rec.Sig == ""
		for sig, e := range sink.m {
			mark := "  "
			if sig == rec.Sig {
				hit, mark = true, "* "
			}
			lines = append(lines, mark+sig+": "+e.what)
		}
		sort.Strings(lines)
		if !hit {
			return true, "the recorded signature " + rec.Sig + " does not reproduce; other mismatches of this timestamp (known findings or separate reports):\n" + strings.Join(lines, "\n")
		}
		return false, strings.Join(lines, "\n")
	}
	return false, "unknown family " + rec.Family
}
