package props

// C08 sub-process mode. Deep nesting can exhaust the Go stack, which is fatal and cannot be
// recovered; hangs cannot be interrupted inside a goroutine. Both are therefore tried in a child
// process (the check binary re-executed with VERIF_C08_CHILD set), so that a crash or a time-out
// is attributed to the input. The Go stack limit is left at the runtime default (1 GB on 64-bit),
// which is what an embedding program gets.

import (
	"bytes"
	"context"
	"fmt"
	"os"
	"os/exec"
	"strconv"
	"strings"
	"syscall"
	"time"

	lua "github.com/yuin/gopher-lua"
)

const c08ChildEnv = "VERIF_C08_CHILD"

type c08DeepFamily struct {
	Name string
	Gen  func(n int) string
	// Slow: compile time grows faster than linearly on the unchanged library (constant folding and
	// block look-ups walk the whole nest at every level): tens of seconds to minutes from n = 10^5
	// on. Such families stop at a smaller n, so that "no result in time" keeps meaning a hang.
	Slow bool
}

func rep(s string, n int) string { return strings.Repeat(s, n) }

var c08DeepFamilies = []c08DeepFamily{
	{Name: "paren", Gen: func(n int) string { return "x=" + rep("(", n) + "1" + rep(")", n) }},
	{Name: "brace", Gen: func(n int) string { return "x=" + rep("{", n) + rep("}", n) }},
	{Name: "function", Gen: func(n int) string { return "x=" + rep("function() return ", n) + "1" + rep(" end", n) }},
	{Name: "dot-chain", Gen: func(n int) string { return "x=a" + rep(".b", n) }},
	{Name: "index-chain", Gen: func(n int) string { return "x=a" + rep("[1]", n) }},
	{Name: "index-nest", Gen: func(n int) string { return "x=" + rep("a[", n) + "1" + rep("]", n) }},
	{Name: "call-chain", Gen: func(n int) string { return "f" + rep("()", n) }},
	{Name: "call-nest", Gen: func(n int) string { return "x=" + rep("f(", n) + rep(")", n) }},
	{Name: "method-chain", Gen: func(n int) string { return "x=a" + rep(":b()", n) }},
	{Name: "string-call-chain", Gen: func(n int) string { return "f" + rep("''", n) }},
	{Name: "table-call-chain", Gen: func(n int) string { return "f" + rep("{}", n) }},
	{Name: "minus", Gen: func(n int) string { return "x=" + rep("- ", n) + "1" }},
	{Name: "not", Gen: func(n int) string { return "x=" + rep("not ", n) + "1" }},
	{Name: "len", Gen: func(n int) string { return "x=" + rep("#", n) + "a" }},
	{Name: "concat", Slow: true, Gen: func(n int) string { return "x=a" + rep("..a", n) }},
	{Name: "pow", Slow: true, Gen: func(n int) string { return "x=a" + rep("^a", n) }},
	{Name: "add", Slow: true, Gen: func(n int) string { return "x=a" + rep("+a", n) }},
	{Name: "add-const", Gen: func(n int) string { return "x=1" + rep("+1", n) }},
	{Name: "and", Gen: func(n int) string { return "x=a" + rep(" and a", n) }},
	{Name: "or", Gen: func(n int) string { return "x=a" + rep(" or a", n) }},
	{Name: "less", Gen: func(n int) string { return "x=a" + rep("<a", n) }},
	{Name: "do", Slow: true, Gen: func(n int) string { return rep("do ", n) + rep("end ", n) }},
	{Name: "if", Slow: true, Gen: func(n int) string { return rep("if x then ", n) + rep("end ", n) }},
	{Name: "elseif", Slow: true, Gen: func(n int) string { return "if x then " + rep("elseif x then ", n) + "end" }},
	{Name: "while", Slow: true, Gen: func(n int) string { return rep("while x do ", n) + rep("end ", n) }},
	{Name: "repeat", Slow: true, Gen: func(n int) string { return rep("repeat ", n) + rep("until x ", n) }},
	{Name: "for", Gen: func(n int) string { return rep("for i=1,2 do ", n) + rep("end ", n) }},
	{Name: "semicolons", Gen: func(n int) string { return rep(";", n) }},
	{Name: "locals", Gen: func(n int) string { return "local a" + rep(",a", n) }},
	{Name: "local-stmts", Gen: func(n int) string { return rep("local a ", n) }},
	{Name: "targets", Gen: func(n int) string { return "a" + rep(",a", n) + "=1" }},
	{Name: "args", Gen: func(n int) string { return "f(" + rep("1,", n) + "1)" }},
	{Name: "returns", Gen: func(n int) string { return "return " + rep("1,", n) + "1" }},
	{Name: "fields", Gen: func(n int) string { return "x={" + rep("1,", n) + "}" }},
	{Name: "params", Gen: func(n int) string { return "function f(a" + rep(",a", n) + ") end" }},
	{Name: "statements", Gen: func(n int) string { return rep("x=1 ", n) }},
	{Name: "closures", Gen: func(n int) string { return rep("x=function() end ", n) }},
	{Name: "long-string", Gen: func(n int) string { return "x=[[" + rep("a", n) + "]]" }},
	{Name: "long-name", Gen: func(n int) string { return rep("x", n) + "=1" }},
	{Name: "long-number", Gen: func(n int) string { return "x=" + rep("1", n) }},
	{Name: "comment-lines", Gen: func(n int) string { return rep("--\n", n) }},
	{Name: "labels", Gen: func(n int) string { return rep("::a:: ", n) }},
	{Name: "paren-unclosed", Gen: func(n int) string { return "x=" + rep("(", n) }},
	{Name: "brace-unclosed", Gen: func(n int) string { return "x=" + rep("{", n) }},
	{Name: "function-unclosed", Gen: func(n int) string { return rep("function f() ", n) }},
	{Name: "long-level", Gen: func(n int) string { return "x=[" + rep("=", n) + "[a]" + rep("=", n) + "]" }},
	{Name: "long-level-unclosed", Gen: func(n int) string { return "x=[" + rep("=", n) }},
	{Name: "closers", Gen: func(n int) string { return "x=[=[" + rep("]", n) }},
}

func c08DeepFamilyByName(name string) *c08DeepFamily {
	for i := range c08DeepFamilies {
		if c08DeepFamilies[i].Name == name {
			return &c08DeepFamilies[i]
		}
	}
	return nil
}

// c08MaybeChild runs the child side and exits, when the environment asks for it.
func c08MaybeChild() {
	spec := os.Getenv(c08ChildEnv)
	if spec == "" {
		return
	}
	// a runaway allocation must end this process, not the machine: 24 GB of address space
	lim := syscall.Rlimit{Cur: 24 << 30, Max: 24 << 30}
	syscall.Setrlimit(syscall.RLIMIT_AS, &lim)
	var src string
	switch {
	case strings.HasPrefix(spec, "file:"):
		b, err := os.ReadFile(spec[5:])
		if err != nil {
			fmt.Printf("C08CHILD harness-error %v\n", err)
			os.Exit(3)
		}
		src = string(b)
	default:
		i := strings.LastIndexByte(spec, ':')
		if i < 0 {
			fmt.Println("C08CHILD harness-error bad spec")
			os.Exit(3)
		}
		n, err := strconv.Atoi(spec[i+1:])
		f := c08DeepFamilyByName(spec[:i])
		if err != nil || f == nil {
			fmt.Println("C08CHILD harness-error bad spec")
			os.Exit(3)
		}
		src = f.Gen(n)
	}
	L := lua.NewState(lua.Options{SkipOpenLibs: true})
	res := c08LoadString(L, src)
	switch {
	case res.panicked:
		fmt.Printf("C08CHILD panic %s\n", res.pval)
	case res.shape != "":
		fmt.Printf("C08CHILD shape %s\n", res.shape)
	case res.ok:
		fmt.Printf("C08CHILD function\n")
	default:
		fmt.Printf("C08CHILD syntax-error %s\n", c08ErrClass(res.cause))
	}
	os.Exit(0)
}

type c08ChildResult struct {
	Kind   string // function | syntax-error | panic | shape | crash | timeout | harness-error
	Detail string
	Wall   time.Duration
}

// c08RunChild re-executes the check binary on one input description.
func c08RunChild(spec string, timeout time.Duration) c08ChildResult {
	ctx, cancel := context.WithTimeout(context.Background(), timeout)
	defer cancel()
	cmd := exec.CommandContext(ctx, os.Args[0])
	cmd.Env = append(os.Environ(), c08ChildEnv+"="+spec, "GOTRACEBACK=single")
	var out, errb bytes.Buffer
	cmd.Stdout = &out
	cmd.Stderr = &c08TailWriter{max: 4096, buf: &errb}
	t0 := time.Now()
	err := cmd.Run()
	wall := time.Since(t0)
	if ctx.Err() == context.DeadlineExceeded {
		return c08ChildResult{"timeout", fmt.Sprintf("no result after %v", timeout), wall}
	}
	for _, line := range strings.Split(out.String(), "\n") {
		if strings.HasPrefix(line, "C08CHILD ") {
			f := strings.SplitN(strings.TrimPrefix(line, "C08CHILD "), " ", 2)
			d := ""
			if len(f) > 1 {
				d = f[1]
			}
			return c08ChildResult{f[0], d, wall}
		}
	}
	if err != nil {
		head := errb.String()
		kind := "other"
		switch {
		case strings.Contains(head, "stack overflow") || strings.Contains(head, "stack exceeds"):
			kind = "stack-overflow"
		case strings.Contains(head, "out of memory"):
			kind = "out-of-memory"
		}
		if len(head) > 300 {
			head = head[:300]
		}
		return c08ChildResult{"crash", kind + " | " + strings.ReplaceAll(head, "\n", " / "), wall}
	}
	return c08ChildResult{"harness-error", "child printed no result", wall}
}

// c08TailWriter keeps only the first max bytes written (the head of a Go fatal error is what names it).
type c08TailWriter struct {
	max int
	buf *bytes.Buffer
}

func (w *c08TailWriter) Write(p []byte) (int, error) {
	if room := w.max - w.buf.Len(); room > 0 {
		if len(p) < room {
			room = len(p)
		}
		w.buf.Write(p[:room])
	}
	return len(p), nil
}
