package props

// Self-validation of the structural verifier: most table-safety rules hold on the unchanged tree, so
// the corpus never shows them firing. Here each rule is made to fire once on a deliberately damaged
// prototype (a compiled prototype with one field or one code word changed, or a hand-assembled one).
// A rule that does not fire is a harness error, not a property violation.

import (
	"strings"

	lua "github.com/yuin/gopher-lua"
	"github.com/yuin/gopher-lua/parse"

	"verif/internal/bcverify"
	"verif/internal/harness"
)

func c07Enc(op, a, b, c int) uint32 {
	return uint32(op)<<26 | uint32(a&0xff)<<18 | uint32(c&0x1ff)<<9 | uint32(b&0x1ff)
}
func c07EncBx(op, a, bx int) uint32 { return uint32(op)<<26 | uint32(a&0xff)<<18 | uint32(bx&0x3ffff) }
func c07EncSbx(op, a, sbx int) uint32 {
	return c07EncBx(op, a, sbx+131071)
}

const c07SelfSrc = `local a, b = 1, 2
local function f(x) a = a + 1 return a + b + x end
g = f(3)
local t = {1, 2, 3}
for i = 1, 2 do g = g + i end
for k, v in pairs(t) do g = g + v end
if g == 1 then g = 2 end
local s = t:len(g)
local u, w = a, b
return g, s, u, w, ...`

func c07SelfCompile() *lua.FunctionProto {
	chunk, err := parse.Parse(strings.NewReader(c07SelfSrc), "selftest")
	if err != nil {
		harness.Fatal("c07 selftest: %v", err)
	}
	p, err := lua.Compile(chunk, "selftest")
	if err != nil {
		harness.Fatal("c07 selftest: %v", err)
	}
	return p
}

func c07CloneProto(p *lua.FunctionProto) *lua.FunctionProto {
	q := *p
	q.Code = append([]uint32(nil), p.Code...)
	q.Constants = append([]lua.LValue(nil), p.Constants...)
	q.DbgSourcePositions = append([]int(nil), p.DbgSourcePositions...)
	q.DbgUpvalues = append([]string(nil), p.DbgUpvalues...)
	q.FunctionPrototypes = nil
	for _, c := range p.FunctionPrototypes {
		q.FunctionPrototypes = append(q.FunctionPrototypes, c07CloneProto(c))
	}
	return &q
}

func c07FindOp(p *lua.FunctionProto, op int, nth int) int {
	for pc, w := range p.Code {
		if int(w>>26) == op {
			if nth == 0 {
				return pc
			}
			nth--
		}
	}
	harness.Fatal("c07 selftest: the sample program has no %s #%d", bcverify.OpName(op), nth)
	return -1
}

// c07SelfTest returns the number of rules exercised.
func c07SelfTest() int {
	base := c07SelfCompile()
	// the sample itself must only show classes recorded as known on this tree or nothing else that
	// would confuse the expectations below: expectations are therefore "class present", never "only".
	type tc struct {
		name   string
		want   string
		damage func(p *lua.FunctionProto) *lua.FunctionProto
	}
	numConst := func(p *lua.FunctionProto) int {
		for i, c := range p.Constants {
			if _, ok := c.(lua.LNumber); ok {
				return i
			}
		}
		harness.Fatal("c07 selftest: no number constant")
		return -1
	}
	strConst := func(p *lua.FunctionProto) int {
		for i, c := range p.Constants {
			if _, ok := c.(lua.LString); ok {
				return i
			}
		}
		harness.Fatal("c07 selftest: no string constant")
		return -1
	}
	hand := func(nreg int, code ...uint32) *lua.FunctionProto {
		return &lua.FunctionProto{NumUsedRegisters: uint8(nreg), IsVarArg: 0, Code: code, DbgSourcePositions: make([]int, len(code))}
	}
	ret := c07Enc(lua.OP_RETURN, 0, 1, 0)
	tests := []tc{
		{"LOADK constant index out of range", "const/LOADK.Bx", func(p *lua.FunctionProto) *lua.FunctionProto {
			pc := c07FindOp(p, lua.OP_LOADK, 0)
			p.Code[pc] = c07EncBx(lua.OP_LOADK, 0, len(p.Constants))
			return p
		}},
		{"SETGLOBAL names a number constant", "strconst/SETGLOBAL.Bx", func(p *lua.FunctionProto) *lua.FunctionProto {
			pc := c07FindOp(p, lua.OP_SETGLOBAL, 0)
			p.Code[pc] = c07EncBx(lua.OP_SETGLOBAL, 0, numConst(p))
			return p
		}},
		{"GETGLOBAL constant index out of range", "const/GETGLOBAL.Bx", func(p *lua.FunctionProto) *lua.FunctionProto {
			pc := c07FindOp(p, lua.OP_GETGLOBAL, 0)
			p.Code[pc] = c07EncBx(lua.OP_GETGLOBAL, 0, len(p.Constants)+3)
			return p
		}},
		{"SELF method operand names a number constant", "strconst/SELF.C", func(p *lua.FunctionProto) *lua.FunctionProto {
			pc := c07FindOp(p, lua.OP_SELF, 0)
			w := p.Code[pc]
			p.Code[pc] = c07Enc(lua.OP_SELF, int(w>>18)&0xff, int(w&0x1ff), 256|numConst(p))
			return p
		}},
		{"RK constant operand out of range", "const/ADD.C", func(p *lua.FunctionProto) *lua.FunctionProto {
			pc := c07FindOp(p, lua.OP_ADD, 0)
			w := p.Code[pc]
			p.Code[pc] = c07Enc(lua.OP_ADD, int(w>>18)&0xff, int(w&0x1ff), 256|255)
			return p
		}},
		{"stringConstants disagrees with Constants", "strconst/mismatch", func(p *lua.FunctionProto) *lua.FunctionProto {
			sc := p.VerifStringConstants()
			cp := append([]string(nil), sc...)
			i := strConst(p)
			sc[i] = sc[i] + "?"
			issues := bcverify.VerifyOne(p, "main")
			copy(sc, cp) // the slice is shared with the compiled prototype: restore
			for _, is := range issues {
				if is.Class == "strconst/mismatch" {
					return nil // signal: verified inline
				}
			}
			return hand(2, ret) // will not show the class -> failure reported below
		}},
		{"stringConstants shorter than Constants", "strconst/len", func(p *lua.FunctionProto) *lua.FunctionProto {
			p.Constants = append(p.Constants, lua.LNumber(77))
			return p
		}},
		{"CLOSURE prototype index out of range", "proto/CLOSURE.Bx", func(p *lua.FunctionProto) *lua.FunctionProto {
			pc := c07FindOp(p, lua.OP_CLOSURE, 0)
			p.Code[pc] = c07EncBx(lua.OP_CLOSURE, int(p.Code[pc]>>18)&0xff, len(p.FunctionPrototypes))
			return p
		}},
		{"jump into a closure capture list", "jump/into-closure-captures/JMP", func(p *lua.FunctionProto) *lua.FunctionProto {
			cl := c07FindOp(p, lua.OP_CLOSURE, 0)
			j := c07FindOp(p, lua.OP_JMP, 0)
			p.Code[j] = c07EncSbx(lua.OP_JMP, 0, (cl+1)-(j+1))
			return p
		}},
		{"capture word is not MOVE/GETUPVAL", "closure/capture-op", func(p *lua.FunctionProto) *lua.FunctionProto {
			cl := c07FindOp(p, lua.OP_CLOSURE, 0)
			p.Code[cl+1] = c07Enc(lua.OP_ADD, 0, 0, 0)
			return p
		}},
		{"capture word names a register outside the frame", "reg/CLOSURE.capture.B", func(p *lua.FunctionProto) *lua.FunctionProto {
			cl := c07FindOp(p, lua.OP_CLOSURE, 0)
			p.Code[cl+1] = c07Enc(lua.OP_MOVE, 0, 200, 0)
			return p
		}},
		{"child declares fewer upvalues than it names", "upval/count-mismatch", func(p *lua.FunctionProto) *lua.FunctionProto {
			p.FunctionPrototypes[0].NumUpvalues = 1
			return p
		}},
		{"GETUPVAL index out of range", "upval/GETUPVAL.B", func(p *lua.FunctionProto) *lua.FunctionProto {
			c := p.FunctionPrototypes[0]
			pc := c07FindOp(c, lua.OP_GETUPVAL, 0)
			c.Code[pc] = c07Enc(lua.OP_GETUPVAL, int(c.Code[pc]>>18)&0xff, 9, 0)
			return p
		}},
		{"SETUPVAL index out of range", "upval/SETUPVAL.B", func(p *lua.FunctionProto) *lua.FunctionProto {
			c := p.FunctionPrototypes[0]
			pc := c07FindOp(c, lua.OP_SETUPVAL, 0)
			c.Code[pc] = c07Enc(lua.OP_SETUPVAL, int(c.Code[pc]>>18)&0xff, 9, 0)
			return p
		}},
		{"final RETURN removed", "end/no-return", func(p *lua.FunctionProto) *lua.FunctionProto {
			p.Code[len(p.Code)-1] = c07EncSbx(lua.OP_NOP, 0, 0)
			return p
		}},
		{"control runs past the end", "end/fall-off", func(p *lua.FunctionProto) *lua.FunctionProto {
			return hand(2, c07Enc(lua.OP_LOADNIL, 0, 0, 0), c07Enc(lua.OP_TEST, 0, 0, 0), c07EncSbx(lua.OP_JMP, 0, 1), ret, c07Enc(lua.OP_LOADNIL, 0, 0, 0))
		}},
		{"line table shorter than the code", "lines/len", func(p *lua.FunctionProto) *lua.FunctionProto {
			p.DbgSourcePositions = p.DbgSourcePositions[:len(p.DbgSourcePositions)-1]
			return p
		}},
		{"word with an opcode number the jump table does not have", "op/invalid", func(p *lua.FunctionProto) *lua.FunctionProto {
			p.Code[0] = uint32(63) << 26
			return p
		}},
		{"register operand at the declared count", "reg/MOVE.A", func(p *lua.FunctionProto) *lua.FunctionProto {
			return hand(3, c07Enc(lua.OP_MOVE, 3, 0, 0), ret)
		}},
		{"register operand beyond the frame width", "regmax/MOVE.B", func(p *lua.FunctionProto) *lua.FunctionProto {
			return hand(3, c07Enc(lua.OP_MOVE, 0, 300, 0), ret)
		}},
		{"CALL argument range beyond the frame", "reg/CALL.args", func(p *lua.FunctionProto) *lua.FunctionProto {
			return hand(3, c07Enc(lua.OP_LOADNIL, 0, 2, 0), c07Enc(lua.OP_CALL, 0, 5, 1), ret)
		}},
		{"LOADNIL range beyond the frame", "reg/LOADNIL.B", func(p *lua.FunctionProto) *lua.FunctionProto {
			return hand(3, c07Enc(lua.OP_LOADNIL, 0, 3, 0), ret)
		}},
		{"SELF writes A+1 beyond the frame", "reg/SELF.A+1", func(p *lua.FunctionProto) *lua.FunctionProto {
			q := hand(3, c07Enc(lua.OP_LOADNIL, 0, 2, 0), c07Enc(lua.OP_SELF, 2, 0, 1), ret)
			return q
		}},
		{"conditional skip lands on a SETLIST count word", "skip/into-setlist-count/EQ", func(p *lua.FunctionProto) *lua.FunctionProto {
			return hand(3, c07Enc(lua.OP_NEWTABLE, 0, 0, 0), c07Enc(lua.OP_LOADNIL, 1, 1, 0), c07Enc(lua.OP_EQ, 0, 0, 0),
				c07Enc(lua.OP_SETLIST, 0, 1, 0), 1, ret)
		}},
		{"jump lands on a SETLIST count word", "jump/into-setlist-count/JMP", func(p *lua.FunctionProto) *lua.FunctionProto {
			return hand(3, c07Enc(lua.OP_NEWTABLE, 0, 0, 0), c07Enc(lua.OP_LOADNIL, 1, 1, 0), c07EncSbx(lua.OP_JMP, 0, 1),
				c07Enc(lua.OP_SETLIST, 0, 1, 0), 1, ret)
		}},
		{"conditional skip lands inside a closure capture list", "skip/into-closure-captures/EQ", func(p *lua.FunctionProto) *lua.FunctionProto {
			cl := c07FindOp(p, lua.OP_CLOSURE, 0)
			p.Code[cl-1] = c07Enc(lua.OP_EQ, 0, 0, 0)
			return p
		}},
		{"extended SETLIST with a wrong batch word", "setlist/count-word/wrong", func(p *lua.FunctionProto) *lua.FunctionProto {
			return hand(3, c07Enc(lua.OP_NEWTABLE, 0, 0, 0), c07Enc(lua.OP_LOADNIL, 1, 1, 0), c07Enc(lua.OP_SETLIST, 0, 1, 0), 7, ret)
		}},
		{"SETLIST batches out of sequence", "setlist/batch-sequence", func(p *lua.FunctionProto) *lua.FunctionProto {
			return hand(3, c07Enc(lua.OP_NEWTABLE, 0, 0, 0), c07Enc(lua.OP_LOADNIL, 1, 1, 0), c07Enc(lua.OP_SETLIST, 0, 1, 3), ret)
		}},
		{"SETLIST without a table", "setlist/no-newtable", func(p *lua.FunctionProto) *lua.FunctionProto {
			return hand(3, c07Enc(lua.OP_LOADNIL, 0, 1, 0), c07Enc(lua.OP_SETLIST, 0, 1, 1), ret)
		}},
		{"MOVEN group longer than the code", "group/MOVEN.truncated", func(p *lua.FunctionProto) *lua.FunctionProto {
			return hand(3, ret, c07Enc(lua.OP_MOVEN, 0, 1, 4), c07Enc(lua.OP_MOVE, 1, 2, 0))
		}},
		{"MOVEN tail word is not a MOVE", "group/MOVEN.tail-op", func(p *lua.FunctionProto) *lua.FunctionProto {
			return hand(3, c07Enc(lua.OP_MOVEN, 0, 1, 1), c07Enc(lua.OP_LOADNIL, 1, 2, 0), ret)
		}},
		{"TFORLOOP without its JMP", "tforloop/no-jmp", func(p *lua.FunctionProto) *lua.FunctionProto {
			return hand(8, c07Enc(lua.OP_LOADNIL, 0, 2, 0), c07Enc(lua.OP_TFORLOOP, 0, 0, 1), ret, ret)
		}},
		{"jump target outside the code", "jump/out-of-range/JMP", func(p *lua.FunctionProto) *lua.FunctionProto {
			return hand(2, c07EncSbx(lua.OP_JMP, 0, 40), ret)
		}},
		{"FORLOOP target before the code", "jump/out-of-range/FORLOOP", func(p *lua.FunctionProto) *lua.FunctionProto {
			return hand(6, c07Enc(lua.OP_LOADNIL, 0, 3, 0), c07EncSbx(lua.OP_FORLOOP, 0, -9), ret)
		}},
		{"B=0 consumer with no value list before it", "open/consumer-without-producer/RETURN", func(p *lua.FunctionProto) *lua.FunctionProto {
			return hand(3, c07Enc(lua.OP_LOADNIL, 0, 1, 0), c07Enc(lua.OP_RETURN, 0, 0, 0), ret)
		}},
		{"open result that nothing consumes", "open/producer-without-consumer/CALL", func(p *lua.FunctionProto) *lua.FunctionProto {
			return hand(3, c07Enc(lua.OP_LOADNIL, 0, 1, 0), c07Enc(lua.OP_CALL, 0, 1, 0), c07Enc(lua.OP_LOADNIL, 0, 1, 0), ret)
		}},
		{"VARARG in a function that is not vararg", "vararg/VARARG-in-fixed-function", func(p *lua.FunctionProto) *lua.FunctionProto {
			return hand(4, c07Enc(lua.OP_VARARG, 0, 3, 0), ret)
		}},
		{"inconsistent vararg flags", "vararg/needsarg-without-hasarg", func(p *lua.FunctionProto) *lua.FunctionProto {
			p.IsVarArg = lua.VarArgNeedsArg | lua.VarArgIsVarArg
			return p
		}},
		{"more parameters than registers", "frame/NumParameters>NumUsedRegisters", func(p *lua.FunctionProto) *lua.FunctionProto {
			p.NumParameters = 250
			return p
		}},
	}
	before := map[string]bool{}
	for _, is := range bcverify.Verify(base) {
		before[is.Class] = true
	}
	n := 0
	for _, t := range tests {
		if before[t.want] {
			continue // the tree under test already shows this class on the sample: the test would be vacuous
		}
		q := t.damage(c07CloneProto(base))
		n++
		if q == nil {
			continue // verified inside damage
		}
		found := false
		var got []string
		for _, is := range bcverify.Verify(q) {
			got = append(got, is.Class)
			if is.Class == t.want {
				found = true
			}
		}
		if !found {
			harness.Fatal("c07 verifier self-test: damage %q should be reported as %s; reported: %v", t.name, t.want, got)
		}
	}
	return n
}
