package props

// C10 — Go API: faithful value stack, exact call contract, object-level operations equal Lua
// operators.
//
// Three parts, all bounded-exhaustive on the real interpreter:
//   1. c10_stack.go  explicit-state exploration of stack-operation histories (reference: Go slice)
//                    executed inside host functions at activation depth 0..3;
//   2. c10_calls.go  the complete call-contract matrix (Call / PCall / CallByParam / GPCall);
//   3. c10_objs.go   object-level API calls against the same operation written as a Lua chunk.
//
// This file holds what the three parts share: an "activation chain" that runs a Go closure inside a
// host function at a chosen activation depth (top level -> Lua -> Go -> Lua -> Go ...), entered with
// a chosen number of arguments, on a state whose registry is fixed-size ("fresh") or has the
// smallest growing configuration and is filled up to its capacity ("grow").

import (
	"encoding/json"
	"fmt"
	"runtime/debug"
	"sort"
	"strings"
	"sync"
	"sync/atomic"

	lua "github.com/yuin/gopher-lua"
	"github.com/yuin/gopher-lua/parse"

	"verif/internal/harness"
)

func init() {
	harness.Register("C10", "model_checking", runC10)
	harness.RegisterReplay("C10", c10Replay)
}

// ---- Lua side of the activation chain -----------------------------------------------------------

// Forms in which the innermost Lua level calls the host function.
const (
	c10FormMult   = 0 // capf(callee(args))            NRet = MultRet
	c10FormFixed0 = 1 // callee(args)                  NRet = 0   (forms 1..4: NRet = form-1)
	c10FormFixed3 = 4
	c10FormTail   = 5 // return callee(args)           tail call
	c10NForms     = 6
)

func c10FormName(f int) string {
	switch {
	case f == c10FormMult:
		return "mult"
	case f == c10FormTail:
		return "tail"
	}
	return fmt.Sprintf("fixed%d", f-1)
}

var c10Protos struct {
	once sync.Once
	F    [4][c10NForms]*lua.FunctionProto
}

func c10CompileInner(src, name string) *lua.FunctionProto {
	chunk, err := parse.Parse(strings.NewReader(src), name)
	if err != nil {
		harness.Fatal("c10: parse %s: %v\n%s", name, err, src)
	}
	proto, err := lua.Compile(chunk, name)
	if err != nil {
		harness.Fatal("c10: compile %s: %v", name, err)
	}
	if len(proto.FunctionPrototypes) < 1 {
		harness.Fatal("c10: %s has no inner function", name)
	}
	return proto.FunctionPrototypes[0]
}

func c10LevelSource(nargs, form int) string {
	args := strings.Join([]string{"a", "b", "c"}[:nargs], ", ")
	var call string
	switch {
	case form == c10FormMult:
		call = "capf(callee(" + args + "))"
	case form == c10FormTail:
		return "return function(callee, capf, report, a, b, c)\n local s1, s2, s3 = \"S1\", \"S2\", \"S3\"\n return callee(" + args + ")\nend"
	case form == c10FormFixed0:
		call = "callee(" + args + ") capf()"
	default:
		rs := strings.Join([]string{"r1", "r2", "r3"}[:form-1], ", ")
		call = "local " + rs + " = callee(" + args + ") capf(" + rs + ")"
	}
	return "return function(callee, capf, report, a, b, c)\n local s1, s2, s3 = \"S1\", \"S2\", \"S3\"\n " + call + "\n local s4 = \"S4\"\n report(s1, s2, s3, s4)\nend"
}

func c10InitProtos() {
	c10Protos.once.Do(func() {
		for n := 0; n <= 3; n++ {
			for f := 0; f < c10NForms; f++ {
				c10Protos.F[n][f] = c10CompileInner(c10LevelSource(n, f), fmt.Sprintf("c10level_n%d_%s", n, c10FormName(f)))
			}
		}
	})
}

// ---- values -------------------------------------------------------------------------------------

// Values that travel through the stacks are userdata objects created once and shared read-only by
// all states: comparing them is a pointer comparison and each is distinguishable from every other.
func c10Named(name string) lua.LValue {
	return &lua.LUserData{Value: name, Metatable: lua.LNil}
}

var c10Args = [3]lua.LValue{c10Named("a1"), c10Named("a2"), c10Named("a3")}
var c10Fill [256]lua.LValue
var c10Vals [24]lua.LValue // value used by the operation at history position p
var c10MidMark = [2]lua.LValue{c10Named("M1"), c10Named("M2")}
var c10MidRet = c10Named("R")
var c10Sent = [4]lua.LValue{lua.LString("S1"), lua.LString("S2"), lua.LString("S3"), lua.LString("S4")}

func init() {
	for i := range c10Fill {
		c10Fill[i] = c10Named(fmt.Sprintf("f%d", i))
	}
	for i := range c10Vals {
		c10Vals[i] = c10Named(fmt.Sprintf("v%d", i))
	}
}

func c10Show(v lua.LValue) string {
	switch x := v.(type) {
	case nil:
		return "<go-nil>"
	case *lua.LNilType:
		return "nil"
	case lua.LString:
		return string(x)
	case lua.LNumber:
		return fmt.Sprintf("%v", float64(x))
	case lua.LBool:
		return x.String()
	case *lua.LUserData:
		if s, ok := x.Value.(string); ok {
			return s
		}
	}
	return "<" + v.Type().String() + ">"
}

func c10ShowList(l []lua.LValue) string {
	s := make([]string, len(l))
	for i, v := range l {
		s[i] = c10Show(v)
	}
	return "[" + strings.Join(s, " ") + "]"
}

func c10SameList(a, b []lua.LValue) bool {
	if len(a) != len(b) {
		return false
	}
	for i := range a {
		if a[i] != b[i] {
			return false
		}
	}
	return true
}

// c10Protect runs f and returns the recovered panic value (nil when f returned normally).
func c10Protect(f func()) (pv interface{}) {
	defer func() {
		if r := recover(); r != nil {
			pv = r
		}
	}()
	f()
	return nil
}

// ---- configuration of an activation -------------------------------------------------------------

type c10Cfg struct {
	Depth int  `json:"depth"`           // 0 = top level (no frame); k = inside the k-th nested host function
	NArgs int  `json:"nargs"`           // arguments the activation is entered with (0..3)
	Grow  bool `json:"grow"`            // registry: false = fixed default size; true = 128 slots, grows by 1, pre-filled
	Form  int  `json:"form"`            // how the innermost Lua level calls the host function
	Slack int  `json:"slack,omitempty"` // grow mode: free registry slots at entry beyond the one the alignment leaves (0..3)
}

func (c c10Cfg) String() string {
	m := "fresh"
	if c.Grow {
		m = fmt.Sprintf("grow(slack %d)", c.Slack)
	}
	return fmt.Sprintf("depth=%d nargs=%d registry=%s form=%s", c.Depth, c.NArgs, m, c10FormName(c.Form))
}

func (c c10Cfg) class() string {
	d := "d0"
	if c.Depth > 0 {
		d = "dN"
	}
	if c.Grow {
		return d + "/grow"
	}
	return d + "/fresh"
}

// ---- environment: one LState plus the Go side of the chain ---------------------------------------

type c10Env struct {
	L       *lua.LState
	grow    bool
	base    bool // base library opened
	fHost   *lua.LFunction
	fMid    *lua.LFunction
	fCap    *lua.LFunction
	fReport *lua.LFunction
	F       [4][c10NForms]*lua.LFunction

	// per run
	cfg     c10Cfg
	body    func(L *lua.LState) int
	level   int
	caps    [][]lua.LValue
	fres    [5][]lua.LValue
	fresSet [5]bool
	reports int
	bad     []string
	initial []lua.LValue // the list the activation starts with (depth 0: fillers ++ args)
	regBuf  []lua.LValue // scratch for register snapshots
	modelA  []lua.LValue // scratch for the reference list
	modelB  []lua.LValue
	dirty   bool        // the state may be inconsistent (unexpected panic): discard it
	extra   interface{} // per-part attachment (callees of part 2, handlers of part 3)
}

var c10EnvsCreated int64

func c10NewEnv(grow, openBase bool) *c10Env {
	c10InitProtos()
	atomic.AddInt64(&c10EnvsCreated, 1)
	opts := lua.Options{SkipOpenLibs: true, CallStackSize: 32}
	if grow {
		opts.RegistrySize = 128
		opts.RegistryMaxSize = 8192
		opts.RegistryGrowStep = 1
	}
	e := &c10Env{L: lua.NewState(opts), grow: grow, base: openBase}
	L := e.L
	if openBase {
		L.Push(L.NewFunction(lua.OpenBase))
		L.Push(lua.LString("_G"))
		L.Call(1, 0)
	}
	e.fHost = L.NewFunction(func(L *lua.LState) int {
		e.level++
		return e.body(L)
	})
	e.fCap = L.NewFunction(func(L *lua.LState) int {
		n := L.GetTop()
		vs := make([]lua.LValue, n)
		for i := 1; i <= n; i++ {
			vs[i-1] = L.Get(i)
		}
		e.caps = append(e.caps, vs)
		return 0
	})
	e.fReport = L.NewFunction(func(L *lua.LState) int {
		e.reports++
		if L.GetTop() != 4 {
			e.bad = append(e.bad, fmt.Sprintf("caller-locals: report received %d values", L.GetTop()))
			return 0
		}
		for i := 0; i < 4; i++ {
			if L.Get(i+1) != c10Sent[i] {
				e.bad = append(e.bad, fmt.Sprintf("caller-locals: local s%d of a calling Lua function holds %s after the call", i+1, c10Show(L.Get(i+1))))
			}
		}
		return 0
	})
	e.fMid = L.NewFunction(func(L *lua.LState) int {
		e.level++
		lvl := e.level
		n0 := L.GetTop()
		if n0 != e.cfg.NArgs {
			e.bad = append(e.bad, fmt.Sprintf("mid-args: intermediate host function at level %d entered with %d arguments, expected %d", lvl, n0, e.cfg.NArgs))
		}
		L.Push(c10MidMark[0])
		L.Push(c10MidMark[1])
		e.pushLevelCall(L, lvl+1)
		switch lvl {
		case 1:
			L.Call(6, lua.MultRet)
		default:
			// the arguments are already on the stack: CallByParam would push them again, so the
			// second intermediate level goes through PCall and re-raises.
			if err := L.PCall(6, lua.MultRet, nil); err != nil {
				panic(err)
			}
		}
		top := L.GetTop()
		if top < n0+2 {
			e.bad = append(e.bad, fmt.Sprintf("mid-stack: intermediate host function at level %d has %d values after its call, had %d before pushing the callee", lvl, top, n0+2))
			return 0
		}
		res := make([]lua.LValue, 0, top-n0-2)
		for i := n0 + 3; i <= top; i++ {
			res = append(res, L.Get(i))
		}
		e.fres[lvl+1], e.fresSet[lvl+1] = res, true
		for i := 0; i < n0 && i < 3; i++ {
			if L.Get(i+1) != c10Args[i] {
				e.bad = append(e.bad, fmt.Sprintf("mid-stack: argument %d of the intermediate host function at level %d is %s after its call", i+1, lvl, c10Show(L.Get(i+1))))
			}
		}
		if L.Get(n0+1) != c10MidMark[0] || L.Get(n0+2) != c10MidMark[1] {
			e.bad = append(e.bad, fmt.Sprintf("mid-stack: values pushed by the intermediate host function at level %d are %s %s after its call", lvl, c10Show(L.Get(n0+1)), c10Show(L.Get(n0+2))))
		}
		L.SetTop(n0 + 2)
		L.Push(c10MidRet)
		return 1
	})
	return e
}

func (e *c10Env) close() { e.L.Close() }

func (e *c10Env) pushLevelCall(L *lua.LState, lvl int) {
	form := c10FormMult
	callee := e.fMid
	if lvl == e.cfg.Depth {
		form = e.cfg.Form
		callee = e.fHost
	}
	if e.F[e.cfg.NArgs][form] == nil {
		e.F[e.cfg.NArgs][form] = L.NewFunctionFromProto(c10Protos.F[e.cfg.NArgs][form])
	}
	L.Push(e.F[e.cfg.NArgs][form])
	L.Push(callee)
	L.Push(e.fCap)
	L.Push(e.fReport)
	L.Push(c10Args[0])
	L.Push(c10Args[1])
	L.Push(c10Args[2])
}

type c10ChainRes struct {
	err       error       // error returned by the top-level PCall (depth >= 1)
	panicVal  interface{} // depth 0: what body panicked with
	ret       int         // depth 0: what body returned
	hostRes   []lua.LValue
	hostResOK bool     // hostRes is meaningful (depth >= 1, no error)
	bad       []string // chain-level inconsistencies
}

// entryTops[depth][nargs]: registry top at the entry of the activation when no filler is used.
var c10EntryTops struct {
	once sync.Once
	t    [4][4]int
}

func c10Calibrate() {
	c10EntryTops.once.Do(func() {
		e := c10NewEnv(false, false)
		defer e.close()
		for d := 1; d <= 3; d++ {
			for n := 0; n <= 3; n++ {
				got := -1
				res := e.runAt(c10Cfg{Depth: d, NArgs: n}, 0, func(L *lua.LState) int {
					_, got = lua.VerifDepth(L)
					return 0
				})
				if got < 0 || res.err != nil || len(res.bad) > 0 {
					harness.Fatal("c10: calibration of the activation chain failed at depth %d nargs %d: top=%d err=%v bad=%v", d, n, got, res.err, res.bad)
				}
				c10EntryTops.t[d][n] = got
				if got+32 > c10ClearSlots {
					harness.Fatal("c10: activation entered at register %d, too close to c10ClearSlots=%d", got, c10ClearSlots)
				}
			}
		}
	})
}

// fillersFor returns the number of filler values pushed at top level so that the activation is
// entered with the registry top one below the initial capacity (128) in grow mode.
func c10FillersFor(cfg c10Cfg, regCap int) int {
	if !cfg.Grow {
		return 0
	}
	if cfg.Depth == 0 {
		return regCap - 1 - cfg.NArgs - cfg.Slack
	}
	c10Calibrate()
	n := regCap - 1 - c10EntryTops.t[cfg.Depth][cfg.NArgs] - cfg.Slack
	if n < 0 || n > len(c10Fill) {
		harness.Fatal("c10: filler count %d out of range", n)
	}
	return n
}

// c10GrowCapLimit: a growing-registry state is reused (with more fillers) until its registry has
// grown to this many slots; top-level configurations always get a state at the initial capacity.
const c10GrowCapLimit = 224

// c10ClearSlots: registry slots cleared before a run on a fixed-size registry (the deepest chain
// enters its activation below slot 60; histories add at most 20)
const c10ClearSlots = 112

func (e *c10Env) regCap() int { return lua.VerifRegCap(e.L) }

// fillers for this environment's current registry capacity
func (e *c10Env) fillers(cfg c10Cfg) int { return c10FillersFor(cfg, e.regCap()) }

// runAt executes body inside the activation described by cfg.
func (e *c10Env) runAt(cfg c10Cfg, nfill int, body func(L *lua.LState) int) (res c10ChainRes) {
	L := e.L
	// every run starts from the same registry content: all slots a run can reach are cleared
	// (SetTop upwards writes LNil, downwards clears the slots), without growing the registry
	clr := e.regCap()
	if !e.grow {
		clr = c10ClearSlots
	}
	L.SetTop(clr)
	L.SetTop(0)
	e.cfg, e.body, e.level, e.reports = cfg, body, 0, 0
	e.caps = e.caps[:0]
	e.bad = e.bad[:0]
	for i := range e.fres {
		e.fres[i], e.fresSet[i] = nil, false
	}
	for i := 0; i < nfill; i++ {
		L.Push(c10Fill[i])
	}
	if cfg.Depth == 0 {
		e.initial = e.initial[:0]
		for i := 0; i < nfill; i++ {
			e.initial = append(e.initial, c10Fill[i])
		}
		for i := 0; i < cfg.NArgs; i++ {
			L.Push(c10Args[i])
			e.initial = append(e.initial, c10Args[i])
		}
		res.panicVal = c10Protect(func() { res.ret = body(L) })
		if sp, _ := lua.VerifDepth(L); sp != 0 {
			e.dirty = true
		}
		res.bad = append(res.bad, e.bad...)
		return res
	}
	e.initial = append(e.initial[:0], c10Args[:cfg.NArgs]...)
	h0 := nfill
	e.pushLevelCall(L, 1)
	pv := c10Protect(func() { res.err = L.PCall(6, lua.MultRet, nil) })
	res.bad = append(res.bad, e.bad...)
	if pv != nil {
		res.bad = append(res.bad, fmt.Sprintf("outer-pcall-panic: the protected call at top level panicked instead of returning an error: %v", pv))
		e.dirty = true
		return res
	}
	if sp, _ := lua.VerifDepth(L); sp != 0 {
		res.bad = append(res.bad, fmt.Sprintf("outer-pcall-frames: %d call frames remain after the top-level protected call returned", sp))
		e.dirty = true
	}
	top := L.GetTop()
	for i := 0; i < nfill && i < top; i++ {
		if L.Get(i+1) != c10Fill[i] {
			res.bad = append(res.bad, fmt.Sprintf("outer-below: value %d below the top-level call is %s after the call", i+1, c10Show(L.Get(i+1))))
			break
		}
	}
	if res.err != nil {
		if top != h0 {
			res.bad = append(res.bad, fmt.Sprintf("outer-pcall-height: failed protected call at top level left height %d, height before pushing function and arguments was %d", top, h0))
		}
		return res
	}
	if top < h0 {
		res.bad = append(res.bad, fmt.Sprintf("outer-pcall-height: successful call at top level left height %d below the %d values that were under the function", top, h0))
		return res
	}
	r1 := make([]lua.LValue, 0, top-h0)
	for i := h0 + 1; i <= top; i++ {
		r1 = append(r1, L.Get(i))
	}
	e.fres[1], e.fresSet[1] = r1, true
	// consistency of the chain: every Lua level reported intact locals, every intermediate host
	// function delivered "R", the Lua levels returned nothing (except a tail-calling innermost one)
	tail := cfg.Form == c10FormTail
	wantCaps, wantReports := cfg.Depth, cfg.Depth
	if tail {
		wantCaps, wantReports = cfg.Depth-1, cfg.Depth-1
	}
	if e.level != cfg.Depth {
		res.bad = append(res.bad, fmt.Sprintf("chain-levels: %d host activations ran, expected %d", e.level, cfg.Depth))
		return res
	}
	if len(e.caps) != wantCaps || e.reports != wantReports {
		res.bad = append(res.bad, fmt.Sprintf("chain-shape: %d result captures and %d local reports, expected %d and %d", len(e.caps), e.reports, wantCaps, wantReports))
		return res
	}
	midCaps := e.caps
	if !tail {
		res.hostRes = e.caps[0]
		midCaps = e.caps[1:]
	}
	for _, c := range midCaps {
		if len(c) != 1 || c[0] != c10MidRet {
			res.bad = append(res.bad, fmt.Sprintf("chain-mid-result: a Lua level received %s from an intermediate host function that returned 1 value \"R\"", c10ShowList(c)))
		}
	}
	for l := 1; l <= cfg.Depth; l++ {
		if !e.fresSet[l] {
			res.bad = append(res.bad, fmt.Sprintf("chain-fres: results of Lua level %d were not collected", l))
			return res
		}
		if tail && l == cfg.Depth {
			res.hostRes = e.fres[l]
		} else if len(e.fres[l]) != 0 {
			res.bad = append(res.bad, fmt.Sprintf("chain-lua-result: Lua level %d returns nothing but its Go caller received %s", l, c10ShowList(e.fres[l])))
		}
	}
	res.hostResOK = true
	return res
}

// ---- per-worker environments ----------------------------------------------------------------------

type c10Worker struct {
	fresh     *c10Env
	freshBase *c10Env
	growing   *c10Env
}

// env returns an environment. Fixed-registry environments are reused. A growing one is reused for
// activations inside host functions until its registry exceeds c10GrowCapLimit (the number of
// fillers follows the capacity, so the activation is always entered one slot below it); a top-level
// activation gets a new state, so that its list has the 127 elements the histories were built for.
func (w *c10Worker) env(grow, base, pristine bool) *c10Env {
	if grow {
		if pristine || base {
			return c10NewEnv(true, base)
		}
		if w.growing != nil && (w.growing.dirty || w.growing.regCap() > c10GrowCapLimit) {
			w.growing.close()
			w.growing = nil
		}
		if w.growing == nil {
			w.growing = c10NewEnv(true, false)
		}
		return w.growing
	}
	p := &w.fresh
	if base {
		p = &w.freshBase
	}
	if *p != nil && (*p).dirty {
		(*p).close()
		*p = nil
	}
	if *p == nil {
		*p = c10NewEnv(false, base)
	}
	return *p
}

func (w *c10Worker) release(e *c10Env) {
	if e.grow && e != w.growing {
		e.close()
	}
}

func (w *c10Worker) closeAll() {
	for _, e := range []*c10Env{w.fresh, w.freshBase, w.growing} {
		if e != nil {
			e.close()
		}
	}
	w.fresh, w.freshBase, w.growing = nil, nil, nil
}

// ---- violations shared by the parts ----------------------------------------------------------------

type c10V struct {
	Sig  string
	What string
}

func c10BadSig(b string) string {
	if i := strings.Index(b, ":"); i > 0 {
		return b[:i]
	}
	return "chain"
}

// ---- the check ---------------------------------------------------------------------------------------

type c10Replayable struct {
	Part  string        `json:"part"`
	Stack *c10StackCase `json:"stack,omitempty"`
	Call  *c10CallCase  `json:"call,omitempty"`
	Obj   *c10ObjCase   `json:"obj,omitempty"`
	Text  string        `json:"text,omitempty"`
}

func runC10(r *harness.Run) {
	defer c10StartPprof()()
	// the check allocates many short-lived small objects on a tiny live heap: collect less often
	defer debug.SetGCPercent(debug.SetGCPercent(1600))
	c10InitProtos()
	c10Calibrate()
	r.Assumptions = []string{
		"stack operations: only the index conventions the statement or the repository's tests fix are judged; Insert at an index <= 0 is judged for list-ness only (old elements keep their order, the value occurs once, height + 1); Insert above top+1, SetTop below -top-1 and Pop of more values than the activation holds are executed as last operation of a history and judged only for 'callers undisturbed'",
		"a host function returns a count between 0 and its stack height",
		"call matrix: an unprotected failing call made at top level (no enclosing protected call) is not judged; made inside a host function, the enclosing protected call is judged instead",
		"object-level calls: ObjLen is judged for strings, tables and userdata whose Lua length expression yields a number (ObjLen of an object without length is pinned to 0 by the repository's tests); Concat is judged when the Lua result is a string; values are compared through stable names, never through addresses",
	}
	st := c10RunStackPart(r)
	ca := c10RunCallPart(r)
	ob := c10RunObjPart(r)
	c10EnvPart(r)
	c10APIChain(r)
	c10NextUnderRemoval(r)
	pinnedGoAPI5(r, "C10")
	r.Rule = st.rule + " || " + ca.rule + " || " + ob.rule
	r.Extra["states"] = st.states
	r.Extra["transitions"] = st.transitions
	r.Extra["traces_validated_against_impl"] = st.traces + ca.cases + ob.cases
	r.Extra["stack_part"] = st.extra
	r.Extra["call_part"] = ca.extra
	r.Extra["object_part"] = ob.extra
	r.Extra["lstates_created"] = atomic.LoadInt64(&c10EnvsCreated)
}

type c10PartResult struct {
	rule        string
	states      int64
	transitions int64
	traces      int64
	cases       int64
	extra       map[string]interface{}
}

func c10Replay(raw json.RawMessage) (bool, string) {
	var rp c10Replayable
	if err := json.Unmarshal(raw, &rp); err != nil {
		return false, "bad replay object: " + err.Error()
	}
	c10InitProtos()
	c10Calibrate()
	w := &c10Worker{}
	defer w.closeAll()
	var vs []c10V
	var desc string
	switch rp.Part {
	case "stack":
		if rp.Stack == nil {
			return false, "replay object has no stack case"
		}
		out := c10RunStackCase(w, rp.Stack)
		vs, desc = out.viol, rp.Stack.String()
	case "call":
		if rp.Call == nil {
			return false, "replay object has no call case"
		}
		vs, desc = c10RunCallCase(w, rp.Call), rp.Call.String()
	case "obj":
		if rp.Obj == nil {
			return false, "replay object has no object case"
		}
		vs, desc = c10RunObjCase(w, rp.Obj), rp.Obj.String()
	default:
		return false, "unknown part " + rp.Part
	}
	if len(vs) == 0 {
		return true, "case holds: " + desc
	}
	var b strings.Builder
	b.WriteString("case fails: " + desc + "\n")
	sort.Slice(vs, func(i, j int) bool { return vs[i].Sig < vs[j].Sig })
	for _, v := range vs {
		b.WriteString("  " + v.Sig + ": " + v.What + "\n")
	}
	return false, b.String()
}
