package props

// C08 — loading arbitrary bytes ends in a function or a syntax error, never a crash; the Lua 5.1
// grammar (plus goto/labels) is accepted; meaning does not depend on layout.
//
// Part A (robustness + accept/reject differential): every input of several exhaustively enumerated
// spaces is loaded through LState.LoadString (twice, on two states; DoString for rejected inputs)
// and through parse.Parse + lua.Compile, under recover, and judged by an independent Lua 5.1
// recogniser (internal/refs/c08lua).
// Part B (layout independence): every valid corpus program is re-rendered from the reference
// token stream in every member of a layout set; each rendering must load, compile to the same
// code (line information aside) and, for the executable programs, produce the same emit trace.

import (
	"bytes"
	"context"
	"encoding/base64"
	"encoding/binary"
	"encoding/json"
	"fmt"
	"hash/fnv"
	"io"
	"math"
	"os"
	"path/filepath"
	"regexp"
	"runtime"
	"runtime/debug"
	"runtime/pprof"
	"sort"
	"strings"
	"sync"
	"sync/atomic"
	"testing/iotest"
	"time"

	lua "github.com/yuin/gopher-lua"
	"github.com/yuin/gopher-lua/parse"

	"verif/internal/harness"
	"verif/internal/refs/c08lua"
)

func init() {
	c08MaybeChild()
	harness.Register("C08", "exploration", runC08)
	harness.RegisterReplay("C08", replayC08)
}

// ---- loading under recover --------------------------------------------------------------------

type c08Res struct {
	ok       bool
	msg      string
	panicked bool
	pval     string
	shape    string // non-empty: the result is neither (function, nil) nor (nil, *ApiError{Syntax})
	cause    error
	fn       *lua.LFunction
}

var c08Digits = regexp.MustCompile(`[0-9]+`)
var c08Hex = regexp.MustCompile(`0x[0-9a-f]+`)
var c08DQuoted = regexp.MustCompile(`"(?:[^"\\]|\\.)*"`)

func c08PanicClass(e interface{}) string {
	s := fmt.Sprintf("%T:%v", e, e)
	s = c08DQuoted.ReplaceAllString(s, `"_"`) // quoted operands (strconv errors quote the input)
	s = c08Hex.ReplaceAllString(s, "0xH")
	s = c08Digits.ReplaceAllString(s, "N")
	s = strings.Map(func(r rune) rune {
		if r == '/' {
			return '|'
		}
		if r < 0x20 || r > 0x7e {
			return '?'
		}
		return r
	}, s)
	if len(s) > 100 {
		s = s[:100]
	}
	return s
}

func c08LoadString(L *lua.LState, src string) (res c08Res) {
	defer func() {
		if e := recover(); e != nil {
			res = c08Res{panicked: true, pval: c08PanicClass(e)}
			L.SetTop(0)
		}
	}()
	fn, err := L.LoadString(src)
	return c08Shape(fn, err)
}

func c08Shape(fn *lua.LFunction, err error) (res c08Res) {
	switch {
	case fn != nil && err == nil:
		res.ok, res.fn = true, fn
		if fn.Proto == nil || fn.IsG {
			res.shape = "function-without-proto"
		}
	case fn == nil && err != nil:
		ae, ok := err.(*lua.ApiError)
		if !ok {
			res.shape, res.msg = fmt.Sprintf("error-type:%T", err), err.Error()
			return
		}
		if ae.Type != lua.ApiErrorSyntax {
			res.shape = fmt.Sprintf("api-error-type:%d", int(ae.Type))
		}
		if ae.Object == nil {
			res.shape = "api-error-without-object"
		} else {
			res.msg = ae.Object.String()
		}
		res.cause = ae.Cause
	case fn == nil && err == nil:
		res.shape = "nil-function-nil-error"
	default:
		res.shape = "function-and-error"
	}
	return
}

// c08DoStringRejected: DoString on bytes LoadString rejected must return the same error and run
// nothing.
func c08DoString(L *lua.LState, src string) (res c08Res) {
	defer func() {
		if e := recover(); e != nil {
			res = c08Res{panicked: true, pval: c08PanicClass(e)}
			L.SetTop(0)
		}
	}()
	err := L.DoString(src)
	if err == nil {
		L.SetTop(0)
		return c08Res{ok: true}
	}
	return c08Shape(nil, err)
}

func c08Direct(rd io.Reader) (res c08Res, proto *lua.FunctionProto) {
	defer func() {
		if e := recover(); e != nil {
			res = c08Res{panicked: true, pval: c08PanicClass(e)}
		}
	}()
	chunk, err := parse.Parse(rd, "<string>")
	if err != nil {
		return c08Res{msg: err.Error(), cause: err}, nil
	}
	proto, err = lua.Compile(chunk, "<string>")
	if err != nil {
		return c08Res{msg: err.Error(), cause: err}, nil
	}
	if proto == nil {
		return c08Res{shape: "nil-proto-nil-error"}, nil
	}
	return c08Res{ok: true}, proto
}

var c08Quoted = regexp.MustCompile(`'[^']*'`)

// c08ErrClass names gopher-lua's rejection: the message without positions; the offending byte for
// "Invalid token".
func c08ErrClass(cause error) string {
	switch c := cause.(type) {
	case *parse.Error:
		m := c.Message
		if m == "Invalid token" && len(c.Token) == 1 {
			m += fmt.Sprintf(" <byte 0x%02x>", c.Token[0])
		}
		return strings.ReplaceAll(m, "/", "|")
	case *lua.CompileError:
		m := c08Quoted.ReplaceAllString(c.Message, "'_'")
		m = c08Digits.ReplaceAllString(m, "N")
		return "compile:" + strings.ReplaceAll(m, "/", "|")
	case nil:
		return "no-cause"
	}
	return fmt.Sprintf("cause:%T", cause)
}

// ---- violations, aggregated per signature with the smallest input -----------------------------

type c08Viol struct {
	Sig    string
	What   string
	Input  string
	Family string
	Extra  map[string]interface{}
	Count  int64
}

type c08Agg struct {
	viol     map[string]*c08Viol
	counters map[string]int64
	accepted map[uint64]struct{}
}

func newC08Agg() *c08Agg {
	return &c08Agg{viol: map[string]*c08Viol{}, counters: map[string]int64{}, accepted: map[uint64]struct{}{}}
}

func c08Smaller(a, b string) bool {
	if len(a) != len(b) {
		return len(a) < len(b)
	}
	return a < b
}

func (a *c08Agg) add(sig, family, input, what string, extra map[string]interface{}) {
	v := a.viol[sig]
	if v == nil {
		a.viol[sig] = &c08Viol{Sig: sig, What: what, Input: input, Family: family, Extra: extra, Count: 1}
		return
	}
	v.Count++
	if c08Smaller(input, v.Input) {
		v.What, v.Input, v.Family, v.Extra = what, input, family, extra
	}
}

func (a *c08Agg) merge(b *c08Agg) {
	for sig, v := range b.viol {
		w := a.viol[sig]
		if w == nil {
			a.viol[sig] = v
			continue
		}
		w.Count += v.Count
		if c08Smaller(v.Input, w.Input) {
			w.What, w.Input, w.Family, w.Extra = v.What, v.Input, v.Family, v.Extra
		}
	}
	for k, n := range b.counters {
		a.counters[k] += n
	}
	for h := range b.accepted {
		a.accepted[h] = struct{}{}
	}
}

func c08Hash(s string) uint64 {
	h := fnv.New64a()
	h.Write([]byte(s))
	return h.Sum64()
}

func c08Show(s string) string {
	if len(s) > 300 {
		return fmt.Sprintf("%q… (%d bytes)", s[:300], len(s))
	}
	return fmt.Sprintf("%q", s)
}

// ---- per-worker state -------------------------------------------------------------------------

type c08Slot struct {
	cur   atomic.Pointer[string]
	start atomic.Int64 // unix nanoseconds; 0 when idle
	fam   atomic.Pointer[string]
}

type c08Worker struct {
	id   int
	L    *lua.LState // first load
	L2   *lua.LState // second load / DoString: another state, other history
	agg  *c08Agg
	slot *c08Slot
	n    int64 // loads since the states were created
	ctl  *c08Ctl
}

type c08Ctl struct {
	r        *harness.Run
	deadline time.Time
	expired  atomic.Bool
	slots    []*c08Slot
	workers  []*c08Worker
	evals    atomic.Int64
	thorough bool
}

func (c *c08Ctl) isExpired() bool {
	if c.expired.Load() {
		return true
	}
	if time.Now().After(c.deadline) {
		c.expired.Store(true)
		return true
	}
	return false
}

func newC08Worker(id int, ctl *c08Ctl, slot *c08Slot) *c08Worker {
	w := &c08Worker{id: id, agg: newC08Agg(), slot: slot, ctl: ctl}
	w.fresh()
	return w
}

func (w *c08Worker) fresh() {
	if w.L != nil {
		w.L.Close()
		w.L2.Close()
	}
	w.L = lua.NewState()
	w.L2 = lua.NewState(lua.Options{SkipOpenLibs: true})
	w.n = 0
}

func (w *c08Worker) begin(family *string, src string) {
	w.slot.fam.Store(family)
	w.slot.cur.Store(&src)
	w.slot.start.Store(time.Now().UnixNano())
}

func (w *c08Worker) end() { w.slot.start.Store(0) }

// check is the Part A oracle for one input. It returns the first load's result and the analysis.
func (w *c08Worker) check(family string, src string) (c08Res, *c08lua.Info) {
	w.begin(&family, src)
	defer w.end()
	a := w.agg
	a.counters["inputs/"+family]++
	w.n++
	if w.n%50000 == 0 {
		w.fresh()
	}
	replay := func() map[string]interface{} {
		return map[string]interface{}{"kind": "load", "family": family, "input_b64": base64.StdEncoding.EncodeToString([]byte(src))}
	}
	r1 := c08LoadString(w.L, src)
	if r1.panicked {
		a.add("panic/LoadString/"+r1.pval, family, src, "Go panic escaped LState.LoadString: "+r1.pval+"\ninput: "+c08Show(src), replay())
		w.fresh()
	} else if r1.shape != "" {
		a.add("badresult/LoadString/"+r1.shape, family, src, "LoadString returned neither (function, nil) nor (nil, *ApiError of type ApiErrorSyntax): "+r1.shape+" "+r1.msg+"\ninput: "+c08Show(src), replay())
	}
	// second load on another state: same verdict and message; rejected bytes also through DoString
	var r2 c08Res
	via := "LoadString"
	if r1.ok || r1.panicked {
		r2 = c08LoadString(w.L2, src)
	} else {
		via = "DoString"
		r2 = c08DoString(w.L2, src)
	}
	if r2.panicked {
		if !r1.panicked || r1.pval != r2.pval {
			a.add("panic/"+via+"-second/"+r2.pval, family, src, "Go panic escaped the second load ("+via+"): "+r2.pval+"\ninput: "+c08Show(src), replay())
		}
		w.L2.Close()
		w.L2 = lua.NewState(lua.Options{SkipOpenLibs: true})
	} else if !r1.panicked {
		if r2.shape != r1.shape {
			a.add("badresult/"+via+"-second/"+r2.shape, family, src, "second load ("+via+") result shape "+r2.shape+" differs from the first ("+r1.shape+")\ninput: "+c08Show(src), replay())
		} else if r2.ok != r1.ok {
			a.add("nondeterministic/verdict/"+via, family, src, fmt.Sprintf("the same bytes gave ok=%v first and ok=%v through %s on another state\ninput: %s", r1.ok, r2.ok, via, c08Show(src)), replay())
		} else if r2.msg != r1.msg {
			a.add("nondeterministic/message/"+via, family, src, fmt.Sprintf("the same bytes gave two messages: %q and %q\ninput: %s", r1.msg, r2.msg, c08Show(src)), replay())
		}
	}
	// the same bytes through parse.Parse + lua.Compile
	r3, _ := c08Direct(strings.NewReader(src))
	if r3.panicked {
		if !r1.panicked || r1.pval != r3.pval {
			a.add("panic/Parse+Compile/"+r3.pval, family, src, "Go panic escaped parse.Parse + lua.Compile: "+r3.pval+"\ninput: "+c08Show(src), replay())
		}
	} else if !r1.panicked {
		if r3.shape != "" {
			a.add("badresult/Parse+Compile/"+r3.shape, family, src, "parse.Parse + lua.Compile: "+r3.shape+"\ninput: "+c08Show(src), replay())
		} else if r3.ok != r1.ok {
			a.add("differs/Load-vs-Parse+Compile/verdict", family, src, fmt.Sprintf("LoadString ok=%v (%s) but parse.Parse+lua.Compile ok=%v (%s)\ninput: %s", r1.ok, r1.msg, r3.ok, r3.msg, c08Show(src)), replay())
		} else if r3.msg != r1.msg {
			a.add("differs/Load-vs-Parse+Compile/message", family, src, fmt.Sprintf("LoadString says %q, parse.Parse+lua.Compile says %q\ninput: %s", r1.msg, r3.msg, c08Show(src)), replay())
		}
	}
	// reference verdict
	info := c08lua.Analyze(src)
	if !r1.panicked && r1.shape == "" {
		switch {
		case info.Verdict == c08lua.Accept && r1.ok:
			a.counters["verdict/accept-accept"]++
		case info.Verdict == c08lua.Reject && !r1.ok:
			a.counters["verdict/reject-reject"]++
		case info.Verdict == c08lua.Unknown:
			a.counters["verdict/reference-unknown/"+info.Reason]++
		case info.Verdict == c08lua.Accept && !r1.ok:
			cls := c08ErrClass(r1.cause)
			a.add(fmt.Sprintf("underaccept/%s/%s/%s", family, cls, info.Notes.String()), family, src,
				fmt.Sprintf("the Lua 5.1 grammar accepts these bytes, gopher-lua rejects them: %s\ninput: %s", strings.TrimSpace(r1.msg), c08Show(src)), replay())
		case info.Verdict == c08lua.Reject && r1.ok:
			a.add(fmt.Sprintf("overaccept/%s/%s", family, info.ReasonKey()), family, src,
				fmt.Sprintf("Lua 5.1 rejects these bytes (%s), gopher-lua compiles them\ninput: %s", info.Detail, c08Show(src)), replay())
		}
		if r1.ok {
			a.accepted[c08Hash(src)] = struct{}{}
		}
	}
	return r1, info
}

// ---- alphabets ---------------------------------------------------------------------------------

var c08TokensFull = []string{
	// one word per keyword class
	"and", "break", "do", "else", "elseif", "end", "nil", "for", "function", "goto", "if", "in", "local", "not",
	"repeat", "return", "then", "until", "while",
	// the rest of DESIGN §4 C08
	"x", "1", "1e", "0x", "'s'", "[[", "[=[", "]]", "--", "--[[", "--[=", "..", "...", "=", "==", "~", "(", ")", "{", "}",
	"[", "]", ";", ",", ":", "::", ".", "#", "-", "\n", "\r",
	// added to the DESIGN list: the other operator classes (arithmetic, power, order, inequality), zero, a boolean
	"+", "*", "/", "%", "^", "<", "<=", "~=", "0", "true",
}

// reduced alphabet for the longest sequences: the tokens from which valid programs are built
var c08TokensReduced = []string{
	"and", "break", "do", "else", "end", "nil", "for", "function", "goto", "if", "in", "local", "not",
	"repeat", "return", "then", "until", "while",
	"x", "1", "'s'", "...", "..", "=", "(", ")", "{", "}", "[", "]", ";", ",", ":", "::", ".", "#", "-",
}

var c08StructBytes = []byte{'"', '\'', '[', ']', '(', ')', '{', '}', '\\', 0x00, 0x80, 0xff, '\n', '\r', '-', '=', '.', '0', '1', '9', 'e', 'x', ',', ':'}

// ---- jobs --------------------------------------------------------------------------------------

type c08Job struct {
	name string
	cost int // rough relative cost, for ordering
	run  func(w *c08Worker)
	// late > 0: one of the big enumerations; they run after everything else (smaller late first), so
	// that a deadline cuts the least informative space
	late int
}

func (c *c08Ctl) jobsBytes(maxLen int) []c08Job {
	var jobs []c08Job
	jobs = append(jobs, c08Job{name: "bytes/len<=1", cost: 1, run: func(w *c08Worker) {
		w.check("bytes", "")
		for b := 0; b < 256; b++ {
			w.check("bytes", string([]byte{byte(b)}))
		}
	}})
	for b0 := 0; b0 < 256; b0++ {
		b0 := b0
		jobs = append(jobs, c08Job{name: fmt.Sprintf("bytes/len2/%02x", b0), cost: 1, run: func(w *c08Worker) {
			for b1 := 0; b1 < 256; b1++ {
				w.check("bytes", string([]byte{byte(b0), byte(b1)}))
			}
		}})
	}
	if maxLen >= 3 {
		for b0 := 0; b0 < 256; b0++ {
			for q := 0; q < 4; q++ {
				b0, q := b0, q
				jobs = append(jobs, c08Job{name: fmt.Sprintf("bytes/len3/%02x.%d", b0, q), cost: 60, late: 4, run: func(w *c08Worker) {
					buf := []byte{byte(b0), 0, 0}
					for b1 := q * 64; b1 < (q+1)*64; b1++ {
						if c.isExpired() {
							c.r.NotExhaustive("deadline reached inside the 3-byte strings")
							return
						}
						buf[1] = byte(b1)
						for b2 := 0; b2 < 256; b2++ {
							buf[2] = byte(b2)
							w.check("bytes", string(buf))
						}
					}
				}})
			}
		}
	}
	return jobs
}

// jobsTokens enumerates all sequences of exactly n tokens of alpha joined by sep, sharded on the
// first token (and the second when n >= 5).
func (c *c08Ctl) jobsTokens(family string, alpha []string, n int, sep string) []c08Job {
	var jobs []c08Job
	if n == 0 {
		return nil
	}
	var enum func(w *c08Worker, prefix string, left int) bool
	enum = func(w *c08Worker, prefix string, left int) bool {
		if left == 0 {
			w.check(family, prefix)
			return true
		}
		if left >= 3 && c.isExpired() {
			c.r.NotExhaustive(fmt.Sprintf("deadline reached inside %s sequences of length %d", family, n))
			return false
		}
		for _, t := range alpha {
			if !enum(w, prefix+sep+t, left-1) {
				return false
			}
		}
		return true
	}
	if n < 3 {
		jobs = append(jobs, c08Job{name: fmt.Sprintf("%s/len%d", family, n), cost: 1, run: func(w *c08Worker) {
			for _, t := range alpha {
				enum(w, t, n-1)
			}
		}})
		return jobs
	}
	for _, t0 := range alpha {
		if n >= 5 {
			for _, t1 := range alpha {
				p := t0 + sep + t1
				jobs = append(jobs, c08Job{name: fmt.Sprintf("%s/len%d/%q", family, n, p), cost: 40, late: 3, run: func(w *c08Worker) { enum(w, p, n-2) }})
			}
			continue
		}
		t0 := t0
		late := 0
		if n >= 4 {
			late = 1
		}
		jobs = append(jobs, c08Job{name: fmt.Sprintf("%s/len%d/%q", family, n, t0), cost: 5 * (n - 2), late: late, run: func(w *c08Worker) { enum(w, t0, n-1) }})
	}
	return jobs
}

// jobMutations: every truncation, single-byte deletion and structural-byte substitution of src at
// offsets 0, stride, 2*stride, ….
func (c *c08Ctl) jobMutations(name, src string, stride int) c08Job {
	return c08Job{name: "mutation/" + name, cost: 1 + len(src)*len(src)/stride/2000, run: func(w *c08Worker) {
		buf := make([]byte, 0, len(src)+1)
		for i := 0; i < len(src); i += stride {
			if i%16 == 0 && c.isExpired() {
				c.r.NotExhaustive("deadline reached inside the mutations of " + name)
				return
			}
			w.check("truncation", src[:i])
			buf = append(buf[:0], src[:i]...)
			buf = append(buf, src[i+1:]...)
			w.check("deletion", string(buf))
			buf = append(buf[:0], src...)
			for _, b := range c08StructBytes {
				if b == src[i] {
					continue
				}
				buf[i] = b
				w.check("substitution", string(buf))
			}
		}
		w.agg.counters["mutated-programs"]++
	}}
}

var c08Openers = []string{"\"", "'", "[[", "[=[", "[==[", "--", "--[", "--[[", "--[=", "--[=[", "--[==", "--[==[", "[=", "[==",
	"\"\\", "'\\", "\"\\1", "\"\\12", "\"\\123", "[[]", "[=[]", "[=[]=", "[=[]]", "--[[]", "--[=[]=", "--[=[]]", "\"a", "'a", "[[a", "--[[a",
	"--a", "-", "---", "--[==[]=]", "0x", "1e", "1e+", "1.", ".", "..", "...", "::", ":", "~", "=", "<", ">", "[", "]", "]]", "]=]", "\\", "#", "#!"}
var c08OpenerPrefixes = []string{"", "x=", "x=1 ", "\n", "return ", "f", "x=1--", "x=[[", "x=\"", "--[[", "--", "x=1\n", "x=1\r"}
var c08OpenerSuffixes = []string{"", "\n", "\r", "\r\n", "\n\r", " ", "x", "]", "]]", "]=]", "\"", "'", "\\", "\x00", "\xff", "\nx=1", "]]x=1"}

func (c *c08Ctl) jobsOpeners() []c08Job {
	var jobs []c08Job
	for _, pre := range c08OpenerPrefixes {
		pre := pre
		jobs = append(jobs, c08Job{name: "openers/" + fmt.Sprintf("%q", pre), cost: 2, run: func(w *c08Worker) {
			for _, op := range c08Openers {
				for _, suf := range c08OpenerSuffixes {
					w.check("openers", pre+op+suf)
				}
			}
		}})
	}
	return jobs
}

// jobsEscapes: backslash + every byte, \ddd for 0..999, every byte in every lexical position.
func (c *c08Ctl) jobsEscapes() []c08Job {
	var jobs []c08Job
	jobs = append(jobs, c08Job{name: "escapes/backslash-byte", cost: 3, run: func(w *c08Worker) {
		for b := 0; b < 256; b++ {
			s := string([]byte{byte(b)})
			for _, form := range []string{"x=\"\\%s\"", "x='\\%s'", "x=\"\\%s", "x=\"a\\%sb\"", "x=\"\\%s1\"", "x=\"\\\\%s\"", "x=[[\\%s]]"} {
				w.check("escapes", strings.Replace(form, "%s", s, 1))
			}
			w.valueCheck("escapes", "return \"\\"+s+"\"")
			w.valueCheck("escapes", "return '\\"+s+"z'")
		}
	}})
	jobs = append(jobs, c08Job{name: "escapes/decimal", cost: 5, run: func(w *c08Worker) {
		for d := 0; d <= 999; d++ {
			for _, sp := range []string{fmt.Sprintf("%d", d), fmt.Sprintf("%03d", d)} {
				w.valueCheck("escapes", "return \"\\"+sp+"\"")
				w.valueCheck("escapes", "return '\\"+sp+"7'")
				w.valueCheck("escapes", "return \"a\\"+sp+"b\\"+sp+"\"")
				w.check("escapes", "x=\"\\"+sp)
			}
		}
	}})
	jobs = append(jobs, c08Job{name: "escapes/byte-positions", cost: 3, run: func(w *c08Worker) {
		for b := 0; b < 256; b++ {
			s := string([]byte{byte(b)})
			for _, form := range []string{"x=%s1", "x%s=1", "x=1%s", "%sx=1", "--%s\nx=1", "--[[%s]]x=1", "x=1--%s", "x=1 %s x=2", "f%s()", "x=1%s2", "x=a%sb", "x=a.%sb", "x=1.%s5", "x=.%s5", "-%s-x", "x=[%s[a]]", "x=[[a]%s]", "x=[=%s[a]=]"} {
				w.check("byte-positions", strings.Replace(form, "%s", s, 1))
			}
			w.valueCheck("byte-positions", "return \""+s+"\"")
			w.valueCheck("byte-positions", "return '"+s+"'")
			w.valueCheck("byte-positions", "return [["+s+"]]")
			w.valueCheck("byte-positions", "return [==["+s+"]==]")
			w.valueCheck("byte-positions", "return [["+s+s+"]]")
			w.valueCheck("byte-positions", "return [[\n"+s+"]]")
			w.valueCheck("byte-positions", "return [[a"+s+"\n]]")
		}
	}})
	jobs = append(jobs, c08Job{name: "escapes/string-literals", cost: 1, run: func(w *c08Worker) {
		for _, lit := range c08StringLits {
			w.valueCheck("string-literals", "return "+lit)
			w.valueCheck("string-literals", "return "+lit+" .. "+lit)
			w.valueCheck("string-literals", "return("+lit+")")
		}
	}})
	return jobs
}

// valueCheck runs the Part A oracle on `return <literal>…` and, when the reference accepts it and
// gopher-lua loads it, compares the value of the first string literal... by running the chunk:
// the chunk returns the literal (or a concatenation of literals); the expected value comes from
// the reference tokenizer.
func (w *c08Worker) valueCheck(family, src string) {
	r1, info := w.check(family, src)
	if !r1.ok || info.Verdict != c08lua.Accept {
		return
	}
	// expected: concatenation of the values of all string tokens (the forms used are `return S`,
	// `return S .. S`, `return(S)`)
	var want []byte
	for _, t := range info.Toks {
		if t.Kind == c08lua.KString {
			want = append(want, t.Val...)
		}
	}
	w.agg.counters["value-checks"]++
	L := w.L
	var got lua.LValue
	var perr error
	func() {
		defer func() {
			if e := recover(); e != nil {
				perr = fmt.Errorf("panic: %v", e)
			}
		}()
		L.Push(r1.fn)
		perr = L.PCall(0, 1, nil)
		if perr == nil {
			got = L.Get(-1)
		}
		L.SetTop(0)
	}()
	sigTail := c08ValueNotes(info.Notes)
	replay := map[string]interface{}{"kind": "value", "family": family, "input_b64": base64.StdEncoding.EncodeToString([]byte(src))}
	if perr != nil {
		w.agg.add("value/"+family+"/run-error/"+sigTail, family, src, fmt.Sprintf("running %s failed: %v", c08Show(src), perr), replay)
		return
	}
	gs, ok := got.(lua.LString)
	if !ok || string(gs) != string(want) {
		w.agg.add("value/"+family+"/"+sigTail, family, src, fmt.Sprintf("the string literal in %s denotes %q in Lua 5.1, gopher-lua yields %q", c08Show(src), want, got), replay)
	}
}

func c08ValueNotes(n c08lua.Notes) string {
	var s []string
	if n&c08lua.NoteDecEscape != 0 {
		s = append(s, "decimal-escape")
	}
	if n&c08lua.NoteEscNL != 0 {
		s = append(s, "escaped-newline")
	}
	if n&c08lua.NoteLongStr != 0 {
		s = append(s, "long-bracket")
	}
	if n&c08lua.NoteCR != 0 {
		s = append(s, "cr")
	}
	if len(s) == 0 {
		return "plain"
	}
	return strings.Join(s, "+")
}

// ---- corpus ------------------------------------------------------------------------------------

type c08CorpusProg struct {
	Name    string
	Src     string
	Exec    bool // executed under pcall with emit; else judged on load + compiled code only
	GapFrom int  // per-gap renderings start at this token (generated family: after the prelude)
	Whole   bool // whole repository file: global renderings only, mutations at a stride
}

func c08RepoDir() string {
	if d := os.Getenv("VERIF_REPO"); d != "" {
		return d
	}
	return "/repo"
}

// c08RepoFiles reads the repository's Lua test scripts (a leading #-line is dropped, as LoadFile
// does).
func c08RepoFiles() []c08CorpusProg {
	var out []c08CorpusProg
	for _, dir := range []string{"_glua-tests", "_lua5.1-tests"} {
		m, _ := filepath.Glob(filepath.Join(c08RepoDir(), dir, "*.lua"))
		sort.Strings(m)
		for _, p := range m {
			b, err := os.ReadFile(p)
			if err != nil {
				harness.Fatal("C08: cannot read corpus file %s: %v", p, err)
			}
			s := string(b)
			if strings.HasPrefix(s, "#") {
				if i := strings.IndexByte(s, '\n'); i >= 0 {
					s = s[i:]
				} else {
					s = ""
				}
			}
			out = append(out, c08CorpusProg{Name: dir + "/" + filepath.Base(p), Src: s, Whole: true})
		}
	}
	if len(out) < 10 {
		harness.Fatal("C08: corpus files not found under %s", c08RepoDir())
	}
	return out
}

// c08Pieces cuts a file the reference accepts into groups of consecutive top-level statements of
// at least minBytes bytes.
func c08Pieces(f c08CorpusProg, info *c08lua.Info, minBytes int) []c08CorpusProg {
	var out []c08CorpusProg
	first := -1
	for i, st := range info.TopStmts {
		if first < 0 {
			first = st[0]
		}
		from, to := info.Toks[first].Start, info.Toks[st[1]].End
		if to-from >= minBytes || i == len(info.TopStmts)-1 {
			out = append(out, c08CorpusProg{Name: fmt.Sprintf("%s#%d", f.Name, len(out)), Src: info.Src[from:to]})
			first = -1
		}
	}
	return out
}

func c08GenPrograms() []c08CorpusProg {
	var out []c08CorpusProg
	pre := c08lua.Analyze(c08GenPrelude)
	if pre.Verdict != c08lua.Accept {
		harness.Fatal("C08: generated-family prelude is not accepted by the reference: %s", pre.Detail)
	}
	for ci, ctx := range c08Contexts {
		for ei, e := range c08Exprs {
			out = append(out, c08CorpusProg{Name: fmt.Sprintf("gen/c%02d/e%02d", ci, ei), Src: c08GenPrelude + strings.Replace(ctx, "%s", e, 1), Exec: true, GapFrom: pre.NTok()})
		}
	}
	return out
}

// ---- execution with emit -----------------------------------------------------------------------

var c08LinePos = regexp.MustCompile(`:[0-9]+:`)
var c08LinePos2 = regexp.MustCompile(`line:[0-9]+\(column:[0-9]+\)|line\([0-9]+\)|line [0-9]+`)

func c08ValStr(v lua.LValue) string {
	switch x := v.(type) {
	case *lua.LNilType:
		return "nil"
	case lua.LBool:
		if bool(x) {
			return "true"
		}
		return "false"
	case lua.LNumber:
		f := float64(x)
		if f != f {
			return "n:nan"
		}
		return "n:" + x.String()
	case lua.LString:
		return fmt.Sprintf("s:%q", string(x))
	}
	return v.Type().String()
}

type c08Runner struct {
	L     *lua.LState
	trace []string
	emit  *lua.LFunction
}

func newC08Runner() *c08Runner {
	x := &c08Runner{L: lua.NewState()}
	x.emit = x.L.NewFunction(func(L *lua.LState) int {
		var parts []string
		for i := 1; i <= L.GetTop(); i++ {
			parts = append(parts, c08ValStr(L.Get(i)))
		}
		x.trace = append(x.trace, "E("+strings.Join(parts, ",")+")")
		return 0
	})
	return x
}

// run executes a loaded chunk in a fresh environment that falls back to the globals, and returns
// the trace: emits, then the results or the error message without line positions.
func (x *c08Runner) run(fn *lua.LFunction) (trace string) {
	L := x.L
	x.trace = x.trace[:0]
	defer func() {
		if e := recover(); e != nil {
			x.trace = append(x.trace, "GO-PANIC("+c08PanicClass(e)+")")
			trace = strings.Join(x.trace, ";")
			L.SetTop(0)
		}
	}()
	env := L.NewTable()
	mt := L.NewTable()
	mt.RawSetString("__index", L.Get(lua.GlobalsIndex))
	L.SetMetatable(env, mt)
	env.RawSetString("emit", x.emit)
	L.SetFEnv(fn, env)
	ctx, cancel := context.WithTimeout(context.Background(), 20*time.Second)
	L.SetContext(ctx)
	L.Push(fn)
	err := L.PCall(0, lua.MultRet, nil)
	cancel()
	L.RemoveContext()
	if err != nil {
		msg := err.Error()
		if ae, ok := err.(*lua.ApiError); ok && ae.Object != nil {
			msg = c08ValStr(ae.Object)
		}
		msg = c08LinePos.ReplaceAllString(msg, ":N:")
		msg = c08LinePos2.ReplaceAllString(msg, "line N")
		x.trace = append(x.trace, "ERR("+msg+")")
	} else {
		var parts []string
		for i := 1; i <= L.GetTop(); i++ {
			parts = append(parts, c08ValStr(L.Get(i)))
		}
		x.trace = append(x.trace, "R("+strings.Join(parts, ",")+")")
	}
	L.SetTop(0)
	// positions (chunk:line:) legitimately change with layout, also inside caught messages that
	// the program emits
	return c08LinePos.ReplaceAllString(strings.Join(x.trace, ";"), ":N:")
}

// ---- compiled code fingerprint (line information excluded) ----------------------------------------

func c08ProtoFP(p *lua.FunctionProto, b *bytes.Buffer) {
	var u [8]byte
	fmt.Fprintf(b, "P(%d,%d,%d,%d,%d,%d,%d|", p.NumUpvalues, p.NumParameters, p.IsVarArg, p.NumUsedRegisters, len(p.Code), len(p.Constants), len(p.FunctionPrototypes))
	for _, c := range p.Code {
		binary.LittleEndian.PutUint32(u[:4], c)
		b.Write(u[:4])
	}
	for _, k := range p.Constants {
		switch x := k.(type) {
		case lua.LNumber:
			b.WriteByte('n')
			binary.LittleEndian.PutUint64(u[:], math.Float64bits(float64(x)))
			b.Write(u[:])
		case lua.LString:
			fmt.Fprintf(b, "s%d:", len(x))
			b.WriteString(string(x))
		default:
			fmt.Fprintf(b, "?%s", k.Type().String())
		}
	}
	for _, l := range p.DbgLocals {
		fmt.Fprintf(b, "L%s,%d,%d;", l.Name, l.StartPc, l.EndPc)
	}
	for _, n := range p.DbgUpvalues {
		fmt.Fprintf(b, "U%s;", n)
	}
	for _, c := range p.DbgCalls {
		fmt.Fprintf(b, "C%s,%d;", c.Name, c.Pc)
	}
	for _, f := range p.FunctionPrototypes {
		c08ProtoFP(f, b)
	}
	b.WriteByte(')')
}

func c08FP(p *lua.FunctionProto) string {
	var b bytes.Buffer
	c08ProtoFP(p, &b)
	return b.String()
}

// ---- Part B: layouts ---------------------------------------------------------------------------

type c08GapForm struct {
	name    string
	text    string
	newline bool // contains a line break: not allowed between a prefix expression and its '('
}

var c08GapForms = []c08GapForm{
	{"comment-line", "--x\n", true},
	{"comment-long", "--[[x]]", false},
	{"comment-long-level2", "--[==[x]==]", false},
	{"comment-bracket-line", "--[x\n", true},
	{"comment-close-line", "--]]\n", true},
	{"comment-eq-line", "--[=x\n", true},
	{"comment-eqeq-line", "--[==\n", true},
	{"comment-long-multiline", "--[[\nx\n]]", true},
	{"comment-long-with-closers", "--[=[ ]] ]==] ]=]", false},
	{"comment-empty-line", "--\n", true},
	{"comment-line-cr", "--x\r", true},
	{"comment-line-crlf", "--x\r\n", true},
	{"blank-line", "\n\n", true},
	{"blank-line-crlf", "\r\n\r\n", true},
	{"newline-tab", "\n\t", true},
	{"blanks", " \t ", false},
}

// c08Layout is one rendering. Every rendering must load and (executable programs) give the
// canonical trace; renderings with the same token stream, or with only ';' added, must also compile
// to the same code. Compiled code is not compared when parentheses are added: that parentheses leave
// no trace in the code is a fact of this compiler, not something the property demands.
type c08Layout struct {
	name     string
	src      string
	skip     string // tokens to ignore in the reference's token-stream self-check
	cmpProto bool
}

// c08Layouts calls f for every member of the layout set of one analysed program.
func c08Layouts(in *c08lua.Info, p c08CorpusProg, perGap bool, gapStride int, f func(l c08Layout) bool) {
	src := in.Src
	hasCR := strings.IndexByte(src, '\r') >= 0
	emit := func(name, s, skip string, cmp bool) bool { return f(c08Layout{name, s, skip, cmp}) }
	if !hasCR {
		for _, le := range [][2]string{{"cr", "\r"}, {"crlf", "\r\n"}, {"lfcr", "\n\r"}} {
			if !emit("line-ends/"+le[0], c08lua.LineEnds(src, le[1]), "", true) {
				return
			}
		}
	}
	if !emit("minimal-blanks", in.Minimal(), "", true) ||
		!emit("tabs", in.Sep("\t"), "", true) ||
		!emit("two-spaces", in.Sep("  "), "", true) ||
		!emit("one-token-per-line/lf", in.OnePerLine("\n"), "", true) ||
		!emit("one-token-per-line/cr", in.OnePerLine("\r"), "", true) ||
		!emit("one-token-per-line/crlf", in.OnePerLine("\r\n"), "", true) ||
		!emit("one-token-per-line/lfcr", in.OnePerLine("\n\r"), "", true) ||
		!emit("one-token-per-line/blank-lines", in.OnePerLine("\n\n"), "", true) ||
		!emit("one-token-per-line/indented", in.OnePerLine("\n\t  "), "", true) ||
		!emit("form-feed-blanks", in.Sep("\f"), "", true) ||
		!emit("vertical-tab-blanks", in.Sep("\v"), "", true) ||
		!emit("semicolons", in.Semicolons(), ";", true) ||
		!emit("lead-newline", "\n"+src, "", true) ||
		!emit("lead-crlf", "\r\n"+src, "", true) ||
		!emit("lead-blanks", " \t "+src, "", true) ||
		!emit("trail-newline", src+"\n", "", true) ||
		!emit("trail-cr", src+"\r", "", true) ||
		!emit("trail-blanks", src+" \t ", "", true) {
		return
	}
	ranges := in.Ranges()
	if len(ranges) > 0 {
		if !emit("parentheses/all", in.Parens(ranges, 1, false), "()", false) ||
			!emit("parentheses/all-double", in.Parens(ranges, 2, false), "()", false) ||
			!emit("parentheses/all+semicolons", in.Parens(ranges, 1, true), "();", false) {
			return
		}
	}
	if !perGap {
		return
	}
	for i, rg := range ranges {
		if !emit(fmt.Sprintf("parentheses/one/%d", i), in.Parens([][2]int{rg}, 1, false), "()", false) {
			return
		}
	}
	n := in.NTok()
	for g := p.GapFrom; g <= n; g += gapStride {
		for _, form := range c08GapForms {
			if form.newline && !in.GapAllowsNewline(g) {
				continue
			}
			if !emit("gap/"+form.name, in.InsertInGap(g, form.text), "", true) {
				return
			}
		}
	}
}

// layoutCheck is the Part B oracle for one program.
func (w *c08Worker) layoutCheck(p c08CorpusProg, perGap bool, gapStride int) {
	fam := "layout"
	a := w.agg
	info := c08lua.Analyze(p.Src)
	if info.Verdict != c08lua.Accept {
		a.counters["layout/skipped-reference-"+info.Verdict.String()]++
		return
	}
	ldL := w.L // the state renderings are loaded in: the runner's own state when the program is executed
	var runner *c08Runner
	if p.Exec {
		runner = newC08Runner()
		defer runner.L.Close()
		ldL = runner.L
	}
	w.begin(&fam, p.Src)
	canon := c08LoadString(ldL, p.Src)
	w.end()
	if !canon.ok {
		// reported by Part A (underaccept / panic); nothing to compare with
		a.counters["layout/skipped-canonical-does-not-load"]++
		return
	}
	a.counters["layout/programs"]++
	canonFP := c08FP(canon.fn.Proto)
	canonTrace := ""
	if p.Exec {
		w.begin(&fam, p.Src)
		canonTrace = runner.run(canon.fn)
		// determinism of the canonical run itself
		again := c08LoadString(runner.L, p.Src)
		if again.ok {
			if t2 := runner.run(again.fn); t2 != canonTrace {
				// two runs of the same bytes differ: traces of this program cannot be compared
				a.counters["layout/programs-not-deterministic-not-executed"]++
				if os.Getenv("VERIF_C08_DUMP") != "" {
					fmt.Fprintf(os.Stderr, "C08: program %s is not deterministic: %q vs %q\n", p.Name, canonTrace, t2)
				}
				p.Exec = false
			}
		}
		w.end()
		a.counters["layout/programs-executed"]++
	}
	canonKeys := map[string][]c08lua.TokKey{}
	c08Layouts(info, p, perGap, gapStride, func(l c08Layout) bool {
		if w.ctl.isExpired() {
			w.ctl.r.NotExhaustive("deadline reached inside the layout renderings")
			return false
		}
		a.counters["layout/renderings"]++
		// self-check of the renderer against the reference: the rendering must be valid Lua 5.1
		// with the same token stream
		ri := c08lua.Analyze(l.src)
		ck, ok := canonKeys[l.skip]
		if !ok {
			ck = c08lua.TokenKeys(info, l.skip)
			canonKeys[l.skip] = ck
		}
		if ri.Verdict != c08lua.Accept || !c08lua.SameKeys(ck, c08lua.TokenKeys(ri, l.skip)) {
			harness.Fatal("C08: renderer produced a text the reference does not accept as the same program\nprogram %s layout %s: %s %s\n%s", p.Name, l.name, ri.Verdict, ri.Detail, c08Show(l.src))
		}
		w.begin(&fam, l.src)
		defer w.end()
		replay := func() map[string]interface{} {
			return map[string]interface{}{"kind": "layout", "program": p.Name, "layout": l.name, "exec": p.Exec,
				"canonical_b64": base64.StdEncoding.EncodeToString([]byte(p.Src)), "input_b64": base64.StdEncoding.EncodeToString([]byte(l.src))}
		}
		lname := l.name
		if i := strings.LastIndexByte(lname, '/'); i >= 0 && strings.HasPrefix(lname, "parentheses/one/") {
			lname = "parentheses/one"
		}
		res := c08LoadString(ldL, l.src)
		switch {
		case res.panicked:
			a.add("layout/"+lname+"/panic/"+res.pval, fam, l.src, fmt.Sprintf("program %s in layout %s: Go panic %s\nrendering: %s", p.Name, l.name, res.pval, c08Show(l.src)), replay())
			return true
		case !res.ok:
			a.add("layout/"+lname+"/rejected/"+c08ErrClass(res.cause), fam, l.src,
				fmt.Sprintf("program %s loads in its canonical layout but not in layout %s: %s\nrendering: %s", p.Name, l.name, strings.TrimSpace(res.msg), c08Show(l.src)), replay())
			return true
		}
		if l.cmpProto {
			if fp := c08FP(res.fn.Proto); fp != canonFP {
				a.add("layout/"+lname+"/compiled-code-differs", fam, l.src,
					fmt.Sprintf("program %s compiles to different code (line information aside) in layout %s\ncanonical: %s\nrendering: %s", p.Name, l.name, c08Show(p.Src), c08Show(l.src)), replay())
				return true
			}
		}
		if p.Exec {
			a.counters["layout/renderings-executed"]++
			if tr := runner.run(res.fn); tr != canonTrace {
				a.add("layout/"+lname+"/trace-differs", fam, l.src,
					fmt.Sprintf("program %s behaves differently in layout %s\ncanonical trace: %s\nrendering trace: %s\ncanonical: %s\nrendering: %s", p.Name, l.name, canonTrace, tr, c08Show(p.Src), c08Show(l.src)), replay())
			}
		}
		return true
	})
}

// ---- grammar lists -----------------------------------------------------------------------------

func (w *c08Worker) grammarLists() {
	a := w.agg
	for _, p := range c08Accept {
		r1, info := w.check("grammar-accept", p.Src)
		if info.Verdict != c08lua.Accept {
			harness.Fatal("C08: accept-list program %s is not accepted by the reference: %s %s", p.ID, info.Verdict, info.Detail)
		}
		_ = r1 // a rejection is reported by check as underaccept/grammar-accept/…
		a.counters["grammar/accept-list"]++
	}
	for _, p := range c08Reject {
		r1, info := w.check("grammar-reject", p.Src)
		if info.Verdict != c08lua.Reject {
			harness.Fatal("C08: reject-list text %s is not rejected by the reference: %s", p.ID, info.Verdict)
		}
		a.counters["grammar/reject-list"]++
		if r1.ok {
			// check() has reported overaccept/grammar-reject/<reason>; add the list entry's own signature
			a.add("grammar/accepts-invalid/"+p.ID, "grammar-reject", p.Src,
				fmt.Sprintf("every Lua version rejects %s (%s); gopher-lua compiles it", c08Show(p.Src), info.Detail),
				map[string]interface{}{"kind": "load", "family": "grammar-reject", "input_b64": base64.StdEncoding.EncodeToString([]byte(p.Src))})
		}
	}
}

// wholeFile: Part A oracle on a complete repository script, plus independence from how the reader
// delivers the bytes.
func (w *c08Worker) wholeFile(p c08CorpusProg) {
	r1, _ := w.check("corpus-file", p.Src)
	fam := "corpus-file"
	w.begin(&fam, p.Src)
	defer w.end()
	for _, rd := range []struct {
		name string
		mk   func() io.Reader
	}{
		{"one-byte-reader", func() io.Reader { return iotest.OneByteReader(strings.NewReader(p.Src)) }},
		{"half-reader", func() io.Reader { return iotest.HalfReader(strings.NewReader(p.Src)) }},
		{"data-err-reader", func() io.Reader { return iotest.DataErrReader(strings.NewReader(p.Src)) }},
	} {
		var res c08Res
		func() {
			defer func() {
				if e := recover(); e != nil {
					res = c08Res{panicked: true, pval: c08PanicClass(e)}
				}
			}()
			fn, err := w.L.Load(rd.mk(), "<string>")
			res = c08Shape(fn, err)
		}()
		if res.panicked || res.ok != r1.ok || res.msg != r1.msg {
			w.agg.add("reader-dependence/"+rd.name, fam, p.Src, fmt.Sprintf("file %s: Load through %s gives ok=%v %q panic=%q; LoadString gives ok=%v %q", p.Name, rd.name, res.ok, res.msg, res.pval, r1.ok, r1.msg),
				map[string]interface{}{"kind": "load", "family": fam, "input_b64": base64.StdEncoding.EncodeToString([]byte(p.Src))})
		} else if res.ok && r1.ok && c08FP(res.fn.Proto) != c08FP(r1.fn.Proto) {
			w.agg.add("reader-dependence/"+rd.name+"/code", fam, p.Src, fmt.Sprintf("file %s: Load through %s compiles to different code than LoadString", p.Name, rd.name),
				map[string]interface{}{"kind": "load", "family": fam, "input_b64": base64.StdEncoding.EncodeToString([]byte(p.Src))})
		}
	}
}

// loadFileFamily: LState.LoadFile must behave as LoadString on the file's bytes, after dropping a
// first line that starts with '#' (up to and including its LF, as luaL_loadfile does).
func (w *c08Worker) loadFileFamily(files []c08CorpusProg) {
	dir := harness.WorkDir(fmt.Sprintf("c08files-%d", w.id))
	defer os.RemoveAll(dir)
	type nv struct{ n, s string }
	heads := []nv{{"none", ""}, {"hash", "#"}, {"shebang", "#!/usr/bin/lua"}, {"hash-comment", "# a comment"}, {"hash-hash", "##"},
		{"hash-long", "#" + strings.Repeat("x", 5000)}, {"hash-openers", "#\"[[--[["}, {"hash-4095", "#" + strings.Repeat("y", 4094)}, {"hash-4096", "#" + strings.Repeat("y", 4095)}}
	seps := []string{"\n", "\r\n", "\r", "", "\n\n", "\n\r"}
	bodies := []string{"", "return 1", "return 1\n", "x = = 1", "--c", "x=1\ny=2\n", "#x", "return [[\na]]", "\n"}
	var contents []string
	for _, h := range heads {
		for _, b := range bodies {
			if h.s == "" {
				contents = append(contents, b)
				continue
			}
			for _, sp := range seps {
				contents = append(contents, h.s+sp+b)
			}
		}
	}
	for _, f := range files {
		b, err := os.ReadFile(filepath.Join(c08RepoDir(), f.Name))
		if err == nil {
			contents = append(contents, string(b))
		}
	}
	path := filepath.Join(dir, "chunk.lua")
	for _, content := range contents {
		w.loadFileOne(path, content)
	}
	w.loadFileUnreadable(dir)
}

func (w *c08Worker) loadFileOne(path, content string) {
	fam := "loadfile"
	{
		if err := os.WriteFile(path, []byte(content), 0o644); err != nil {
			harness.Fatal("C08: %v", err)
		}
		chunk, class := content, "plain"
		if strings.HasPrefix(content, "#") {
			i := strings.IndexByte(content, '\n')
			switch {
			case i < 0:
				chunk, class = "", "hash-line/eof"
			case i > 0 && content[i-1] == '\r':
				chunk, class = content[i+1:], "hash-line/crlf"
			default:
				chunk, class = content[i+1:], "hash-line/lf"
			}
		}
		w.begin(&fam, content)
		w.agg.counters["inputs/loadfile"]++
		var res c08Res
		func() {
			defer func() {
				if e := recover(); e != nil {
					res = c08Res{panicked: true, pval: c08PanicClass(e)}
					w.L.SetTop(0)
				}
			}()
			fn, err := w.L.LoadFile(path)
			res = c08Shape(fn, err)
		}()
		want := c08LoadString(w.L, chunk)
		w.end()
		replay := map[string]interface{}{"kind": "loadfile", "input_b64": base64.StdEncoding.EncodeToString([]byte(content))}
		show := fmt.Sprintf("file content %s; text after the #-line: %s", c08Show(content), c08Show(chunk))
		switch {
		case res.panicked:
			w.agg.add("loadfile/"+class+"/panic/"+res.pval, fam, content, "Go panic escaped LState.LoadFile: "+res.pval+"\n"+show, replay)
		case res.shape != "":
			w.agg.add("loadfile/"+class+"/badresult/"+res.shape, fam, content, "LoadFile of a readable file returned "+res.shape+" "+res.msg+"\n"+show, replay)
		case want.panicked || want.shape != "":
			// reported by Part A
		case res.ok && !want.ok:
			w.agg.add("loadfile/"+class+"/accepted-but-the-text-is-invalid", fam, content, "LoadFile compiles the file although LoadString rejects its text: "+want.msg+"\n"+show, replay)
		case !res.ok && want.ok:
			w.agg.add("loadfile/"+class+"/rejected-but-the-text-is-valid", fam, content, "LoadFile rejects the file ("+strings.TrimSpace(res.msg)+") although its text is a valid chunk\n"+show, replay)
		case res.ok && c08FP(res.fn.Proto) != c08FP(want.fn.Proto):
			w.agg.add("loadfile/"+class+"/compiled-code-differs", fam, content, "LoadFile and LoadString compile the same text to different code\n"+show, replay)
		}
	}
}

// unreadable paths: an error of type ApiErrorFile, no panic
func (w *c08Worker) loadFileUnreadable(dir string) {
	fam := "loadfile"
	type nv struct{ n, s string }
	for _, bad := range []nv{{"missing", filepath.Join(dir, "no-such-file.lua")}, {"directory", dir}} {
		var fn *lua.LFunction
		var err error
		pv := ""
		func() {
			defer func() {
				if e := recover(); e != nil {
					pv = c08PanicClass(e)
				}
			}()
			fn, err = w.L.LoadFile(bad.s)
		}()
		w.agg.counters["inputs/loadfile"]++
		ae, isAPI := err.(*lua.ApiError)
		if pv != "" || fn != nil || !isAPI || ae.Type != lua.ApiErrorFile {
			w.agg.add("loadfile/unreadable/"+bad.n, fam, bad.n, fmt.Sprintf("LoadFile of a %s path: function=%v err=%v panic=%q (expected nil, *ApiError of type ApiErrorFile)", bad.n, fn != nil, err, pv), nil)
		}
	}
}

// ---- deep nesting in sub-processes -------------------------------------------------------------

const c08MaxModest = 1 << 20 // "input of modest size"

func (c *c08Ctl) deepNesting(agg *c08Agg, sizes []int, slowMax int, timeout time.Duration, parallel int) {
	type task struct {
		fam *c08DeepFamily
		n   int
	}
	var tasks []task
	for i := range c08DeepFamilies {
		f := &c08DeepFamilies[i]
		unit := len(f.Gen(2)) - len(f.Gen(1))
		if unit < 1 {
			unit = 1
		}
		seen := map[int]bool{}
		for _, n := range sizes {
			if f.Slow && n > slowMax {
				n = slowMax
			}
			if len(f.Gen(1))+unit*n > c08MaxModest {
				n = (c08MaxModest - len(f.Gen(1))) / unit
			}
			if n < 1 || seen[n] {
				continue
			}
			seen[n] = true
			tasks = append(tasks, task{f, n})
		}
	}
	sort.SliceStable(tasks, func(i, j int) bool { return tasks[i].n < tasks[j].n })
	var mu sync.Mutex
	crashed := map[string]int{} // family -> smallest n that crashed or timed out (larger ones are skipped)
	var next int64 = -1
	var wg sync.WaitGroup
	for k := 0; k < parallel; k++ {
		wg.Add(1)
		go func() {
			defer wg.Done()
			for {
				i := int(atomic.AddInt64(&next, 1))
				if i >= len(tasks) {
					return
				}
				t := tasks[i]
				mu.Lock()
				_, skip := crashed[t.fam.Name]
				mu.Unlock()
				if skip {
					continue
				}
				if c.isExpired() {
					c.r.NotExhaustive("deadline reached before all deep-nesting inputs were tried")
					return
				}
				spec := fmt.Sprintf("%s:%d", t.fam.Name, t.n)
				res := c08RunChild(spec, timeout)
				size := len(t.fam.Gen(1)) + (len(t.fam.Gen(2))-len(t.fam.Gen(1)))*(t.n-1)
				if os.Getenv("VERIF_C08_TIMING") != "" {
					fmt.Fprintf(os.Stderr, "C08 deep: %-28s %8d bytes %8v %s %.80s\n", spec, size, res.Wall.Round(10*time.Millisecond), res.Kind, res.Detail)
				}
				mu.Lock()
				agg.counters["deep/inputs"]++
				agg.counters["deep/result/"+res.Kind]++
				replay := map[string]interface{}{"kind": "deep", "family": t.fam.Name, "n": t.n}
				what := fmt.Sprintf("family %s with n=%d (%d bytes, e.g. n=3: %q): %s %s", t.fam.Name, t.n, size, t.fam.Gen(3), res.Kind, res.Detail)
				switch res.Kind {
				case "function", "syntax-error":
				case "panic":
					agg.add("deep/"+t.fam.Name+"/panic/"+res.Detail, "deep", spec, what, replay)
				case "shape":
					agg.add("deep/"+t.fam.Name+"/badresult/"+res.Detail, "deep", spec, what, replay)
				case "crash":
					crashed[t.fam.Name] = t.n
					kind := strings.SplitN(res.Detail, " | ", 2)[0]
					agg.add("deep/"+t.fam.Name+"/process-crash/"+kind, "deep", fmt.Sprintf("%s:%09d", t.fam.Name, t.n), what, replay)
				case "timeout":
					crashed[t.fam.Name] = t.n
					agg.add("deep/"+t.fam.Name+"/no-result-within-"+timeout.String(), "deep", fmt.Sprintf("%s:%09d", t.fam.Name, t.n), what, replay)
				default:
					mu.Unlock()
					harness.Fatal("C08: child process failed: %s %s", spec, res.Detail)
				}
				mu.Unlock()
			}
		}()
	}
	wg.Wait()
}

func c08SlowFamilies() int {
	n := 0
	for _, f := range c08DeepFamilies {
		if f.Slow {
			n++
		}
	}
	return n
}

// ---- watchdog ----------------------------------------------------------------------------------

type c08Hang struct {
	input  string
	family string
	detail string
}

// watchdog looks for a single load that has been running for more than 20 s, re-tries it alone in
// a child process with 120 s, and reports it only if that times out as well.
func (c *c08Ctl) watchdog(stop <-chan struct{}, hang chan<- c08Hang) {
	tick := time.NewTicker(2 * time.Second)
	defer tick.Stop()
	retried := map[string]int{}
	for {
		select {
		case <-stop:
			return
		case <-tick.C:
		}
		now := time.Now().UnixNano()
		// a load that never returns may also allocate without bound (a scanner loop appending to its
		// buffer): beyond 12 GB of heap the longest-running load is reported at once
		var ms runtime.MemStats
		runtime.ReadMemStats(&ms)
		if ms.HeapAlloc > 12<<30 {
			var oldest *c08Slot
			for _, s := range c.slots {
				if st := s.start.Load(); st != 0 && (oldest == nil || st < oldest.start.Load()) {
					oldest = s
				}
			}
			if oldest != nil && oldest.cur.Load() != nil && oldest.fam.Load() != nil {
				hang <- c08Hang{*oldest.cur.Load(), *oldest.fam.Load(), fmt.Sprintf("heap grew to %d MB while this load had been running for %v", ms.HeapAlloc>>20, time.Duration(now-oldest.start.Load()).Round(time.Second))}
				return
			}
		}
		for _, s := range c.slots {
			st := s.start.Load()
			if st == 0 || time.Duration(now-st) < 20*time.Second {
				continue
			}
			in, fam := s.cur.Load(), s.fam.Load()
			if in == nil || fam == nil {
				continue
			}
			key := *in
			if retried[key] > 0 && time.Duration(now-st) < time.Duration(retried[key]+1)*150*time.Second {
				continue
			}
			retried[key]++
			c.r.Count("suspected-hangs-retried-in-isolation", 1)
			dir := harness.WorkDir("c08hang")
			path := filepath.Join(dir, fmt.Sprintf("input-%d", len(retried)))
			os.WriteFile(path, []byte(key), 0o644)
			res := c08RunChild("file:"+path, 120*time.Second)
			os.RemoveAll(dir)
			if res.Kind == "timeout" || res.Kind == "crash" || res.Kind == "panic" || (retried[key] >= 3) {
				hang <- c08Hang{key, *fam, fmt.Sprintf("in-process load running for %v; alone in a fresh process: %s %s", time.Duration(now-st).Round(time.Second), res.Kind, res.Detail)}
				return
			}
		}
	}
}

// ---- the run -----------------------------------------------------------------------------------

func runC08(r *harness.Run) {
	// every parse allocates a fresh 50 KB parser stack: with the default GC target the collector
	// would run every few hundred loads
	defer debug.SetGCPercent(debug.SetGCPercent(400))
	thorough := r.Thorough()
	// load() with a reader function that itself loads, matches, sorts ...: cheap, runs first
	reentrantFamily(r, "C08")
	nilArgsFamily(r, "C08")
	c08ReaderAnswers(r)
	start := time.Now()
	ctl := &c08Ctl{r: r, thorough: thorough}
	if thorough {
		ctl.deadline = r.Deadline.Add(-150 * time.Second)
	} else {
		ctl.deadline = start.Add(52 * time.Second)
		if d := r.Deadline.Add(-20 * time.Second); d.Before(ctl.deadline) {
			ctl.deadline = d
		}
	}
	if s := os.Getenv("VERIF_C08_DEADLINE_S"); s != "" {
		var n int
		fmt.Sscanf(s, "%d", &n)
		if n > 0 {
			ctl.deadline = start.Add(time.Duration(n) * time.Second)
		}
	}

	nw := harness.Workers()
	for i := 0; i < nw; i++ {
		s := &c08Slot{}
		ctl.slots = append(ctl.slots, s)
		ctl.workers = append(ctl.workers, newC08Worker(i, ctl, s))
	}

	// ---- corpus
	files := c08RepoFiles()
	var pieces []c08CorpusProg
	filesAccepted := 0
	for _, f := range files {
		info := c08lua.Analyze(f.Src)
		if info.Verdict != c08lua.Reject {
			// (Unknown: the statements read up to that point are still complete statements)
			filesAccepted++
			pieces = append(pieces, c08Pieces(f, info, 160)...)
		}
		if info.Verdict != c08lua.Accept {
			r.Count("corpus/files-not-judged-by-reference/"+info.Reason, 1)
		}
	}
	var hand []c08CorpusProg
	for _, p := range c08Accept {
		hand = append(hand, c08CorpusProg{Name: "accept/" + p.ID, Src: p.Src, Exec: true})
	}
	gen := c08GenPrograms()

	// ---- bounds per tier
	byteLen, tokFullLen, tokRedLen, tightLen := 2, 3, 4, 3
	pieceStrideMut, pieceStrideLay := 10, 4
	maxOffsets := 250
	genMutStride, genGapFull := 6, false
	deepSizes, deepSlowMax, deepTimeout, deepPar := []int{1000, 10000, 1 << 20}, 10000, 60*time.Second, 3
	if thorough {
		byteLen, tokFullLen, tokRedLen = 3, 4, 5
		pieceStrideMut, pieceStrideLay = 1, 1
		maxOffsets = 1500
		genMutStride, genGapFull = 1, true
		deepSizes, deepSlowMax, deepTimeout, deepPar = []int{1000, 10000, 100000, 1 << 20}, 30000, 120*time.Second, 4
	}

	var jobs []c08Job
	jobs = append(jobs, c08Job{name: "grammar-lists", cost: 50, run: func(w *c08Worker) { w.grammarLists() }})
	jobs = append(jobs, c08Job{name: "loadfile", cost: 50, run: func(w *c08Worker) { w.loadFileFamily(files) }})
	jobs = append(jobs, ctl.jobsBytes(byteLen)...)
	for n := 1; n <= tokFullLen; n++ {
		jobs = append(jobs, ctl.jobsTokens("tokens", c08TokensFull, n, " ")...)
	}
	for n := tokFullLen + 1; n <= tokRedLen; n++ {
		jobs = append(jobs, ctl.jobsTokens("tokens-reduced", c08TokensReduced, n, " ")...)
	}
	for n := 2; n <= tightLen; n++ {
		jobs = append(jobs, ctl.jobsTokens("tokens-tight", c08TokensFull, n, "")...)
	}
	jobs = append(jobs, ctl.jobsOpeners()...)
	jobs = append(jobs, ctl.jobsEscapes()...)
	// mutations: every hand-written program, the generated family at a stride, repository pieces at a stride
	for _, p := range hand {
		jobs = append(jobs, ctl.jobMutations(p.Name, p.Src, 1))
	}
	for i := 0; i < len(gen); i += genMutStride {
		p := gen[i]
		// the prelude is shared: mutate only the part after it
		tail := p.Src[len(c08GenPrelude):]
		jobs = append(jobs, ctl.jobMutations(p.Name, tail, 1))
	}
	mutPieces := 0
	for i := 0; i < len(pieces); i += pieceStrideMut {
		p := pieces[i]
		stride := (len(p.Src) + maxOffsets - 1) / maxOffsets
		if stride < 1 {
			stride = 1
		}
		j := ctl.jobMutations(p.Name, p.Src, stride)
		j.late = 2
		jobs = append(jobs, j)
		mutPieces++
	}
	// whole files
	for _, f := range files {
		f := f
		jobs = append(jobs, c08Job{name: "file/" + f.Name, cost: 20, run: func(w *c08Worker) {
			w.wholeFile(f)
			w.layoutCheck(f, false, 1)
		}})
	}
	// layouts
	for _, p := range hand {
		p := p
		jobs = append(jobs, c08Job{name: "layout/" + p.Name, cost: 3, run: func(w *c08Worker) { w.layoutCheck(p, true, 1) }})
	}
	for _, p := range gen {
		p := p
		jobs = append(jobs, c08Job{name: "layout/" + p.Name, cost: 3, run: func(w *c08Worker) {
			w.check("generated", p.Src)
			w.layoutCheck(p, genGapFull, 1)
		}})
	}
	layPieces := 0
	for i := 0; i < len(pieces); i += pieceStrideLay {
		p := pieces[i]
		jobs = append(jobs, c08Job{name: "layout/" + p.Name, cost: 10, run: func(w *c08Worker) {
			w.check("corpus-piece", p.Src)
			w.layoutCheck(p, true, 1)
		}})
		layPieces++
	}
	if only := os.Getenv("VERIF_C08_ONLY"); only != "" { // development aid: run a subset of the jobs
		var keep []c08Job
		for _, j := range jobs {
			for _, pfx := range strings.Split(only, ",") {
				if strings.HasPrefix(j.name, pfx) {
					keep = append(keep, j)
					break
				}
			}
		}
		jobs = keep
		r.NotExhaustive("VERIF_C08_ONLY=" + only)
		if !strings.Contains(only, "deep") {
			deepSizes = nil
		}
	}
	// heavy jobs first so that the tail of the run is made of small ones
	sort.SliceStable(jobs, func(i, j int) bool {
		if jobs[i].late != jobs[j].late {
			return jobs[i].late < jobs[j].late
		}
		return jobs[i].cost > jobs[j].cost
	})

	r.Rule = fmt.Sprintf("Part A: every input of each space is loaded (LoadString on two states / DoString when rejected / parse.Parse+lua.Compile, all under recover) and judged by an independent Lua 5.1 recogniser: "+
		"all byte strings of length <= %d; all sequences of <= %d tokens over a %d-token alphabet and of length %d..%d over a %d-token alphabet joined by one blank, of length <= %d joined by nothing; "+
		"for %d hand-written programs, every %d-th of %d generated programs (expression x context) and every %d-th of %d top-level-statement pieces of the repository's %d Lua scripts: every truncation, every single-byte deletion and every substitution by one of %d structural bytes (pieces: at most %d offsets each); "+
		"%d opener x prefix x suffix texts; LoadFile on 9 first-line forms x 6 line ends x 9 bodies and on the repository scripts (against LoadString of the text after the #-line); backslash + every byte, \\ddd for 0..999, every byte in 25 lexical positions; %d deep-nesting families in sub-processes at n in %v (capped at 1 MB of input; the %d families whose compile time is super-linear stop at n = %d). "+
		"Part B: every program the reference accepts is re-rendered from the reference token stream (line ends LF/CR/CRLF/LFCR, minimal blanks, tabs, one token per line, FF/VT blanks, ';' after every statement, parentheses around every operand, %d comment/blank forms in every token gap) and must load, compile to the same code and (hand-written and generated programs) give the same emit trace. "+
		"A case is non-trivial when gopher-lua compiles the bytes into a function; distinct = distinct byte strings.",
		byteLen, tokFullLen, len(c08TokensFull), tokFullLen+1, tokRedLen, len(c08TokensReduced), tightLen,
		len(hand), genMutStride, len(gen), pieceStrideMut, len(pieces), len(files), len(c08StructBytes), maxOffsets,
		len(c08Openers)*len(c08OpenerPrefixes)*len(c08OpenerSuffixes), len(c08DeepFamilies), deepSizes, c08SlowFamilies(), deepSlowMax, len(c08GapForms))
	r.Assumptions = []string{
		"the reference recogniser (internal/refs/c08lua) is the executable reading of the Lua 5.1 lexical and syntactic rules plus goto/labels with Lua 5.2 visibility; where the manual or PUC-Lua leave room (unlisted escapes, '[[' inside level-0 long brackets, hexadecimal floats, nesting beyond 150 levels, more than 150 locals, goto past a local, duplicate labels) it answers Unknown and nothing is judged",
		"'never hangs' is decided by a watchdog only: a load running for 20 s is re-tried alone in a fresh process for 120 s before it is reported",
		"deep-nesting inputs run in child processes with the Go runtime's default stack limit (1 GB); a process crash counts only for inputs of at most 1 MB",
		"the repository's Lua test scripts under " + c08RepoDir() + " are valid Lua 5.1 programs; pieces are cut at top-level statement boundaries found by the reference and used only when the reference accepts them",
		"over-acceptance (texts Lua 5.1 rejects but gopher-lua compiles) is reported per reference rejection class; the property statement itself only demands acceptance of valid texts",
	}

	// ---- run: jobs on the worker pool, deep nesting beside it, watchdog over both
	deepAgg := newC08Agg()
	var skipped atomic.Int64
	var firstSkipped atomic.Pointer[string]
	timing := os.Getenv("VERIF_C08_TIMING") != ""
	var timeMu sync.Mutex
	timeBy := map[string]time.Duration{}
	defer func() {
		for k, d := range timeBy {
			fmt.Fprintf(os.Stderr, "C08 timing: %-40s %v\n", k, d.Round(time.Millisecond))
		}
	}()
	if pf := os.Getenv("VERIF_C08_PROF"); pf != "" {
		f, _ := os.Create(pf)
		pprof.StartCPUProfile(f)
		defer pprof.StopCPUProfile()
	}
	stopWatch := make(chan struct{})
	hangCh := make(chan c08Hang, 1)
	done := make(chan struct{})
	go ctl.watchdog(stopWatch, hangCh)
	go func() {
		var wg sync.WaitGroup
		wg.Add(1)
		go func() {
			defer wg.Done()
			ctl.deepNesting(deepAgg, deepSizes, deepSlowMax, deepTimeout, deepPar)
		}()
		harness.ParallelShards(len(jobs), func(worker, shard int) {
			if ctl.isExpired() {
				if skipped.Add(1) == 1 {
					firstSkipped.Store(&jobs[shard].name)
				}
				return
			}
			t0 := time.Now()
			jobs[shard].run(ctl.workers[worker])
			if timing {
				f := strings.SplitN(jobs[shard].name, "/", 3)
				key := f[0]
				if len(f) > 1 && (f[0] == "layout" || f[0] == "mutation") {
					key += "/" + strings.TrimRight(f[1], "0123456789c")
				}
				timeMu.Lock()
				timeBy[key] += time.Since(t0)
				timeMu.Unlock()
			}
		})
		wg.Wait()
		close(done)
	}()
	defer func() {
		if n := skipped.Load(); n > 0 {
			r.NotExhaustive(fmt.Sprintf("deadline reached: %d of %d jobs were not run (first: %s)", n, len(jobs), *firstSkipped.Load()))
		}
	}()
	total := newC08Agg()
	select {
	case <-done:
	case h := <-hangCh:
		r.NotExhaustive("a load did not return; the run was abandoned")
		total.add("hang/"+h.family, h.family, h.input, "a single load does not terminate: "+h.detail+"\ninput: "+c08Show(h.input),
			map[string]interface{}{"kind": "load", "family": h.family, "input_b64": base64.StdEncoding.EncodeToString([]byte(h.input))})
		// the stuck worker cannot be stopped; report what the others have found so far is not safe
		// to read concurrently, so only the hang is reported
		c08Report(r, total)
		return
	}
	close(stopWatch)
	for _, w := range ctl.workers {
		total.merge(w.agg)
	}
	total.merge(deepAgg)
	r.Extra["corpus_files"] = len(files)
	r.Extra["corpus_files_accepted_by_reference"] = filesAccepted
	r.Extra["corpus_pieces"] = len(pieces)
	r.Extra["corpus_pieces_mutated"] = mutPieces
	r.Extra["corpus_pieces_rendered"] = layPieces
	r.Extra["hand_written_programs"] = len(hand)
	r.Extra["generated_programs"] = len(gen)
	r.Extra["reject_list"] = len(c08Reject)
	r.Extra["jobs"] = len(jobs)
	c08Report(r, total)

	// ---- goto/label placements the compiler must refuse (the refusal happens after parsing, in the
	// code generator's label resolution): a syntax error, never a Go panic out of Load
	{
		pr := &progRunner{r: r, prop: "C08", opts: lua.Options{}, sigPrefix: "compile/"}
		pr.runGens(map[string]Gen{"F-goto-invalid": genGotoInvalid(thorough)}, []string{"F-goto-invalid"})
		// what a chunk means does not depend on where its bytes are cut into read blocks: programs with
		// line ends of every kind inside long strings, long comments and after a backslash, and
		// control-flow programs, each shifted so that every carriage return in turn is the last byte of
		// the reader's first (and second) 4096-byte block; the string values and traces are compared
		// with the reference interpreter
		pb := &progRunner{r: r, prop: "C08", opts: lua.Options{}, sigPrefix: "blocks/"}
		pb.runGens(map[string]Gen{"F-crlf": genCRLFProgs(), "B-crlf/F-crlf": bufBoundary(genCRLFProgs(), "\r\n"), "B-lfcr/F-crlf": bufBoundary(genCRLFProgs(), "\n\r"), "B-cr/F-crlf": bufBoundary(genCRLFProgs(), "\r"),
			"B-crlf/F-genfor": bufBoundary(genGenFor(false), "\r\n")},
			[]string{"F-crlf", "B-crlf/F-crlf", "B-lfcr/F-crlf", "B-cr/F-crlf", "B-crlf/F-genfor"})
	}
}

func c08Report(r *harness.Run, total *c08Agg) {
	var evals int64
	for k, n := range total.counters {
		r.Count(k, n)
		if strings.HasPrefix(k, "inputs/") || k == "layout/renderings" || k == "deep/inputs" {
			evals += n
		}
	}
	r.EvalN(evals)
	for h := range total.accepted {
		var b [8]byte
		binary.LittleEndian.PutUint64(b[:], h)
		r.Nontrivial(string(b[:]))
	}
	sigs := make([]string, 0, len(total.viol))
	for s := range total.viol {
		sigs = append(sigs, s)
	}
	sort.Strings(sigs)
	dump := os.Getenv("VERIF_C08_DUMP") != "" // development aid: every signature with its smallest input
	for _, s := range sigs {
		v := total.viol[s]
		if dump {
			fmt.Fprintf(os.Stderr, "C08 sig: %-70s n=%-8d %s\n", s, v.Count, c08Show(v.Input))
		}
		ex := v.Extra
		if ex == nil {
			ex = map[string]interface{}{}
		}
		ex["cases"] = v.Count
		r.Violation(v.Sig, fmt.Sprintf("%s\n(%d cases with this signature; smallest shown; family %s)", v.What, v.Count, v.Family), ex)
	}
	r.Extra["violation_or_finding_signatures"] = len(sigs)
	// samples: first and smallest accepted inputs are not kept; show a few fixed ones
	for _, s := range []string{"", "x=1", c08Accept[20].Src, c08GenPrelude + strings.Replace(c08Contexts[0], "%s", c08Exprs[40], 1), c08Reject[0].Src} {
		info := c08lua.Analyze(s)
		r.AddSample(map[string]interface{}{"input": s, "reference": info.Verdict.String(), "reason": info.ReasonKey()})
	}
}

// ---- replay ------------------------------------------------------------------------------------

func replayC08(raw json.RawMessage) (bool, string) {
	var rp struct {
		Kind      string `json:"kind"`
		Family    string `json:"family"`
		Input     string `json:"input_b64"`
		Canonical string `json:"canonical_b64"`
		Layout    string `json:"layout"`
		Program   string `json:"program"`
		Exec      bool   `json:"exec"`
		N         int    `json:"n"`
	}
	if err := json.Unmarshal(raw, &rp); err != nil {
		return false, "bad replay object: " + err.Error()
	}
	ctl := &c08Ctl{deadline: time.Now().Add(time.Hour)}
	slot := &c08Slot{}
	w := newC08Worker(0, ctl, slot)
	in, _ := base64.StdEncoding.DecodeString(rp.Input)
	switch rp.Kind {
	case "load":
		w.check(rp.Family, string(in))
	case "value":
		w.valueCheck(rp.Family, string(in))
	case "loadfile":
		dir := harness.WorkDir("c08replay")
		defer os.RemoveAll(dir)
		w.loadFileOne(filepath.Join(dir, "chunk.lua"), string(in))
	case "layout":
		canon, _ := base64.StdEncoding.DecodeString(rp.Canonical)
		cr := c08LoadString(w.L, string(canon))
		rr := c08LoadString(w.L, string(in))
		switch {
		case !cr.ok:
			return true, "canonical text does not load: " + cr.msg + cr.pval
		case rr.panicked:
			w.agg.add("layout/panic", "layout", string(in), "Go panic "+rr.pval, nil)
		case !rr.ok:
			w.agg.add("layout/rejected", "layout", string(in), "the rendering is rejected: "+strings.TrimSpace(rr.msg), nil)
		default:
			if !strings.HasPrefix(rp.Layout, "parentheses") && c08FP(cr.fn.Proto) != c08FP(rr.fn.Proto) {
				w.agg.add("layout/compiled-code-differs", "layout", string(in), "compiled code differs", nil)
			}
			if rp.Exec {
				x := newC08Runner()
				a, b := c08LoadString(x.L, string(canon)), c08LoadString(x.L, string(in))
				if a.ok && b.ok {
					ta, tb := x.run(a.fn), x.run(b.fn)
					if ta != tb {
						w.agg.add("layout/trace-differs", "layout", string(in), "canonical trace "+ta+"\nrendering trace "+tb, nil)
					}
				}
			}
		}
	case "deep":
		f := c08DeepFamilyByName(rp.Family)
		if f == nil {
			return false, "unknown deep family " + rp.Family
		}
		res := c08RunChild(fmt.Sprintf("%s:%d", rp.Family, rp.N), 120*time.Second)
		if res.Kind != "function" && res.Kind != "syntax-error" {
			return false, fmt.Sprintf("deep family %s n=%d: %s %s", rp.Family, rp.N, res.Kind, res.Detail)
		}
		return true, fmt.Sprintf("deep family %s n=%d: %s", rp.Family, rp.N, res.Kind)
	default:
		return false, "unknown replay kind " + rp.Kind
	}
	if len(w.agg.viol) == 0 {
		return true, "C08 replay: no violation reproduced"
	}
	var out []string
	for s, v := range w.agg.viol {
		out = append(out, s+": "+v.What)
	}
	sort.Strings(out)
	return false, strings.Join(out, "\n")
}
