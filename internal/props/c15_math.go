package props

// C15, math library. Every function is called on every tuple over a fixed float64 argument set.
// Oracles:
//   exact   floor ceil abs max min fmod modf frexp ldexp sqrt, and pow where the true value is a
//           float64 — decided in rational / arbitrary-precision arithmetic (math/big), not with the
//           float64 functions the library wraps;
//   ulp     deg rad exp log log10 sin cos tan asin acos atan atan2 sinh cosh tanh pow: the true
//           value is evaluated by series in big.Float (>= 320 bits, argument reduction with a
//           1500-bit pi) and the result must lie within c15Tol[fn] units in the last place;
//   range   random.

import (
	"fmt"
	"math"
	"math/big"
	"sort"
	"strings"
	"sync"

	"verif/internal/harness"
)

// ---- arbitrary-precision elementary functions ------------------------------------------------------------

const c15P = 320 // working precision in bits

func c15BF(x float64) *big.Float { return new(big.Float).SetPrec(c15P).SetFloat64(x) }
func c15New() *big.Float         { return new(big.Float).SetPrec(c15P) }

// small: is |t| below 2^-(prec+8) relative to |ref| (series cut-off)?
func c15Small(t, ref *big.Float, prec int) bool {
	if t.Sign() == 0 {
		return true
	}
	if ref.Sign() == 0 {
		return false
	}
	return t.MantExp(nil) < ref.MantExp(nil)-prec-8
}

// atan(1/n) by its Taylor series, for pi.
func c15AtanInv(n int64, prec uint) *big.Float {
	x := new(big.Float).SetPrec(prec).Quo(new(big.Float).SetPrec(prec).SetInt64(1), new(big.Float).SetPrec(prec).SetInt64(n))
	x2 := new(big.Float).SetPrec(prec).Mul(x, x)
	sum := new(big.Float).SetPrec(prec).Set(x)
	term := new(big.Float).SetPrec(prec).Set(x)
	for k := int64(1); ; k++ {
		term.Mul(term, x2)
		t := new(big.Float).SetPrec(prec).Quo(term, new(big.Float).SetPrec(prec).SetInt64(2*k+1))
		if k%2 == 1 {
			sum.Sub(sum, t)
		} else {
			sum.Add(sum, t)
		}
		if c15Small(t, sum, int(prec)) {
			break
		}
	}
	return sum
}

var c15PiOnce sync.Once
var c15PiVal *big.Float // 1600 bits

func c15Pi(prec uint) *big.Float {
	c15PiOnce.Do(func() {
		const p = 1600
		a := c15AtanInv(5, p+64)
		b := c15AtanInv(239, p+64)
		a.Mul(a, new(big.Float).SetInt64(16))
		b.Mul(b, new(big.Float).SetInt64(4))
		c15PiVal = new(big.Float).SetPrec(p).Sub(a, b)
	})
	return new(big.Float).SetPrec(prec).Set(c15PiVal)
}

var c15Ln2Once sync.Once
var c15Ln2Val *big.Float

// ln 2 = 2 atanh(1/3)
func c15Ln2() *big.Float {
	c15Ln2Once.Do(func() {
		c15Ln2Val = c15AtanhSeries(new(big.Float).SetPrec(c15P+64).Quo(big.NewFloat(1), big.NewFloat(3)), c15P+64)
	})
	return new(big.Float).SetPrec(c15P + 32).Set(c15Ln2Val)
}

// 2*atanh(t) = 2 * sum t^(2k+1)/(2k+1)
func c15AtanhSeries(t *big.Float, prec uint) *big.Float {
	t2 := new(big.Float).SetPrec(prec).Mul(t, t)
	sum := new(big.Float).SetPrec(prec).Set(t)
	term := new(big.Float).SetPrec(prec).Set(t)
	for k := int64(1); k < 100000; k++ {
		term.Mul(term, t2)
		q := new(big.Float).SetPrec(prec).Quo(term, new(big.Float).SetPrec(prec).SetInt64(2*k+1))
		sum.Add(sum, q)
		if c15Small(q, sum, int(prec)) {
			break
		}
	}
	return sum.Mul(sum, new(big.Float).SetInt64(2))
}

// c15X is an extended real: a finite big.Float or +Inf / -Inf / NaN. "over" marks finite true values
// whose magnitude is beyond 2^±1200 (they only need to be known as overflow / underflow).
type c15X struct {
	v    *big.Float
	kind int // 0 finite, +1 +Inf, -1 -Inf, 2 NaN, 3 finite but astronomically large (sign in v), 4 finite non-zero but astronomically small (sign in v)
}

func c15Fin(v *big.Float) c15X { return c15X{v: v} }

var c15XNaN = c15X{kind: 2}

func c15XInf(sign int) c15X {
	if sign < 0 {
		return c15X{kind: -1}
	}
	return c15X{kind: 1}
}

func (e c15X) String() string {
	switch e.kind {
	case 1:
		return "+Inf"
	case -1:
		return "-Inf"
	case 2:
		return "NaN"
	case 3:
		return "a finite value beyond the float64 range (overflow)"
	case 4:
		return "a non-zero value below the float64 range (underflow)"
	}
	return e.v.Text('g', 25)
}

// exp(x) for a finite big x.
func c15Exp(x *big.Float) c15X {
	xf, _ := x.Float64()
	if xf > 1200 {
		return c15X{v: big.NewFloat(1), kind: 3}
	}
	if xf < -1300 {
		return c15X{v: big.NewFloat(1), kind: 4}
	}
	ln2 := c15Ln2()
	k := int(math.Round(xf / math.Ln2))
	r := new(big.Float).SetPrec(c15P+32).Mul(ln2, new(big.Float).SetInt64(int64(k)))
	r.Sub(new(big.Float).SetPrec(c15P+32).Set(x), r)
	r.SetMantExp(r, -10)
	sum := new(big.Float).SetPrec(c15P + 32).SetInt64(1)
	term := new(big.Float).SetPrec(c15P + 32).SetInt64(1)
	for n := int64(1); n < 10000; n++ {
		term.Mul(term, r)
		term.Quo(term, new(big.Float).SetInt64(n))
		sum.Add(sum, term)
		if c15Small(term, sum, c15P+32) {
			break
		}
	}
	for i := 0; i < 10; i++ {
		sum.Mul(sum, sum)
	}
	sum.SetMantExp(sum, k)
	return c15Fin(sum.SetPrec(c15P))
}

// ln(x) for finite big x > 0.
func c15Ln(x *big.Float) *big.Float {
	m := new(big.Float).SetPrec(c15P + 32)
	e := x.MantExp(m) // x = m * 2^e, m in [0.5, 1)
	if m.Cmp(big.NewFloat(0.7071067811865476)) < 0 {
		m.SetMantExp(m, 1)
		e--
	}
	one := new(big.Float).SetPrec(c15P + 32).SetInt64(1)
	t := new(big.Float).SetPrec(c15P+32).Quo(new(big.Float).SetPrec(c15P+32).Sub(m, one), new(big.Float).SetPrec(c15P+32).Add(m, one))
	s := c15AtanhSeries(t, c15P+32)
	el := new(big.Float).SetPrec(c15P+32).Mul(c15Ln2(), new(big.Float).SetInt64(int64(e)))
	return new(big.Float).SetPrec(c15P).Add(s, el)
}

// sin and cos of a finite big x.
func c15SinCos(x *big.Float) (*big.Float, *big.Float) {
	prec := uint(c15P + 64)
	if x.Sign() != 0 {
		if e := x.MantExp(nil); e > 0 {
			prec += uint(e)
		}
	}
	if prec > 1560 {
		harness.Fatal("c15: argument too large for the pi table")
	}
	halfpi := c15Pi(prec)
	halfpi.SetMantExp(halfpi, -1)
	q := new(big.Float).SetPrec(prec).Quo(new(big.Float).SetPrec(prec).Set(x), halfpi)
	// n = round(q)
	q.Add(q, new(big.Float).SetFloat64(0.5))
	n := new(big.Int)
	if q.IsInt() {
		q.Int(n)
	} else {
		q.Int(n) // truncates toward zero
		if q.Sign() < 0 {
			n.Sub(n, big.NewInt(1))
		}
	}
	r := new(big.Float).SetPrec(prec).Mul(new(big.Float).SetPrec(prec).SetInt(n), halfpi)
	r.Sub(new(big.Float).SetPrec(prec).Set(x), r)
	r.SetPrec(c15P + 32)
	quad := int(new(big.Int).Mod(n, big.NewInt(4)).Int64())
	r2 := new(big.Float).SetPrec(c15P+32).Mul(r, r)
	s := new(big.Float).SetPrec(c15P + 32).Set(r)
	c := new(big.Float).SetPrec(c15P + 32).SetInt64(1)
	ts := new(big.Float).SetPrec(c15P + 32).Set(r)
	tc := new(big.Float).SetPrec(c15P + 32).SetInt64(1)
	for k := int64(1); k < 5000; k++ {
		tc.Mul(tc, r2)
		tc.Quo(tc, new(big.Float).SetInt64((2*k-1)*(2*k)))
		ts.Mul(ts, r2)
		ts.Quo(ts, new(big.Float).SetInt64((2*k)*(2*k+1)))
		if k%2 == 1 {
			c.Sub(c, tc)
			s.Sub(s, ts)
		} else {
			c.Add(c, tc)
			s.Add(s, ts)
		}
		if c15Small(tc, c, c15P+32) && c15Small(ts, s, c15P+32) {
			break
		}
	}
	neg := func(v *big.Float) *big.Float { return new(big.Float).SetPrec(c15P + 32).Neg(v) }
	switch quad {
	case 1:
		return c, neg(s)
	case 2:
		return neg(s), neg(c)
	case 3:
		return neg(c), s
	}
	return s, c
}

func c15Atan(x *big.Float) *big.Float {
	p := uint(c15P + 32)
	a := new(big.Float).SetPrec(p).Abs(x)
	one := new(big.Float).SetPrec(p).SetInt64(1)
	inv := false
	if a.Cmp(one) > 0 {
		a.Quo(one, a)
		inv = true
	}
	for i := 0; i < 4; i++ {
		d := new(big.Float).SetPrec(p).Mul(a, a)
		d.Add(d, one)
		d.Sqrt(d)
		d.Add(d, one)
		a.Quo(a, d)
	}
	a2 := new(big.Float).SetPrec(p).Mul(a, a)
	sum := new(big.Float).SetPrec(p).Set(a)
	term := new(big.Float).SetPrec(p).Set(a)
	for k := int64(1); k < 100000; k++ {
		term.Mul(term, a2)
		t := new(big.Float).SetPrec(p).Quo(term, new(big.Float).SetInt64(2*k+1))
		if k%2 == 1 {
			sum.Sub(sum, t)
		} else {
			sum.Add(sum, t)
		}
		if c15Small(t, sum, int(p)) {
			break
		}
	}
	sum.SetMantExp(sum, 4)
	if inv {
		h := c15Pi(p)
		h.SetMantExp(h, -1)
		sum.Sub(h, sum)
	}
	if x.Sign() < 0 {
		sum.Neg(sum)
	}
	return sum
}

func c15Asin(x *big.Float) c15X {
	p := uint(c15P + 32)
	one := new(big.Float).SetPrec(p).SetInt64(1)
	a := new(big.Float).SetPrec(p).Abs(x)
	switch a.Cmp(one) {
	case 1:
		return c15XNaN
	case 0:
		h := c15Pi(p)
		h.SetMantExp(h, -1)
		if x.Sign() < 0 {
			h.Neg(h)
		}
		return c15Fin(h)
	}
	d := new(big.Float).SetPrec(p).Mul(x, x)
	d.Sub(one, d)
	d.Sqrt(d)
	return c15Fin(c15Atan(new(big.Float).SetPrec(p).Quo(new(big.Float).SetPrec(p).Set(x), d)))
}

// sinh, cosh for finite x
func c15SinhCosh(x *big.Float) (c15X, c15X) {
	p := uint(c15P + 32)
	xf, _ := x.Float64()
	ep := c15Exp(x)
	if ep.kind == 3 || ep.kind == 4 { // |x| astronomically large
		s := c15X{v: big.NewFloat(1), kind: 3}
		if xf < 0 {
			s = c15X{v: big.NewFloat(-1), kind: 3}
		}
		return s, c15X{v: big.NewFloat(1), kind: 3}
	}
	en := new(big.Float).SetPrec(p).Quo(new(big.Float).SetPrec(p).SetInt64(1), ep.v)
	ch := new(big.Float).SetPrec(p).Add(ep.v, en)
	ch.SetMantExp(ch, -1)
	var sh *big.Float
	if math.Abs(xf) < 1 {
		// series, no cancellation
		x2 := new(big.Float).SetPrec(p).Mul(x, x)
		sh = new(big.Float).SetPrec(p).Set(x)
		term := new(big.Float).SetPrec(p).Set(x)
		for k := int64(1); k < 5000; k++ {
			term.Mul(term, x2)
			term.Quo(term, new(big.Float).SetInt64((2*k)*(2*k+1)))
			sh.Add(sh, term)
			if c15Small(term, sh, int(p)) {
				break
			}
		}
	} else {
		sh = new(big.Float).SetPrec(p).Sub(ep.v, en)
		sh.SetMantExp(sh, -1)
	}
	return c15Fin(sh), c15Fin(ch)
}

// ---- distance in units in the last place ---------------------------------------------------------------------

var c15TwoTo1024 = new(big.Float).SetMantExp(big.NewFloat(1), 1024)

// c15UlpErr: |got - T| / ulp(T), ulp(T) being the spacing of float64 at |T| (2^-1074 at least,
// 2^971 at most). A zero result's sign is not judged here.
func c15UlpErr(got float64, T c15X) float64 {
	if math.IsNaN(got) {
		if T.kind == 2 {
			return 0
		}
		return math.Inf(1)
	}
	switch T.kind {
	case 2:
		return math.Inf(1)
	case 1, -1:
		if math.IsInf(got, T.kind) {
			return 0
		}
		return math.Inf(1)
	case 3: // overflow
		if math.IsInf(got, T.v.Sign()) {
			return 0
		}
		return math.Inf(1)
	case 4: // underflow: 0 or the smallest subnormal of the right sign are within 1 unit
		if got == 0 {
			return 0.5
		}
		if math.Abs(got) == 5e-324 && (got > 0) == (T.v.Sign() > 0) {
			return 1
		}
		return math.Inf(1)
	}
	t := T.v
	if math.IsInf(got, 0) {
		// correct iff the true value rounds to infinity: |T| >= 2^1024 - 2^970
		lim := new(big.Float).SetPrec(c15P).Sub(c15TwoTo1024, new(big.Float).SetMantExp(big.NewFloat(1), 970))
		a := new(big.Float).SetPrec(c15P).Abs(t)
		if a.Cmp(lim) >= 0 && (got > 0) == (t.Sign() > 0) {
			return 0.5
		}
		// distance measured from the largest finite number, in its ulp
		d := new(big.Float).SetPrec(c15P).Sub(c15TwoTo1024, a)
		d.SetMantExp(d, -971)
		f, _ := d.Float64()
		if (got > 0) != (t.Sign() > 0) {
			return math.Inf(1)
		}
		return math.Abs(f)
	}
	e := -1074
	if t.Sign() != 0 {
		e = t.MantExp(nil) - 1
	}
	if e > 1023 {
		e = 1023
	}
	if e < -1022 {
		e = -1022
	}
	d := new(big.Float).SetPrec(c15P).Sub(new(big.Float).SetPrec(c15P).SetFloat64(got), t)
	d.Abs(d)
	if d.Sign() == 0 {
		return 0
	}
	d.SetMantExp(d, -(e - 52))
	f, _ := d.Float64()
	return f
}

// ---- exact reference definitions ---------------------------------------------------------------------------------

func c15Trunc(x float64) float64 {
	if math.IsNaN(x) || math.IsInf(x, 0) || math.Abs(x) >= 4503599627370496 {
		return x
	}
	return math.Copysign(float64(int64(x)), x)
}

func c15RefFloor(x float64) float64 {
	t := c15Trunc(x)
	if t > x {
		t--
	}
	if t == 0 { // floor keeps -0 for -0 and yields +0 for [0,1)
		if x == 0 {
			return x
		}
		return 0
	}
	return t
}

func c15RefCeil(x float64) float64 { // ceil(x) = -floor(-x)
	return -c15RefFloor(-x)
}

func c15Rat(x float64) *big.Rat { return new(big.Rat).SetFloat64(x) }

// fmod: the value r with the sign of x, |r| < |y| and x - r an integral multiple of y.
func c15RefFmod(x, y float64) float64 {
	switch {
	case math.IsNaN(x) || math.IsNaN(y) || math.IsInf(x, 0) || y == 0:
		return math.NaN()
	case math.IsInf(y, 0) || x == 0:
		return x
	}
	q := new(big.Rat).Quo(c15Rat(x), c15Rat(y))
	n := new(big.Int).Quo(q.Num(), q.Denom()) // truncated toward zero
	r := new(big.Rat).Sub(c15Rat(x), new(big.Rat).Mul(new(big.Rat).SetInt(n), c15Rat(y)))
	f, exact := r.Float64()
	if !exact {
		harness.Fatal("c15: fmod(%v,%v) reference is not a float64", x, y)
	}
	if f == 0 {
		return math.Copysign(0, x)
	}
	return f
}

func c15RefModf(x float64) (float64, float64) {
	if math.IsInf(x, 0) {
		return x, math.Copysign(0, x)
	}
	ip := c15Trunc(x)
	fp := x - ip // exact: both share the sign and |x - ip| < 1 is a suffix of x's significand
	return ip, math.Copysign(fp, x)
}

func c15RefFrexp(x float64) (float64, int) {
	if x == 0 || math.IsInf(x, 0) || math.IsNaN(x) {
		return x, 0
	}
	m := new(big.Float)
	e := new(big.Float).SetFloat64(x).MantExp(m)
	f, _ := m.Float64()
	return f, e
}

func c15RefLdexp(m float64, e int) float64 {
	if m == 0 || math.IsInf(m, 0) || math.IsNaN(m) {
		return m
	}
	v := new(big.Float).SetMantExp(new(big.Float).SetFloat64(m), e)
	f, _ := v.Float64() // round to nearest even, gradual underflow, overflow to Inf
	return f
}

// sqrt, correctly rounded: the float64 c with ((prev(c)+c)/2)^2 < x < ((c+next(c))/2)^2.
func c15RefSqrt(x float64) float64 {
	switch {
	case math.IsNaN(x) || x < 0:
		return math.NaN()
	case x == 0 || math.IsInf(x, 1):
		return x
	}
	bx := new(big.Float).SetPrec(256).SetFloat64(x)
	c, _ := new(big.Float).SetPrec(256).Sqrt(bx).Float64()
	ok := func(c float64) bool {
		lo := new(big.Float).SetPrec(256).Add(big.NewFloat(math.Nextafter(c, 0)), big.NewFloat(c))
		lo.SetMantExp(lo, -1)
		hi := new(big.Float).SetPrec(256).Add(big.NewFloat(math.Nextafter(c, math.Inf(1))), big.NewFloat(c))
		hi.SetMantExp(hi, -1)
		lo.Mul(lo, lo)
		hi.Mul(hi, hi)
		return lo.Cmp(bx) <= 0 && bx.Cmp(hi) <= 0
	}
	for _, cand := range []float64{c, math.Nextafter(c, 0), math.Nextafter(c, math.Inf(1))} {
		if ok(cand) {
			return cand
		}
	}
	harness.Fatal("c15: no correctly rounded sqrt found for %v", x)
	return 0
}

func c15IsOddInt(y float64) bool {
	if math.Abs(y) >= 9007199254740992 || y != math.Trunc(y) {
		return false
	}
	return math.Mod(y, 2) != 0
}

// pow: the true value (IEEE 754-2008 / C99 F.9.4.4 for the special cases).
func c15RefPow(x, y float64) c15X {
	switch {
	case y == 0:
		return c15Fin(c15BF(1))
	case x == 1:
		return c15Fin(c15BF(1))
	case math.IsNaN(x) || math.IsNaN(y):
		return c15XNaN
	case x == 0:
		neg := math.Signbit(x) && c15IsOddInt(y)
		if y < 0 {
			if neg {
				return c15XInf(-1)
			}
			return c15XInf(1)
		}
		return c15Fin(c15BF(0)) // sign of zero judged separately
	case math.IsInf(y, 0):
		a := math.Abs(x)
		switch {
		case a == 1:
			return c15Fin(c15BF(1))
		case (a < 1) == math.IsInf(y, 1):
			return c15Fin(c15BF(0))
		}
		return c15XInf(1)
	case math.IsInf(x, 0):
		if math.IsInf(x, -1) && c15IsOddInt(y) {
			if y < 0 {
				return c15Fin(c15BF(0))
			}
			return c15XInf(-1)
		}
		if y < 0 {
			return c15Fin(c15BF(0))
		}
		return c15XInf(1)
	case x < 0 && y != math.Trunc(y):
		return c15XNaN
	}
	// finite x != 0, finite y != 0
	if y == math.Trunc(y) && math.Abs(y) <= 64 {
		n := int64(math.Abs(y))
		r := new(big.Rat).SetInt64(1)
		bx := c15Rat(x)
		for i := int64(0); i < n; i++ {
			r.Mul(r, bx)
		}
		if y < 0 {
			r.Inv(r)
		}
		return c15Fin(new(big.Float).SetPrec(c15P).SetRat(r))
	}
	l := c15Ln(c15BF(math.Abs(x)))
	l.Mul(l, c15BF(y))
	e := c15Exp(l)
	if x < 0 && c15IsOddInt(y) {
		e.v = new(big.Float).SetPrec(c15P).Neg(e.v)
	}
	return e
}

// ---- evaluating one math case ------------------------------------------------------------------------------------------

// tolerances in ulp for the functions that are not exactly defined by a finite computation
var c15Tol = map[string]float64{
	"deg": 2, "rad": 2, "exp": 2, "log": 2, "log10": 2, "sin": 2, "cos": 2, "tan": 2, "asin": 2, "acos": 2, "atan": 2, "atan2": 2,
	"sinh": 2, "cosh": 2, "tanh": 2, "pow": 2,
}

func c15NumClass(f float64) string {
	s := ""
	if math.Signbit(f) {
		s = "-"
	}
	a := math.Abs(f)
	switch {
	case math.IsNaN(f):
		return "nan"
	case a == 0:
		return s + "0"
	case math.IsInf(a, 0):
		return s + "inf"
	case a < 2.2250738585072014e-308:
		return s + "subnormal"
	case a >= 4503599627370496:
		return s + "int>=2^52"
	case a == math.Trunc(a):
		return s + "int"
	}
	return s + "frac"
}

type c15MathVerdict struct {
	judged bool
	ok     bool
	class  string // failure class (part of the signature)
	exp    string // human-readable expectation
	ulp    float64
}

func c15SameOrZeroSign(got, exp float64) (ok bool, class string) {
	if math.IsNaN(exp) {
		if math.IsNaN(got) {
			return true, ""
		}
		return false, "not-nan"
	}
	if math.Float64bits(got) == math.Float64bits(exp) {
		return true, ""
	}
	if got == 0 && exp == 0 {
		return false, "zero-sign"
	}
	if math.IsNaN(got) {
		return false, "nan"
	}
	return false, "wrong-value"
}

// c15TrueUnary: the true value of a transcendental function of one finite-or-infinite argument.
func c15TrueUnary(fn string, x float64) c15X {
	if math.IsNaN(x) {
		return c15XNaN
	}
	inf := math.IsInf(x, 0)
	bx := c15BF(0)
	if !inf {
		bx = c15BF(x)
	}
	halfpi := func(sign int) c15X {
		h := c15Pi(c15P)
		h.SetMantExp(h, -1)
		if sign < 0 {
			h.Neg(h)
		}
		return c15Fin(h)
	}
	sgn := 1
	if x < 0 {
		sgn = -1
	}
	switch fn {
	case "deg":
		if inf {
			return c15XInf(sgn)
		}
		v := c15New().Mul(bx, c15BF(180))
		return c15Fin(v.Quo(v, c15Pi(c15P)))
	case "rad":
		if inf {
			return c15XInf(sgn)
		}
		v := c15New().Mul(bx, c15Pi(c15P))
		return c15Fin(v.Quo(v, c15BF(180)))
	case "exp":
		if inf {
			if sgn > 0 {
				return c15XInf(1)
			}
			return c15Fin(c15BF(0))
		}
		return c15Exp(bx)
	case "log", "log10":
		switch {
		case x == 0:
			return c15XInf(-1)
		case x < 0:
			return c15XNaN
		case inf:
			return c15XInf(1)
		}
		l := c15Ln(bx)
		if fn == "log10" {
			l.Quo(l, c15Ln(c15BF(10)))
		}
		return c15Fin(l)
	case "sin", "cos", "tan":
		if inf {
			return c15XNaN
		}
		s, c := c15SinCos(bx)
		switch fn {
		case "sin":
			return c15Fin(s)
		case "cos":
			return c15Fin(c)
		}
		return c15Fin(c15New().Quo(s, c))
	case "asin":
		if inf {
			return c15XNaN
		}
		return c15Asin(bx)
	case "acos":
		if inf {
			return c15XNaN
		}
		if x == 1 {
			return c15Fin(c15BF(0))
		}
		a := c15Asin(bx)
		if a.kind != 0 {
			return a
		}
		h := halfpi(1)
		return c15Fin(c15New().Sub(h.v, a.v))
	case "atan":
		if inf {
			return halfpi(sgn)
		}
		return c15Fin(c15Atan(bx))
	case "sinh", "cosh":
		if inf {
			if fn == "cosh" {
				return c15XInf(1)
			}
			return c15XInf(sgn)
		}
		s, c := c15SinhCosh(bx)
		if fn == "sinh" {
			return s
		}
		return c
	case "tanh":
		if inf || math.Abs(x) > 400 {
			return c15Fin(c15BF(float64(sgn)))
		}
		s, c := c15SinhCosh(bx)
		return c15Fin(c15New().Quo(s.v, c.v))
	}
	harness.Fatal("c15: no reference for %s", fn)
	return c15XNaN
}

func c15TrueAtan2(y, x float64) c15X {
	if math.IsNaN(x) || math.IsNaN(y) {
		return c15XNaN
	}
	pi := func(num, den int64, neg bool) c15X {
		v := c15Pi(c15P)
		v.Mul(v, new(big.Float).SetInt64(num))
		v.Quo(v, new(big.Float).SetInt64(den))
		if neg {
			v.Neg(v)
		}
		return c15Fin(v)
	}
	yneg := math.Signbit(y)
	xneg := math.Signbit(x)
	switch {
	case y == 0:
		if xneg {
			return pi(1, 1, yneg)
		}
		return c15Fin(c15BF(0))
	case x == 0:
		return pi(1, 2, yneg)
	case math.IsInf(y, 0):
		switch {
		case math.IsInf(x, 1):
			return pi(1, 4, yneg)
		case math.IsInf(x, -1):
			return pi(3, 4, yneg)
		}
		return pi(1, 2, yneg)
	case math.IsInf(x, 1):
		return c15Fin(c15BF(0))
	case math.IsInf(x, -1):
		return pi(1, 1, yneg)
	}
	q := new(big.Float).SetPrec(c15P+32).Quo(c15BF(y), c15BF(x))
	a := c15Atan(q)
	if xneg {
		p := c15Pi(c15P + 32)
		if yneg {
			a.Sub(a, p)
		} else {
			a.Add(a, p)
		}
	}
	return c15Fin(a)
}

// c15GoMath: the Go toolchain's function of the same name (used only to name a deviation).
func c15GoMath(fn string, a []float64) (float64, bool) {
	one := map[string]func(float64) float64{"exp": math.Exp, "log": math.Log, "log10": math.Log10, "sin": math.Sin, "cos": math.Cos, "tan": math.Tan,
		"asin": math.Asin, "acos": math.Acos, "atan": math.Atan, "sinh": math.Sinh, "cosh": math.Cosh, "tanh": math.Tanh}
	if f, ok := one[fn]; ok && len(a) == 1 {
		return f(a[0]), true
	}
	if len(a) == 2 {
		switch fn {
		case "pow":
			return math.Pow(a[0], a[1]), true
		case "atan2":
			return math.Atan2(a[0], a[1]), true
		}
	}
	return 0, false
}

// c15MathCheck judges the result of math.fn(args...). It is used by the run and by the replayer.
func c15MathCheck(fn string, a []float64, got []c15Val, err error) c15MathVerdict {
	v := c15MathVerdict{judged: true}
	fail := func(class, exp string) c15MathVerdict {
		v.ok, v.class, v.exp = false, class, exp
		return v
	}
	if err != nil {
		if strings.HasPrefix(err.Error(), "GO PANIC") {
			return fail("go-panic", "a result")
		}
		return fail("error", "a result")
	}
	nres := 1
	if fn == "modf" || fn == "frexp" {
		nres = 2
	}
	if len(got) != nres {
		return fail("result-count", fmt.Sprintf("%d result(s)", nres))
	}
	for _, g := range got {
		if g.K != 'n' {
			return fail("result-type", "number result(s)")
		}
	}
	g := got[0].N
	exact := func(exp float64) c15MathVerdict {
		ok, class := c15SameOrZeroSign(g, exp)
		v.ok, v.class, v.exp = ok, class, c15Num(exp)
		return v
	}
	within := func(T c15X) c15MathVerdict {
		tol := c15Tol[fn]
		v.ulp = c15UlpErr(g, T)
		v.exp = fmt.Sprintf("%s (within %g ulp)", T.String(), tol)
		v.ok = v.ulp <= tol
		if !v.ok {
			switch {
			case math.IsNaN(g):
				v.class = "nan"
			case T.kind == 2:
				v.class = "not-nan"
			case v.ulp > 1e6:
				v.class = "far-off"
			default:
				v.class = "ulp-tolerance-exceeded"
			}
			// Name the deviation when the result is bit-for-bit what the Go toolchain's math function
			// of the same name returns: then the inaccuracy is that function's, not a wrapper's.
			if gm, ok := c15GoMath(fn, a); ok && math.Float64bits(gm) == math.Float64bits(g) {
				v.class += "/same-as-go-math"
			}
		}
		return v
	}
	switch fn {
	case "floor":
		return exact(c15RefFloor(a[0]))
	case "ceil":
		return exact(c15RefCeil(a[0]))
	case "abs":
		return exact(math.Float64frombits(math.Float64bits(a[0]) &^ (1 << 63)))
	case "max", "min":
		m := a[0]
		for _, x := range a[1:] {
			if fn == "max" && x > m || fn == "min" && x < m {
				m = x
			}
		}
		// the definition is lmathlib's left-to-right scan with < / >: a NaN that is not the first
		// argument never wins, the first of two equal values (e.g. +0 before -0) is kept
		v.exp = c15Num(m)
		v.ok = (g != g && m != m) || (g == m && math.Signbit(g) == math.Signbit(m))
		if !v.ok {
			v.class = "wrong-value"
		}
		return v
	case "fmod":
		return exact(c15RefFmod(a[0], a[1]))
	case "modf":
		ip, fp := c15RefModf(a[0])
		ok1, c1 := c15SameOrZeroSign(got[0].N, ip)
		ok2, c2 := c15SameOrZeroSign(got[1].N, fp)
		v.exp = c15Num(ip) + ", " + c15Num(fp)
		v.ok = ok1 && ok2
		if !ok1 {
			v.class = "integral-part-" + c1
		} else if !ok2 {
			v.class = "fractional-part-" + c2
		}
		return v
	case "frexp":
		m, e := c15RefFrexp(a[0])
		v.exp = fmt.Sprintf("%s, %d", c15Num(m), e)
		if math.IsInf(a[0], 0) {
			v.exp = c15Num(m) + ", (exponent unspecified)"
			v.ok, v.class = c15SameOrZeroSign(got[0].N, m)
			return v
		}
		ok1, c1 := c15SameOrZeroSign(got[0].N, m)
		v.ok = ok1 && got[1].N == float64(e)
		if !ok1 {
			v.class = "mantissa-" + c1
		} else if !v.ok {
			v.class = "exponent-wrong"
		}
		return v
	case "ldexp":
		return exact(c15RefLdexp(a[0], int(a[1])))
	case "sqrt":
		return exact(c15RefSqrt(a[0]))
	case "pow":
		T := c15RefPow(a[0], a[1])
		// Exact cases: the special values, and integral exponents |y| <= 64 whose true value is a
		// float64 (2^10, 3^5, 10^22, 0.5^-3, 2.5^2 …): demanded exactly, with the sign of a zero
		// result per IEEE. Everything else (also representable results of non-integral exponents
		// such as 100^2.5 or 6.25^0.5) is judged within the tolerance only.
		special := a[0] == 0 || a[1] == 0 || a[0] == 1 || math.IsInf(a[0], 0) || math.IsInf(a[1], 0)
		exactExp := a[1] == math.Trunc(a[1]) && math.Abs(a[1]) <= 64
		if T.kind == 0 && (special || exactExp) {
			if f, acc := T.v.Float64(); acc == big.Exact && !math.IsInf(f, 0) && (f != 0 || special) {
				if f == 0 {
					neg := math.Signbit(a[0]) && c15IsOddInt(a[1])
					if neg {
						f = math.Copysign(0, -1)
					}
				}
				vv := exact(f)
				if !vv.ok && vv.class == "wrong-value" {
					vv.class = "exact-case-wrong-value"
				}
				return vv
			}
		}
		return within(T)
	case "atan2":
		return within(c15TrueAtan2(a[0], a[1]))
	case "deg", "rad", "exp", "log", "log10", "sin", "cos", "tan", "asin", "acos", "atan", "sinh", "cosh", "tanh":
		return within(c15TrueUnary(fn, a[0]))
	}
	v.judged = false
	return v
}

// ---- enumeration ---------------------------------------------------------------------------------------------------------

func c15MathArgs(thorough bool) []float64 {
	pos := []float64{0, 0.5, 1, 1.5, 2, 2.5, 3, 7, 10, 0.1, 0.75, 1e-310, 5e-324, 4503599627370495, 4503599627370497, 9007199254740992, 1e15, 1e300, math.MaxFloat64, math.Inf(1)}
	if thorough {
		pos = append(pos, 0.25, 1.25, 4, 5, 6, 8, 9, 16, 100, 1000, 100.5, 1e-5, 1e-300, 2.2250738585072014e-308, 2.225073858507201e-308, 9007199254740991,
			9223372036854775808, 18446744073709551616, 1e22, 1e100, 0.3, 0.7, 1.0/3, 2.0/3, 1.1, math.Pi, math.Pi/2, math.Pi/4, math.E, 709.5, 710, 745, 746, 0.9999999999999999, 1.0000000000000002, 6.25, 2.25, 1e5+0.5, 123456.789)
	}
	var out []float64
	for _, p := range pos {
		out = append(out, p, -p)
	}
	return out
}

type c15MathCase struct {
	fn   string
	args []float64
}

func (x *c15Ctx) runMath() {
	r := x.r
	A := c15MathArgs(r.Thorough())
	var cases []c15MathCase
	unary := []string{"floor", "ceil", "abs", "modf", "frexp", "sqrt", "deg", "rad", "exp", "log", "log10", "sin", "cos", "tan", "asin", "acos", "atan", "sinh", "cosh", "tanh", "max", "min"}
	for _, fn := range unary {
		for _, a := range A {
			cases = append(cases, c15MathCase{fn, []float64{a}})
		}
	}
	// extra arguments where the transcendental functions are delicate
	for _, fn := range []string{"exp", "log", "log10", "sin", "cos", "tan", "asin", "acos", "atan", "sinh", "cosh", "tanh", "deg", "rad", "sqrt", "floor", "ceil", "modf", "frexp"} {
		for _, a := range []float64{math.Pi, math.Pi / 2, 1e22, 100.5, 709.5, 710, -745.2, -746, 1e-5, 0.9999999999999999, 1e5 + 0.5, -123456.789, 2.2250738585072014e-308, 4, 9, 6.25, 2, 3} {
			cases = append(cases, c15MathCase{fn, []float64{a}})
		}
	}
	for _, fn := range []string{"fmod", "pow", "atan2"} {
		for _, a := range A {
			for _, b := range A {
				cases = append(cases, c15MathCase{fn, []float64{a, b}})
			}
		}
	}
	// pow with non-integral and delicate exponents
	for _, a := range []float64{2, 3, 10, 0.5, 2.5, 6.25, 4, 9, 1e300, 1e-300, 7, -8, -2, -0.5, 1.0000000000000002} {
		for _, b := range []float64{0.5, -0.5, 1.0 / 3, 2, 3, 5, 10, 15, 22, 33, 53, 64, 100, 1023, 1024, -1, -2, -1074, -1075, 0.1, 2.5, -2.5, 1e-5, 1e15 + 0.5} {
			cases = append(cases, c15MathCase{"pow", []float64{a, b}})
		}
	}
	exps := []float64{-2100, -1100, -1075, -1074, -1073, -1022, -53, -1, 0, 1, 2, 10, 52, 53, 1023, 1024, 2100}
	for _, a := range A {
		for _, e := range exps {
			cases = append(cases, c15MathCase{"ldexp", []float64{a, e}})
		}
	}
	// max / min over all 1..4-tuples (5 in the thorough tier): every position wins
	mm := []float64{-3, -0.5, 0, 1, 2.5, 1e300, math.Inf(-1), math.NaN(), math.Copysign(0, -1)}
	maxArity := 4
	if r.Thorough() {
		maxArity = 5
	}
	var tuples func(prefix []float64, n int)
	tuples = func(prefix []float64, n int) {
		if len(prefix) == n {
			t := append([]float64{}, prefix...)
			cases = append(cases, c15MathCase{"max", t}, c15MathCase{"min", t})
			return
		}
		for _, v := range mm {
			tuples(append(prefix, v), n)
		}
	}
	for n := 1; n <= maxArity; n++ {
		tuples(nil, n)
	}

	for _, k := range []int{3, len(cases) / 7, 2 * len(cases) / 7, 3 * len(cases) / 7, 4 * len(cases) / 7, 5 * len(cases) / 7, 6 * len(cases) / 7, len(cases) - 1} {
		mc := cases[k]
		c := c15Case{Lib: "math", Fn: mc.fn}
		for _, a := range mc.args {
			c.Args = append(c.Args, c15N(a))
		}
		got, err, _ := x.workers[0].exec(c)
		v := c15MathCheck(mc.fn, mc.args, got, err)
		r.AddSample(c.String() + " -> " + c15ListErr(got, err) + "; expected " + v.exp)
	}
	const chunk = 256
	nch := (len(cases) + chunk - 1) / chunk
	var mu sync.Mutex
	maxUlp := map[string]float64{}
	var expired sync.Once
	harness.ParallelShards(nch, func(wi, shard int) {
		if r.Expired() {
			expired.Do(func() { r.NotExhaustive("deadline reached inside the math family") })
			return
		}
		w := x.workers[wi]
		local := map[string]float64{}
		for k := shard * chunk; k < (shard+1)*chunk && k < len(cases); k++ {
			mc := cases[k]
			c := c15Case{Lib: "math", Fn: mc.fn}
			classes := make([]string, len(mc.args))
			for i, a := range mc.args {
				c.Args = append(c.Args, c15N(a))
				classes[i] = c15NumClass(a)
			}
			got, err, _ := w.exec(c)
			v := c15MathCheck(mc.fn, mc.args, got, err)
			if !v.judged {
				harness.Fatal("c15: no oracle for %s", c.String())
			}
			if v.ok && v.ulp > local[mc.fn] {
				local[mc.fn] = v.ulp
			}
			if !v.ok {
				ac := strings.Join(classes, ",")
				if len(classes) > 2 {
					ac = fmt.Sprintf("%d-tuple", len(classes))
				}
				g := c15List(got)
				if err != nil {
					g = "error: " + err.Error()
				}
				note := ""
				if v.ulp > 0 {
					note = fmt.Sprintf("error = %.3g ulp", v.ulp)
				}
				x.viol("math/"+mc.fn+"/args="+ac+"/"+v.class, c, v.exp, g, note)
			}
			nontrivial := len(mc.args) > 1 || len(got) == 0 || len(got) > 1 || got[0].K != 'n' || math.Float64bits(got[0].N) != math.Float64bits(mc.args[0])
			r.Eval(c.key(), nontrivial, func() interface{} { return c.String() + " -> " + c15List(got) + "; expected " + v.exp })
		}
		mu.Lock()
		for k, u := range local {
			if u > maxUlp[k] {
				maxUlp[k] = u
			}
		}
		mu.Unlock()
	})
	mu.Lock()
	obs := map[string]string{}
	for k, u := range maxUlp {
		obs[k] = fmt.Sprintf("%.3f", u)
	}
	mu.Unlock()
	r.Extra["math_cases"] = len(cases)
	r.Extra["math_argument_set_size"] = len(A)
	r.Extra["math_max_ulp_error_among_accepted_results"] = obs
	r.Extra["math_ulp_tolerance"] = c15Tol

	x.runRandom()
}

// ---- math.random -----------------------------------------------------------------------------------------------------------

// runRandom: for every seed (math.randomseed) every m <= n in a window, the first draws. Runs on one
// goroutine: math/rand's default source is process-global.
func (x *c15Ctx) runRandom() {
	r := x.r
	w := x.workers[0]
	seeds, lo, hi, draws := 64, -3, 5, 50
	if r.Thorough() {
		seeds, lo, hi, draws = 256, -5, 8, 200
	}
	type rng struct{ m, n int }
	attained := map[rng]map[int]bool{}
	attained1 := map[int]map[int]bool{}
	var below, above int
	var n int64
	report := func(sig string, c c15Case, seed, draw int, exp, got string) {
		jc := c.j()
		jc.Seed = &seed
		x.r.Violation(sig, fmt.Sprintf("math.randomseed(%d); draw %d: %s\n  expected %s\n  got      %s", seed, draw, c.String(), exp, got), jc)
	}
	big := [][2]float64{{1, 2147483647}, {-2147483648, 2147483647}, {0, 1099511627776}, {-1099511627776, -1099511627775}, {9007199254740991, 9007199254740992}}
	for seed := 0; seed < seeds; seed++ {
		if r.Expired() {
			r.NotExhaustive("deadline reached inside the random family")
			break
		}
		if _, err, _ := w.exec(c15Case{Lib: "math", Fn: "randomseed", Args: []c15Val{c15I(seed)}}); err != nil {
			x.viol("math/randomseed/error", c15Case{Lib: "math", Fn: "randomseed", Args: []c15Val{c15I(seed)}}, "no error", err.Error(), "")
			continue
		}
		for d := 0; d < draws; d++ {
			// random()
			c := c15Case{Lib: "math", Fn: "random"}
			got, err, _ := w.exec(c)
			n++
			if err != nil || len(got) != 1 || got[0].K != 'n' || !(got[0].N >= 0 && got[0].N < 1) {
				report("math/random/()/out-of-range", c, seed, d, "a number in [0,1)", c15ListErr(got, err))
			} else if got[0].N < 0.5 {
				below++
			} else {
				above++
			}
			// random(n)
			for k := 1; k <= hi+4; k++ {
				c := c15Case{Lib: "math", Fn: "random", Args: []c15Val{c15I(k)}}
				got, err, _ := w.exec(c)
				n++
				if err != nil || len(got) != 1 || got[0].K != 'n' || got[0].N != math.Trunc(got[0].N) || got[0].N < 1 || got[0].N > float64(k) {
					report("math/random/(n)/out-of-range", c, seed, d, fmt.Sprintf("an integer in [1,%d]", k), c15ListErr(got, err))
					continue
				}
				if attained1[k] == nil {
					attained1[k] = map[int]bool{}
				}
				attained1[k][int(got[0].N)] = true
			}
			// random(m, n)
			for m := lo; m <= hi; m++ {
				for nn := m; nn <= hi; nn++ {
					c := c15Case{Lib: "math", Fn: "random", Args: []c15Val{c15I(m), c15I(nn)}}
					got, err, _ := w.exec(c)
					n++
					if err != nil || len(got) != 1 || got[0].K != 'n' || got[0].N != math.Trunc(got[0].N) || got[0].N < float64(m) || got[0].N > float64(nn) {
						report("math/random/(m,n)/out-of-range", c, seed, d, fmt.Sprintf("an integer in [%d,%d]", m, nn), c15ListErr(got, err))
						continue
					}
					k := rng{m, nn}
					if attained[k] == nil {
						attained[k] = map[int]bool{}
					}
					attained[k][int(got[0].N)] = true
				}
			}
			if d < 10 {
				for _, b := range big {
					c := c15Case{Lib: "math", Fn: "random", Args: []c15Val{c15N(b[0]), c15N(b[1])}}
					got, err, _ := w.exec(c)
					n++
					if err != nil || len(got) != 1 || got[0].K != 'n' || got[0].N != math.Trunc(got[0].N) || got[0].N < b[0] || got[0].N > b[1] {
						report("math/random/(m,n)/wide/out-of-range", c, seed, d, fmt.Sprintf("an integer in [%s,%s]", c15Num(b[0]), c15Num(b[1])), c15ListErr(got, err))
					}
				}
			}
		}
	}
	// every value of the small ranges is attained somewhere in the whole (deterministic) space
	var missing []string
	for k, set := range attained {
		for v := k.m; v <= k.n; v++ {
			if !set[v] {
				missing = append(missing, fmt.Sprintf("random(%d,%d) never returned %d", k.m, k.n, v))
			}
		}
	}
	for k, set := range attained1 {
		for v := 1; v <= k; v++ {
			if !set[v] {
				missing = append(missing, fmt.Sprintf("random(%d) never returned %d", k, v))
			}
		}
	}
	sort.Strings(missing)
	if !r.Expired() {
		if len(missing) > 0 {
			x.r.Violation("math/random/value-never-attained", fmt.Sprintf("over seeds 0..%d x %d draws: %s", seeds-1, draws, strings.Join(missing, "; ")), map[string]interface{}{"missing": missing})
		}
		if below == 0 || above == 0 {
			x.r.Violation("math/random/()/one-sided", fmt.Sprintf("random() returned %d values below 0.5 and %d at or above", below, above), nil)
		}
	}
	r.EvalN(n)
	r.Nontrivial("math.random()")
	for k := range attained {
		r.Nontrivial(fmt.Sprintf("math.random(%d,%d)", k.m, k.n))
	}
	for k := range attained1 {
		r.Nontrivial(fmt.Sprintf("math.random(%d)", k))
	}
	r.AddSample(fmt.Sprintf("math.randomseed(s) for s=0..%d, then %d rounds of random(), random(n) n=1..%d, random(m,n) for all %d<=m<=n<=%d and %d wide ranges: %d draws; random() below 0.5: %d, at or above: %d; values never attained: %d",
		seeds-1, draws, hi+4, lo, hi, len(big), n, below, above, len(missing)))
	r.Extra["random_draws"] = n
	r.Extra["random_seeds"] = seeds
}

func c15ListErr(got []c15Val, err error) string {
	if err != nil {
		return "error: " + err.Error()
	}
	return c15List(got)
}

// c15ReplayMath recomputes the verdict for a stored math case.
func c15ReplayMath(c c15Case, got []c15Val, err error) (string, bool, bool) {
	args := make([]float64, len(c.Args))
	for i, a := range c.Args {
		if a.K != 'n' {
			return "", false, true
		}
		args[i] = a.N
	}
	if c.Fn == "random" {
		exp, ok := "", false
		if err == nil && len(got) == 1 && got[0].K == 'n' {
			g := got[0].N
			switch len(args) {
			case 0:
				exp, ok = "a number in [0,1)", g >= 0 && g < 1
			case 1:
				exp, ok = fmt.Sprintf("an integer in [1,%s]", c15Num(args[0])), g == math.Trunc(g) && g >= 1 && g <= args[0]
			default:
				exp, ok = fmt.Sprintf("an integer in [%s,%s]", c15Num(args[0]), c15Num(args[1])), g == math.Trunc(g) && g >= args[0] && g <= args[1]
			}
		}
		return exp, true, ok
	}
	if len(args) == 0 {
		return "", false, true
	}
	v := c15MathCheck(c.Fn, args, got, err)
	return v.exp, v.judged, v.ok
}
