package props

// C16, family 5: os.date / os.time in zones without transitions.
//
// Reference: broken-down time by the civil-from-days computation below (no use of Go's time package
// for expected values); C-locale strftime renderings written out from ISO C (C89 directives plus
// C99 %F and the C99 "C"-locale definitions %c = "%a %b %e %H:%M:%S %Y", %x = "%m/%d/%y",
// %X = "%H:%M:%S").

import (
	"fmt"
	"sort"
	"strconv"
	"strings"
	"time"

	lua "github.com/yuin/gopher-lua"

	"verif/internal/harness"
)

type c16Zone struct {
	Name string
	Off  int
}

var c16Zones = []c16Zone{{"UTC", 0}, {"ZE", 5*3600 + 1800}, {"ZW", -8 * 3600}}

// directives judged: supported by gopher-lua's strftime AND defined by ISO C as a function of the
// broken-down fields in the "C" locale.
var c16Directives = []byte("aAbBcdFHIMmpSwxXyY")

const c16Composite = "%Y-%m-%d %H:%M:%S|%I %p|%w|%y|%%|%A|%B|%b|%X|%F|x%dy%%d%%%d"

func c16DateLua() string {
	var sb strings.Builder
	sb.WriteString("local date, time = os.date, os.time\nreturn function(t)\n local d = date('*t', t)\n")
	sb.WriteString(" return time(d), d.year, d.month, d.day, d.hour, d.min, d.sec, d.wday, d.yday, d.isdst,\n  ")
	for _, c := range c16Directives {
		fmt.Fprintf(&sb, "date('%%%c', t) .. '\\1' .. ", c)
	}
	sb.WriteString("date('%%', t) .. '\\1' .. date('<%%>', t) .. '\\1' .. ")
	fmt.Fprintf(&sb, "date('%s', t)\nend", c16Composite)
	return sb.String()
}

func c16FloorDiv(a, b int64) int64 {
	q := a / b
	if (a%b != 0) && ((a < 0) != (b < 0)) {
		q--
	}
	return q
}

// c16CivilFromDays: proleptic Gregorian date of day number z (0 = 1970-01-01).
func c16CivilFromDays(z int64) (y int64, m, d int) {
	z += 719468
	era := c16FloorDiv(z, 146097)
	doe := z - era*146097
	yoe := (doe - doe/1460 + doe/36524 - doe/146096) / 365
	y = yoe + era*400
	doy := doe - (365*yoe + yoe/4 - yoe/100)
	mp := (5*doy + 2) / 153
	d = int(doy - (153*mp+2)/5 + 1)
	if mp < 10 {
		m = int(mp + 3)
	} else {
		m = int(mp - 9)
	}
	if m <= 2 {
		y++
	}
	return
}

// c16DaysFromCivil is written separately (sum of year and month lengths) so that the two functions
// check each other in c16DateSelfTest.
func c16IsLeap(y int64) bool { return y%4 == 0 && (y%100 != 0 || y%400 == 0) }

func c16DaysFromCivil(y int64, m, d int) int64 {
	var days int64
	if y >= 1970 {
		for yy := int64(1970); yy < y; yy++ {
			days += 365
			if c16IsLeap(yy) {
				days++
			}
		}
	} else {
		for yy := y; yy < 1970; yy++ {
			days -= 365
			if c16IsLeap(yy) {
				days--
			}
		}
	}
	ml := []int{31, 28, 31, 30, 31, 30, 31, 31, 30, 31, 30, 31}
	for mm := 1; mm < m; mm++ {
		days += int64(ml[mm-1])
		if mm == 2 && c16IsLeap(y) {
			days++
		}
	}
	return days + int64(d-1)
}

func c16DateSelfTest() {
	for z := int64(-800); z <= 48000; z++ {
		y, m, d := c16CivilFromDays(z)
		if c16DaysFromCivil(y, m, d) != z {
			harness.Fatal("c16: civil-from-days self test failed at day %d (%d-%d-%d)", z, y, m, d)
		}
	}
	if y, m, d := c16CivilFromDays(11016); y != 2000 || m != 2 || d != 29 {
		harness.Fatal("c16: civil anchor 2000-02-29 failed: %d-%d-%d", y, m, d)
	}
	f := c16Fields((1<<31)-1, 0)
	if f.year != 2038 || f.month != 1 || f.day != 19 || f.hour != 3 || f.min != 14 || f.sec != 7 || f.wday != 2 {
		harness.Fatal("c16: civil anchor 2^31-1 failed: %+v", f)
	}
}

type c16Tm struct {
	year                             int64
	month, day, hour, min, sec, wday int // wday 0 = Sunday
}

func c16Fields(t int64, off int) c16Tm {
	lt := t + int64(off)
	days := c16FloorDiv(lt, 86400)
	rem := lt - days*86400
	y, m, d := c16CivilFromDays(days)
	wd := int(((days % 7) + 7 + 4) % 7) // 1970-01-01 was a Thursday
	return c16Tm{year: y, month: m, day: d, hour: int(rem / 3600), min: int(rem % 3600 / 60), sec: int(rem % 60), wday: wd}
}

var c16DayAbbr = []string{"Sun", "Mon", "Tue", "Wed", "Thu", "Fri", "Sat"}
var c16DayFull = []string{"Sunday", "Monday", "Tuesday", "Wednesday", "Thursday", "Friday", "Saturday"}
var c16MonAbbr = []string{"Jan", "Feb", "Mar", "Apr", "May", "Jun", "Jul", "Aug", "Sep", "Oct", "Nov", "Dec"}
var c16MonFull = []string{"January", "February", "March", "April", "May", "June", "July", "August", "September", "October", "November", "December"}

const c16Digits2 = "00010203040506070809101112131415161718192021222324252627282930313233343536373839404142434445464748495051525354555657585960616263646566676869707172737475767778798081828384858687888990919293949596979899"

// c16Two: two decimal digits of 0 <= v <= 99.
func c16Two(v int) string {
	v = ((v % 100) + 100) % 100
	return c16Digits2[2*v : 2*v+2]
}

// c16CLocale renders one directive from the fields as strftime does in the "C" locale.
func c16CLocale(c byte, f c16Tm) string {
	switch c {
	case 'a':
		return c16DayAbbr[f.wday]
	case 'A':
		return c16DayFull[f.wday]
	case 'b':
		return c16MonAbbr[f.month-1]
	case 'B':
		return c16MonFull[f.month-1]
	case 'c':
		e := c16Two(f.day) // %e: day of month, blank-padded
		if f.day < 10 {
			e = " " + e[1:]
		}
		return c16DayAbbr[f.wday] + " " + c16MonAbbr[f.month-1] + " " + e + " " + c16Two(f.hour) + ":" + c16Two(f.min) + ":" + c16Two(f.sec) + " " + strconv.FormatInt(f.year, 10)
	case 'd':
		return c16Two(f.day)
	case 'F':
		return strconv.FormatInt(f.year, 10) + "-" + c16Two(f.month) + "-" + c16Two(f.day)
	case 'H':
		return c16Two(f.hour)
	case 'I':
		h := f.hour % 12
		if h == 0 {
			h = 12
		}
		return c16Two(h)
	case 'M':
		return c16Two(f.min)
	case 'm':
		return c16Two(f.month)
	case 'p':
		if f.hour < 12 {
			return "AM"
		}
		return "PM"
	case 'S':
		return c16Two(f.sec)
	case 'w':
		return c16Two(f.wday)[1:]
	case 'x':
		return c16Two(f.month) + "/" + c16Two(f.day) + "/" + c16Two(int(f.year%100))
	case 'X':
		return c16Two(f.hour) + ":" + c16Two(f.min) + ":" + c16Two(f.sec)
	case 'y':
		return c16Two(int(f.year % 100))
	case 'Y':
		return strconv.FormatInt(f.year, 10)
	case '%':
		return "%"
	}
	return "?"
}

func c16CLocaleFormat(format string, f c16Tm) string {
	var sb strings.Builder
	for i := 0; i < len(format); i++ {
		if format[i] == '%' && i+1 < len(format) {
			sb.WriteString(c16CLocale(format[i+1], f))
			i++
			continue
		}
		sb.WriteByte(format[i])
	}
	return sb.String()
}

type c16DateStats struct {
	cases, ydayZero, ydayRight int64
}

// c16DateSink aggregates mismatches per signature; the text of a case is only formatted when it
// becomes the smallest case of its signature (timestamps arrive in ascending order).
type c16DateSink struct {
	m map[string]*c16DateHit
}

type c16DateHit struct {
	count int64
	t     int64
	what  string
}

func (s *c16DateSink) hit(sig string, t int64, mk func() string) {
	if s.m == nil {
		s.m = map[string]*c16DateHit{}
	}
	e := s.m[sig]
	if e == nil {
		s.m[sig] = &c16DateHit{1, t, mk()}
		return
	}
	e.count++
	if t < e.t {
		e.t, e.what = t, mk()
	}
}

var c16DateSigs = func() map[byte]string {
	m := map[byte]string{}
	for _, c := range c16Directives {
		m[c] = "date/strftime/%" + string([]byte{c})
	}
	return m
}()

var c16FieldNames = []string{"year", "month", "day", "hour", "min", "sec", "wday"}

func c16Pad2(b []byte, v int) []byte { return append(b, byte('0'+v/10%10), byte('0'+v%10)) }

// c16EvalDate checks one timestamp under the zone currently installed in time.Local (offset off).
func c16EvalDate(w *c16Worker, off int, t int64, st *c16DateStats, sink *c16DateSink) {
	ret, err := w.call(w.fnDate, 11, lua.LNumber(float64(t)))
	if err != nil {
		sink.hit("date/raises", t, func() string { return fmt.Sprintf("zone offset %+ds t=%d: os.date/os.time raised: %v", off, t, err) })
		return
	}
	f := c16Fields(t, off)
	where := func() string {
		return fmt.Sprintf("zone offset %+ds, t=%d (reference local time %04d-%02d-%02d %02d:%02d:%02d, weekday %d)", off, t, f.year, f.month, f.day, f.hour, f.min, f.sec, f.wday)
	}
	if n, ok := ret[0].(lua.LNumber); !ok || float64(n) != float64(t) {
		got := ret[0]
		sink.hit("date/roundtrip", t, func() string { return fmt.Sprintf("%s: os.time(os.date('*t', t)) = %v, expected t", where(), got) })
	}
	wantF := [7]int64{f.year, int64(f.month), int64(f.day), int64(f.hour), int64(f.min), int64(f.sec), int64(f.wday + 1)}
	for i, wv := range wantF {
		if n, ok := ret[1+i].(lua.LNumber); !ok || float64(n) != float64(wv) {
			got, name, wv := ret[1+i], c16FieldNames[i], wv
			sink.hit("date/field/"+name, t, func() string {
				return fmt.Sprintf("%s: os.date('*t', t).%s = %v, expected %d", where(), name, got, wv)
			})
		}
	}
	if st != nil {
		st.cases++
		if n, ok := ret[8].(lua.LNumber); ok && n == 0 {
			st.ydayZero++
		} else if ok && int64(n) == c16DaysFromCivil(f.year, f.month, f.day)-c16DaysFromCivil(f.year, 1, 1)+1 {
			st.ydayRight++
		}
	}
	if ret[9] != lua.LFalse {
		got := ret[9]
		sink.hit("date/field/isdst", t, func() string {
			return fmt.Sprintf("%s: os.date('*t', t).isdst = %v, expected false in a zone without transitions", where(), got)
		})
	}
	rs, ok := ret[10].(lua.LString)
	if !ok {
		sink.hit("date/strftime/not-a-string", t, func() string { return where() + ": os.date(format, t) did not return strings" })
		return
	}
	parts := strings.Split(string(rs), "\x01")
	if len(parts) != len(c16Directives)+3 {
		sink.hit("date/strftime/separator", t, func() string { return fmt.Sprintf("%s: renderings contain unexpected bytes: %q", where(), string(rs)) })
		return
	}
	var scratch [40]byte
	for i, c := range c16Directives {
		want := c16CLocale(c, f)
		if parts[i] == want {
			continue
		}
		sig := c16DateSigs[c]
		// diagnoses of renderings already understood (each pins the observed text completely)
		switch c {
		case 'a':
			if parts[i] == "mon" {
				sig = "date/strftime/%a/literal-mon"
			}
		case 'x':
			b := c16Pad2(scratch[:0], f.hour)
			b = c16Pad2(append(b, '/'), f.min)
			b = c16Pad2(append(b, '/'), f.sec)
			if parts[i] == string(b) {
				sig = "date/strftime/%x/time-with-slashes"
			}
		case 'c':
			b := c16Pad2(scratch[:0], f.day)
			b = append(append(append(b, ' '), c16MonAbbr[f.month-1]...), ' ')
			b = c16Pad2(b, int(f.year%100))
			b = c16Pad2(append(b, ' '), f.hour)
			b = c16Pad2(append(b, ':'), f.min)
			b = append(append(b, ' '), time.Local.String()...)
			if parts[i] == string(b) {
				sig = "date/strftime/%c/dd-Mon-yy-HH:MM-zone"
			}
		}
		got, c := parts[i], c
		sink.hit(sig, t, func() string {
			return fmt.Sprintf("%s: os.date('%%%c', t) = %q, C locale renders %q from these fields", where(), c, got, want)
		})
	}
	n := len(c16Directives)
	if parts[n] != "%" {
		sink.hit("date/strftime/%%", t, func() string { return fmt.Sprintf("%s: os.date('%%%%', t) = %q, expected \"%%\"", where(), parts[n]) })
	}
	if parts[n+1] != "<%>" {
		sink.hit("date/strftime/%%", t, func() string {
			return fmt.Sprintf("%s: os.date('<%%%%>', t) = %q, expected \"<%%>\"", where(), parts[n+1])
		})
	}
	if want := c16CLocaleFormat(c16Composite, f); parts[n+2] != want {
		sink.hit("date/strftime/composite", t, func() string {
			return fmt.Sprintf("%s: os.date(%q, t) = %q, C locale renders %q", where(), c16Composite, parts[n+2], want)
		})
	}
}

func c16Timestamps(thorough bool) []int64 {
	set := map[int64]struct{}{}
	add := func(t int64) { set[t] = struct{}{} }
	win := int64(172800)
	if thorough {
		win = 20 * 86400
	}
	for t := int64(-2); t <= win; t++ {
		add(t)
	}
	offs := []int64{0}
	for _, z := range c16Zones {
		offs = append(offs, int64(z.Off))
	}
	around := func(t int64) {
		for _, o := range offs {
			for d := int64(-2); d <= 2; d++ {
				add(t - o + d)
			}
		}
	}
	for y := int64(1970); y <= 2101; y++ {
		around(c16DaysFromCivil(y, 1, 1) * 86400)        // year boundary
		around(c16DaysFromCivil(y, 3, 1) * 86400)        // 28/29 Feb -> 1 Mar
		around(c16DaysFromCivil(y, 2, 28)*86400 + 86400) // 28 Feb -> 29 Feb or 1 Mar
		if thorough {
			for m := 1; m <= 12; m++ {
				around(c16DaysFromCivil(y, m, 1) * 86400)
			}
		}
	}
	around(1 << 31)
	around(1 << 32)
	step := int64(12*3600 + 34*60 + 56)
	if thorough {
		step = 3607
	}
	end := c16DaysFromCivil(2101, 1, 1) * 86400
	for t := int64(0); t <= end; t += step {
		add(t)
	}
	if thorough {
		// every second of the days around a leap day and a century non-leap February
		for _, d0 := range []int64{c16DaysFromCivil(2000, 2, 28), c16DaysFromCivil(2100, 2, 28), c16DaysFromCivil(2037, 12, 31)} {
			for t := d0*86400 - 43200; t <= d0*86400+3*86400; t++ {
				add(t)
			}
		}
	}
	out := make([]int64, 0, len(set))
	for t := range set {
		out = append(out, t)
	}
	sort.Slice(out, func(i, j int) bool { return out[i] < out[j] })
	return out
}

func c16RunDates(r *harness.Run, pool *c16Pool) {
	c16DateSelfTest()
	ts := c16Timestamps(r.Thorough())
	r.Extra["date_timestamps_per_zone"] = len(ts)
	agg := &c16Agg{}
	const per = 4096
	nsh := (len(ts) + per - 1) / per
	for zi, z := range c16Zones {
		// osDate uses time.Unix (location time.Local at call time) and osTime passes time.Local to
		// time.Date, so installing the zone here, while no worker runs, is what both read.
		time.Local = time.FixedZone(z.Name, z.Off)
		harness.ParallelShards(nsh, func(worker, shard int) {
			if r.Expired() {
				r.NotExhaustive("deadline reached in the date family")
				return
			}
			w := pool.get(worker)
			st := &c16DateStats{}
			lo, hi := shard*per, (shard+1)*per
			if hi > len(ts) {
				hi = len(ts)
			}
			sink := &c16DateSink{}
			var key [17]byte
			copy(key[:], "date|")
			key[5] = byte('0' + zi)
			for _, t := range ts[lo:hi] {
				c16EvalDate(w, z.Off, t, st, sink)
				for i := 0; i < 8; i++ {
					key[6+i] = byte(uint64(t) >> (8 * uint(i)))
				}
				r.Nontrivial(string(key[:14]))
			}
			for sig, e := range sink.m {
				agg.add(sig, fmt.Sprintf("%d|%015d", zi, e.t+1e12), e.what, map[string]interface{}{"family": "date", "zone_offset_s": z.Off, "t": e.t}, e.count)
			}
			r.EvalN(st.cases)
			r.Count("date_cases", st.cases)
			r.Count("date_yday_zero_unjudged", st.ydayZero)
			r.Count("date_yday_correct_unjudged", st.ydayRight)
		})
	}
	time.Local = time.UTC
	agg.flush(r)
	f := c16Fields(951827696, c16Zones[1].Off)
	r.AddSample(map[string]string{"family": "date", "zone_offset_s": fmt.Sprint(c16Zones[1].Off), "t": "951827696",
		"reference_fields": fmt.Sprintf("%+v", f), "reference_%c": c16CLocale('c', f), "reference_%x": c16CLocale('x', f)})
}
