package props

// C04, family F-chain — the complete product of __index/__newindex chains: 1–3 linked tables, per
// level the key raw-absent / present / present-with-false, its __index link absent / the next
// table / a function, its __newindex link absent / the next table / a logging function / a
// function that rawsets into its own table; a fixed read-write-read-erase-read-write-read
// sequence through the first table with three key forms (constant string, register, array
// index), and a raw dump of every level afterwards.

import (
	"fmt"

	. "verif/internal/luaref"
)

func genMetaChain(thorough bool) Gen { return genMetaChainVia(thorough, false) }

// genMetaChainVia with api=true: the same product, but every read and store of the sequence is made
// by a host function through LState.GetField/SetField (string key) or GetTable/SetTable (C10:
// "object ops equal Lua ops"); the model's host functions are the plain index/newindex events.
func genMetaChainVia(thorough, api bool) Gen {
	maxDepth := 2
	if thorough {
		maxDepth = 3
	}
	keyStates := []string{"absent", "present", "false"}
	idxKinds := []string{"none", "table", "func"}
	nidxKinds := []string{"none", "table", "func-log", "func-rawset"}
	type level struct{ ks, ix, nx int }
	return func(yield func(*Prog)) {
		for depth := 1; depth <= maxDepth; depth++ {
			lv := make([]level, depth)
			var rec func(i int)
			rec = func(i int) {
				if i < depth {
					for ks := range keyStates {
						for ix := range idxKinds {
							for nx := range nidxKinds {
								lv[i] = level{ks, ix, nx}
								rec(i + 1)
							}
						}
					}
					return
				}
				// a level below a level that links to nothing is unreachable: enumerate it only in its first configuration
				for j := 0; j+1 < depth; j++ {
					if idxKinds[lv[j].ix] != "table" && nidxKinds[lv[j].nx] != "table" && (lv[j+1] != level{}) {
						return
					}
				}
				cfg := append([]level(nil), lv...)
				shape := ""
				for _, l := range cfg {
					shape += fmt.Sprintf("%s,%s,%s>", keyStates[l.ks], idxKinds[l.ix], nidxKinds[l.nx])
				}
				keyforms, family := []string{"const", "reg", "num"}, "F-chain"
				if api {
					keyforms, family = []string{"api-field", "api-table", "api-table-num"}, "F-apichain"
				}
				for _, keyform := range keyforms {
					keyform := keyform
					yield(&Prog{Family: family, Shape: "chain/" + shape + "/" + keyform, Mk: func() *Block {
						var key func() Expr
						st := []Stat{}
						switch keyform {
						case "const":
							key = func() Expr { return Str("k") }
						case "reg":
							st = append(st, Local1("kk", Str("k")))
							key = func() Expr { return Name("kk") }
						case "num", "api-table-num":
							key = func() Expr { return Num(2) }
						case "api-field", "api-table":
							key = func() Expr { return Str("k") }
						}
						getter, setter := "", ""
						switch keyform {
						case "api-field":
							getter, setter = "apigetfield", "apisetfield"
						case "api-table", "api-table-num":
							getter, setter = "apigettable", "apisettable"
						}
						tn := func(i int) string { return fmt.Sprintf("t%d", i+1) }
						// tables, innermost first so that links can refer to them
						st = append(st, Local1("base", TableE(Pos1(Str("b1")), Pos1(Str("b2")), NamedField("k", Str("bk")))))
						for i := depth - 1; i >= 0; i-- {
							var fields []Field
							switch keyStates[cfg[i].ks] {
							case "present":
								fields = []Field{Pos1(Str("p1")), Pos1(Str(fmt.Sprintf("own%d", i+1))), NamedField("k", Str(fmt.Sprintf("own%d", i+1)))}
							case "false":
								fields = []Field{Pos1(Str("p1")), Pos1(False()), NamedField("k", False())}
							default:
								fields = []Field{Pos1(Str("p1"))}
							}
							st = append(st, Local1(tn(i), TableE(fields...)))
							next := "base"
							if i+1 < depth {
								next = tn(i + 1)
							}
							var mf []Field
							switch idxKinds[cfg[i].ix] {
							case "table":
								mf = append(mf, NamedField("__index", Name(next)))
							case "func":
								mf = append(mf, NamedField("__index", Func(names("t", "k"), false, Emit(Str("h-index"), Num(float64(i+1)), Name("t"), Name("k")), Return(Str(fmt.Sprintf("F%d", i+1)), Str("second")))))
							}
							switch nidxKinds[cfg[i].nx] {
							case "table":
								mf = append(mf, NamedField("__newindex", Name(next)))
							case "func-log":
								mf = append(mf, NamedField("__newindex", Func(names("t", "k", "v"), false, Emit(Str("h-newindex"), Num(float64(i+1)), Name("t"), Name("k"), Name("v")), Return(Str("ignored")))))
							case "func-rawset":
								mf = append(mf, NamedField("__newindex", Func(names("t", "k", "v"), false, Emit(Str("h-newindex"), Num(float64(i+1)), Name("t"), Name("k"), Name("v")), CallS(Name("rawset"), Name("t"), Name("k"), Name("v")))))
							}
							if len(mf) > 0 {
								st = append(st, CallS(Name("setmetatable"), Name(tn(i)), TableE(mf...)))
							}
						}
						ids := []Expr{Str("ids"), Name("base")}
						for i := 0; i < depth; i++ {
							ids = append(ids, Name(tn(i)))
						}
						st = append(st, Emit(ids...))
						get := func(tag string) Stat {
							if getter != "" {
								return Emit(Str(tag), CallN(getter, Name("t1"), key()))
							}
							return Emit(Str(tag), Index(Name("t1"), key()))
						}
						put := func(v Expr) Stat {
							if setter != "" {
								return CallS(Name(setter), Name("t1"), key(), v)
							}
							return Assign1(Index(Name("t1"), key()), v)
						}
						dump := func(tag string) Stat {
							a := []Expr{Str(tag), CallN("rawget", Name("base"), key())}
							for i := 0; i < depth; i++ {
								a = append(a, CallN("rawget", Name(tn(i)), key()))
							}
							return Emit(a...)
						}
						st = append(st, get("get0"),
							put(Str("v1")), dump("raw1"), get("get1"),
							put(Nil()), dump("raw2"), get("get2"),
							put(False()), dump("raw3"), get("get3"),
							put(Str("v2")), dump("raw4"), get("get4"))
						return Blk(st...)
					}})
				}
			}
			rec(0)
		}
	}
}
