package props

// C07 also rides on the program generators of C01–C04, C06 and C17: every generated program is
// compiled (parse.Parse + lua.Compile) and every prototype is checked by the structural verifier.

import (
	"fmt"
	"strings"
	"sync"

	lua "github.com/yuin/gopher-lua"
	"github.com/yuin/gopher-lua/parse"

	"verif/internal/bcverify"
	"verif/internal/harness"
	"verif/internal/luaref"
)

func c07ProgramFamilies(r *harness.Run) {
	th := r.Thorough()
	type fam struct {
		name string
		gen  Gen
		step int // quick tier: verify every step-th program of the family
	}
	fams := []fam{
		{"F-ctrl", genCtrl(th), 1}, {"F-tcons", genTCons(th), 1}, {"F-numfor", genNumFor(th), 1}, {"F-cond", genCond(th), 4},
		{"F-assign", genAssign(th), 5}, {"F-expr", genExpr(th), 12},
		{"F-call", genCall(th), 1}, {"F-select", genSelectUnpack(th), 1}, {"F-tail", genTail(th), 1},
		{"F-closure", genClosure(th), 1}, {"F-env", genEnv(th), 1},
		{"F-arith", genMetaArith(th), 3}, {"F-cmp", genMetaCmp(th), 6}, {"F-index", genMetaIndex(th), 1}, {"F-callmeta", genMetaCall(th), 1},
		{"F-locals", genLocals(th), 1}, {"F-getinfo", genGetInfo(th), 8}, {"F-errval", genErrVal(th), 1},
	}
	nw := harness.Workers()
	type first struct {
		n    int64
		src  string
		what string
	}
	var mu sync.Mutex
	firsts := map[string]*first{}
	var programs, protos int64
	harness.ParallelShards(nw, func(worker, shard int) {
		var lp, lpr int64
		for _, f := range fams {
			step := f.step
			if th {
				step = 1
			}
			i := 0
			stop := false
			f.gen(func(p *Prog) {
				if stop {
					return
				}
				i++
				if i%step != 0 || (i/step)%nw != shard {
					return
				}
				if i%512 == 0 && r.Expired() {
					stop = true
					r.NotExhaustive("deadline reached while verifying generated family " + f.name)
					return
				}
				if p.Chunk == nil {
					p.Chunk = p.Mk()
				}
				src := luaref.Print(p.Chunk, p.Layout)
				chunk, err := parse.Parse(strings.NewReader(src), "<string>")
				if err != nil {
					return // acceptance is C01's/C08's business
				}
				proto, err := lua.Compile(chunk, "<string>")
				if err != nil {
					return
				}
				lp++
				issues := bcverify.Verify(proto)
				np, _ := bcverify.Count(proto)
				lpr += int64(np)
				for _, is := range issues {
					mu.Lock()
					fr := firsts[is.Class]
					if fr == nil {
						fr = &first{}
						firsts[is.Class] = fr
					}
					fr.n++
					if fr.src == "" || len(src) < len(fr.src) {
						fr.src = src
						fr.what = f.name + "/" + p.Shape + ": " + is.String()
					}
					mu.Unlock()
				}
			})
		}
		mu.Lock()
		programs += lp
		protos += lpr
		mu.Unlock()
	})
	r.Count("generated_family_programs_verified", programs)
	r.Count("generated_family_prototypes_verified", protos)
	r.EvalN(programs)
	r.Nontrivial("generated-families")
	for class, fr := range firsts {
		r.Violation(class, fmt.Sprintf("generated program families: %d issues of this class; smallest program: %s\n%s", fr.n, fr.what, fr.src), map[string]interface{}{"kind": "generated-family", "class": class, "program": fr.src, "issue": fr.what})
	}
}
