package props

// C12 part 1 — the unexported call-frame stacks and the registry against slice models.

import (
	"encoding/json"
	"fmt"
	"sort"
	"strings"
	"sync"

	lua "github.com/yuin/gopher-lua"

	"verif/internal/harness"
)

const c12Seg = 8 // lua.FramesPerSegment (asserted in c12Structs)

// ---- call-frame stacks ---------------------------------------------------------------------------

type c12SOp struct {
	Op string `json:"op"` // push | pop | setsp | freeall
	K  int    `json:"k,omitempty"`
}

func (o c12SOp) String() string {
	if o.Op == "setsp" {
		return fmt.Sprintf("SetSp(%d)", o.K)
	}
	return map[string]string{"push": "Push", "pop": "Pop", "freeall": "FreeAll+new"}[o.Op]
}

type c12StackSim struct {
	kind     string // fixed | auto
	n, cap   int
	s        *lua.VerifStack
	model    []int
	nextTag  int
	reached  string // init | push | down
	recycled bool
}

func c12NewStack(kind string, n int) *lua.VerifStack {
	if kind == "fixed" {
		return lua.VerifNewFixedStack(n)
	}
	return lua.VerifNewAutoStack(n)
}

func newC12StackSim(kind string, n int) *c12StackSim {
	m := &c12StackSim{kind: kind, n: n, cap: n, reached: "init", nextTag: 100}
	if kind == "auto" {
		m.cap = (n + c12Seg - 1) / c12Seg * c12Seg
	}
	m.s = c12NewStack(kind, n)
	return m
}

func (m *c12StackSim) key() string {
	return fmt.Sprintf("%d/%s/%v", len(m.model), m.reached, m.recycled)
}

func c12PosClass(k int) string {
	switch {
	case k == 0:
		return "0"
	case k%c12Seg == 0:
		return "seg"
	}
	return "in"
}

// enabled lists the mutators the VM could issue in this state.
func (m *c12StackSim) enabled() []c12SOp {
	var ops []c12SOp
	sp := len(m.model)
	if sp < m.cap {
		ops = append(ops, c12SOp{Op: "push"})
	} else if m.kind == "auto" {
		ops = append(ops, c12SOp{Op: "push"}) // attempted only if IsFull() is false, see apply
	}
	if sp > 0 {
		ops = append(ops, c12SOp{Op: "pop"})
	}
	for k := 0; k <= sp; k++ {
		ops = append(ops, c12SOp{Op: "setsp", K: k})
	}
	ops = append(ops, c12SOp{Op: "freeall"})
	return ops
}

type c12Viol struct {
	sig, what string
	fatal     bool
}

// a c12Viol whose sig starts with "note:" is not a violation: it is counted under the rest of the name
func (v c12Viol) note() bool { return strings.HasPrefix(v.sig, "note:") }

// apply performs one mutator on the implementation and the model and then evaluates every observer.
func (m *c12StackSim) apply(op c12SOp) (out []c12Viol) {
	sp := len(m.model)
	class := op.Op
	reachedBefore := m.reached
	prefix := func() string { return "p1/stack/" + m.kind + "/" + class + "/after-" + reachedBefore }
	var panicked interface{}
	guard := func(f func()) {
		defer func() {
			if r := recover(); r != nil {
				panicked = r
			}
		}()
		f()
	}
	switch op.Op {
	case "push":
		class = "push@" + c12PosClass(sp)
		if sp >= m.cap {
			class = "push-at-capacity"
			var full bool
			guard(func() { full = m.s.IsFull() })
			if panicked != nil {
				return []c12Viol{{prefix() + "/isfull-panic", fmt.Sprintf("IsFull panicked: %v", panicked), true}}
			}
			if full {
				return nil // the VM would raise "stack overflow" without pushing
			}
			// IsFull() == false at capacity (reported by the observers of the previous step); the VM pushes.
			guard(func() { m.s.Push(m.nextTag) })
			if panicked == nil {
				m.model = append(m.model, m.nextTag)
				m.nextTag++
				out = append(out, c12Viol{prefix() + "/accepted", fmt.Sprintf("Push accepted at sp=%d although the stack was created for %d frames (capacity %d)", sp, m.n, m.cap), true})
				return out
			}
			// refused by panic: contents must be intact
			return m.observe(prefix(), out)
		}
		guard(func() { m.s.Push(m.nextTag) })
		if panicked != nil {
			return []c12Viol{{prefix() + "/panic", fmt.Sprintf("Push at sp=%d (size %d) panicked: %v", sp, m.n, panicked), true}}
		}
		m.model = append(m.model, m.nextTag)
		m.nextTag++
		m.reached = "push"
	case "pop":
		class = "pop@" + c12PosClass(sp)
		var tag, idx int
		var ok bool
		guard(func() { tag, idx, ok = m.s.Pop() })
		if panicked != nil {
			return []c12Viol{{prefix() + "/panic", fmt.Sprintf("Pop at sp=%d panicked: %v", sp, panicked), true}}
		}
		if !ok || tag != m.model[sp-1] || idx != sp-1 {
			out = append(out, c12Viol{prefix() + "/result", fmt.Sprintf("Pop at sp=%d returned (tag %d, Idx %d, non-nil %v), model says (tag %d, Idx %d)", sp, tag, idx, ok, m.model[sp-1], sp-1), true})
		}
		m.model = m.model[:sp-1]
		m.reached = "down"
	case "setsp":
		if op.K == sp {
			class = "setsp-same@" + c12PosClass(op.K)
		} else {
			class = "setsp-lower@" + c12PosClass(op.K)
		}
		guard(func() { m.s.SetSp(op.K) })
		if panicked != nil {
			return []c12Viol{{prefix() + "/panic", fmt.Sprintf("SetSp(%d) at sp=%d panicked: %v", op.K, sp, panicked), true}}
		}
		if op.K < sp {
			m.model = m.model[:op.K]
			m.reached = "down"
		}
		return m.observe(prefix(), out)
	case "freeall":
		guard(func() { m.s.FreeAll() })
		if panicked != nil {
			return []c12Viol{{prefix() + "/panic", fmt.Sprintf("FreeAll at sp=%d panicked: %v", sp, panicked), true}}
		}
		pfx := prefix()
		guard(func() { m.s = c12NewStack(m.kind, m.n) })
		if panicked != nil {
			return []c12Viol{{pfx + "/new-panic", fmt.Sprintf("constructor after FreeAll panicked: %v", panicked), true}}
		}
		m.model = m.model[:0]
		m.reached = "init"
		m.recycled = true
		return m.observe(pfx, out)
	}
	return m.observe(prefix(), out)
}

// observe compares every observer with the model; the first diverging one is reported as fatal (the
// implementation's state no longer corresponds to the model), a wrong IsFull answer alone is not.
func (m *c12StackSim) observe(pfx string, out []c12Viol) (res []c12Viol) {
	res = out
	sp := len(m.model)
	defer func() {
		if r := recover(); r != nil {
			res = append(res, c12Viol{pfx + "/observer-panic", fmt.Sprintf("an observer panicked at model sp=%d: %v", sp, r), true})
		}
	}()
	if got := m.s.Sp(); got != sp {
		return append(res, c12Viol{pfx + "/sp", fmt.Sprintf("Sp() = %d, model says %d", got, sp), true})
	}
	if got := m.s.IsEmpty(); got != (sp == 0) {
		return append(res, c12Viol{pfx + "/isempty", fmt.Sprintf("IsEmpty() = %v at sp=%d", got, sp), true})
	}
	tag, idx, ok := m.s.Last()
	if sp == 0 {
		if ok {
			return append(res, c12Viol{pfx + "/last", fmt.Sprintf("Last() on the empty stack returned a frame (tag %d)", tag), true})
		}
	} else if !ok || tag != m.model[sp-1] || idx != sp-1 {
		return append(res, c12Viol{pfx + "/last", fmt.Sprintf("Last() at sp=%d = (tag %d, Idx %d, non-nil %v), model says (tag %d, Idx %d)", sp, tag, idx, ok, m.model[sp-1], sp-1), true})
	}
	for i := 0; i < sp; i++ {
		tag, idx, ok := m.s.At(i)
		if !ok || tag != m.model[i] || idx != i {
			return append(res, c12Viol{pfx + "/at", fmt.Sprintf("At(%d) at sp=%d = (tag %d, Idx %d, non-nil %v), model says (tag %d, Idx %d)", i, sp, tag, idx, ok, m.model[i], i), true})
		}
	}
	full := m.s.IsFull()
	switch {
	case sp < m.n && full:
		res = append(res, c12Viol{"p1/stack/" + m.kind + "/isfull-early", fmt.Sprintf("IsFull() = true at sp=%d although the stack was created for %d frames", sp, m.n), false})
	case sp >= m.cap && !full && m.kind == "fixed":
		res = append(res, c12Viol{"p1/stack/fixed/isfull-false-at-capacity", fmt.Sprintf("IsFull() = false at sp=%d = size of the fixed stack: the VM would push out of bounds", sp), false})
	case sp >= m.cap && !full:
		// The segmented stack may answer false at capacity as long as Push itself refuses (by panic)
		// and leaves the contents intact - that transition is driven in apply ("push-at-capacity") and
		// part 2 checks end-to-end that the refusal surfaces as a catchable error. Counted, not judged.
		res = append(res, c12Viol{"note:p1_auto_isfull_false_at_capacity_states", "", false})
	}
	return res
}

type c12StackReplay struct {
	Kind    string   `json:"kind"`
	Size    int      `json:"size"`
	History []c12SOp `json:"history"`
	Text    string   `json:"history_text"`
}

func c12StackHistText(h []c12SOp) string {
	s := make([]string, len(h))
	for i, o := range h {
		s[i] = o.String()
	}
	return strings.Join(s, " ; ")
}

// c12ReplayStackHist runs a history from scratch; the violations of the last step are returned.
// ok=false if an earlier step already diverged fatally.
func c12ReplayStackHist(kind string, n int, hist []c12SOp, poison int) (*c12StackSim, []c12Viol, bool) {
	if poison > 0 {
		lua.VerifPoisonSegmentPool(poison)
	}
	m := newC12StackSim(kind, n)
	var last []c12Viol
	for i, op := range hist {
		last = m.apply(op)
		if i < len(hist)-1 {
			for _, v := range last {
				if v.fatal {
					return m, last, false
				}
			}
		}
	}
	return m, last, true
}

func (c *c12Ctx) stackReport(kind string, n int, hist []c12SOp, vs []c12Viol) (fatal bool) {
	for _, v := range vs {
		if v.note() {
			c.r.Count(strings.TrimPrefix(v.sig, "note:"), 1)
			continue
		}
		h := append([]c12SOp(nil), hist...)
		c.viol(v.sig, fmt.Sprintf("%s call-frame stack of size %d: %s\nhistory: %s", kind, n, v.what, c12StackHistText(h)),
			c12MkReplay("stack", c12StackReplay{kind, n, h, c12StackHistText(h)}))
		if v.fatal {
			fatal = true
		}
	}
	return fatal
}

func c12ReplayStack(raw json.RawMessage) (bool, string) {
	var rp c12StackReplay
	if err := json.Unmarshal(raw, &rp); err != nil {
		return true, "cannot decode stack replay: " + err.Error()
	}
	_, all, _ := c12ReplayStackHist(rp.Kind, rp.Size, rp.History, 2)
	var vs []c12Viol
	for _, v := range all {
		if !v.note() {
			vs = append(vs, v)
		}
	}
	if len(vs) == 0 {
		return true, fmt.Sprintf("stack %s/%d history [%s]: all observers agree with the model", rp.Kind, rp.Size, rp.Text)
	}
	var sb strings.Builder
	for _, v := range vs {
		fmt.Fprintf(&sb, "%s: %s\n", v.sig, v.what)
	}
	return false, fmt.Sprintf("stack %s/%d history [%s]:\n%s", rp.Kind, rp.Size, rp.Text, sb.String())
}

func (c *c12Ctx) stackBFS(kind string, n int) {
	type st struct{ hist []c12SOp }
	seen := map[string]bool{}
	m0 := newC12StackSim(kind, n)
	seen[m0.key()] = true
	frontier := []st{{}}
	maxDepth := 2*n + 4
	var states, trans int64
	for d := 0; d <= maxDepth && len(frontier) > 0; d++ {
		var next []st
		for _, s := range frontier {
			m, vs, ok := c12ReplayStackHist(kind, n, s.hist, 1)
			if !ok {
				continue
			}
			if d == 0 {
				vs = m.observe("p1/stack/"+kind+"/new", nil)
				if c.stackReport(kind, n, s.hist, vs) {
					continue
				}
			}
			states++
			c.r.Eval(fmt.Sprintf("p1/stack/%s/%d/%s", kind, n, m.key()), true, func() interface{} {
				return map[string]interface{}{"part": 1, "structure": kind + " call-frame stack", "size": n, "state": m.key(), "history": c12StackHistText(s.hist)}
			})
			if d == maxDepth {
				continue
			}
			for _, op := range m.enabled() {
				h2 := append(append(make([]c12SOp, 0, len(s.hist)+1), s.hist...), op)
				m2, vs2, ok2 := c12ReplayStackHist(kind, n, h2, 1)
				trans++
				if !ok2 {
					continue
				}
				if c.stackReport(kind, n, h2, vs2) {
					continue
				}
				if k := m2.key(); !seen[k] {
					seen[k] = true
					next = append(next, st{h2})
				}
			}
		}
		frontier = next
	}
	c.addStates(states)
	c.addTransitions(trans)
	c.r.Count("p1_stack_bfs_states", states)
	c.r.Count("p1_stack_bfs_transitions", trans)
}

// stackExhaustive: from the stack filled with k frames, every mutator sequence of length <= L,
// without de-duplication.
func (c *c12Ctx) stackExhaustive(kind string, n, k, L int) {
	prefix := make([]c12SOp, k)
	for i := range prefix {
		prefix[i] = c12SOp{Op: "push"}
	}
	var trans int64
	var rec func(hist []c12SOp, depth int)
	rec = func(hist []c12SOp, depth int) {
		poison := 0
		if trans%128 == 0 {
			poison = 2
		}
		m, vs, ok := c12ReplayStackHist(kind, n, hist, poison)
		if !ok {
			return
		}
		if depth > 0 {
			trans++
			if c.stackReport(kind, n, hist, vs) {
				return
			}
		}
		if depth == L {
			return
		}
		if c.r.Expired() {
			c.r.NotExhaustive("deadline during part 1 (stack histories)")
			return
		}
		for _, op := range m.enabled() {
			rec(append(append(make([]c12SOp, 0, len(hist)+1), hist...), op), depth+1)
		}
	}
	rec(prefix, 0)
	c.addTransitions(trans)
	c.r.EvalN(trans)
	c.r.Count("p1_stack_exhaustive_histories", trans)
}

// ---- registry ------------------------------------------------------------------------------------

type c12ROp struct {
	Op string `json:"op"`
	A  int    `json:"a,omitempty"`
	B  int    `json:"b,omitempty"`
	C  int    `json:"c,omitempty"`
	D  int    `json:"d,omitempty"`
}

func (o c12ROp) String() string {
	switch o.Op {
	case "push", "pop":
		return strings.ToUpper(o.Op[:1]) + o.Op[1:] + "()"
	case "set":
		return fmt.Sprintf("Set(%d,v)", o.A)
	case "setnumber":
		return fmt.Sprintf("SetNumber(%d,n)", o.A)
	case "settop":
		return fmt.Sprintf("SetTop(%d)", o.A)
	case "fillnil":
		return fmt.Sprintf("FillNil(regm=%d,n=%d)", o.A, o.B)
	case "insert":
		return fmt.Sprintf("Insert(v,%d)", o.A)
	case "copyrange":
		return fmt.Sprintf("CopyRange(regv=%d,start=%d,limit=%d,n=%d)", o.A, o.B, o.C, o.D)
	}
	return o.Op
}

type c12RegCfg struct {
	Initial int `json:"initial"`
	Grow    int `json:"grow"`
	Max     int `json:"max"`
}

func (g c12RegCfg) limit() int {
	if g.Max > g.Initial {
		return g.Max
	}
	return g.Initial
}

type c12RegSim struct {
	cfg    c12RegCfg
	rg     *lua.VerifRegistry
	slots  []string // model of [0,top): "nil", "s:vN", "n:N", or "?" (unspecified)
	nextID int
}

func newC12RegSim(cfg c12RegCfg) *c12RegSim {
	return &c12RegSim{cfg: cfg, rg: lua.VerifNewRegistry(cfg.Initial, cfg.Grow, cfg.Max), nextID: 1}
}

func c12RenderReg(v lua.LValue) string {
	switch x := v.(type) {
	case nil:
		return "<go-nil>"
	case *lua.LNilType:
		return "nil"
	case lua.LString:
		return "s:" + string(x)
	case lua.LNumber:
		return fmt.Sprintf("n:%v", float64(x))
	}
	return "?" + v.Type().String()
}

func (m *c12RegSim) key() string {
	var b strings.Builder
	fmt.Fprintf(&b, "%d/%d/", len(m.slots), m.rg.Len())
	for i, s := range m.slots {
		if s == "?" {
			fmt.Fprintf(&b, "%d,", i)
		}
	}
	return b.String()
}

func c12Uniq(xs []int, lo, hi int) []int {
	sort.Ints(xs)
	var out []int
	for i, x := range xs {
		if x < lo || x > hi || (i > 0 && x == xs[i-1]) {
			continue
		}
		out = append(out, x)
	}
	return out
}

// menu: operations with indices straddling top, the current capacity and the limit.
func (m *c12RegSim) menu() []c12ROp {
	t, cp, M := len(m.slots), m.rg.Len(), m.cfg.limit()
	I := c12Uniq([]int{0, 1, t - 1, t, t + 1, cp - 1, cp, cp + 1, M - 1, M, M + 1}, 0, M+2)
	ops := []c12ROp{{Op: "push"}}
	if t > 0 {
		ops = append(ops, c12ROp{Op: "pop"})
	}
	for _, i := range I {
		ops = append(ops, c12ROp{Op: "set", A: i}, c12ROp{Op: "setnumber", A: i}, c12ROp{Op: "settop", A: i}, c12ROp{Op: "insert", A: i})
	}
	for _, regm := range I {
		if regm > t {
			continue
		}
		for _, end := range I {
			if end >= regm {
				ops = append(ops, c12ROp{Op: "fillnil", A: regm, B: end - regm})
			}
		}
	}
	for _, regv := range I {
		if regv > t {
			continue
		}
		ends := c12Uniq([]int{regv, regv + 1, regv + 2, cp - 1, cp, cp + 1, M, M + 1}, regv, M+2)
		for _, end := range ends {
			n := end - regv
			// (a) moving down / in place, limit = top
			for _, start := range c12Uniq([]int{regv, regv + 1, t - 1, t, t + 1}, regv, M+2) {
				ops = append(ops, c12ROp{Op: "copyrange", A: regv, B: start, C: -1, D: n})
			}
			// (b) explicit limit below top
			if t >= 1 && regv+1 <= t-1 {
				ops = append(ops, c12ROp{Op: "copyrange", A: regv, B: regv + 1, C: t - 1, D: n})
			}
			// (c) source range entirely below the destination (how OP_VARARG uses it)
			for _, l := range c12Uniq([]int{regv, regv - 1}, 0, regv) {
				for _, start := range c12Uniq([]int{l - 2, l - 1, -1, 0}, -1, l) {
					ops = append(ops, c12ROp{Op: "copyrange", A: regv, B: start, C: l, D: n})
				}
			}
		}
	}
	return ops
}

func (m *c12RegSim) fresh(number bool) (lua.LValue, string) {
	id := m.nextID
	m.nextID++
	if number {
		return lua.LNumber(id), fmt.Sprintf("n:%d", id)
	}
	s := fmt.Sprintf("v%d", id)
	return lua.LString(s), "s:" + s
}

func (m *c12RegSim) grown(n int) {
	for len(m.slots) < n {
		m.slots = append(m.slots, "?")
	}
}

// apply performs op on implementation and model, then compares them. fatal reports divergence.
func (m *c12RegSim) apply(op c12ROp) (out []c12Viol) {
	t := len(m.slots)
	M := m.cfg.limit()
	capBefore := m.rg.Len()
	var required int
	var do func()
	var modelDo func()
	var popWant string
	var popGot lua.LValue
	switch op.Op {
	case "push":
		v, name := m.fresh(false)
		required = t + 1
		do = func() { m.rg.Push(v) }
		modelDo = func() { m.slots = append(m.slots, name) }
	case "pop":
		required = 0
		popWant = m.slots[t-1]
		do = func() { popGot = m.rg.Pop() }
		modelDo = func() { m.slots = m.slots[:t-1] }
	case "set", "setnumber":
		v, name := m.fresh(op.Op == "setnumber")
		required = op.A + 1
		if op.Op == "set" {
			do = func() { m.rg.Set(op.A, v) }
		} else {
			do = func() { m.rg.SetNumber(op.A, v.(lua.LNumber)) }
		}
		modelDo = func() { m.grown(op.A + 1); m.slots[op.A] = name }
	case "settop":
		required = op.A
		do = func() { m.rg.SetTop(op.A) }
		modelDo = func() {
			if op.A <= t {
				m.slots = m.slots[:op.A]
				return
			}
			for len(m.slots) < op.A {
				m.slots = append(m.slots, "nil")
			}
		}
	case "fillnil":
		required = op.A + op.B
		do = func() { m.rg.FillNil(op.A, op.B) }
		modelDo = func() {
			m.slots = m.slots[:op.A]
			for i := 0; i < op.B; i++ {
				m.slots = append(m.slots, "nil")
			}
		}
	case "insert":
		v, name := m.fresh(false)
		if op.A >= t {
			required = op.A + 1
			modelDo = func() { m.grown(op.A + 1); m.slots[op.A] = name }
		} else {
			required = t + 1
			modelDo = func() {
				m.slots = append(m.slots, "")
				copy(m.slots[op.A+1:], m.slots[op.A:])
				m.slots[op.A] = name
			}
		}
		do = func() { m.rg.Insert(v, op.A) }
	case "copyrange":
		regv, start, limit, n := op.A, op.B, op.C, op.D
		required = regv + n
		do = func() { m.rg.CopyRange(regv, start, limit, n) }
		modelDo = func() {
			lim := limit
			if lim == -1 || lim > t {
				lim = t
			}
			old := append([]string(nil), m.slots...)
			m.slots = m.slots[:regv]
			for i := 0; i < n; i++ {
				src := start + i
				if src >= lim || src < 0 {
					m.slots = append(m.slots, "nil")
				} else {
					m.slots = append(m.slots, old[src])
				}
			}
		}
	default:
		harness.Fatal("c12: registry op %q", op.Op)
	}
	wantOverflow := required > M
	how := "fit"
	if wantOverflow {
		how = "overflow"
	} else if required > capBefore {
		how = "grow"
	}
	pfx := "p1/registry/" + op.Op + "/" + how
	overflow, other := m.rg.Do(do)
	if other != nil {
		return []c12Viol{{pfx + "/panic", fmt.Sprintf("%s with top=%d len=%d limit=%d panicked: %v", op, t, capBefore, M, other), true}}
	}
	if overflow != wantOverflow {
		return []c12Viol{{pfx + "/handler", fmt.Sprintf("%s with top=%d len=%d limit=%d needs %d slots: overflow handler fired = %v, expected %v", op, t, capBefore, M, required, overflow, wantOverflow), true}}
	}
	if !overflow {
		modelDo()
		if op.Op == "pop" && popWant != "?" && c12RenderReg(popGot) != popWant {
			out = append(out, c12Viol{pfx + "/result", fmt.Sprintf("Pop() returned %s, model says %s", c12RenderReg(popGot), popWant), true})
		}
	}
	return m.observe(pfx, op, out)
}

func (m *c12RegSim) observe(pfx string, op c12ROp, out []c12Viol) (res []c12Viol) {
	res = out
	defer func() {
		if r := recover(); r != nil {
			res = append(res, c12Viol{pfx + "/observer-panic", fmt.Sprintf("after %s an observer panicked: %v", op, r), true})
		}
	}()
	t := len(m.slots)
	if got := m.rg.Top(); got != t {
		return append(res, c12Viol{pfx + "/top", fmt.Sprintf("after %s Top() = %d, model says %d", op, got, t), true})
	}
	if l := m.rg.Len(); l < t || l > m.cfg.limit() {
		return append(res, c12Viol{pfx + "/len", fmt.Sprintf("after %s len(array) = %d with top=%d and limit %d", op, l, t, m.cfg.limit()), true})
	}
	for i := 0; i < t; i++ {
		if m.slots[i] == "?" {
			continue
		}
		if got := c12RenderReg(m.rg.Get(i)); got != m.slots[i] {
			return append(res, c12Viol{pfx + "/slot", fmt.Sprintf("after %s Get(%d) = %s, model says %s (top=%d, len=%d)", op, i, got, m.slots[i], t, m.rg.Len()), true})
		}
	}
	return res
}

type c12RegReplay struct {
	Cfg     c12RegCfg `json:"config"`
	History []c12ROp  `json:"history"`
	Text    string    `json:"history_text"`
}

func c12RegHistText(h []c12ROp) string {
	s := make([]string, len(h))
	for i, o := range h {
		s[i] = o.String()
	}
	return strings.Join(s, " ; ")
}

func c12ReplayRegHist(cfg c12RegCfg, hist []c12ROp) (*c12RegSim, []c12Viol, bool) {
	m := newC12RegSim(cfg)
	var last []c12Viol
	for i, op := range hist {
		last = m.apply(op)
		if i < len(hist)-1 {
			for _, v := range last {
				if v.fatal {
					return m, last, false
				}
			}
		}
	}
	return m, last, true
}

func c12ReplayRegistry(raw json.RawMessage) (bool, string) {
	var rp c12RegReplay
	if err := json.Unmarshal(raw, &rp); err != nil {
		return true, "cannot decode registry replay: " + err.Error()
	}
	_, vs, _ := c12ReplayRegHist(rp.Cfg, rp.History)
	if len(vs) == 0 {
		return true, fmt.Sprintf("registry %+v history [%s]: agrees with the model", rp.Cfg, rp.Text)
	}
	var sb strings.Builder
	for _, v := range vs {
		fmt.Fprintf(&sb, "%s: %s\n", v.sig, v.what)
	}
	return false, fmt.Sprintf("registry %+v history [%s]:\n%s", rp.Cfg, rp.Text, sb.String())
}

func (c *c12Ctx) regReport(cfg c12RegCfg, hist []c12ROp, vs []c12Viol) (fatal bool) {
	for _, v := range vs {
		h := append([]c12ROp(nil), hist...)
		c.viol(v.sig, fmt.Sprintf("registry (initial %d, grow %d, max %d): %s\nhistory: %s", cfg.Initial, cfg.Grow, cfg.Max, v.what, c12RegHistText(h)),
			c12MkReplay("registry", c12RegReplay{cfg, h, c12RegHistText(h)}))
		if v.fatal {
			fatal = true
		}
	}
	return fatal
}

func (c *c12Ctx) regBFS(cfg c12RegCfg, depth int) {
	type st struct{ hist []c12ROp }
	seen := map[string]bool{}
	seen[newC12RegSim(cfg).key()] = true
	frontier := []st{{}}
	var states, trans int64
	for d := 0; d <= depth && len(frontier) > 0; d++ {
		var next []st
		for _, s := range frontier {
			if c.r.Expired() {
				c.r.NotExhaustive(fmt.Sprintf("deadline during registry BFS at depth %d", d))
				break
			}
			m, _, ok := c12ReplayRegHist(cfg, s.hist)
			if !ok {
				continue
			}
			states++
			c.r.Eval(fmt.Sprintf("p1/registry/%+v/%s", cfg, m.key()), true, func() interface{} {
				return map[string]interface{}{"part": 1, "structure": "registry", "config": cfg, "state": m.key(), "history": c12RegHistText(s.hist)}
			})
			if d == depth {
				continue
			}
			for _, op := range m.menu() {
				h2 := append(append(make([]c12ROp, 0, len(s.hist)+1), s.hist...), op)
				m2, vs2, ok2 := c12ReplayRegHist(cfg, h2)
				trans++
				if !ok2 {
					continue
				}
				if c.regReport(cfg, h2, vs2) {
					continue
				}
				if k := m2.key(); !seen[k] {
					seen[k] = true
					next = append(next, st{h2})
				}
			}
		}
		frontier = next
	}
	c.addStates(states)
	c.addTransitions(trans)
	c.r.Count("p1_registry_bfs_states", states)
	c.r.Count("p1_registry_bfs_transitions", trans)
}

// ---- driver --------------------------------------------------------------------------------------

func c12Structs(c *c12Ctx) {
	if lua.FramesPerSegment != c12Seg {
		harness.Fatal("c12: FramesPerSegment is %d, the check was written for %d", lua.FramesPerSegment, c12Seg)
	}
	sizes := []int{1, 2, 7, 8, 9, 15, 16, 17, 24}
	kinds := []string{"fixed", "auto"}
	L := 3
	regDepth := 3
	if c.r.Thorough() {
		L = 4
		regDepth = 4
	}
	type job func()
	var jobs []job
	for _, kind := range kinds {
		for _, n := range sizes {
			kind, n := kind, n
			jobs = append(jobs, func() { c.stackBFS(kind, n) })
			cp := n
			if kind == "auto" {
				cp = (n + c12Seg - 1) / c12Seg * c12Seg
			}
			for k := 0; k <= cp; k++ {
				k := k
				jobs = append(jobs, func() { c.stackExhaustive(kind, n, k, L) })
			}
		}
	}
	for _, initial := range []int{8, 16} {
		for _, grow := range []int{1, 3, 32} {
			for _, max := range []int{0, 16, 40} {
				cfg := c12RegCfg{initial, grow, max}
				jobs = append(jobs, func() { c.regBFS(cfg, regDepth) })
			}
		}
	}
	var mu sync.Mutex
	_ = mu
	harness.ParallelShards(len(jobs), func(worker, shard int) {
		if c.r.Expired() {
			c.r.NotExhaustive("deadline during part 1")
			return
		}
		jobs[shard]()
	})
	c.r.Extra["p1_stack_sizes"] = sizes
	c.r.Extra["p1_stack_exhaustive_suffix_length"] = L
	c.r.Extra["p1_registry_bfs_depth"] = regDepth
}
