package props

// C03, family F-nest — the complete product of block nestings around a captured variable.
//
// The hand-written sites of F-closure cover one capture site each. F-nest enumerates *every*
// nesting of block kinds (do / while / repeat / numeric for / generic for / if / else) to a fixed
// depth, a local declared in each level, which levels create closures (over their own local, or
// over every enclosing level's local as well), and one exit statement of every kind at every
// position of the nest and every iteration of the loop that encloses it. The compiler decides
// per block whether a CLOSE is needed and where break/goto/return must close; the product makes
// every such decision appear with every combination of enclosing blocks.

import (
	"fmt"

	. "verif/internal/luaref"
)

// "gotoloop": a loop written with a label and a backward goto, the level's local declared behind the
// label (a fresh variable per iteration, like the structured loops); "gotoloopL": the local declared
// once in front of the label, so that the closures of all iterations share it and statements that
// come earlier in the text run later in time (what the compiler knows when it emits an exit is not
// what has happened when the exit runs).
var nestKinds = []string{"do", "while", "repeat", "numfor", "genfor", "if", "else", "gotoloop", "gotoloopL"}

func nestIsGoto(k string) bool { return k == "gotoloop" || k == "gotoloopL" }

func nestIsLoop(k string) bool {
	return k == "while" || k == "repeat" || k == "numfor" || k == "genfor" || nestIsGoto(k)
}

func genNest(thorough bool) Gen {
	depth := 2
	if thorough {
		depth = 3
	}
	caps := []string{"none", "own", "all"}
	exits := []string{"break", "goto-out", "goto-cont", "goto-cont-outer", "return", "tailcall", "error", "fault", "yield", "yield-abandon"}
	return func(yield func(*Prog)) {
		kindIdx := make([]int, depth)
		capIdx := make([]int, depth)
		var emitAll func()
		one := func(exit string, exLv int, exPos string, at int) {
			ks := make([]string, depth)
			cs := make([]string, depth)
			shape := ""
			for i := 0; i < depth; i++ {
				ks[i], cs[i] = nestKinds[kindIdx[i]], caps[capIdx[i]]
				shape += ks[i] + ":" + cs[i] + ">"
			}
			// innermost loop at or above the exit level, and the outermost loop
			inner, outer := 0, 0
			for lv := 1; lv <= exLv; lv++ {
				if nestIsLoop(ks[lv-1]) {
					inner = lv
					if outer == 0 {
						outer = lv
					}
				}
			}
			switch exit {
			case "break", "goto-cont":
				if inner == 0 {
					return
				}
				if exit == "break" && nestIsGoto(ks[inner-1]) {
					return // a goto loop is not a loop for break
				}
			case "goto-cont-outer":
				if outer == 0 || outer == inner {
					return
				}
			}
			if inner == 0 && at != 1 {
				return
			}
			sh := fmt.Sprintf("nest/%s/%s@L%d%s#%d", shape, exit, exLv, exPos, at)
			if exit == "" {
				sh = fmt.Sprintf("nest/%s/fall", shape)
			}
			yield(&Prog{Family: "F-nest", Shape: sh, Mk: func() *Block {
				return nestProgram(ks, cs, exit, exLv, exPos, at, inner, outer, false)
			}})
			// the same nest as the very first thing in a function without parameters or locals (only
			// for nests whose outermost block has no hidden loop registers in front of its local, and
			// not with the vararg-dependent routes)
			if (ks[0] == "do" || ks[0] == "while" || ks[0] == "repeat" || ks[0] == "if" || ks[0] == "else") && exit != "yield" && exit != "yield-abandon" {
				yield(&Prog{Family: "F-nest", Shape: "bare/" + sh, Mk: func() *Block {
					return nestProgram(ks, cs, exit, exLv, exPos, at, inner, outer, true)
				}})
			}
		}
		emitAll = func() {
			one("", 0, "", 1)
			for _, ex := range exits {
				for lv := 1; lv <= depth; lv++ {
					poss := []string{"post"}
					if lv < depth {
						poss = []string{"pre", "post"}
					}
					for _, pos := range poss {
						for at := 1; at <= 2; at++ {
							one(ex, lv, pos, at)
						}
					}
				}
			}
		}
		var rec func(i int)
		rec = func(i int) {
			if i == depth {
				// at least one level must create closures
				any := false
				for _, c := range capIdx {
					if c != 0 {
						any = true
					}
				}
				if any {
					emitAll()
				}
				return
			}
			for k := range nestKinds {
				for c := range caps {
					kindIdx[i], capIdx[i] = k, c
					rec(i + 1)
				}
			}
		}
		rec(0)
	}
}

// bare: the site function has no parameters and no locals of its own — the counters are upvalues —
// so that the outermost block's first local sits in register 0.
func nestProgram(ks, cs []string, exit string, exLv int, exPos string, at int, inner, outer int, bare bool) *Block {
	depth := len(ks)
	push := func(e Expr) Stat {
		return Assign1(Index(Name("fns"), Bin("+", Un("#", Name("fns")), Num(1))), e)
	}
	pair := func(vs ...string) []Stat {
		var rs []Expr
		for _, v := range vs {
			rs = append(rs, Name(v))
		}
		return []Stat{
			push(Func(nil, false, Return(rs...))),
			push(Func(names("nv"), false, Assign1(Name(vs[0]), Name("nv")))),
		}
	}
	iv := func(lv int) string { return fmt.Sprintf("i%d", lv) }
	av := func(lv int) string { return fmt.Sprintf("a%d", lv) }
	exitStats := func() []Stat {
		switch exit {
		case "break":
			return []Stat{Break()}
		case "goto-out":
			return []Stat{Goto("out")}
		case "goto-cont":
			return []Stat{Goto(fmt.Sprintf("cont%d", inner))}
		case "goto-cont-outer":
			return []Stat{Goto(fmt.Sprintf("cont%d", outer))}
		case "return":
			return []Stat{Return(Str("r"), Name("n"))}
		case "tailcall":
			return []Stat{Return(CallN("reuse", Num(1), Num(2), Num(3), Num(4), Num(5), Num(6)))}
		case "error":
			return []Stat{CallS(Name("error"), Str("boom"))}
		case "fault":
			return []Stat{Local1("bad", Bin("+", Name("nilv"), Num(1)))}
		case "yield", "yield-abandon":
			return []Stat{Emit(Str("resumed-with"), Call(Dot(Name("coroutine"), "yield"), Str("y"), Name("n")))}
		}
		return nil
	}
	exitAt := func(lv int) []Stat {
		if exit == "" || lv != exLv {
			return nil
		}
		var c Expr
		if inner != 0 {
			c = Bin("==", Name(iv(inner)), Num(float64(at)))
		} else {
			c = Bin(">", Name("n"), Num(0))
		}
		return []Stat{If(c, exitStats()...)}
	}
	var build func(lv int) []Stat
	build = func(lv int) []Stat {
		if lv > depth {
			return nil
		}
		k := ks[lv-1]
		var body []Stat
		if k == "while" || k == "repeat" || nestIsGoto(k) {
			body = append(body, Assign1(Name(iv(lv)), Bin("+", Name(iv(lv)), Num(1))))
		}
		body = append(body, Assign1(Name("n"), Bin("+", Name("n"), Num(1))))
		if k == "gotoloopL" {
			body = append(body, Assign1(Name(av(lv)), Bin("+", Bin("*", Name("n"), Num(10)), Num(float64(lv)))))
		} else {
			body = append(body, Local1(av(lv), Bin("+", Bin("*", Name("n"), Num(10)), Num(float64(lv)))))
		}
		if k == "repeat" {
			body = append(body, Local1(fmt.Sprintf("done%d", lv), Bin(">=", Name(iv(lv)), Num(2))))
		}
		switch cs[lv-1] {
		case "own":
			body = append(body, pair(av(lv))...)
		case "all":
			var down, up []string
			for l := lv; l >= 1; l-- {
				down = append(down, av(l))
			}
			for l := 1; l <= lv; l++ {
				up = append(up, av(l))
			}
			body = append(body, pair(down...)...)
			if lv > 1 {
				body = append(body, pair(up...)...)
			}
		}
		if exPos == "pre" {
			body = append(body, exitAt(lv)...)
		}
		body = append(body, build(lv+1)...)
		if exPos == "post" {
			body = append(body, exitAt(lv)...)
		}
		if nestIsLoop(k) && ((exit == "goto-cont" && inner == lv) || (exit == "goto-cont-outer" && outer == lv)) {
			body = append(body, Label(fmt.Sprintf("cont%d", lv)))
		}
		switch k {
		case "do":
			return []Stat{Do(body...)}
		case "while":
			if bare {
				return []Stat{Assign1(Name(iv(lv)), Num(0)), While(Bin("<", Name(iv(lv)), Num(2)), body...)}
			}
			return []Stat{Do(Local1(iv(lv), Num(0)), While(Bin("<", Name(iv(lv)), Num(2)), body...))} // counter in its own block: a goto over it would otherwise enter its scope
		case "repeat":
			if bare {
				return []Stat{Assign1(Name(iv(lv)), Num(0)), Repeat(Name(fmt.Sprintf("done%d", lv)), body...)}
			}
			return []Stat{Do(Local1(iv(lv), Num(0)), Repeat(Name(fmt.Sprintf("done%d", lv)), body...))}
		case "gotoloop", "gotoloopL":
			var st []Stat
			if bare {
				st = append(st, Assign1(Name(iv(lv)), Num(0)))
			} else {
				st = append(st, Local1(iv(lv), Num(0)))
			}
			if k == "gotoloopL" {
				st = append(st, Local1(av(lv), Num(float64(lv))))
			}
			st = append(st, Label(fmt.Sprintf("top%d", lv)))
			st = append(st, body...)
			st = append(st, If(Bin("<", Name(iv(lv)), Num(2)), Goto(fmt.Sprintf("top%d", lv))))
			return []Stat{Do(st...)}
		case "numfor":
			return []Stat{NumFor(iv(lv), Num(1), Num(2), nil, body...)}
		case "genfor":
			return []Stat{GenFor(names(iv(lv), fmt.Sprintf("e%d", lv)), []Expr{CallN("ipairs", TableE(Pos1(Str("x")), Pos1(Str("y"))))}, body...)}
		case "if":
			return []Stat{If(Bin(">", Name("n"), Num(-1)), body...)}
		case "else":
			return []Stat{IfElse(Bin("<", Name("n"), Num(0)), []Stat{Emit(Str("never"))}, body)}
		}
		panic("kind")
	}
	reuse := LocalFunc("reuse", Func(names("a", "b", "c", "d", "e", "f"), false,
		Local(names("x", "y", "z", "u", "v", "w"), Name("f"), Name("e"), Name("d"), Name("c"), Name("b"), Name("a")),
		Local1("tmp", TableE(Pos1(Name("x")), Pos1(Name("y")))),
		Return(Bin("+", Bin("+", Bin("+", Name("x"), Name("y")), Bin("+", Name("z"), Name("u"))), Bin("+", Name("v"), Name("w"))))))
	site := []Stat{Local1("n", Num(0))}
	if bare {
		site = nil
	}
	site = append(site, build(1)...)
	site = append(site, Label("out"), Local(names("o1", "o2", "o3", "o4"), Str("over1"), Str("over2"), Str("over3"), Str("over4")), Emit(Str("after"), Name("o1"), Name("n")), Return(Str("done"), Name("n")))
	st := []Stat{Local1("fns", TableE()), Local1("nilv", Nil()), reuse}
	if bare {
		// counters live outside the site function
		st = append(st, Local(names("n", "i1", "i2", "i3"), Num(0), Num(0), Num(0), Num(0)), LocalFunc("site", Func(nil, false, site...)))
	} else {
		st = append(st, LocalFunc("site", Func(names("p"), true, site...)))
	}
	readAll := func(tag string) Stat {
		return NumFor("i", Num(1), Un("#", Name("fns")), Num(2), Emit(Str(tag), Name("i"), Call(Index(Name("fns"), Name("i")))))
	}
	switch exit {
	case "yield", "yield-abandon":
		st = append(st, Local1("co", Call(Dot(Name("coroutine"), "create"), Name("site"))),
			Emit(Str("resume"), Call(Dot(Name("coroutine"), "resume"), Name("co"), Str("P"))), CallS(Name("ucheck")),
			Emit(Str("status"), Call(Dot(Name("coroutine"), "status"), Name("co"))))
		if exit == "yield" {
			// use the closures while the coroutine is suspended (its variables are still on its stack), then finish it
			st = append(st, readAll("mid"),
				NumFor("i", Num(2), Un("#", Name("fns")), Num(2), CallS(Index(Name("fns"), Name("i")), Bin("+", Num(500), Name("i")))),
				Emit(Str("resume2"), Call(Dot(Name("coroutine"), "resume"), Name("co"), Str("R"))),
				Emit(Str("status"), Call(Dot(Name("coroutine"), "status"), Name("co"))))
		}
	default:
		st = append(st, Emit(Str("site"), CallN("pcall", Name("site"), Str("P"))), CallS(Name("ucheck")))
	}
	st = append(st, Emit(Str("reuse"), CallN("reuse", Num(91), Num(92), Num(93), Num(94), Num(95), Num(96))))
	st = append(st, Emit(Str("n"), Un("#", Name("fns"))), readAll("get"))
	// write through every setter (distinct values), then read everything again; with few closures also read after each write
	st = append(st, If(Bin("<=", Un("#", Name("fns")), Num(12)),
		NumFor("i", Num(2), Un("#", Name("fns")), Num(2),
			CallS(Index(Name("fns"), Name("i")), Bin("+", Num(1000), Name("i"))),
			NumFor("j", Num(1), Un("#", Name("fns")), Num(2), Emit(Str("after-set"), Name("i"), Name("j"), Call(Index(Name("fns"), Name("j"))))))))
	st = append(st, NumFor("i", Num(2), Un("#", Name("fns")), Num(2), CallS(Index(Name("fns"), Name("i")), Bin("+", Num(2000), Name("i")))), readAll("final"))
	return Blk(st...)
}
