package props

// C12 — limits surface as catchable errors; below them Options never change behaviour.
//
// Three parts (DESIGN.md §4 C12):
//   1. c12_structs.go  the unexported call-frame stacks (fixed and segmented) and the registry are driven
//                      directly through the verif accessors, explicit-state BFS over operation
//                      histories, against a slice model;
//   2. c12_limits.go   recursion depths / argument counts straddling every configured limit on real
//                      LStates, inside pcall, xpcall, coroutines, metamethods and the Go API;
//   3. c12_neutral.go  a generated corpus of deterministic programs plus the repository's own Lua test
//                      scripts, each under the product of Options: identical traces.
//
// Violation signatures start with p1/, p2/, p3/ so that a known finding of one part can never hide a
// defect seen by another.

import (
	"encoding/json"
	"fmt"
	"os"
	"sync"
	"sync/atomic"
	"time"

	"verif/internal/harness"
)

func init() {
	harness.Register("C12", "model_checking", runC12)
	harness.RegisterReplay("C12", replayC12)
}

type c12Ctx struct {
	r           *harness.Run
	states      int64
	transitions int64
	validated   int64
}

// viol reports a violation (and lists distinct signatures on stderr when C12_DEBUG_SIGS is set).
var c12DebugSigs sync.Map

func (c *c12Ctx) viol(sig, what string, replay interface{}) {
	if os.Getenv("C12_DEBUG_SIGS") != "" {
		if _, seen := c12DebugSigs.LoadOrStore(sig, true); !seen {
			fmt.Fprintf(os.Stderr, "SIG %s\n", sig)
		}
	}
	c.r.Violation(sig, what, replay)
}

func (c *c12Ctx) addStates(n int64) { atomic.AddInt64(&c.states, n) }
func (c *c12Ctx) addTransitions(n int64) {
	atomic.AddInt64(&c.transitions, n)
	atomic.AddInt64(&c.validated, n)
}

func runC12(r *harness.Run) {
	c := &c12Ctx{r: r}
	r.Rule = "part 1: explicit-state BFS over operation histories of fixedCallFrameStack / autoGrowingCallFrameStack (sizes 1,2,7,8,9,15,16,17,24; ops Push, Pop, SetSp(k) for every k<=sp, FreeAll+reuse; observers Sp, IsEmpty, IsFull, Last, At(i) for every i<sp after every step; " +
		"state = (sp, how sp was reached, fresh/recycled segments), frames carry unique tags so contents are verified along every path; segment pool pre-poisoned) plus every un-deduplicated history of bounded length from every fill level, and of the registry " +
		"((initial,grow,max) in {8,16}x{1,3,32}x{0,16,40}; ops Push, Pop, Set, SetNumber, SetTop, FillNil, CopyRange, Insert with indices straddling top, capacity and the limit; state = (top, len(array), unspecified-slot bitmap)) against slice models; " +
		"part 2: on real LStates, recursion depth straddling each call-stack limit (CallStackSize 1..18,256 x MinimizeStackMemory) and argument/unpack/{...}/result counts straddling each registry limit (128 fixed: every n of the window; 128->4096 step 32 and 128->600 step 1: threshold located by subdivision, then every n around it, around limit/k for k=1..5 and around the initial capacity; 128->4096 step 1 for two families; more in the thorough tier), " +
		"16 program families (unpack/select/{...}/varargs/tail call/Go results/coroutine transfer/deep locals/literal argument lists) each inside pcall, xpcall, coroutine, metamethod, Go PCall: " +
		"clean catchable error above the limit, correct result below, state snapshot restored, closures of the overflowing frames intact, follow-up chunk as on a fresh state; " +
		"part 3: generated corpus + repository Lua scripts under the product of Options (CallStackSize 64/65/256, MinimizeStackMemory, RegistrySize 128/5120, RegistryMaxSize 0/8192, RegistryGrowStep 1/32, context attached or not): identical emit traces; " +
		"non-trivial = distinct (structure, configuration, state) / (configuration, family, context, parameter) / (program, configuration) cases actually executed"
	r.Assumptions = []string{
		"the call-frame stacks and the registry never inspect the values they store, so BFS states are merged on their control state (sp / top / capacity) while the stored values are unique per operation and verified along every explored path",
		"stack histories respect the preconditions the VM guarantees: Pop only when non-empty, SetSp(k) only with k<=sp, At(i) only with i<sp, Push on the fixed stack only when !IsFull; on the segmented stack Push is attempted whenever IsFull() is false, as the VM does",
		"registry histories respect the callers' preconditions: CopyRange moves down (regv<=start) or from a source range that ends at or below regv; regm/regv <= top; slots skipped by Set/Insert beyond top are unspecified and not compared",
		"for MinimizeStackMemory the limit may be CallStackSize or the next multiple of the segment size (8): outcomes between the two are accepted either way (but must be clean)",
		"registry limit cases: a case must succeed when an upper bound of its register demand fits, must fail when a lower bound exceeds the limit (+8 slots for the one-slot forced growth of raiseError), in between either; the set of succeeding sizes must be downward closed",
		"the segmented stack may answer IsFull()=false at capacity as long as Push itself refuses (panics) and leaves the contents intact; part 2 checks that the refusal reaches Lua as a catchable error (such states are counted in p1_auto_isfull_false_at_capacity_states)",
		"after a protected call only upvalues pointing at registers the call used (at or above its function slot) must be closed; whether upvalues of live enclosing locals stay open, G.CurrentThread after an error in a wrapped coroutine, the error message text and the ApiError type are not judged here (C03/C05/C06)",
		"part 3 removes a (program, configuration) pair when a limit message ('stack overflow', 'registry overflow', 'too many results to unpack', 'too many arguments to resume') is visible in the trace or result, or, on a mismatch, when a re-run with pcall/xpcall/coroutine.resume wrapped shows that a limit error was swallowed; collectgarbage is stubbed (it would run the host's GC); scripts that read/write files, the clock or spawn processes are not used",
		"no wall-clock oracle; sync.Pool reuse is not deterministic but no verdict depends on which segment the pool hands out when the property holds",
	}
	t0 := time.Now()
	c12Structs(c)
	r.Extra["p1_wall_s"] = time.Since(t0).Seconds()
	t0 = time.Now()
	defer func() { r.Extra["p3_wall_s"] = time.Since(t0).Seconds() }()
	if !r.Expired() {
		c12Limits(c)
		r.Extra["p2_wall_s"] = time.Since(t0).Seconds()
		t0 = time.Now()
	} else {
		r.NotExhaustive("deadline before part 2")
	}
	if !r.Expired() {
		c12Neutral(c)
	} else {
		r.NotExhaustive("deadline before part 3")
	}
	c12ProgramFamilies(r)
	c12ErrDeeper(r)
	manyResults(r)
	runPinned(r, "C12")
	pinnedGoCallByParam(r)
	overflowHistory(r)
	overflowHandlerWork(r)
	r.Extra["states"] = atomic.LoadInt64(&c.states)
	r.Extra["transitions"] = atomic.LoadInt64(&c.transitions)
	r.Extra["traces_validated_against_impl"] = atomic.LoadInt64(&c.validated)
}

// ---- replay ------------------------------------------------------------------------------------

type c12Replay struct {
	Part    string          `json:"part"`
	Payload json.RawMessage `json:"payload"`
}

func c12MkReplay(part string, payload interface{}) c12Replay {
	b, err := json.Marshal(payload)
	if err != nil {
		harness.Fatal("c12 replay marshal: %v", err)
	}
	return c12Replay{Part: part, Payload: b}
}

func replayC12(raw json.RawMessage) (bool, string) {
	var rp c12Replay
	if err := json.Unmarshal(raw, &rp); err != nil {
		return true, "C12 replay: cannot decode: " + err.Error()
	}
	switch rp.Part {
	case "stack":
		return c12ReplayStack(rp.Payload)
	case "registry":
		return c12ReplayRegistry(rp.Payload)
	case "limit":
		return c12ReplayLimit(rp.Payload)
	case "neutral":
		return c12ReplayNeutral(rp.Payload)
	}
	return true, fmt.Sprintf("C12 replay: unknown part %q", rp.Part)
}
