package props

// Many values at once under registries that reallocate (C02's "all results arrive", C12's "a program
// that stays within the limits behaves identically under every configuration"): every operation of
// the base, string, table and coroutine libraries and of the VM that delivers n values in one go -
// results of a call, arguments of a call, values of a resume or a yield, a vararg expansion, a
// constructor fed by a multi-valued expression - is the *first* code of a fresh state that needs
// that much room, then runs once more. Complete product producer x n x configuration; differential:
// what the producer delivers (count, sum, first, last, number of holes) under each growing
// configuration must be what it delivers under the default fixed registry.

import (
	"fmt"
	"strings"

	lua "github.com/yuin/gopher-lua"

	"verif/internal/harness"
)

func manyResults(r *harness.Run) {
	const lib = `
local n = ...
local t = {} for i = 1, n do t[i] = i * 3 end
local s = ("a"):rep(n)
local function look(...)
  local c = select("#", ...)
  local sum, holes = 0, 0
  for i = 1, c do local v = (select(i, ...)) if v == nil then holes = holes + 1 elseif type(v) == "number" then sum = sum + v end end
  return c .. "/" .. sum .. "/" .. holes .. "/" .. tostring((...)) .. "/" .. tostring((select(c > 0 and c or 1, ...)))
end
local function id(...) return ... end
`
	producers := []struct{ name, expr string }{
		{"unpack", `look(unpack(t))`},
		{"unpack-window", `look(unpack(t, 1, n))`},
		{"string.byte", `look(s:byte(1, -1))`},
		{"string.byte-prefixed", `look("p", s:byte(1, n))`},
		{"vararg-function", `look(id(unpack(t)))`},
		{"vararg-twice", `look(id(id(unpack(t))))`},
		{"pcall", `look(pcall(unpack, t))`},
		{"pcall-lua", `look(pcall(id, unpack(t)))`},
		{"xpcall", `look(xpcall(function() return unpack(t) end, print))`},
		{"select", `look(select(2, "x", unpack(t)))`},
		{"select-negative", `look(select(-n, unpack(t)))`},
		{"coroutine-return", `look(coroutine.resume(coroutine.create(function() return unpack(t) end)))`},
		{"coroutine-yield", `look(coroutine.resume(coroutine.create(function() coroutine.yield(unpack(t)) end)))`},
		{"coroutine-args", `look(coroutine.resume(coroutine.create(function(...) return look(...) end), unpack(t)))`},
		{"coroutine-resume-values", `(function() local co = coroutine.create(function() return look(coroutine.yield()) end) coroutine.resume(co) return look(coroutine.resume(co, unpack(t))) end)()`},
		{"wrap", `look(coroutine.wrap(function() return unpack(t) end)())`},
		{"wrap-yield-in-loop", `(function() local g = coroutine.wrap(function() while true do coroutine.yield(unpack(t)) end end) local a = look(g()) return a .. "|" .. look(g()) end)()`},
		{"constructor", `(function() local u = {unpack(t)} return #u .. "/" .. tostring(u[1]) .. "/" .. tostring(u[n]) end)()`},
		{"constructor-prefixed", `(function() local u = {"a", "b", s:byte(1, -1)} return #u .. "/" .. tostring(u[3]) .. "/" .. tostring(u[n + 2]) end)()`},
		{"method-call", `look(("x"):rep(1), unpack(t))`},
		{"tail-call", `(function() return look(unpack(t)) end)()`},
		{"string.char", `#string.char(s:byte(1, -1)) .. "/" .. string.char(s:byte(1, -1)):sub(-1)`},
		{"math.max", `look(math.max(unpack(t)), math.min(unpack(t)))`},
		{"table.insert-result", `(function() local u = {} for i = 1, n do table.insert(u, (select(i, unpack(t)))) end return look(unpack(u)) end)()`},
		{"gsub-callback", `(function() local k = 0 local r = s:gsub("a", function(c) k = k + 1 return look(unpack(t, 1, k % 7 + 1)):sub(1, 1) end) return #r .. "/" .. k end)()`},
		{"string.format", `#string.format(("%d"):rep(n), unpack(t))`},
		{"metamethod-call", `look(setmetatable({}, {__call = function(self, ...) return ... end})(unpack(t)))`},
		{"metamethod-index", `look(setmetatable({}, {__index = function(self, k) return look(unpack(t)) end}).x)`},
		{"sort-comparator", `(function() local u = {3, 1, 2} table.sort(u, function(a, b) look(unpack(t)) return a < b end) return u[1] .. u[2] .. u[3] end)()`},
	}
	sizes := []int{1, 2, 50, 100, 120, 126, 127, 128, 129, 130, 160, 200, 255, 256, 300, 1000}
	cfgs := []struct {
		name string
		opts lua.Options
	}{
		{"grow1-from128", lua.Options{RegistrySize: 128, RegistryMaxSize: 1 << 20, RegistryGrowStep: 1}},
		{"grow7-from130", lua.Options{RegistrySize: 130, RegistryMaxSize: 1 << 20, RegistryGrowStep: 7}},
		{"grow32-from128", lua.Options{RegistrySize: 128, RegistryMaxSize: 8192, RegistryGrowStep: 32}},
		{"grow256-from256+minstack", lua.Options{RegistrySize: 256, RegistryMaxSize: 1 << 16, RegistryGrowStep: 256, MinimizeStackMemory: true}},
		{"max-below-size", lua.Options{RegistrySize: 5120, RegistryMaxSize: 256}},
	}
	run := func(o lua.Options, expr string, n int) string {
		L := lua.NewState(o)
		defer L.Close()
		out := ""
		func() {
			defer func() {
				if rec := recover(); rec != nil {
					out = fmt.Sprintf("GO PANIC: %v", rec)
				}
			}()
			fn, err := L.LoadString(lib + "local first = " + expr + "\nlocal again = " + expr + "\nreturn tostring(first) .. ' ; ' .. tostring(again)")
			if err != nil {
				out = "load: " + err.Error()
				return
			}
			L.Push(fn)
			L.Push(lua.LNumber(n))
			if err := L.PCall(1, 1, nil); err != nil {
				out = "error: " + firstLine(err.Error())
				return
			}
			out = L.Get(-1).String()
		}()
		return out
	}
	type job struct{ pi, n int }
	var jobs []job
	for pi := range producers {
		for _, n := range sizes {
			jobs = append(jobs, job{pi, n})
		}
	}
	harness.ParallelShards(len(jobs), func(w, ji int) {
		p, n := producers[jobs[ji].pi], jobs[ji].n
		ref := run(lua.Options{}, p.expr, n)
		if strings.HasPrefix(ref, "load:") {
			r.Violation("many-results/"+p.name+"/harness", "the harness program does not load: "+ref, map[string]interface{}{"producer": p.name})
			return
		}
		if strings.Contains(ref, "overflow") || strings.Contains(ref, "too many") {
			return // beyond a limit of the default configuration: not "within the limits"
		}
		for _, c := range cfgs {
			got := run(c.opts, p.expr, n)
			r.Eval(fmt.Sprintf("many-results/%s/%s/n=%d", p.name, c.name, n), true, func() interface{} {
				return map[string]interface{}{"case": "many values at once under a reallocating registry", "producer": p.expr, "n": n, "configuration": c.name, "delivers": got}
			})
			if got != ref {
				r.Violation("many-results/"+p.name+"/"+c.name, fmt.Sprintf("%s with n = %d as the first operation of a fresh state (count/sum/holes/first/last, first run ; second run):\n  %-28s %s\n  default fixed registry        %s", p.expr, n, c.name, got, ref),
					map[string]interface{}{"producer": p.expr, "n": n, "configuration": c.name, "got": got, "default": ref})
			}
		}
	})
}
