package props

// C12, "an error, then more": histories on one state in which an error is raised (and caught) at
// one fill level of the value stack and the state is then used up to a *different* fill level -
// deeper recursion, a large unpack, a coroutine - below the configured limit. Complete product of
//   registry configuration x where the error is raised x what raises it x how it is caught x what follows.
// The configurations include every relation between RegistrySize and RegistryMaxSize (0, below,
// equal, just above, far above) - a RegistryMaxSize that does not exceed RegistrySize means a fixed
// registry of RegistrySize slots. Oracle: the trace under each configuration equals the trace under
// the plain fixed registry of the same RegistrySize (differential; no expected value by hand).

import (
	"fmt"
	"strings"

	lua "github.com/yuin/gopher-lua"

	"verif/internal/harness"
)

const c12ErrDeeperLib = `
local function fill(n, how)
  local a1, a2, a3, a4, a5, a6, a7, a8, a9, a10, a11, a12, a13, a14, a15, a16, a17, a18, a19, a20 = n, 2, 3, 4, 5, 6, 7, 8, 9, 10, 11, 12, 13, 14, 15, 16, 17, 18, 19, 20
  if n == 0 then
    if how == "error" then error("boom") end
    if how == "errtable" then error({code = 7}) end
    if how == "arith" then return a1 + {} end
    if how == "callnil" then local f f() end
    if how == "index" then local t return t.x end
    if how == "unpack" then local t = {} for i = 1, 300 do t[i] = i end return select("#", unpack(t)) end
    if how == "yield" then return coroutine.yield("y") end
    return 0
  end
  return a20 - 20 + a1 - n + 1 + fill(n - 1, how)
end
local function catch(kind, depth, how)
  if kind == "pcall" then
    local ok, e = pcall(fill, depth, how)
    return ok, type(e)
  elseif kind == "xpcall" then
    local ok, e = xpcall(function() return fill(depth, how) end, function(m) return type(m) end)
    return ok, e
  elseif kind == "xpcall-herr" then
    local ok, e = xpcall(function() return fill(depth, how) end, function(m) error("again") end)
    return ok, type(e)
  elseif kind == "coroutine" then
    local co = coroutine.create(fill)
    local ok, e = coroutine.resume(co, depth, how)
    return ok, type(e), coroutine.status(co)
  else
    local w = coroutine.wrap(fill)
    local ok, e = pcall(w, depth, how)
    return ok, type(e)
  end
end
return fill, catch
`

func c12ErrDeeper(r *harness.Run) {
	type cfg struct {
		name string
		opts lua.Options
		ref  lua.Options
		unit int // recursion depth that fills roughly a tenth of the registry (a frame of fill needs about 25 slots)
	}
	var cfgs []cfg
	for _, rs := range []int{2048, 5120} {
		for _, min := range []bool{false, true} {
			ref := lua.Options{RegistrySize: rs, MinimizeStackMemory: min}
			for _, mx := range []int{1, 100, 128, 300, rs / 2, rs - 1, rs, rs + 1, rs + 64, 1 << 20} {
				for _, step := range []int{0, 1, 32} {
					if step != 0 && mx != 300 && mx != rs/2 && mx != rs+64 {
						continue
					}
					o := ref
					o.RegistryMaxSize, o.RegistryGrowStep = mx, step
					cfgs = append(cfgs, cfg{fmt.Sprintf("rs=%d,max=%d,step=%d,min=%v", rs, mx, step, min), o, ref, rs / 250})
				}
			}
		}
	}
	// RegistrySize left at its default with a small RegistryMaxSize
	cfgs = append(cfgs, cfg{"rs=default,max=1000,step=0,min=false", lua.Options{RegistryMaxSize: 1000}, lua.Options{}, 20})
	hows := []string{"error", "errtable", "arith", "callnil", "index"}
	catches := []string{"pcall", "xpcall", "xpcall-herr", "coroutine", "wrap"}
	if !r.Thorough() {
		hows = []string{"error", "arith", "callnil"}
	}
	type job struct {
		c           cfg
		how, catch  string
		errAt, then int
		follow      string
	}
	var jobs []job
	for _, c := range cfgs {
		for _, how := range hows {
			for _, catch := range catches {
				for _, errAt := range []int{1, 3, 6} { // tenths of the registry in use when the error is raised
					for _, then := range []int{errAt, errAt + 1, 8} {
						for _, follow := range []string{"recurse", "unpack", "coroutine", "recurse-error"} {
							if !r.Thorough() && (follow == "coroutine" && catch != "pcall" || follow == "recurse-error" && how != "error") {
								continue
							}
							jobs = append(jobs, job{c, how, catch, errAt, then, follow})
						}
					}
				}
			}
		}
	}
	run := func(o lua.Options, j job) (trace string, capOK bool) {
		L := lua.NewState(o)
		defer L.Close()
		var ev []string
		L.SetGlobal("emit", L.NewFunction(func(L *lua.LState) int {
			var p []string
			for i := 1; i <= L.GetTop(); i++ {
				p = append(p, L.Get(i).String())
			}
			ev = append(ev, strings.Join(p, ","))
			return 0
		}))
		src := fmt.Sprintf(`local fill, catch = (function() %s end)()
local unit, errAt, thenAt = %d, %d, %d
emit("first", catch(%q, unit * errAt, %q))
`, c12ErrDeeperLib, j.c.unit, j.errAt, j.then, j.catch, j.how)
		switch j.follow {
		case "recurse":
			src += `emit("then", pcall(fill, unit * thenAt, "none"))` + "\n"
		case "recurse-error":
			src += `emit("then", catch("pcall", unit * thenAt, "error")) emit("after", pcall(fill, unit * thenAt + 3, "none"))` + "\n"
		case "unpack":
			src += `local t = {} for i = 1, unit * thenAt * 20 do t[i] = i end emit("then", pcall(function() return select("#", unpack(t)) end))` + "\n"
		case "coroutine":
			src += `local co = coroutine.create(fill) emit("then", coroutine.resume(co, unit * thenAt, "yield")) emit("resumed", coroutine.resume(co, "v")) emit(coroutine.status(co))` + "\n"
		}
		src += `emit("end", pcall(fill, 2, "none"))`
		func() {
			defer func() {
				if rec := recover(); rec != nil {
					ev = append(ev, fmt.Sprintf("GO PANIC %v", rec))
				}
			}()
			if err := L.DoString(src); err != nil {
				ev = append(ev, "chunk failed: "+firstLine(err.Error()))
			}
		}()
		want := o.RegistrySize
		if want < 128 {
			want = lua.RegistrySize
		}
		return strings.Join(ev, " ; "), lua.VerifRegCap(L) >= want
	}
	refCache := make([]map[string]string, harness.Workers())
	harness.ParallelShards(len(jobs), func(w, i int) {
		if r.Expired() {
			r.NotExhaustive("deadline inside the error-then-deeper product")
			return
		}
		j := jobs[i]
		if refCache[w] == nil {
			refCache[w] = map[string]string{}
		}
		rk := fmt.Sprintf("%v|%s|%s|%d|%d|%s|%d", j.c.ref, j.how, j.catch, j.errAt, j.then, j.follow, j.c.unit)
		ref, ok := refCache[w][rk]
		if !ok {
			ref, _ = run(j.c.ref, j)
			refCache[w][rk] = ref
		}
		got, _ := run(j.c.opts, j)
		relation := "max<size"
		switch {
		case j.c.opts.RegistryMaxSize == 0:
			relation = "max=0"
		case j.c.opts.RegistryMaxSize > j.c.ref.RegistrySize && j.c.ref.RegistrySize > 0:
			relation = "max>size"
		case j.c.opts.RegistryMaxSize == j.c.ref.RegistrySize:
			relation = "max=size"
		}
		key := fmt.Sprintf("p5/err-then-deeper/%s/%s/%s/err@%d-then@%d/%s/%s", relation, j.how, j.catch, j.errAt, j.then, j.follow, j.c.name)
		r.Eval(key, strings.Contains(got, "first,false"), func() interface{} {
			return map[string]interface{}{"case": "error then deeper use", "configuration": j.c.name, "raise": j.how, "catch": j.catch, "error_at_tenths": j.errAt, "then_tenths": j.then, "follow": j.follow, "trace": got}
		})
		sig := fmt.Sprintf("p5/err-then-deeper/%s/%s/%s/%s", relation, j.how, j.catch, j.follow)
		if strings.Contains(ref, "overflow") || strings.Contains(ref, "too many") {
			return // the reference itself met a limit: outside "a program that stays within the limits"
		}
		if got != ref {
			r.Violation(sig, fmt.Sprintf("configuration %s: error (%s) caught by %s with about %d/10 of the registry in use, then %s at about %d/10:\n  trace          %s\n  fixed registry %s", j.c.name, j.how, j.catch, j.errAt, j.follow, j.then, got, ref),
				map[string]interface{}{"configuration": j.c.name, "raise": j.how, "catch": j.catch, "error_at_tenths": j.errAt, "then_tenths": j.then, "follow": j.follow})
		}
	})
}
