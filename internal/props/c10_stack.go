package props

// C10 part 1 — the value stack of an activation is a private list.
//
// Operation alphabet (per state with height top): Push(v), Pop(1), Pop(2), SetTop(i), Insert(v,i),
// Remove(i), Replace(i,v) for every i in [-top-2, top+2]; Get(i) for every such i and GetTop() are
// evaluated after every operation (twice after the last one: reads must not change anything).
// Every value pushed/inserted/stored is unique (named after its position in the history), so a
// misplaced element is always visible. Reference model: a Go slice.
//
// A live LState cannot be cloned: a successor state is produced by replaying the whole history in a
// fresh activation. Two explorations are run per configuration (activation depth x number of entry
// arguments x registry mode):
//   A. every history up to depth dA, no merging;
//   B. breadth-first up to depth dB with merging of states that have the same height, the same nil
//      pattern, the same distance to the registry capacity and the same kind of stale content in the
//      four slots above the top (the implementation never looks at the values themselves).

import (
	"fmt"
	"sort"
	"strings"
	"sync"
	"sync/atomic"
	"time"

	lua "github.com/yuin/gopher-lua"

	"verif/internal/harness"
)

const (
	c10Push = iota
	c10Pop
	c10SetTop
	c10Insert
	c10Remove
	c10Replace
)

var c10PopClass = [4]string{"n0", "n1", "n2", "n3"}
var c10PopClassU = [4]string{"n0-underflow", "n1-underflow", "n2-underflow", "n3-underflow"}
var c10OpNames = []string{"Push", "Pop", "SetTop", "Insert", "Remove", "Replace"}

type c10Op struct {
	K int `json:"k"` // c10Push ...
	I int `json:"i"` // index (count for Pop)
}

func (o c10Op) text(pos int) string {
	v := c10Show(c10Vals[pos%len(c10Vals)])
	switch o.K {
	case c10Push:
		return "Push(" + v + ")"
	case c10Pop:
		return fmt.Sprintf("Pop(%d)", o.I)
	case c10SetTop:
		return fmt.Sprintf("SetTop(%d)", o.I)
	case c10Insert:
		return fmt.Sprintf("Insert(%s,%d)", v, o.I)
	case c10Remove:
		return fmt.Sprintf("Remove(%d)", o.I)
	case c10Replace:
		return fmt.Sprintf("Replace(%d,%s)", o.I, v)
	}
	return "?"
}

type c10StackCase struct {
	Cfg  c10Cfg  `json:"cfg"`
	Hist []c10Op `json:"history"`
	Ret  int     `json:"ret"` // number of values the host function returns; -1 = all
}

func (c *c10StackCase) histText() string {
	s := make([]string, len(c.Hist))
	for i, o := range c.Hist {
		s[i] = o.text(i)
	}
	return strings.Join(s, " ; ")
}

func (c *c10StackCase) String() string {
	return fmt.Sprintf("[%s] %s ; return %d", c.Cfg, c.histText(), c.Ret)
}

// kinds of outcome the model commits to
const (
	c10Exact    = iota // model gives the exact list
	c10Loose           // Insert at index <= 0: list-ness only, the model adopts the observed position
	c10Unjudged        // outside the statement: executed last, only "callers undisturbed" is checked
)

// c10IdxClass classifies an index relative to a list of height top (for signatures).
func c10IdxClass(i, top int) string {
	switch {
	case i == 0:
		return "zero"
	case i >= 1 && i <= top:
		return "pos-valid"
	case i == top+1:
		return "pos-top+1"
	case i > top+1:
		return "pos-beyond"
	case -i <= top:
		return "neg-valid"
	case -i == top+1:
		return "neg-top+1"
	}
	return "neg-beyond"
}

// c10ModelApply is the reference model. list is not modified; the result is built in dst (a scratch
// buffer that does not alias list).
func c10ModelApply(dst, list []lua.LValue, op c10Op, v lua.LValue) ([]lua.LValue, int) {
	top := len(list)
	cp := func(extra int) []lua.LValue {
		return append(dst[:0], list...)
	}
	abs := func(i int) int { // 1-based position of a valid index, 0 otherwise
		if i >= 1 && i <= top {
			return i
		}
		if i < 0 && -i <= top {
			return top + 1 + i
		}
		return 0
	}
	switch op.K {
	case c10Push:
		return append(cp(1), v), c10Exact
	case c10Pop:
		if op.I > top {
			return nil, c10Unjudged
		}
		return cp(0)[:top-op.I], c10Exact
	case c10SetTop:
		switch {
		case op.I >= 0:
			out := cp(op.I)
			for len(out) < op.I {
				out = append(out, lua.LNil)
			}
			return out[:op.I], c10Exact
		case op.I >= -top-1:
			return cp(0)[:top+1+op.I], c10Exact
		}
		return nil, c10Unjudged
	case c10Insert:
		switch {
		case op.I >= 1 && op.I <= top+1:
			out := cp(1)
			out = append(out, nil)
			copy(out[op.I:], out[op.I-1:])
			out[op.I-1] = v
			return out, c10Exact
		case op.I <= 0:
			return nil, c10Loose
		}
		return nil, c10Unjudged
	case c10Remove:
		p := abs(op.I)
		if p == 0 {
			return cp(0), c10Exact
		}
		out := cp(0)
		return append(out[:p-1], out[p:]...), c10Exact
	case c10Replace:
		p := abs(op.I)
		out := cp(0)
		if p != 0 {
			out[p-1] = v
		}
		return out, c10Exact
	}
	panic("c10: unknown op")
}

func c10Do(L *lua.LState, op c10Op, v lua.LValue) {
	switch op.K {
	case c10Push:
		L.Push(v)
	case c10Pop:
		L.Pop(op.I)
	case c10SetTop:
		L.SetTop(op.I)
	case c10Insert:
		L.Insert(v, op.I)
	case c10Remove:
		L.Remove(op.I)
	case c10Replace:
		L.Replace(op.I, v)
	}
}

// c10Indices lists the indices tried in a state of height top. For the very tall lists of the
// top-level/grow configuration (127 fillers) only the windows around both ends are used.
func c10Indices(top int) []int {
	if top <= 12 {
		out := make([]int, 0, 2*top+5)
		for i := -top - 2; i <= top+2; i++ {
			out = append(out, i)
		}
		return out
	}
	set := map[int]bool{}
	for _, i := range []int{0, 1, 2, 3, -1, -2, -3} {
		set[i] = true
	}
	for d := -3; d <= 2; d++ {
		set[top+d] = true
		set[-top-d] = true
	}
	out := make([]int, 0, len(set))
	for i := range set {
		out = append(out, i)
	}
	sort.Ints(out)
	return out
}

func c10Menu(top int) []c10Op {
	idx := c10Indices(top)
	out := make([]c10Op, 0, 3+4*len(idx))
	out = append(out, c10Op{c10Push, 0}, c10Op{c10Pop, 1}, c10Op{c10Pop, 2})
	for _, k := range []int{c10SetTop, c10Insert, c10Remove, c10Replace} {
		for _, i := range idx {
			out = append(out, c10Op{k, i})
		}
	}
	return out
}

// heightAfter gives the model height after op (-1 when the operation ends the history).
func c10HeightAfter(top int, op c10Op) int {
	switch op.K {
	case c10Push:
		return top + 1
	case c10Pop:
		if op.I > top {
			return -1
		}
		return top - op.I
	case c10SetTop:
		switch {
		case op.I >= 0:
			return op.I
		case op.I >= -top-1:
			return top + 1 + op.I
		}
		return -1
	case c10Insert:
		if op.I > top+1 {
			return -1
		}
		return top + 1
	case c10Remove:
		if (op.I >= 1 && op.I <= top) || (op.I < 0 && -op.I <= top) {
			return top - 1
		}
		return top
	}
	return top
}

type c10StackOutcome struct {
	viol     []c10V
	key      string // abstract state after the history ("" when the history ended early)
	top      int
	terminal bool // the last operation is outside the judged domain (or a violation stopped the run)
	opsRun   int
	gapGoNil bool // Insert above top+1 exposed a Go nil (observation, not judged)
	grew     bool // the registry was reallocated while the history ran
}

// c10RunStackCase executes one history in a fresh activation and checks every step.
func c10RunStackCase(w *c10Worker, sc *c10StackCase) (out c10StackOutcome) {
	cfg := sc.Cfg
	if c10ProfOn {
		cl := 0
		if cfg.Grow {
			cl = 2
		}
		if cfg.Depth == 0 {
			cl++
		}
		defer c10ProfAdd(cl, time.Now())
	}
	e := w.env(cfg.Grow, false, cfg.Depth == 0)
	defer w.release(e)
	fail := func(sig, what string) {
		out.viol = append(out.viol, c10V{sig, what})
	}
	var model []lua.LValue
	retCount := 0
	judgedReturn := false
	var rethrow interface{}
	body := func(L *lua.LState) int {
		base := 0
		if fr, ok := lua.VerifCurrentFrame(L); ok {
			base = fr.LocalBase
			if cfg.Depth == 0 {
				fail("stack/entry/frame/"+cfg.class(), "a call frame is current at top level")
				out.terminal = true
				return 0
			}
		} else if cfg.Depth != 0 {
			fail("stack/entry/noframe/"+cfg.class(), "no current frame inside a host function")
			out.terminal = true
			return 0
		}
		e.regBuf = lua.VerifRegistersInto(L, 0, base, e.regBuf)
		before := e.regBuf
		capAtEntry := lua.VerifRegCap(L)
		defer func() { out.grew = lua.VerifRegCap(L) != capAtEntry }()
		callersSame := func() (bool, string) {
			i := lua.VerifRegistersDiffer(L, 0, base, before)
			if i < 0 {
				return true, ""
			}
			now := lua.VerifRegisters(L, i, i+1)
			if len(now) == 0 {
				return false, fmt.Sprintf("register %d (activation base %d) belonging to a caller is gone", i, base)
			}
			return false, fmt.Sprintf("register %d (activation base %d) belonging to a caller changed from %s to %s", i, base, c10Show(before[i]), c10Show(now[0]))
		}
		model = append(e.modelA[:0], e.initial...)
		defer func() { e.modelA = model }()
		sweep := func(opn, icl string, pos int, second bool) bool {
			top := len(model)
			phaseText := func() string {
				switch {
				case pos < 0:
					return "on entry"
				case second:
					return "second read sweep after " + sc.Hist[pos].text(pos)
				}
				return "after " + sc.Hist[pos].text(pos)
			}
			if g := L.GetTop(); g != top {
				fail(fmt.Sprintf("stack/%s/%s/gettop/%s", opn, icl, cfg.class()), fmt.Sprintf("%s: GetTop() = %d, the list has %d elements %s", phaseText(), g, top, c10ShowList(model)))
				return false
			}
			for i := -top - 2; i <= top+2; i++ {
				var want lua.LValue = lua.LNil
				if i >= 1 && i <= top {
					want = model[i-1]
				} else if i < 0 && -i <= top {
					want = model[top+i]
				}
				if got := L.Get(i); got != want {
					fail(fmt.Sprintf("stack/%s/%s/get-%s/%s", opn, icl, c10IdxClass(i, top), cfg.class()), fmt.Sprintf("%s: Get(%d) = %s, the list %s gives %s", phaseText(), i, c10Show(got), c10ShowList(model), c10Show(want)))
					return false
				}
			}
			if second {
				// far outside the list
				for _, i := range [2]int{top + 40, -top - 40} {
					if got := L.Get(i); got != lua.LNil {
						fail(fmt.Sprintf("stack/%s/%s/get-far/%s", opn, icl, cfg.class()), fmt.Sprintf("%s: Get(%d) = %s, the list %s gives nil", phaseText(), i, c10Show(got), c10ShowList(model)))
						return false
					}
				}
			}
			return true
		}
		if !sweep("entry", "-", -1, false) {
			out.terminal = true
			return 0
		}
		for pos, op := range sc.Hist {
			v := c10Vals[pos%len(c10Vals)]
			top := len(model)
			opn, icl := c10OpNames[op.K], "-"
			if op.K != c10Push && op.K != c10Pop {
				icl = c10IdxClass(op.I, top)
			} else if op.K == c10Pop {
				icl = c10PopClass[op.I&3]
				if op.I > top {
					icl = c10PopClassU[op.I&3]
				}
			}
			next, kind := c10ModelApply(e.modelB, model, op, v)
			pv := c10Protect(func() { c10Do(L, op, v) })
			out.opsRun++
			if pv != nil {
				if _, isApi := pv.(*lua.ApiError); !isApi {
					fail(fmt.Sprintf("stack/%s/%s/go-panic/%s", opn, icl, cfg.class()), fmt.Sprintf("%s on %s panicked: %v", op.text(pos), c10ShowList(model), pv))
					out.terminal = true
					rethrow = pv
					return 0
				}
				if kind != c10Unjudged {
					fail(fmt.Sprintf("stack/%s/%s/raised/%s", opn, icl, cfg.class()), fmt.Sprintf("%s on %s raised: %v", op.text(pos), c10ShowList(model), pv))
					out.terminal = true
					rethrow = pv
					return 0
				}
			}
			if ok, why := callersSame(); !ok {
				fail(fmt.Sprintf("stack/%s/%s/callers-disturbed/%s", opn, icl, cfg.class()), fmt.Sprintf("%s on %s: %s", op.text(pos), c10ShowList(model), why))
				out.terminal = true
				rethrow = pv
				return 0
			}
			switch kind {
			case c10Unjudged:
				// outside the statement; old elements must still be where they were when the
				// operation only adds above the list (Insert above top+1)
				out.terminal = true
				if op.K == c10Insert && pv == nil {
					for i := 1; i <= top; i++ {
						if got := L.Get(i); got != model[i-1] {
							fail(fmt.Sprintf("stack/%s/%s/old-elements/%s", opn, icl, cfg.class()), fmt.Sprintf("%s on %s: element %d is now %s", op.text(pos), c10ShowList(model), i, c10Show(got)))
							break
						}
					}
					// where the inserted value lands is not judged, but whatever the operation leaves in the
					// list is a Lua value: a Go nil handed out by Get crashes the first host function that
					// passes it on (repaired once as C10-F1; every slot up to the new top is read)
					for i := top + 1; i <= L.GetTop(); i++ {
						if L.Get(i) == nil {
							out.gapGoNil = true
							fail(fmt.Sprintf("stack/%s/%s/go-nil-in-the-list/%s", opn, icl, cfg.class()), fmt.Sprintf("%s on %s: Get(%d) is a Go nil, not LNil", op.text(pos), c10ShowList(model), i))
							break
						}
					}
				}
				if pos != len(sc.Hist)-1 {
					harness.Fatal("c10: unjudged operation inside a history: %s", sc.String())
				}
				rethrow = pv
				return 0
			case c10Loose:
				// list-ness: height + 1, v occurs exactly once, the rest is the old list in order
				g := L.GetTop()
				if g != top+1 {
					fail(fmt.Sprintf("stack/%s/%s/gettop/%s", opn, icl, cfg.class()), fmt.Sprintf("%s on %s: GetTop() = %d, expected %d", op.text(pos), c10ShowList(model), g, top+1))
					out.terminal = true
					return 0
				}
				obs := make([]lua.LValue, g)
				at := -1
				for i := 1; i <= g; i++ {
					obs[i-1] = L.Get(i)
					if obs[i-1] == v {
						if at >= 0 {
							at = -2
							break
						}
						at = i - 1
					}
				}
				okList := at >= 0
				if okList {
					rest := append(append([]lua.LValue{}, obs[:at]...), obs[at+1:]...)
					okList = c10SameList(rest, model)
				}
				if !okList {
					fail(fmt.Sprintf("stack/%s/%s/listness/%s", opn, icl, cfg.class()), fmt.Sprintf("%s on %s gave %s: not the old list with the value inserted once", op.text(pos), c10ShowList(model), c10ShowList(obs)))
					out.terminal = true
					return 0
				}
				model = obs
			default:
				e.modelB = model // the old list becomes the scratch buffer
				model = next
			}
			if !sweep(opn, icl, pos, false) {
				out.terminal = true
				return 0
			}
			if pos == len(sc.Hist)-1 {
				// reads change nothing
				if !sweep(opn, icl, pos, true) {
					out.terminal = true
					return 0
				}
				if ok, why := callersSame(); !ok {
					fail(fmt.Sprintf("stack/read/-/callers-disturbed/%s", cfg.class()), "after the read sweep: "+why)
					out.terminal = true
					return 0
				}
			}
		}
		// abstract state
		top := len(model)
		out.top = top
		var kb strings.Builder
		fmt.Fprintf(&kb, "h%d|", top)
		for _, x := range model {
			if x == lua.LNil {
				kb.WriteByte('n')
			} else {
				kb.WriteByte('v')
			}
		}
		kb.WriteByte('|')
		for _, x := range lua.VerifRegisters(L, base+top, base+top+4) {
			switch x {
			case nil:
				kb.WriteByte('g')
			case lua.LNil:
				kb.WriteByte('n')
			default:
				kb.WriteByte('v')
			}
		}
		if cfg.Grow {
			fmt.Fprintf(&kb, "|slack%d", lua.VerifRegCap(L)-(base+top))
		}
		out.key = kb.String()
		retCount = sc.Ret
		if retCount < 0 || retCount > top {
			retCount = top
		}
		judgedReturn = true
		return retCount
	}
	wrapped := func(L *lua.LState) int {
		n := body(L)
		if rethrow != nil && cfg.Depth > 0 {
			panic(rethrow) // let the error raised by the operation unwind the chain as it would have
		}
		return n
	}
	res := e.runAt(cfg, e.fillers(cfg), wrapped)
	for _, b := range res.bad {
		fail("stack/chain/"+c10BadSig(b)+"/"+cfg.class(), b+" [history: "+sc.histText()+"]")
	}
	if cfg.Depth == 0 {
		if res.panicVal != nil {
			fail("stack/harness-panic/"+cfg.class(), fmt.Sprintf("unexpected panic: %v", res.panicVal))
		}
		return out
	}
	if rethrow != nil {
		if res.err == nil {
			fail("stack/raise-lost/"+cfg.class(), "an error raised inside the host function did not reach the enclosing protected call")
		}
		return out
	}
	if res.err != nil {
		fail("stack/chain/error/"+cfg.class(), fmt.Sprintf("the activation chain failed: %v [history: %s]", res.err, sc.histText()))
		out.terminal = true
		return out
	}
	if judgedReturn && res.hostResOK {
		want := append([]lua.LValue{}, model[len(model)-retCount:]...)
		if f := cfg.Form; f >= c10FormFixed0 && f <= c10FormFixed3 {
			n := f - 1
			for len(want) < n {
				want = append(want, lua.LNil)
			}
			want = want[:n]
		}
		if !c10SameList(res.hostRes, want) {
			fail(fmt.Sprintf("stack/return/%s/%s", c10FormName(cfg.Form), cfg.class()), fmt.Sprintf("host function with stack %s returned %d: caller (%s) received %s, expected %s", c10ShowList(model), retCount, c10FormName(cfg.Form), c10ShowList(res.hostRes), c10ShowList(want)))
		}
	}
	return out
}

// ---- exploration ---------------------------------------------------------------------------------------

func c10RunStackPart(r *harness.Run) c10PartResult {
	dA, dB := 3, 6
	if r.Thorough() {
		dA, dB = 4, 8
	}
	// the top-level/grow configurations (127-element lists, a new state per run) cost ~20x a run of
	// the others and exercise the same code with base 0: their merged exploration stops 2 levels earlier
	dBFor := func(cfg c10Cfg) int {
		if cfg.Depth == 0 && cfg.Grow {
			return dB - 2
		}
		return dB
	}
	var cfgs []c10Cfg
	for _, grow := range []bool{false, true} {
		for d := 0; d <= 3; d++ {
			for n := 0; n <= 3; n++ {
				cfgs = append(cfgs, c10Cfg{Depth: d, NArgs: n, Grow: grow})
			}
		}
	}
	nw := harness.Workers()
	workers := make([]*c10Worker, nw)
	for i := range workers {
		workers[i] = &c10Worker{}
	}
	defer func() {
		for _, w := range workers {
			w.closeAll()
		}
	}()
	report := func(sc *c10StackCase, o *c10StackOutcome) {
		for _, v := range o.viol {
			cp := *sc
			cp.Hist = append([]c10Op{}, sc.Hist...)
			r.Violation(v.Sig, v.What+"\ncase: "+sc.String(), c10Replayable{Part: "stack", Stack: &cp, Text: sc.String()})
		}
	}
	var mu sync.Mutex
	var edgesA, leavesA, opsRun, gapGoNil, grewRuns int64
	var expiredFlag int32

	// ---- A: every history up to depth dA. One shard per (configuration, first operation).
	type shardA struct {
		cfg   c10Cfg
		first c10Op
	}
	var shards []shardA
	for _, cfg := range cfgs {
		top0 := cfg.NArgs
		if cfg.Depth == 0 {
			top0 += c10FillersFor(cfg, 128)
		}
		for _, op := range c10Menu(top0) {
			shards = append(shards, shardA{cfg, op})
		}
	}
	// the tall top-level/grow lists have ~6x the branching: bound their depth by one less
	depthFor := func(cfg c10Cfg) int {
		if cfg.Depth == 0 && cfg.Grow {
			return dA - 1
		}
		return dA
	}
	harness.ParallelShards(len(shards), func(wi, si int) {
		w := workers[wi]
		sh := shards[si]
		var lEdges, lLeaves, lOps, lGap int64
		hist := make([]c10Op, 0, 8)
		top0 := sh.cfg.NArgs
		if sh.cfg.Depth == 0 {
			top0 += c10FillersFor(sh.cfg, 128)
		}
		maxd := depthFor(sh.cfg)
		var rec func(top int)
		runLeaf := func() {
			sc := &c10StackCase{Cfg: sh.cfg, Hist: hist, Ret: -1}
			o := c10RunStackCase(w, sc)
			lLeaves++
			lOps += int64(o.opsRun)
			if o.gapGoNil {
				lGap++
			}
			if o.grew {
				atomic.AddInt64(&grewRuns, 1)
			}
			if len(o.viol) > 0 {
				report(sc, &o)
			}
		}
		rec = func(top int) {
			if r.Expired() {
				atomic.StoreInt32(&expiredFlag, 1)
				return
			}
			if len(hist) == maxd {
				runLeaf()
				return
			}
			for _, op := range c10Menu(top) {
				hist = append(hist, op)
				lEdges++
				if h := c10HeightAfter(top, op); h < 0 {
					runLeaf()
				} else {
					rec(h)
				}
				hist = hist[:len(hist)-1]
			}
		}
		hist = append(hist, sh.first)
		lEdges++
		if h := c10HeightAfter(top0, sh.first); h < 0 || maxd == 1 {
			runLeaf()
		} else {
			rec(h)
		}
		mu.Lock()
		edgesA += lEdges
		leavesA += lLeaves
		opsRun += lOps
		gapGoNil += lGap
		mu.Unlock()
	})
	if atomic.LoadInt32(&expiredFlag) != 0 {
		r.NotExhaustive("deadline reached during the unmerged stack exploration")
	}
	atomic.StoreInt32(&expiredFlag, 0)

	// ---- B: breadth-first with merging over all configurations at once. A level is expanded in
	// parallel; the representative history of a new abstract state is chosen after the level, in a
	// fixed order, so the exploration does not depend on scheduling. For every merged state the
	// return-count matrix (every count x every call form) is run as well.
	var statesB, transB, retRuns int64
	maxDepthB := -1
	type stB struct {
		ci   int
		hist []c10Op
		top  int
		key  string
	}
	lessHist := func(x, y []c10Op) bool {
		for i := 0; i < len(x) && i < len(y); i++ {
			if x[i] != y[i] {
				if x[i].K != y[i].K {
					return x[i].K < y[i].K
				}
				return x[i].I < y[i].I
			}
		}
		return len(x) < len(y)
	}
	seen := make([]map[string]struct{}, len(cfgs))
	var frontier []stB
	for ci, cfg := range cfgs {
		seen[ci] = map[string]struct{}{}
		root := &c10StackCase{Cfg: cfg, Ret: -1}
		o := c10RunStackCase(workers[0], root)
		report(root, &o)
		if o.key == "" {
			continue
		}
		seen[ci][o.key] = struct{}{}
		frontier = append(frontier, stB{ci, nil, o.top, o.key})
	}
	for d := 0; d <= dB && len(frontier) > 0; d++ {
		const chunk = 4
		nchunks := (len(frontier) + chunk - 1) / chunk
		var cands []stB
		harness.ParallelShards(nchunks, func(wi, ch int) {
			w := workers[wi]
			var lCands []stB
			var lTrans, lRet, lOps, lStates int64
			for si := ch * chunk; si < (ch+1)*chunk && si < len(frontier); si++ {
				if r.Expired() {
					atomic.StoreInt32(&expiredFlag, 1)
					break
				}
				s := frontier[si]
				cfg := cfgs[s.ci]
				lStates++
				r.Eval(cfg.String()+"|"+s.key, true, func() interface{} {
					sc := &c10StackCase{Cfg: cfg, Hist: s.hist, Ret: -1}
					return map[string]interface{}{"part": "stack", "config": cfg.String(), "history": sc.histText(), "abstract_state": s.key}
				})
				if cfg.Depth > 0 && s.top <= 6 {
					for form := 0; form < c10NForms; form++ {
						for c := 0; c <= s.top; c++ {
							if form == c10FormMult && c == s.top {
								continue // the exploration itself returns everything in this form
							}
							fc := cfg
							fc.Form = form
							sc := &c10StackCase{Cfg: fc, Hist: s.hist, Ret: c}
							ro := c10RunStackCase(w, sc)
							lRet++
							lOps += int64(ro.opsRun)
							if len(ro.viol) > 0 {
								report(sc, &ro)
							}
						}
					}
				}
				if d >= dBFor(cfg) {
					continue
				}
				for _, op := range c10Menu(s.top) {
					h2 := append(append(make([]c10Op, 0, len(s.hist)+1), s.hist...), op)
					sc := &c10StackCase{Cfg: cfg, Hist: h2, Ret: -1}
					o := c10RunStackCase(w, sc)
					lTrans++
					lOps += int64(o.opsRun)
					if o.grew {
						atomic.AddInt64(&grewRuns, 1)
					}
					if len(o.viol) > 0 {
						report(sc, &o)
					}
					if o.terminal || o.key == "" {
						continue
					}
					if _, ok := seen[s.ci][o.key]; ok { // read-only during the level
						continue
					}
					lCands = append(lCands, stB{s.ci, h2, o.top, o.key})
				}
			}
			mu.Lock()
			cands = append(cands, lCands...)
			statesB += lStates
			transB += lTrans
			retRuns += lRet
			opsRun += lOps
			mu.Unlock()
		})
		if atomic.LoadInt32(&expiredFlag) != 0 {
			r.NotExhaustive(fmt.Sprintf("deadline reached during the merged stack exploration at depth %d (depth %d complete)", d, maxDepthB))
			break
		}
		maxDepthB = d
		sort.Slice(cands, func(i, j int) bool {
			if cands[i].ci != cands[j].ci {
				return cands[i].ci < cands[j].ci
			}
			return lessHist(cands[i].hist, cands[j].hist)
		})
		frontier = frontier[:0]
		for _, c := range cands {
			if _, ok := seen[c.ci][c.key]; ok {
				continue
			}
			seen[c.ci][c.key] = struct{}{}
			frontier = append(frontier, c)
		}
	}
	distinctKeys := map[string]struct{}{}
	for _, m := range seen {
		for k := range m {
			distinctKeys[k] = struct{}{}
		}
	}
	c10ProfDump("stack")
	r.EvalN(leavesA + retRuns)
	r.Count("stack_histories_unmerged", leavesA)
	r.Count("stack_transitions_unmerged", edgesA)
	r.Count("stack_states_merged", statesB)
	r.Count("stack_transitions_merged", transB)
	r.Count("stack_return_matrix_runs", retRuns)
	r.Count("stack_operations_executed", opsRun)
	r.Count("observed_insert_above_top_exposes_go_nil", gapGoNil)
	r.Count("stack_runs_during_which_the_registry_grew", atomic.LoadInt64(&grewRuns))
	return c10PartResult{
		rule: fmt.Sprintf("stack: per configuration (activation depth 0-3 x 0-3 entry arguments x fixed/growing registry = %d) (A) every history of Push/Pop(1|2)/SetTop(i)/Insert(v,i)/Remove(i)/Replace(i,v), i in [-top-2,top+2], up to depth %d executed on the real state in a fresh activation with GetTop and every Get(i) compared with a Go slice after every step and the callers' registers compared with their content at entry; (B) breadth-first to depth %d (top-level activation on the growing registry: 2 less) with merging on (height, nil pattern, stale slots above top, distance to registry capacity), plus for every merged state every return count x 6 call forms; non-trivial = distinct merged abstract states",
			len(cfgs), dA, maxDepthB),
		states:      statesB,
		transitions: edgesA + transB,
		traces:      leavesA + transB + retRuns,
		extra: map[string]interface{}{
			"configurations":               len(cfgs),
			"unmerged_depth":               dA,
			"unmerged_depth_toplevel_grow": dA - 1,
			"merged_depth":                 dB,
			"merged_depth_toplevel_grow":   dB - 2,
			"distinct_abstract_states":     len(distinctKeys),
			"histories_unmerged":           leavesA,
			"transitions_unmerged":         edgesA,
			"states_merged":                statesB,
			"transitions_merged":           transB,
			"return_matrix_runs":           retRuns,
		},
	}
}
