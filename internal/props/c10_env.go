package props

// C10, part "pseudo-indices and environments": inside a host function that has an environment of
// its own (L.SetFEnv), called from Lua at activation depth 0-2, the Go API distinguishes the
// thread's global table (GlobalsIndex, GetGlobal/SetGlobal — what `name = v` in a Lua chunk uses)
// from the function's environment (EnvironIndex, GetFEnv) and from the registry (RegistryIndex);
// each accessor reads/writes exactly its table, __index/__newindex of the global table are
// honoured by GetGlobal/SetGlobal, and Lua code run afterwards sees the same.

import (
	"fmt"

	lua "github.com/yuin/gopher-lua"

	"verif/internal/glrun"
	"verif/internal/harness"
	"verif/internal/luaref"
)

func c10EnvPart(r *harness.Run) {
	for depth := 0; depth <= 2; depth++ {
		for _, gmeta := range []bool{false, true} {
			for _, ownEnv := range []bool{false, true} {
				L := lua.NewState()
				var problems []string
				bad := func(format string, a ...interface{}) { problems = append(problems, fmt.Sprintf(format, a...)) }
				env := L.NewTable()
				env.RawSetString("marker", lua.LString("ENV"))
				var newindexLog []string
				if gmeta {
					mt := L.NewTable()
					mt.RawSetString("__newindex", L.NewFunction(func(L *lua.LState) int {
						newindexLog = append(newindexLog, L.CheckString(2))
						L.RawSet(L.CheckTable(1), L.Get(2), L.Get(3))
						return 0
					}))
					mt.RawSetString("__index", L.NewFunction(func(L *lua.LState) int {
						if L.CheckString(2) == "viaindex" {
							L.Push(lua.LString("from-__index"))
							return 1
						}
						return 0
					}))
					L.SetMetatable(L.Get(lua.GlobalsIndex), mt)
				}
				G := L.Get(lua.GlobalsIndex).(*lua.LTable)
				host := L.NewFunction(func(L *lua.LState) int {
					// 1. identity of the pseudo-index tables
					if L.Get(lua.GlobalsIndex) != G {
						bad("Get(GlobalsIndex) is not the thread's global table")
					}
					wantEnv := lua.LValue(G)
					if ownEnv {
						wantEnv = env
					}
					if L.Get(lua.EnvironIndex) != wantEnv {
						bad("Get(EnvironIndex) is not the running function's environment")
					}
					// 2. SetGlobal/GetGlobal go to the global table
					L.SetGlobal("fromgo", lua.LNumber(41))
					if G.RawGetString("fromgo") != lua.LNumber(41) {
						bad("SetGlobal did not store into the global table (global table holds %v)", G.RawGetString("fromgo"))
					}
					if ownEnv && env.RawGetString("fromgo") != lua.LNil {
						bad("SetGlobal stored into the function's environment")
					}
					if L.GetGlobal("fromgo") != lua.LNumber(41) {
						bad("GetGlobal after SetGlobal returns %v", L.GetGlobal("fromgo"))
					}
					if v := L.GetGlobal("marker"); v != lua.LNil {
						bad("GetGlobal read the function's environment (marker = %v)", v)
					}
					if gmeta && L.GetGlobal("viaindex") != lua.LString("from-__index") {
						bad("GetGlobal ignored __index of the global table")
					}
					// 3. EnvironIndex accessors go to the environment
					L.SetField(L.Get(lua.EnvironIndex), "inenv", lua.LTrue)
					if ownEnv && (env.RawGetString("inenv") != lua.LTrue || G.RawGetString("inenv") != lua.LNil) {
						bad("SetField(Get(EnvironIndex)) did not store into the environment only")
					}
					// 4. registry is neither
					if reg := L.Get(lua.RegistryIndex); reg == G || reg == env {
						bad("Get(RegistryIndex) aliases another table")
					}
					return 0
				})
				if ownEnv {
					L.SetFEnv(host, env)
					if L.GetFEnv(host) != env {
						bad("GetFEnv after SetFEnv")
					}
				}
				L.SetGlobal("host", host)
				src := "host()"
				for d := 0; d < depth; d++ {
					src = "(function(...) local a, b = 1, 2 " + src + " return a + b end)(1, 2, 3)"
				}
				src += " fromlua = 7 return fromgo, rawget(_G, 'fromgo'), fromlua"
				if err := L.DoString(src); err != nil {
					bad("chunk failed: %v", err)
				} else {
					if L.Get(1) != lua.LNumber(41) || L.Get(2) != lua.LNumber(41) || L.Get(3) != lua.LNumber(7) {
						bad("Lua code after the call sees fromgo=%v rawget=%v fromlua=%v", L.Get(1), L.Get(2), L.Get(3))
					}
					// every store of an absent global goes through __newindex, in order: SetGlobal("host") by
					// this driver, SetGlobal("fromgo") in the host function, the store through EnvironIndex
					// only when the environment IS the global table, and `fromlua = 7` in the chunk
					wantLog := "[host fromgo inenv fromlua]"
					if ownEnv {
						wantLog = "[host fromgo fromlua]"
					}
					if gmeta && fmt.Sprint(newindexLog) != wantLog {
						bad("__newindex of the global table saw %v, expected %s", newindexLog, wantLog)
					}
				}
				sig := fmt.Sprintf("env/depth%d/gmeta=%v/ownenv=%v", depth, gmeta, ownEnv)
				r.Eval(sig, true, func() interface{} {
					return map[string]interface{}{"case": "pseudo-indices in a host function", "depth": depth, "global_table_has_metatable": gmeta, "own_environment": ownEnv}
				})
				if len(problems) > 0 {
					r.Violation(fmt.Sprintf("env/gmeta=%v/ownenv=%v", gmeta, ownEnv), fmt.Sprintf("depth %d: %v", depth, problems), map[string]interface{}{"source": src})
				}
				L.Close()
			}
		}
	}
}

// c10APIChain: the complete __index/__newindex chain product of C04's F-chain with every read and
// store made through the Go API by a host function; the reference interpreter's host functions
// are the plain index and newindex events, so the API calls are judged against Lua's semantics
// (not merely against the Lua operators of the same build).
func c10APIChain(r *harness.Run) {
	pr := &progRunner{r: r, prop: "C10", opts: lua.Options{}}
	pr.setupM = func(in *luaref.Interp) {
		get := func(in *luaref.Interp, a []luaref.Value) []luaref.Value {
			return []luaref.Value{in.Index(apiArg(a, 0), apiArg(a, 1))}
		}
		set := func(in *luaref.Interp, a []luaref.Value) []luaref.Value {
			in.SetIndex(apiArg(a, 0), apiArg(a, 1), apiArg(a, 2))
			return nil
		}
		in.Register("apigetfield", get)
		in.Register("apigettable", get)
		in.Register("apisetfield", set)
		in.Register("apisettable", set)
	}
	pr.extraI = func(m *glrun.Impl) {
		L := m.L
		L.SetGlobal("apigetfield", L.NewFunction(func(L *lua.LState) int {
			top := L.GetTop()
			v := L.GetField(L.Get(1), L.CheckString(2))
			if L.GetTop() != top {
				L.RaiseError("GetField changed the stack height")
			}
			L.Push(v)
			return 1
		}))
		L.SetGlobal("apigettable", L.NewFunction(func(L *lua.LState) int {
			top := L.GetTop()
			v := L.GetTable(L.Get(1), L.Get(2))
			if L.GetTop() != top {
				L.RaiseError("GetTable changed the stack height")
			}
			L.Push(v)
			return 1
		}))
		L.SetGlobal("apisetfield", L.NewFunction(func(L *lua.LState) int {
			top := L.GetTop()
			L.SetField(L.Get(1), L.CheckString(2), L.Get(3))
			if L.GetTop() != top {
				L.RaiseError("SetField changed the stack height")
			}
			return 0
		}))
		L.SetGlobal("apisettable", L.NewFunction(func(L *lua.LState) int {
			top := L.GetTop()
			L.SetTable(L.Get(1), L.Get(2), L.Get(3))
			if L.GetTop() != top {
				L.RaiseError("SetTable changed the stack height")
			}
			return 0
		}))
	}
	pr.runGens(map[string]Gen{"F-apichain": genMetaChainVia(r.Thorough(), true)}, []string{"F-apichain"})
}

func apiArg(a []luaref.Value, i int) luaref.Value {
	if i < len(a) {
		return a[i]
	}
	return nil
}

// c10NextUnderRemoval: LState.Next / LTable.Next / LTable.ForEach-free traversals through the Go API
// while the list part shrinks behind the cursor: tables with n list items and three hash keys; when
// the traversal stands on list key s, the last r items are removed with LTable.Remove (what
// table.remove does). The traversal must not fail, must visit every surviving key exactly once
// and a removed key at most once (never after its removal).
func c10NextUnderRemoval(r *harness.Run) {
	n := 0
	for size := 1; size <= 6; size++ {
		for at := 1; at <= size; at++ {
			for rem := 1; rem <= 3 && rem <= size; rem++ {
				for _, api := range []string{"L.Next", "tb.Next"} {
					n++
					L := lua.NewState()
					tb := L.NewTable()
					for i := 1; i <= size; i++ {
						tb.Append(lua.LNumber(i * 10))
					}
					tb.RawSetString("x", lua.LString("vx"))
					tb.RawSetString("y", lua.LString("vy"))
					tb.RawSet(lua.LTrue, lua.LString("vt"))
					visits := map[string]int{}
					removedAt := map[string]bool{}
					problem := ""
					func() {
						defer func() {
							if rec := recover(); rec != nil {
								problem = fmt.Sprintf("the traversal failed: %v", rec)
							}
						}()
						var k lua.LValue = lua.LNil
						for steps := 0; steps < 50; steps++ {
							var v lua.LValue
							if api == "L.Next" {
								k, v = L.Next(tb, k)
							} else {
								k, v = tb.Next(k)
							}
							if k == lua.LNil {
								return
							}
							name := k.String()
							visits[name]++
							if removedAt[name] {
								problem = "key " + name + " was visited after it had been removed"
								return
							}
							_ = v
							if k == lua.LNumber(at) {
								for j := 0; j < rem; j++ {
									removedAt[fmt.Sprint(tb.Len())] = true
									tb.Remove(-1)
								}
							}
						}
						problem = "the traversal does not end"
					}()
					if problem == "" {
						for i := 1; i <= size; i++ {
							name := fmt.Sprint(i)
							switch {
							case !removedAt[name] && visits[name] != 1:
								problem = fmt.Sprintf("surviving key %s visited %d times", name, visits[name])
							case removedAt[name] && visits[name] > 1:
								problem = fmt.Sprintf("removed key %s visited %d times", name, visits[name])
							}
						}
						for _, name := range []string{"x", "y", "true"} {
							if visits[name] != 1 {
								problem = fmt.Sprintf("hash key %s visited %d times", name, visits[name])
							}
						}
					}
					L.Close()
					sig := fmt.Sprintf("next-under-removal/%s/remove=%d", api, rem)
					r.Eval(fmt.Sprintf("%s/size=%d/at=%d", sig, size, at), true, func() interface{} {
						return map[string]interface{}{"case": "traversal while the list shrinks", "api": api, "list_items": size, "standing_on": at, "removed": rem}
					})
					if problem != "" {
						r.Violation(sig, fmt.Sprintf("%s over a table with %d list items and 3 hash keys, removing the last %d items while standing on key %d: %s", api, size, rem, at, problem), map[string]interface{}{"api": api, "size": size, "at": at, "removed": rem})
					}
				}
			}
		}
	}
	r.Count("next_under_removal_cases", int64(n))
}
