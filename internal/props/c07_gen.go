package props

// Program families of C07. Every case is identified by a c07ID; c07Make rebuilds the source text
// and, where the result is cheap to predict from the Lua 5.1 manual, the expected result.

import (
	"fmt"
	"math"
	"os"
	"path/filepath"
	"sort"
	"strings"

	lua "github.com/yuin/gopher-lua"
)

// ---- expectation helpers -------------------------------------------------------------------------

func c07Show(v lua.LValue) string {
	if v == nil {
		return "<go-nil>"
	}
	switch x := v.(type) {
	case lua.LString:
		s := string(x)
		if len(s) > 40 {
			s = fmt.Sprintf("%s…(%d bytes)", s[:20], len(s))
		}
		return fmt.Sprintf("%q", s)
	}
	return v.String()
}

func c07ExpectVals(want ...lua.LValue) func(*lua.LState, []lua.LValue) string {
	return func(L *lua.LState, rets []lua.LValue) string {
		if len(rets) != len(want) {
			var g []string
			for _, r := range rets {
				g = append(g, c07Show(r))
			}
			return fmt.Sprintf("%d values returned (%s), %d expected", len(rets), strings.Join(g, ", "), len(want))
		}
		for i := range want {
			if rets[i] == nil || rets[i].Type() != want[i].Type() || rets[i] != want[i] {
				return fmt.Sprintf("return value %d is %s, expected %s", i+1, c07Show(rets[i]), c07Show(want[i]))
			}
		}
		return ""
	}
}

func c07ExpectNum(f float64) func(*lua.LState, []lua.LValue) string {
	return c07ExpectVals(lua.LNumber(f))
}

// c07ExpectTable compares the returned table with an exact content and a length.
func c07ExpectTable(want map[string]lua.LValue, length int) func(*lua.LState, []lua.LValue) string {
	return func(L *lua.LState, rets []lua.LValue) string {
		if len(rets) != 1 {
			return fmt.Sprintf("%d values returned, 1 table expected", len(rets))
		}
		tb, ok := rets[0].(*lua.LTable)
		if !ok {
			return "returned value is " + c07Show(rets[0]) + ", a table was expected"
		}
		got := map[string]lua.LValue{}
		bad := ""
		tb.ForEach(func(k, v lua.LValue) {
			ks := c07KeyName(k)
			if _, dup := got[ks]; dup && bad == "" {
				bad = "key " + ks + " traversed twice"
			}
			got[ks] = v
		})
		if bad != "" {
			return bad
		}
		var diffs []string
		for k, wv := range want {
			gv, ok := got[k]
			if !ok {
				diffs = append(diffs, fmt.Sprintf("t[%s] is missing (expected %s)", k, c07Show(wv)))
			} else if gv == nil || gv.Type() != wv.Type() || gv != wv {
				diffs = append(diffs, fmt.Sprintf("t[%s] = %s (expected %s)", k, c07Show(gv), c07Show(wv)))
			}
		}
		for k, gv := range got {
			if _, ok := want[k]; !ok {
				diffs = append(diffs, fmt.Sprintf("unexpected t[%s] = %s", k, c07Show(gv)))
			}
		}
		if length >= 0 {
			if n := L.ObjLen(tb); n != length {
				diffs = append(diffs, fmt.Sprintf("#t = %d (expected %d)", n, length))
			}
		}
		if len(diffs) == 0 {
			return ""
		}
		sort.Strings(diffs)
		n := len(diffs)
		if n > 4 {
			diffs = diffs[:4]
		}
		return fmt.Sprintf("%d differences: %s", n, strings.Join(diffs, "; "))
	}
}

func c07KeyName(k lua.LValue) string {
	switch x := k.(type) {
	case lua.LNumber:
		f := float64(x)
		if f == math.Trunc(f) && math.Abs(f) < 1e15 {
			return fmt.Sprintf("%d", int64(f))
		}
		return fmt.Sprintf("%v", f)
	case lua.LString:
		return "s:" + string(x)
	}
	if k == nil {
		return "<go-nil>"
	}
	return k.Type().String() + ":" + k.String()
}

func c07Names(prefix string, from, to int) []string {
	var out []string
	for i := from; i <= to; i++ {
		out = append(out, fmt.Sprintf("%s%d", prefix, i))
	}
	return out
}

func c07Nums(from, to int) []string { return c07Names("", from, to) }

func c07Sum(names []string) string {
	if len(names) == 0 {
		return "0"
	}
	return "0+" + strings.Join(names, "+")
}

// ---- enumeration ------------------------------------------------------------------------------------

var c07UpvalueKs = []int{1, 59, 60, 61, 199, 200, 254, 255, 256, 257, 300}

func c07ConstKs() []int {
	var ks []int
	for k := 250; k <= 260; k++ {
		ks = append(ks, k)
	}
	for k := 510; k <= 514; k++ {
		ks = append(ks, k)
	}
	return ks
}

// runs of k consecutive register moves (the bulk-move group has a 9-bit length field)
func c07MoveKs() []int {
	ks := []int{1, 2, 3, 4, 5, 6, 7, 8}
	for k := 508; k <= 518; k++ {
		ks = append(ks, k)
	}
	for k := 1020; k <= 1030; k++ {
		ks = append(ks, k)
	}
	return ks
}

func c07CtorKs(thorough bool) []int {
	ks := []int{0, 1, 2, 3, 49, 50, 51, 99, 100, 101, 25549, 25550, 25551, 25552}
	if thorough {
		ks = append(ks, 149, 150, 151, 25449, 25450, 25451, 25599, 25600, 25601, 51099, 51100, 51101)
	}
	return ks
}

const (
	c07LocalVariants   = 5
	c07ParamVariants   = 3
	c07UpvalueVariants = 3
	c07ConstVariants   = 6
	c07CtorKeyed       = 4
	c07CtorTails       = 6
)

func c07EnumerateSmall(thorough bool) []c07ID {
	var ids []c07ID
	for _, f := range c07ScriptFiles() {
		ids = append(ids, c07ID{Family: "file", Name: f})
	}
	for v := 0; v < c07LocalVariants; v++ {
		for k := 0; k <= 205; k++ {
			ids = append(ids, c07ID{Family: "locals", P: []int{v, k}})
		}
		for k := 250; k <= 260; k++ { // around the 8-bit operand width
			ids = append(ids, c07ID{Family: "locals", P: []int{v, k}})
		}
	}
	for _, k := range c07MoveKs() {
		for v := 0; v < 2; v++ {
			ids = append(ids, c07ID{Family: "moves", P: []int{v, k}})
		}
	}
	for v := 0; v < c07ParamVariants; v++ {
		for k := 0; k <= 205; k++ {
			ids = append(ids, c07ID{Family: "params", P: []int{v, k}})
		}
		for _, k := range []int{254, 255, 256, 257} {
			ids = append(ids, c07ID{Family: "params", P: []int{v, k}})
		}
	}
	for v := 0; v < c07UpvalueVariants; v++ {
		for _, k := range c07UpvalueKs {
			ids = append(ids, c07ID{Family: "upvalues", P: []int{v, k}})
		}
	}
	for v := 0; v < c07ConstVariants; v++ {
		for _, k := range c07ConstKs() {
			ids = append(ids, c07ID{Family: "consts", P: []int{v, k}})
		}
	}
	for _, k := range c07CtorKs(thorough) {
		for keyed := 0; keyed < c07CtorKeyed; keyed++ {
			for tail := 0; tail < c07CtorTails; tail++ {
				ids = append(ids, c07ID{Family: "ctor", P: []int{k, keyed, tail}})
			}
		}
	}
	// locals that are declared without a value and only ever read still need their registers
	for k := 1; k <= 8; k++ {
		for use := 0; use < 4; use++ {
			for env := 0; env < 3; env++ {
				ids = append(ids, c07ID{Family: "uninit", P: []int{k, use, env}})
			}
		}
	}
	// the implicit `arg` table of vararg functions occupies a register right behind the parameters
	for k := 0; k <= 6; k++ {
		for use := 0; use < c07CompatArgUses; use++ {
			ids = append(ids, c07ID{Family: "compatarg", P: []int{k, use}})
		}
	}
	// a constructor as an operand: the words it ends with (extended SETLIST batch word) sit
	// directly in front of the consuming instruction, where the operand propagation looks
	for _, k := range []int{3, 51, 25549, 25550, 25551, 25599, 25600, 25601, 51150, 51151} {
		for use := 0; use < c07CtorUses; use++ {
			for env := 0; env < 3; env++ {
				ids = append(ids, c07ID{Family: "ctoruse", P: []int{k, use, env}})
			}
		}
	}
	maxDepth := 60
	if thorough {
		maxDepth = 100
	}
	for kind := range c07NestKinds {
		for d := 1; d <= maxDepth; d++ {
			ids = append(ids, c07ID{Family: "nest", P: []int{kind, d}})
		}
	}
	return ids
}

func c07EnumerateBig(thorough bool) []c07ID {
	lo, hi := 131064, 131071
	if thorough {
		lo, hi = 131056, 131080
	}
	var ids []c07ID
	for n := lo; n <= hi; n++ {
		for kind := range c07JumpKinds {
			ids = append(ids, c07ID{Family: "longjump", P: []int{kind, n}})
		}
	}
	// operand fields other than the jump distance that a large enough function overflows: the id of
	// a label (carried in sBx until the jump is patched), the value count of CALL/VARARG (9 bits),
	// the prototype number of CLOSURE (18 bits). Each case either compiles to code that runs as
	// predicted or is refused by the compiler; a field that wraps around shows as a wrong result,
	// a fault or a verifier report.
	labels := []int{43689, 43690, 43691, 87400}
	targets := []int{200, 250, 254, 255, 256, 400, 509, 510, 511, 512, 600}
	if thorough {
		labels = []int{43000, 43688, 43689, 43690, 43691, 43692, 44000, 87381, 87400, 131072}
		ids = append(ids, c07ID{Family: "limits", P: []int{3, 262143}}, c07ID{Family: "limits", P: []int{3, 262145}})
	}
	for _, n := range labels {
		ids = append(ids, c07ID{Family: "limits", P: []int{0, n}})
	}
	for _, n := range targets {
		ids = append(ids, c07ID{Family: "limits", P: []int{1, n}}, c07ID{Family: "limits", P: []int{2, n}})
	}
	// function expressions with 0, 1 and 2 captured variables in turn, so that a CLOSURE whose
	// prototype number lost bits names a prototype with a different capture list
	for _, n := range []int{3, 255, 256, 257, 258, 511, 512, 513, 514, 515, 600, 1023, 1024, 1025, 1026, 1100} {
		ids = append(ids, c07ID{Family: "limits", P: []int{4, n}})
	}
	return ids
}

var c07LimitKinds = []string{"labels", "global-targets-from-call", "local-names-from-vararg", "closures", "closures-with-upvalues"}

func c07MakeLimit(id c07ID, kind, n int) *c07Case {
	if n < 1 || n > 300000 {
		return nil
	}
	var sb strings.Builder
	var want float64
	switch c07LimitKinds[kind] {
	case "labels":
		sb.WriteString("local x,y=false,0\n")
		for i := 0; i < n; i++ {
			sb.WriteString("if true then end\n")
		}
		sb.WriteString("if x then y=y+1 end\nreturn y\n")
		want = 0
	case "global-targets-from-call":
		sb.WriteString("local function f(...) return ... end\n")
		for i := 1; i <= n; i++ {
			if i > 1 {
				sb.WriteString(",")
			}
			fmt.Fprintf(&sb, "g%d", i)
		}
		sb.WriteString(" = f(1,2,3)\nreturn g1+g2+g3+(g4==nil and 10 or 0)\n")
		want = 16
	case "local-names-from-vararg":
		sb.WriteString("local function f(...)\nlocal ")
		for i := 1; i <= n; i++ {
			if i > 1 {
				sb.WriteString(",")
			}
			fmt.Fprintf(&sb, "l%d", i)
		}
		sb.WriteString(" = ...\nreturn l1+l2+l3+(l4==nil and 10 or 0)\nend\nreturn f(1,2,3)\n")
		want = 16
	case "closures":
		sb.WriteString("local first=function() return 1 end\n")
		for i := 0; i < n-2; i++ {
			sb.WriteString("g=function() end\n")
		}
		sb.WriteString("local last=function() return 20 end\nreturn first()+last()\n")
		want = 21
	case "closures-with-upvalues":
		sb.WriteString("local u1,u2=100000,7000000\nlocal fs={}\n")
		for i := 1; i <= n; i++ {
			switch i % 3 {
			case 0:
				fmt.Fprintf(&sb, "fs[%d]=function() return %d end\n", i, i)
				want += float64(i)
			case 1:
				fmt.Fprintf(&sb, "fs[%d]=function() return %d+u1 end\n", i, i)
				want += float64(i) + 100000
			default:
				fmt.Fprintf(&sb, "fs[%d]=function() u2=u2+1 return %d+u1+u2 end\n", i, i)
			}
		}
		// the callers of the two-capture closures see u2 advance by one per call, in order
		u2 := 7000000.0
		for i := 1; i <= n; i++ {
			if i%3 == 2 {
				u2++
				want += float64(i) + 100000 + u2
			}
		}
		sb.WriteString("local s=0\nfor i=1,#fs do s=s+fs[i]() end\nreturn s\n")
	default:
		return nil
	}
	return &c07Case{ID: id, Src: sb.String(), Exec: true, Budget: 8*int64(n) + 100000, Expect: c07ExpectNum(want), ExSig: "limits/" + c07LimitKinds[kind],
		Note: fmt.Sprintf("%s: %d (an operand field of the instruction format is about to overflow)", c07LimitKinds[kind], n)}
}

// ---- case construction ---------------------------------------------------------------------------

func c07Make(id c07ID) *c07Case {
	p := id.P
	need := func(n int) bool { return len(p) == n }
	switch id.Family {
	case "file":
		b, err := os.ReadFile(filepath.Join(c07RepoDir(), id.Name))
		if err != nil {
			return nil
		}
		return &c07Case{ID: id, Src: string(b), Note: "repository test script"}
	case "locals":
		if need(2) {
			return c07MakeLocals(id, p[0], p[1])
		}
	case "params":
		if need(2) {
			return c07MakeParams(id, p[0], p[1])
		}
	case "upvalues":
		if need(2) {
			return c07MakeUpvalues(id, p[0], p[1])
		}
	case "moves":
		if need(2) {
			return c07MakeMoves(id, p[0], p[1])
		}
	case "consts":
		if need(2) {
			return c07MakeConsts(id, p[0], p[1])
		}
	case "ctor":
		if need(3) {
			return c07MakeCtor(id, p[0], p[1], p[2])
		}
	case "uninit":
		if need(3) {
			return c07MakeUninit(id, p[0], p[1], p[2])
		}
	case "compatarg":
		if need(2) {
			return c07MakeCompatArg(id, p[0], p[1])
		}
	case "ctoruse":
		if need(3) {
			return c07MakeCtorUse(id, p[0], p[1], p[2])
		}
	case "nest":
		if need(2) && p[0] >= 0 && p[0] < len(c07NestKinds) {
			return c07MakeNest(id, p[0], p[1])
		}
	case "longjump":
		if need(2) && p[0] >= 0 && p[0] < len(c07JumpKinds) {
			return c07MakeJump(id, p[0], p[1])
		}
	case "seq":
		if len(p) >= 1 {
			return c07MakeSeq(id, p[0], p[1:])
		}
	case "limits":
		if need(2) && p[0] >= 0 && p[0] < len(c07LimitKinds) {
			return c07MakeLimit(id, p[0], p[1])
		}
	}
	return nil
}

func c07LocalDecls(prefix string, from, to int) string {
	var sb strings.Builder
	for i := from; i <= to; i++ {
		fmt.Fprintf(&sb, "local %s%d=%d ", prefix, i, i)
	}
	return sb.String()
}

func c07MakeLocals(id c07ID, v, k int) *c07Case {
	names := c07Names("a", 1, k)
	sum := c07Sum(names)
	want := float64(k * (k + 1) / 2)
	var src, note string
	switch v {
	case 0:
		note = "k locals declared one by one at chunk level, summed"
		src = c07LocalDecls("a", 1, k) + "return " + sum
	case 1:
		note = "k locals declared by one statement"
		if k == 0 {
			src = "local z return 0"
		} else {
			src = "local " + strings.Join(names, ",") + " = " + strings.Join(c07Nums(1, k), ",") + " return " + sum
		}
	case 2:
		note = "k locals split over a function level and a nested block"
		h := k / 2
		src = "local s " + c07LocalDecls("a", 1, h) + "do " + c07LocalDecls("a", h+1, k) + "s = " + sum + " end return s"
	case 3:
		note = "k locals in a vararg function with two parameters"
		src = "local function f(p, q, ...) " + c07LocalDecls("a", 1, k) + "return p+q+" + sum + " end return f(0, 0, 9, 9)"
	case 4:
		note = "k locals initialised from '...'"
		if k == 0 {
			src = "local function f(...) return 0 end return f()"
		} else {
			src = "local function f(...) local " + strings.Join(names, ",") + " = ... return " + sum + " end return f(" + strings.Join(c07Nums(1, k), ",") + ")"
		}
	default:
		return nil
	}
	return &c07Case{ID: id, Src: src, Exec: true, Expect: c07ExpectNum(want), ExSig: fmt.Sprintf("locals/v%d", v), Note: fmt.Sprintf("%s (k=%d)", note, k)}
}

func c07MakeParams(id c07ID, v, k int) *c07Case {
	names := c07Names("p", 1, k)
	sum := c07Sum(names)
	args := strings.Join(c07Nums(1, k), ",")
	want := float64(k * (k + 1) / 2)
	var src, note string
	switch v {
	case 0:
		note = "function with k parameters"
		src = "local function f(" + strings.Join(names, ",") + ") return " + sum + " end return f(" + args + ")"
	case 1:
		note = "vararg function with k parameters"
		pl := append(append([]string(nil), names...), "...")
		al := args
		if al != "" {
			al += ","
		}
		src = "local function f(" + strings.Join(pl, ",") + ") return select('#', ...)+" + sum + " end return f(" + al + "'x','y')"
		want += 2
	case 2:
		note = "method with k parameters (self is parameter k+1)"
		src = "local o = {v=5} function o:m(" + strings.Join(names, ",") + ") return self.v+" + sum + " end return o:m(" + args + ")"
		want += 5
	default:
		return nil
	}
	return &c07Case{ID: id, Src: src, Exec: true, Expect: c07ExpectNum(want), ExSig: fmt.Sprintf("params/v%d", v), Note: fmt.Sprintf("%s (k=%d)", note, k)}
}

func c07MakeMoves(id c07ID, v, k int) *c07Case {
	if k < 1 || k > 5000 {
		return nil
	}
	var sb strings.Builder
	var expect func(*lua.LState, []lua.LValue) string
	switch v {
	case 0:
		// values rotate through three locals: after k moves the values are known
		sb.WriteString("local a,b,c=1,2,3 ")
		vals := []float64{1, 2, 3}
		names := []string{"a", "b", "c"}
		for i := 0; i < k; i++ {
			d, s := i%3, (i+1)%3
			fmt.Fprintf(&sb, "%s=%s ", names[d], names[s])
			vals[d] = vals[s]
		}
		sb.WriteString("return a,b,c")
		expect = c07ExpectVals(lua.LNumber(vals[0]), lua.LNumber(vals[1]), lua.LNumber(vals[2]))
	case 1:
		// a run of moves that a conditional jump enters in the middle
		sb.WriteString("local a,b,c,g=1,2,3,G if g then a=b b=c ")
		for i := 0; i < k; i++ {
			if i%2 == 0 {
				sb.WriteString("c=a ")
			} else {
				sb.WriteString("a=b ")
			}
		}
		sb.WriteString("end b=a c=b return a,b,c")
		// G is 2 (truthy): a=2 b=3; then c=a / a=b alternate
		a, b, c := 2.0, 3.0, 3.0
		for i := 0; i < k; i++ {
			if i%2 == 0 {
				c = a
			} else {
				a = b
			}
		}
		b = a
		c = b
		expect = c07ExpectVals(lua.LNumber(a), lua.LNumber(b), lua.LNumber(c))
	default:
		return nil
	}
	return &c07Case{ID: id, Src: "G = 2 " + sb.String(), Exec: true, Expect: expect, ExSig: fmt.Sprintf("moves/v%d", v), Note: fmt.Sprintf("%d consecutive local-to-local moves (variant %d)", k, v)}
}

func c07MakeUpvalues(id c07ID, v, k int) *c07Case {
	if k < 1 {
		return nil
	}
	want := float64(k * (k + 1) / 2)
	var src, note string
	m := (k + 1) / 2
	all := append(c07Names("a", 1, m), c07Names("b", m+1, k)...)
	switch v {
	case 0:
		note = "innermost function reads k upvalues drawn from two enclosing functions"
		src = "local function outer() " + c07LocalDecls("a", 1, m) + "local function mid() " + c07LocalDecls("b", m+1, k) +
			"local function inner() return " + c07Sum(all) + " end return inner() end return mid() end return outer()"
	case 1:
		note = "function reads k upvalues of one enclosing function"
		src = c07LocalDecls("a", 1, k) + "local function inner() return " + c07Sum(c07Names("a", 1, k)) + " end return inner()"
	case 2:
		note = "innermost function increments and reads k upvalues drawn from two enclosing functions"
		var inc strings.Builder
		for _, n := range all {
			fmt.Fprintf(&inc, "%s=%s+1 ", n, n)
		}
		src = "local function outer() " + c07LocalDecls("a", 1, m) + "local function mid() " + c07LocalDecls("b", m+1, k) +
			"local function inner() " + inc.String() + "return " + c07Sum(all) + " end return inner() end return mid() end return outer()"
		want += float64(k)
	default:
		return nil
	}
	bucket := "k<=255"
	if k > 255 {
		bucket = "k>255"
	}
	return &c07Case{ID: id, Src: src, Exec: true, Expect: c07ExpectNum(want), ExSig: "upvalues/" + bucket, Note: fmt.Sprintf("%s (k=%d)", note, k)}
}

func c07MakeConsts(id c07ID, v, k int) *c07Case {
	var sb strings.Builder
	var note string
	var expect func(*lua.LState, []lua.LValue) string
	switch v {
	case 0:
		note = "k distinct number constants as RK operand of arithmetic"
		sb.WriteString("local s=0 ")
		want := 0
		for i := 1; i <= k; i++ {
			fmt.Fprintf(&sb, "s=s+%d ", 1000+i)
			want += 1000 + i
		}
		sb.WriteString("return s")
		expect = c07ExpectNum(float64(want))
	case 1:
		note = "k distinct number constants as RK operand of comparisons"
		x := 1000 + k/2
		fmt.Fprintf(&sb, "local x=%d local n=0 ", x)
		want := 0
		for i := 1; i <= k; i++ {
			c := 1000 + i
			switch i % 3 {
			case 0:
				fmt.Fprintf(&sb, "if x==%d then n=n+1 end ", c)
				if x == c {
					want++
				}
			case 1:
				fmt.Fprintf(&sb, "if %d<x then n=n+1 end ", c)
				if c < x {
					want++
				}
			case 2:
				fmt.Fprintf(&sb, "if x<=%d then n=n+1 end ", c)
				if x <= c {
					want++
				}
			}
		}
		sb.WriteString("return n")
		expect = c07ExpectNum(float64(want))
	case 2:
		note = "k distinct global names written and read"
		sb.WriteString("local one=1 ")
		for i := 1; i <= k; i++ {
			fmt.Fprintf(&sb, "c07g%d=one ", i)
		}
		sb.WriteString("return " + c07Sum(c07Names("c07g", 1, k)))
		expect = c07ExpectNum(float64(k))
	case 3:
		note = "k distinct field names written and read (string-keyed table instructions) plus k number constants"
		sb.WriteString("local o={} ")
		for i := 1; i <= k; i++ {
			fmt.Fprintf(&sb, "o.f%d=%d ", i, i)
		}
		sb.WriteString("return " + c07Sum(c07Names("o.f", 1, k)))
		expect = c07ExpectNum(float64(k * (k + 1) / 2))
	case 4:
		note = "k distinct method names called through SELF"
		sb.WriteString("local o=setmetatable({}, {__index=function(t,k) return function(self, d) return #k+d end end}) local s=0 ")
		want := 0
		for i := 1; i <= k; i++ {
			fmt.Fprintf(&sb, "s=s+o:m%d(1) ", i)
			want += len(fmt.Sprintf("m%d", i)) + 1
		}
		sb.WriteString("return s")
		expect = c07ExpectNum(float64(want))
	case 5:
		note = "constructor with k string-keyed fields and string values"
		sb.WriteString("return {")
		want := map[string]lua.LValue{}
		for i := 1; i <= k; i++ {
			fmt.Fprintf(&sb, "f%d=\"v%d\",", i, i)
			want[fmt.Sprintf("s:f%d", i)] = lua.LString(fmt.Sprintf("v%d", i))
		}
		sb.WriteString("}")
		expect = c07ExpectTable(want, 0)
	default:
		return nil
	}
	return &c07Case{ID: id, Src: sb.String(), Exec: true, Expect: expect, ExSig: fmt.Sprintf("consts/v%d", v), Note: fmt.Sprintf("%s (k=%d)", note, k)}
}

// c07MakeUninit: `local v1, ..., vk` without values as the FIRST statement of a function (env 0: main
// chunk, 1: function without parameters, 2: function with two parameters); the last one is only read.
func c07MakeUninit(id c07ID, k, use, env int) *c07Case {
	if k < 1 || use < 0 || use > 3 || env < 0 || env > 2 {
		return nil
	}
	vs := c07Names("v", 1, k)
	last := vs[k-1]
	var body string
	var want float64
	switch use {
	case 0:
		body, want = "local "+strings.Join(vs, ",")+" return "+last+" == nil and 1 or 0", 1
	case 1:
		body, want = "local "+strings.Join(vs, ",")+" v1 = "+last+" return v1 == nil and 1 or 0", 1
	case 2:
		body, want = "local "+strings.Join(vs, ",")+" local t = {"+last+"} return #t", 0
	case 3:
		body, want = "local "+strings.Join(vs, ",")+" return select('#', "+last+")", 1
	}
	var src string
	switch env {
	case 0:
		src = body
	case 1:
		src = "local function f() " + body + " end return f()"
	case 2:
		src = "local function f(p, q) " + body + " end return f(1, 2)"
	}
	return &c07Case{ID: id, Src: src, Exec: true, Expect: c07ExpectNum(want), ExSig: fmt.Sprintf("uninit/u%d/e%d", use, env), Note: fmt.Sprintf("%d locals declared without values as the first statement, the last one only read (use %d, surroundings %d)", k, use, env)}
}

const c07CompatArgUses = 7

// c07MakeCompatArg: a vararg function with k named parameters whose only use of a register beyond
// its parameters is the implicit `arg` table (LUA_COMPAT_VARARG), called with k+2 arguments.
func c07MakeCompatArg(id c07ID, k, use int) *c07Case {
	if k < 0 || use < 0 || use >= c07CompatArgUses {
		return nil
	}
	params := append(c07Names("p", 1, k), "...")
	args := strings.Join(c07Nums(1, k+2), ",")
	var body string
	var want float64
	switch use {
	case 0:
		body, want = "return arg.n", 2
	case 1:
		body, want = "return #arg", 2
	case 2:
		body, want = "return arg[2]", float64(k+2)
	case 3:
		body, want = "local a = arg return a.n + a[1]", float64(2+k+1)
	case 4:
		body, want = "return (arg).n", 2
	case 5, 6:
		// the table itself is returned straight from its register: no temporary is ever used
		body, want = "return arg", 2
	}
	src := "local function f(" + strings.Join(params, ",") + ") " + body + " end return f(" + args + ")"
	if use == 5 {
		src = "local function f(" + strings.Join(params, ",") + ") " + body + " end return f(" + args + ").n"
	}
	if use == 6 {
		src = "local o = {} function o:m(" + strings.Join(params, ",") + ") " + body + " end return o:m(" + args + ").n"
	}
	return &c07Case{ID: id, Src: src, Exec: true, Expect: c07ExpectNum(want), ExSig: fmt.Sprintf("compatarg/u%d", use), Note: fmt.Sprintf("vararg function with %d named parameters using only the implicit arg table (use %d)", k, use)}
}

const c07CtorUses = 8

// c07MakeCtorUse: a constructor with k positional items as operand of an operator, in a function
// without locals (env 0: chunk level), with one local (env 1) and as a function with a parameter (env 2).
func c07MakeCtorUse(id c07ID, k, use, env int) *c07Case {
	if k < 1 || use < 0 || use >= c07CtorUses || env < 0 || env > 2 {
		return nil
	}
	var sb strings.Builder
	sb.WriteString("{")
	for i := 1; i <= k; i++ {
		fmt.Fprintf(&sb, "%d,", i%97)
	}
	sb.WriteString("}")
	ctor := sb.String()
	var expr string
	var want float64
	switch use {
	case 0:
		expr, want = "#"+ctor, float64(k)
	case 1:
		expr, want = "("+ctor+")["+fmt.Sprint(k)+"]", float64(k%97)
	case 2:
		expr, want = "#"+ctor+" + 1", float64(k+1)
	case 3:
		expr, want = "("+ctor+" == nil) and 1 or 2", 2
	case 4:
		expr, want = "(not "+ctor+") and 1 or 2", 2
	case 5:
		expr, want = "select('#', "+ctor+", 1)", 2
	case 6:
		expr, want = "#("+ctor+")", float64(k)
	case 7:
		expr, want = "({[1] = 5})[#"+ctor+" - "+fmt.Sprint(k-1)+"]", 5
	}
	var src string
	switch env {
	case 0:
		src = "return " + expr
	case 1:
		src = "local z = 1 return " + expr
	case 2:
		src = "local function f(p) return " + expr + " end return f(1)"
	}
	return &c07Case{ID: id, Src: src, Exec: true, Expect: c07ExpectNum(want), ExSig: fmt.Sprintf("ctoruse/u%d/e%d", use, env), Note: fmt.Sprintf("constructor with %d items as an operand (use %d, surroundings %d)", k, use, env)}
}

func c07MakeCtor(id c07ID, k, keyed, tail int) *c07Case {
	if k < 0 || keyed < 0 || keyed >= c07CtorKeyed || tail < 0 || tail >= c07CtorTails {
		return nil
	}
	want := map[string]lua.LValue{}
	var sb strings.Builder
	if tail >= 4 {
		// the last items are plain locals: a run of MOVEs directly in front of the (extended) SETLIST
		sb.WriteString("local function mk(...) local la, lb, lc = ... return {")
	} else {
		sb.WriteString("local function mk(...) return {")
	}
	nk := 0
	// shape flags that select the recorded constructor defects (see KNOWN_FINDINGS): a keyed field
	// directly after an exactly full batch; a multi-value tail directly after an exactly full batch;
	// a last field that is keyed with a call as value
	afterFull, tailAfterFull, lastKeyedCall := 0, 0, 0
	npos := 0
	keyedField := func() {
		nk++
		if npos > 0 && npos%lua.FieldsPerFlush == 0 {
			afterFull = 1
		}
		lastKeyedCall = 0
		if keyed >= 2 && npos > 0 {
			lastKeyedCall = 1 // reset below when another field follows
		}
		switch keyed {
		case 1:
			switch nk {
			case 1:
				sb.WriteString("x=\"X\",")
				want["s:x"] = lua.LString("X")
			case 2:
				sb.WriteString("[-5]=\"M\",")
				want["-5"] = lua.LString("M")
			default:
				fmt.Fprintf(&sb, "y%d=\"Y\",", nk)
				want[fmt.Sprintf("s:y%d", nk)] = lua.LString("Y")
			}
		case 2, 3:
			fmt.Fprintf(&sb, "[K(%d)]=V(%d),", nk, nk)
			want[fmt.Sprintf("s:ck%d", nk)] = lua.LNumber(900000 + nk)
		}
	}
	if keyed == 1 || keyed == 2 {
		keyedField()
	}
	for i := 1; i <= k; i++ {
		fmt.Fprintf(&sb, "%d,", i%97)
		want[fmt.Sprintf("%d", i)] = lua.LNumber(i % 97)
		npos++
		lastKeyedCall = 0
		switch keyed {
		case 1, 2:
			if i == k/2 && k >= 2 {
				keyedField()
			}
		case 3:
			if i%lua.FieldsPerFlush == 0 {
				keyedField()
			}
		}
	}
	if keyed == 1 || keyed == 2 {
		keyedField()
	}
	n := k
	if tail != 0 {
		lastKeyedCall = 0
		if (tail == 1 || tail == 2) && k > 0 && k%lua.FieldsPerFlush == 0 {
			tailAfterFull = 1
		}
	}
	switch tail {
	case 1:
		sb.WriteString("M()")
		n += 3
	case 2:
		sb.WriteString("...")
		n += 3
	case 3:
		sb.WriteString("(M())")
		n++
	case 4:
		sb.WriteString("la,lb")
		n += 2
	case 5:
		sb.WriteString("la,lb,lc")
		n += 3
	}
	for i := k + 1; i <= n; i++ {
		want[fmt.Sprintf("%d", i)] = lua.LNumber(700000 + i - k)
	}
	sb.WriteString("} end return mk(700001,700002,700003)")
	bucket := "batches<=511"
	if n > 511*lua.FieldsPerFlush {
		bucket = "batches>511"
	}
	tails := []string{"none", "call", "vararg", "parenthesised call", "two locals", "three locals"}
	keyeds := []string{"none", "constant keyed fields at start/middle/end", "computed keyed fields at start/middle/end", "computed keyed field after every full batch"}
	return &c07Case{ID: id, Src: sb.String(), Exec: true, Budget: 2000000, Expect: c07ExpectTable(want, n), ExSig: fmt.Sprintf("ctor/keyedafterfull=%d/tailafterfull=%d/lastkeyedcall=%d/%s", afterFull, tailAfterFull, lastKeyedCall, bucket),
		Note: fmt.Sprintf("constructor with %d positional items, keyed: %s, tail: %s", k, keyeds[keyed], tails[tail])}
}

// ---- nesting ---------------------------------------------------------------------------------------

var c07NestKinds = []string{"do", "if", "else", "elseif", "while", "repeat", "numfor", "genfor", "function", "closure-loop",
	"parens", "constructor", "call", "and-or", "concat", "arith-right", "index", "method-chain", "unary"}

func c07MakeNest(id c07ID, kind, d int) *c07Case {
	if d < 1 {
		return nil
	}
	var src string
	expect := c07ExpectNum(float64(d))
	wrap := func(open func(i int) string, close func(i int) string, head, mid, tail string) string {
		var sb strings.Builder
		sb.WriteString(head)
		for i := 1; i <= d; i++ {
			sb.WriteString(open(i))
		}
		sb.WriteString(mid)
		for i := d; i >= 1; i-- {
			sb.WriteString(close(i))
		}
		sb.WriteString(tail)
		return sb.String()
	}
	end := func(int) string { return "end " }
	switch c07NestKinds[kind] {
	case "do":
		src = wrap(func(i int) string { return "do x=x+1 " }, end, "local x=0 ", "", "return x")
	case "if":
		src = wrap(func(i int) string { return "if x>=0 then x=x+1 " }, end, "local x=0 ", "", "return x")
	case "else":
		src = wrap(func(i int) string { return "if x<0 then x=-100 else x=x+1 " }, end, "local x=0 ", "", "return x")
	case "elseif":
		src = wrap(func(i int) string { return "if x<0 then x=-100 elseif x>=0 then x=x+1 " }, func(int) string { return "else x=-200 end " }, "local x=0 ", "", "return x")
	case "while":
		src = wrap(func(i int) string { return fmt.Sprintf("local i%d=0 while i%d<1 do i%d=i%d+1 x=x+1 ", i, i, i, i) }, end, "local x=0 ", "", "return x")
	case "repeat":
		src = wrap(func(i int) string { return fmt.Sprintf("repeat local r%d=x x=x+1 ", i) }, func(i int) string { return fmt.Sprintf("until r%d>=0 ", i) }, "local x=0 ", "", "return x")
	case "numfor":
		src = wrap(func(i int) string { return fmt.Sprintf("for i%d=1,1 do x=x+i%d ", i, i) }, end, "local x=0 ", "", "return x")
	case "genfor":
		src = wrap(func(i int) string { return fmt.Sprintf("for k%d,v%d in ipairs({5}) do x=x+k%d ", i, i, i) }, end, "local x=0 ", "", "return x")
	case "function":
		src = wrap(func(i int) string { return fmt.Sprintf("local function f%d() x=x+1 ", i) }, func(i int) string { return fmt.Sprintf("end return f%d() ", i) }, "local x=0 ", "do return x end ", "")
	case "closure-loop":
		src = wrap(func(i int) string {
			return fmt.Sprintf("for i%d=1,1 do local c%d=i%d fns[#fns+1]=function() return c%d end ", i, i, i, i)
		}, end, "local fns={} ", "", "local s=0 for _,f in ipairs(fns) do s=s+f() end return s")
	case "parens":
		src = "local x=1 return " + strings.Repeat("(", d) + "x" + strings.Repeat("+1)", d)
		expect = c07ExpectNum(float64(d + 1))
	case "constructor":
		src = "local t=" + strings.Repeat("{", d) + "9" + strings.Repeat("}", d) + " local n=0 while type(t)=='table' do t=t[1] n=n+1 end return n, t"
		expect = c07ExpectVals(lua.LNumber(d), lua.LNumber(9))
	case "call":
		src = "return " + strings.Repeat("ID(", d) + "3" + strings.Repeat(")", d)
		expect = c07ExpectNum(3)
	case "and-or":
		var sb strings.Builder
		sb.WriteString("local a,b=1,false return ")
		for i := 1; i <= d; i++ {
			if i%2 == 1 {
				sb.WriteString("a and (")
			} else {
				sb.WriteString("b or (")
			}
		}
		sb.WriteString("5" + strings.Repeat(")", d))
		src = sb.String()
		expect = c07ExpectNum(5)
	case "concat":
		src = "local s='a' return s" + strings.Repeat("..s", d)
		expect = c07ExpectVals(lua.LString(strings.Repeat("a", d+1)))
	case "arith-right":
		src = "local x=1 return " + strings.Repeat("x+(", d) + "x" + strings.Repeat(")", d)
		expect = c07ExpectNum(float64(d + 1))
	case "index":
		src = "local t={} t.a=t return t" + strings.Repeat(".a", d) + "==t, t" + strings.Repeat("['a']", d) + "==t"
		expect = c07ExpectVals(lua.LTrue, lua.LTrue)
	case "method-chain":
		src = "local n=0 local o={} function o:m() n=n+1 return self end o" + strings.Repeat(":m()", d) + " return n"
	case "unary":
		src = "local x=3 return " + strings.Repeat("- ", d) + "x, " + strings.Repeat("not ", d) + "x"
		sign := 1.0
		if d%2 == 1 {
			sign = -1
		}
		expect = c07ExpectVals(lua.LNumber(sign*3), lua.LBool(d%2 == 0))
	default:
		return nil
	}
	return &c07Case{ID: id, Src: src, Exec: true, Expect: expect, ExSig: "nest/" + c07NestKinds[kind], Note: fmt.Sprintf("nesting depth %d of %s", d, c07NestKinds[kind])}
}

// ---- long jumps ------------------------------------------------------------------------------------

var c07JumpKinds = []string{"while", "repeat", "numfor", "genfor", "if-skip", "if-else", "break", "goto-back", "goto-forward", "numfor-close", "nested-if-else-two-hops-then", "nested-if-else-two-hops-else"}

func c07MakeJump(id c07ID, kind, n int) *c07Case {
	if n < 0 || n > 400000 {
		return nil
	}
	body := strings.Repeat("x=x+1 ", n) // one ADD instruction each
	var src string
	want := float64(2 * n)
	switch c07JumpKinds[kind] {
	case "while":
		src = "local x=0 local i=0 while i<2 do i=i+1 " + body + "end return x"
	case "repeat":
		src = "local x=0 local i=0 repeat i=i+1 " + body + "until i>=2 return x"
	case "numfor":
		src = "local x=0 for i=1,2 do " + body + "end return x"
	case "genfor":
		src = "local x=0 for _,v in ipairs({1,2}) do " + body + "end return x"
	case "if-skip":
		src = "local x=0 if x<0 then " + body + "end return x"
		want = 0
	case "if-else":
		src = "local x=0 if x==0 then " + body + "else x=-1 end return x"
		want = float64(n)
	case "break":
		src = "local x=0 local i=0 while true do i=i+1 if i>1 then break end " + body + "end return x"
		want = float64(n)
	case "goto-back":
		src = "local x=0 local i=0 ::top:: i=i+1 " + body + "if i<2 then goto top end return x"
	case "goto-forward":
		src = "local x=0 goto done " + body + "::done:: return x"
		want = 0
	case "nested-if-else-two-hops-then", "nested-if-else-two-hops-else":
		// the jump that ends the inner then-branch lands on the jump that ends the outer then-branch:
		// each hop fits into sBx, their sum does not
		half := strings.Repeat("x=x+1 ", n/2+8)
		b := "true"
		want = -1
		if strings.HasSuffix(c07JumpKinds[kind], "else") {
			b, want = "false", float64(n/2+8)
		}
		src = "local x=0 local a,b=true," + b + " if a then if b then x=-1 else " + half + "end else " + half + "end return x"
	case "numfor-close":
		src = "local x=0 local fn for i=1,2 do local c=i fn=function() return c end " + body + "end return x+fn()"
		want = float64(2*n + 2)
	default:
		return nil
	}
	return &c07Case{ID: id, Src: src, Exec: true, Budget: 4*int64(n) + 100000, Expect: c07ExpectNum(want), ExSig: "longjump/" + c07JumpKinds[kind],
		Note: fmt.Sprintf("%s whose body is %d one-instruction statements (jump distance near the sBx limit 131071)", c07JumpKinds[kind], n)}
}

// ---- exhaustive statement sequences ----------------------------------------------------------------

var c07StmtKinds = []string{"local", "assign", "multi-assign", "call", "if-else", "while", "repeat", "numeric-for", "generic-for",
	"function-with-upvalue", "return", "break", "goto-label"}

var c07Positions = []string{"chunk", "function-body", "then-branch", "else-branch", "while-body", "repeat-body", "numeric-for-body",
	"generic-for-body", "do-block-in-loop-with-captured-local"}

const c07SeqPrelude = "local U = 1 G = 2 local T = {n = 0, get = function(self, v) return v end} local fns = {} "

func c07Stmt(kind, i int, last bool) string {
	switch c07StmtKinds[kind] {
	case "local":
		return fmt.Sprintf("local a%d, b%d = F(X, %d), U ", i, i, i)
	case "assign":
		return fmt.Sprintf("X = X + Y * %d - G %% 3 ", i+2)
	case "multi-assign":
		return "X, T.n, G = G, X, T.n + 1 "
	case "call":
		return "F(T:get(X), F(Y, ...)) "
	case "if-else":
		return "if X > G then X = X - 1 elseif not T.n then X = 0 else G = G + 1 end "
	case "while":
		return fmt.Sprintf("local w%d = 0 while w%d < 2 do w%d = w%d + 1 X = X + w%d end ", i, i, i, i, i)
	case "repeat":
		return fmt.Sprintf("repeat local r%d = X X = X + 1 until r%d ~= nil ", i, i)
	case "numeric-for":
		return fmt.Sprintf("for n%d = 1, 2 do X = X + n%d end ", i, i)
	case "generic-for":
		return fmt.Sprintf("for k%d, v%d in ipairs({X, G}) do Y = Y + k%d end ", i, i, i)
	case "function-with-upvalue":
		return fmt.Sprintf("local function f%d(p, ...) U = U + 1 Y = Y + p return select('#', ...) end X = X + f%d(1, X) ", i, i)
	case "return":
		s := "return X, F(Y) "
		if i%2 == 1 {
			s = "return F(X) "
		}
		if last {
			return s
		}
		return "do " + s + "end "
	case "break":
		if last {
			return "break "
		}
		return "do break end "
	case "goto-label":
		return fmt.Sprintf("::again%d:: if X < 4 then X = X + 7 goto again%d end goto done%d X = X + 100 ::done%d:: ", i, i, i, i)
	}
	return ""
}

func c07MakeSeq(id c07ID, pos int, seq []int) *c07Case {
	if pos < 0 || pos >= len(c07Positions) || len(seq) > 6 {
		return nil
	}
	inLoop := pos >= 4
	var sb strings.Builder
	endsWithReturn := false
	for i, k := range seq {
		if k < 0 || k >= len(c07StmtKinds) {
			return nil
		}
		if c07StmtKinds[k] == "break" && !inLoop {
			return nil
		}
		last := i == len(seq)-1
		sb.WriteString(c07Stmt(k, i, last))
		if last && c07StmtKinds[k] == "return" {
			endsWithReturn = true
		}
	}
	s := sb.String()
	var src string
	switch c07Positions[pos] {
	case "chunk":
		src = c07SeqPrelude + "local X = 1 local Y = X " + s
		if !endsWithReturn {
			src += "return X, Y, U, G, T.n"
		}
	case "function-body":
		src = c07SeqPrelude + "local function body(a, b, ...) local X = a local Y = b " + s
		if !endsWithReturn {
			src += "return X, Y "
		}
		src += "end return body(1, 2, 3)"
	case "then-branch":
		src = c07SeqPrelude + "local X = 1 if G then local Y = X " + s + "else X = -1 end return X"
	case "else-branch":
		src = c07SeqPrelude + "local X = 1 if not G then X = -1 else local Y = X " + s + "end return X"
	case "while-body":
		src = c07SeqPrelude + "local X = 1 local it = 0 while it < 2 do it = it + 1 local Y = X " + s + "end return X"
	case "repeat-body":
		src = c07SeqPrelude + "local X = 1 local it = 0 repeat it = it + 1 local Y = X " + s + "until it >= 2 or Y == nil return X"
	case "numeric-for-body":
		src = c07SeqPrelude + "local X = 1 for it = 1, 2 do local Y = X " + s + "end return X"
	case "generic-for-body":
		src = c07SeqPrelude + "local X = 1 for it, v in ipairs({5, 6}) do local Y = v " + s + "end return X"
	case "do-block-in-loop-with-captured-local":
		src = c07SeqPrelude + "local X = 1 for it = 1, 2 do local cap = it fns[it] = function() cap = cap + 1 return cap end do local Y = cap " + s + "end end return X, fns[1] and fns[1]()"
	}
	var names []string
	for _, k := range seq {
		names = append(names, c07StmtKinds[k])
	}
	return &c07Case{ID: id, Src: src, Exec: true, Budget: 100000, ExSig: "seq",
		Note: fmt.Sprintf("statements [%s] in position %s", strings.Join(names, "; "), c07Positions[pos])}
}
