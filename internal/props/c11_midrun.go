package props

// C11, the context changes while the script runs: a host function called by the script replaces the
// state's context (a per-operation deadline derived from the old one, or an unrelated one) or
// attaches the first one, and only the *new* context is cancelled, at every instruction index k
// behind the call. "Once the context attached to a state is done, no further Lua instruction of
// that state … completes" speaks of the context that is attached - whichever it is by then. The
// code that continues is the loop activation that was live during the call (straight-line code,
// loops, Lua-to-Lua calls), which is exactly what a context read once per activation would miss.

import (
	"context"
	"fmt"
	"strings"

	lua "github.com/yuin/gopher-lua"

	"verif/internal/glrun"
	"verif/internal/harness"
)

func c11MidRun(r *harness.Run) {
	H := int64(400)
	if r.Thorough() {
		H = 3000
	}
	modes := []string{"replace-unrelated", "replace-derived", "replace-twice", "first-attach"}
	type job struct {
		si   int
		mode string
	}
	var jobs []job
	for si := range c11Scripts {
		if c11Pre[c11Scripts[si].name] != "" || strings.HasPrefix(c11Scripts[si].name, "term-") {
			continue
		}
		for _, md := range modes {
			jobs = append(jobs, job{si, md})
		}
	}
	harness.ParallelShards(len(jobs), func(wi, ji int) {
		sc, mode := c11Scripts[jobs[ji].si], jobs[ji].mode
		var swap func(L *lua.LState)
		m := glrun.NewImpl(lua.Options{}, func(m *glrun.Impl) {
			m.L.SetGlobal("swapctx", m.L.NewFunction(func(L *lua.LState) int {
				if swap != nil {
					swap(L)
				}
				return 0
			}))
		})
		m.NoAutoFresh = true
		defer m.Close()
		// the host call sits inside a function that goes on looping, and once more at chunk level
		src := "swapctx()\n" + sc.src
		base := m.Run(src, H+400)
		horizon := H
		if base.Failed && base.ErrKind != "budget" {
			if !strings.Contains(base.ErrText, "stack overflow") {
				return // judged by the main part
			}
			horizon = base.Steps - 10
		}
		bound := int64(2*sc.maxDepth + 2)
		for k := int64(3); k <= horizon; k++ {
			if k%64 == 0 && r.Expired() {
				r.NotExhaustive("deadline inside the mid-run context part")
				return
			}
			var cancels []context.CancelFunc
			var cancelNew context.CancelFunc
			swapped := false
			var ctx0 context.Context
			if mode != "first-attach" {
				c0, cancel0 := context.WithCancel(context.Background())
				ctx0 = c0
				cancels = append(cancels, cancel0)
				m.L.SetContext(c0)
			}
			swap = func(L *lua.LState) {
				swapped = true
				parent := context.Background()
				if mode == "replace-derived" {
					parent = ctx0
				}
				if mode == "replace-twice" {
					mid, cm := context.WithCancel(context.Background())
					cancels = append(cancels, cm)
					L.SetContext(mid)
				}
				c1, cancel1 := context.WithCancel(parent)
				cancelNew = cancel1
				cancels = append(cancels, cancel1)
				L.SetContext(c1)
			}
			fired := false
			m.B.Fault = func(L *lua.LState, n int64) {
				if n == k && !fired && cancelNew != nil {
					fired = true
					cancelNew()
				}
			}
			o := m.Run(src, H+400)
			m.B.Fault = nil
			m.L.RemoveContext()
			for _, c := range cancels {
				c()
			}
			swap = nil
			r.Eval(fmt.Sprintf("midrun/%s/%s@%d", mode, sc.name, k), true, func() interface{} {
				return map[string]interface{}{"script": sc.name, "mode": mode, "cancel_new_context_at_instruction": k}
			})
			if !swapped || !fired {
				continue
			}
			class := ""
			switch {
			case !o.Failed:
				class = "not-stopped"
			case o.ErrKind == "budget":
				class = "keeps-running"
			case o.ErrKind != "run" || !strings.Contains(o.ErrText, context.Canceled.Error()):
				class = "wrong-error"
			case o.Steps-k > bound:
				class = "too-many-instructions-after-cancel"
			}
			if class != "" {
				r.Violation(fmt.Sprintf("midrun/%s/%s/%s", mode, sc.name, class), fmt.Sprintf("a host function called at the start of the script %s; the new context was cancelled at instruction %d; the run: failed=%v kind=%s steps=%d %s\nscript: %s",
					map[string]string{"replace-unrelated": "replaced the state's live context by an unrelated one", "replace-derived": "replaced the state's live context by one derived from it", "replace-twice": "replaced the state's live context twice", "first-attach": "attached the state's first context"}[mode],
					k, o.Failed, o.ErrKind, o.Steps, firstLine(o.ErrText), src), map[string]interface{}{"script": sc.name, "mode": mode, "cancel_at": k, "source": src})
				break // one report per (script, mode): every later k fails alike
			}
		}
	})
}
