package props

// C02 — calls pass/return exactly the values Lua 5.1 prescribes; tail calls are proper.

import (
	"fmt"
	"runtime"
	"strings"

	lua "github.com/yuin/gopher-lua"

	"verif/internal/glrun"
	"verif/internal/harness"
	. "verif/internal/luaref"
)

func init() { harness.Register("C02", "exploration", runC02) }

// c02TailErrorCost: "tail calls are proper" - a loop of tail calls runs in constant space, and so
// does its failure: an error raised after n tail calls must not cost memory in proportion to n
// (the traceback once built a line for every lost frame: 90 MiB per million). Measured as bytes
// allocated by the failing loop minus bytes allocated by the same loop returning normally, for
// n = 10^6, before any parallel work of the check starts (TotalAlloc is process-wide); allocation
// counts are a function of the code path, not of the clock.
func c02TailErrorCost(r *harness.Run) {
	measure := func(fail bool) (uint64, error) {
		L := lua.NewState()
		defer L.Close()
		src := `local function loop(n, fail) if n == 0 then if fail then error("x") end return "done" end return loop(n - 1, fail) end return pcall(loop, 1000000, ...)`
		fn, err := L.LoadString(src)
		if err != nil {
			return 0, err
		}
		var a, b runtime.MemStats
		runtime.ReadMemStats(&a)
		L.Push(fn)
		L.Push(lua.LBool(fail))
		err = L.PCall(1, 2, nil)
		runtime.ReadMemStats(&b)
		if err == nil && (L.Get(-2) == lua.LTrue) == fail {
			err = fmt.Errorf("pcall returned %v, %v", L.Get(-2), L.Get(-1))
		}
		return b.TotalAlloc - a.TotalAlloc, err
	}
	ok, err1 := measure(false)
	bad, err2 := measure(true)
	r.Eval("tail-error-cost", true, func() interface{} {
		return map[string]interface{}{"case": "error after 10^6 tail calls", "bytes_allocated_returning": ok, "bytes_allocated_failing": bad}
	})
	switch {
	case err1 != nil || err2 != nil:
		r.Violation("F-tail/error-after-tail-calls/wrong-result", fmt.Sprintf("a loop of 10^6 tail calls: returning: %v, failing: %v", err1, err2), nil)
	case bad > ok+(16<<20):
		r.Violation("F-tail/error-after-tail-calls/cost-grows-with-the-number-of-tail-calls", fmt.Sprintf("an error after 10^6 tail calls allocates %d MiB more than the same loop returning normally (%d MiB): the failure of a proper tail loop is not constant-space", (bad-ok)>>20, ok>>20), map[string]interface{}{"bytes_returning": ok, "bytes_failing": bad})
	}
}

func runC02(r *harness.Run) {
	c02TailErrorCost(r)
	var depthLog [][2]int
	_ = depthLog
	pr := &progRunner{r: r, prop: "C02", opts: lua.Options{}}
	// tsnap(): host function recording call-stack depth and registry top (white-box) on the
	// implementation side; a plain event on the model side.
	pr.setupM = func(in *Interp) { in.Host("tsnap", nil) }
	type snapKey struct{}
	snaps := map[*glrun.Impl]*[][2]int{}
	_ = snaps
	pr.extraI = func(m *glrun.Impl) {
		m.L.SetGlobal("tsnap", m.L.NewFunction(func(L *lua.LState) int {
			sp, top := lua.VerifDepth(L)
			m.Notes = append(m.Notes, fmt.Sprintf("%d/%d", sp, top))
			m.RecordEvent("tsnap", L)
			return 0
		}))
	}
	pr.perProg = func(w *progWorker, p *Prog, src string, mo glrun.MOutcome, o glrun.Outcome) {
		if p.Family != "F-tail" {
			return
		}
		// every tsnap() of a tail-recursive loop must see the same call depth and registry top from
		// the second iteration on: the state sequence is then periodic and no iteration count can
		// exhaust the stack
		notes := w.impl.Notes
		if len(notes) < 6 {
			r.Violation("F-tail/"+p.Shape+"/too-few-snapshots", "tail loop produced fewer snapshots than iterations\n"+src, map[string]interface{}{"program": src})
			return
		}
		for i := 2; i < len(notes); i++ {
			if notes[i] != notes[1] {
				r.Violation("F-tail/"+p.Shape+"/stack-grows", fmt.Sprintf("call-stack depth/registry top changes between iterations of a tail-recursive loop: %v\nprogram:\n%s", notes, src), map[string]interface{}{"program": src, "snapshots": notes})
				return
			}
		}
	}
	th := r.Thorough()
	gens := map[string]Gen{
		"F-call":   genCall(th),
		"F-select": genSelectUnpack(th),
		"F-tail":   genTail(th),
	}
	r.Rule = "complete product of callee shape (0-3 parameters x vararg x body) x argument list (0-4 arguments, last one optionally multi-valued) x result context (14) x callee kind (Lua, host Go function, __call object, method, pcall) x ordinary/tail position (F-call); " +
		"every select(n, ...) and unpack(t, i, j) over small ranges and multi-result counts around the SETLIST flush boundary (F-select); tail-recursive loops for each callee kind with white-box stack snapshots per iteration (F-tail); " +
		"each program runs on gopher-lua and the reference interpreter and traces are compared; non-trivial = distinct program text with a non-empty reference trace"
	r.Assumptions = []string{"luaref is the executable reading of Lua 5.1 call/return adjustment", "tail calls: equality of (call depth, registry top) between consecutive iterations is taken as proof that no iteration count exhausts the stack; additionally 10^6 iterations run under CallStackSize 8"}
	order := []string{"F-select", "F-tail", "F-call"}
	// "nested arbitrarily": the same families below 30 (thorough: also 110) vararg frames of
	// different sizes, so that every call shape also runs far from the base of the value stack, in
	// a frame whose caller holds varargs, and (110) beyond the first growth of the call stack
	depths := []int{30}
	if th {
		depths = append(depths, 110)
	}
	for _, d := range depths {
		pre := fmt.Sprintf("D%d/", d)
		for _, n := range []string{"F-select", "F-call"} {
			gens[pre+n] = mapGen(gens[n], pre, deepFrame(d))
			order = append(order, pre+n)
		}
	}
	// callable objects whose metatable is protected (__metatable set) are called like any other
	gens["L/F-call"] = mapGen(gens["F-call"], "L/", lockMeta)
	gens["L/F-tail"] = mapGen(gens["F-tail"], "L/", lockMeta)
	order = append(order, "L/F-call", "L/F-tail")
	// method and field names whose constant index is beyond 255 and beyond 511 (both wrap-around
	// points of the RK operand encoding)
	gens["K300/F-call"] = mapGen(gens["F-call"], "K300/", constPressure(300))
	gens["K600/F-call"] = mapGen(gens["F-call"], "K600/", constPressure(600))
	order = append(order, "K300/F-call", "K600/F-call")
	pr.runGens(gens, order)
	// select/unpack/multi-results are the operations that move many values at once: the same family
	// under registries that reallocate while they run (one slot at a time, steps of 7 and 32; the
	// runner cuts the registry back to its initial capacity before every program), alone and below
	// 3-6 padding frames so that the moving operation itself is the one that crosses the capacity
	for _, cfg := range []struct {
		name string
		opts lua.Options
	}{
		{"grow1-from128", lua.Options{RegistrySize: 128, RegistryMaxSize: 1 << 20, RegistryGrowStep: 1}},
		{"grow7-from130", lua.Options{RegistrySize: 130, RegistryMaxSize: 1 << 20, RegistryGrowStep: 7}},
		{"grow32-from128", lua.Options{RegistrySize: 128, RegistryMaxSize: 8192, RegistryGrowStep: 32}},
	} {
		pg := &progRunner{r: r, prop: "C02", opts: cfg.opts, sigPrefix: cfg.name + "/"}
		gg := map[string]Gen{"F-select": genSelectUnpack(th), "F-unpackgrow": genUnpackGrow()}
		og := []string{"F-select", "F-unpackgrow"}
		for _, d := range []int{3, 4, 5, 6} {
			pre := fmt.Sprintf("D%d/", d)
			gg[pre+"F-select"] = mapGen(gg["F-select"], pre, deepFrame(d))
			og = append(og, pre+"F-select")
		}
		pg.runGens(gg, og)
	}
	c02LongTail(r)
	manyResults(r)
	runPinned(r, "C02")
	// the values of a resume arrive as the results of the pending yield also when the HOST resumes
	// (LState.Resume with 0/1/3 values against call sites that expect 0, 1, 3 or all results)
	c06GoAPI(r, c06Bodies())
}

// genUnpackGrow: unpack(t, i, j) of lists of 1..300 elements (array part, hash part, both) with the
// window inside, straddling and outside the list, as the first operation that needs that many
// registers, then once more; the values themselves are observed (first, last, a middle one, sum).
func genUnpackGrow() Gen {
	return func(yield func(*Prog)) {
		for _, n := range []int{1, 2, 20, 60, 127, 128, 129, 200, 300} {
			for _, rep := range []string{"array", "hash", "mixed"} {
				for _, win := range []string{"all", "inner", "from0", "beyond", "tail"} {
					n, rep, win := n, rep, win
					yield(&Prog{Family: "F-unpackgrow", Shape: fmt.Sprintf("n=%d/%s/%s", n, rep, win), Mk: func() *Block {
						var fillT Stat
						switch rep {
						case "array":
							fillT = NumFor("i", Num(1), Num(float64(n)), nil, Assign1(Index(Name("t"), Name("i")), Bin("*", Name("i"), Num(3))))
						case "hash":
							fillT = NumFor("i", Num(float64(n)), Num(1), Num(-1), Assign1(Index(Name("t"), Name("i")), Bin("*", Name("i"), Num(3))))
						default:
							fillT = Do(NumFor("i", Num(1), Num(float64(n/2)), nil, Assign1(Index(Name("t"), Name("i")), Bin("*", Name("i"), Num(3)))),
								NumFor("i", Num(float64(n)), Num(float64(n/2+1)), Num(-1), Assign1(Index(Name("t"), Name("i")), Bin("*", Name("i"), Num(3)))))
						}
						var args []Expr
						switch win {
						case "all":
							args = []Expr{Name("t")}
						case "inner":
							args = []Expr{Name("t"), Num(float64(n/3 + 1)), Num(float64(n - n/4))}
						case "from0":
							args = []Expr{Name("t"), Num(0), Num(float64(n))}
						case "beyond":
							args = []Expr{Name("t"), Num(1), Num(float64(n + 5))}
						case "tail":
							args = []Expr{Name("t"), Num(float64(n))}
						}
						look := LocalFunc("look", Func(nil, true,
							Local1("c", CallN("select", Str("#"), Vararg())),
							Local(names("s", "holes"), Num(0), Num(0)),
							NumFor("i", Num(1), Name("c"), nil,
								Local1("v", Paren(CallN("select", Name("i"), Vararg()))),
								IfElse(Bin("==", Name("v"), Nil()), []Stat{Assign1(Name("holes"), Bin("+", Name("holes"), Num(1)))}, []Stat{Assign1(Name("s"), Bin("+", Name("s"), Name("v")))})),
							Return(Name("c"), Name("s"), Name("holes"), Paren(Vararg()))))
						return Blk(Local1("t", TableE()), fillT, look,
							Emit(Str("first"), Call(Name("look"), Call(Name("unpack"), args...))),
							Emit(Str("again"), Call(Name("look"), Call(Name("unpack"), args...))),
							Local1("u", TableE(Pos1(Call(Name("unpack"), args...)))),
							Emit(Str("ctor"), Un("#", Name("u")), Index(Name("u"), Num(1)), Index(Name("u"), Num(float64(n/2+1)))))
					}})
				}
			}
		}
	}
}

// ---- F-call ----------------------------------------------------------------------------------------

type c02Callee struct {
	name string
	// def returns the statements defining the callee under the name `callee` (or object `obj`) and
	// call builds the call expression for given argument expressions
	def  func() []Stat
	call func(args []Expr) Expr
}

func c02Body(np int, vararg bool, body int) []Stat {
	// emits what the callee sees, then returns according to body kind
	ps := []Expr{Str("in")}
	for i := 0; i < np; i++ {
		ps = append(ps, Name(fmt.Sprintf("p%d", i+1)))
	}
	var st []Stat
	switch body {
	case 0: // returns its parameters (and the count of extra arguments if vararg)
		if vararg {
			ps = append(ps, CallN("select", Str("#"), Vararg()))
		}
		st = append(st, Emit(ps...))
		var rs []Expr
		for i := 0; i < np; i++ {
			rs = append(rs, Name(fmt.Sprintf("p%d", i+1)))
		}
		st = append(st, Return(rs...))
	case 1: // returns ...
		st = append(st, Emit(ps...), Return(Vararg()))
	case 2: // compat arg table (vararg function that does not mention ...): observed, then scribbled on —
		// it is a fresh table for every call, so nothing of this may show in any later call
		st = append(st, Emit(append(ps, Dot(Name("arg"), "n"), Index(Name("arg"), Num(1)), Index(Name("arg"), Num(2)), Dot(Name("arg"), "mark"))...),
			Local1("n0", Dot(Name("arg"), "n")), Assign1(Dot(Name("arg"), "mark"), Str("scribble")), Assign1(Index(Name("arg"), Num(1)), Str("overwritten")), Assign1(Index(Name("arg"), Num(2)), Str("added")), Assign1(Dot(Name("arg"), "n"), Num(99)),
			Return(Name("n0")))
	case 3: // returns fixed three values
		st = append(st, Emit(ps...), Return(Num(71), Num(72), Num(73)))
	case 4: // returns nothing
		st = append(st, Emit(ps...))
	case 6: // live non-nil locals sit in the registers right after the returned ones; no call resets the frame top
		var rs []Expr
		for i := 0; i < np; i++ {
			rs = append(rs, Name(fmt.Sprintf("p%d", i+1)))
		}
		if np == 0 {
			// returns its first local only; the second stays behind it
			st = append(st, Local(names("k1", "k2", "k3"), Str("leak1"), Str("leak2"), Str("leak3")), Return(Name("k1")))
		} else {
			st = append(st, Local(names("k1", "k2"), Str("leak1"), Str("leak2")), Return(rs...))
		}
	case 5: // {...} and select with negative index
		st = append(st, Emit(ps...), Local1("tt", TableE(Pos1(Vararg()))), Return(Index(Name("tt"), Num(1)), CallN("select", Str("#"), Vararg())))
	}
	return st
}

func params(np int) []string {
	var ps []string
	for i := 0; i < np; i++ {
		ps = append(ps, fmt.Sprintf("p%d", i+1))
	}
	return ps
}

func genCall(thorough bool) Gen {
	return func(yield func(*Prog)) {
		type argv struct {
			name string
			mk   func() []Expr
		}
		lastVariants := []struct {
			name string
			mk   func() Expr
		}{
			{"", nil},
			{"f3()", func() Expr { return CallN("f3") }},
			{"...", func() Expr { return Vararg() }},
			{"(f3())", func() Expr { return Paren(CallN("f3")) }},
			{"(...)", func() Expr { return Paren(Vararg()) }},
			{"f0()", func() Expr { return CallN("f0") }},
			{"nil", func() Expr { return Nil() }},
			{"hn(2)", func() Expr { return CallN("hn", Num(2)) }},
		}
		var argvs []argv
		for k := 0; k <= 4; k++ {
			for _, lv := range lastVariants {
				if lv.mk == nil {
					k := k
					argvs = append(argvs, argv{fmt.Sprintf("%dargs", k), func() []Expr {
						var a []Expr
						for i := 0; i < k; i++ {
							a = append(a, Num(float64(11+i)))
						}
						return a
					}})
					continue
				}
				if k == 4 {
					continue
				}
				k, lv := k, lv
				argvs = append(argvs, argv{fmt.Sprintf("%dargs+%s", k, lv.name), func() []Expr {
					var a []Expr
					for i := 0; i < k; i++ {
						a = append(a, Num(float64(11+i)))
					}
					return append(a, lv.mk())
				}})
			}
		}
		type ctx struct {
			name string
			tail bool
			mk   func(e Expr) []Stat
		}
		xyz := func() []Expr { return []Expr{Name("x"), Name("y"), Name("z")} }
		ctxs := []ctx{
			{"stat", false, func(e Expr) []Stat { return []Stat{&CallStat{Call: e}} }},
			{"argmid", false, func(e Expr) []Stat { return []Stat{Emit(Num(1), e, Num(2))} }},
			{"arglast", false, func(e Expr) []Stat { return []Stat{Emit(Num(1), e)} }},
			{"return", true, func(e Expr) []Stat { return []Stat{Return(e)} }},
			{"return2", false, func(e Expr) []Stat { return []Stat{Return(Num(0), e)} }},
			{"returnparen", false, func(e Expr) []Stat { return []Stat{Return(Paren(e))} }},
			{"count", false, func(e Expr) []Stat { return []Stat{Emit(CallN("select", Str("#"), e))} }},
			{"tcons", false, func(e Expr) []Stat {
				return []Stat{Local1("tt", TableE(Pos1(e))), Emit(Index(Name("tt"), Num(1)), Index(Name("tt"), Num(2)), Index(Name("tt"), Num(3)), Index(Name("tt"), Num(4)))}
			}},
			{"tcons1", false, func(e Expr) []Stat {
				return []Stat{Local1("tt", TableE(Pos1(e), Pos1(Num(1)))), Emit(Index(Name("tt"), Num(1)), Index(Name("tt"), Num(2)), Index(Name("tt"), Num(3)))}
			}},
			{"assign1", false, func(e Expr) []Stat {
				return []Stat{Local(names("x", "y", "z"), Num(1), Num(2), Num(3)), Assign([]Expr{Name("x")}, e), Emit(xyz()...)}
			}},
			{"assign3", false, func(e Expr) []Stat {
				return []Stat{Local(names("x", "y", "z"), Num(1), Num(2), Num(3)), Assign(xyz(), e), Emit(xyz()...)}
			}},
			{"assign0e", false, func(e Expr) []Stat {
				return []Stat{Local(names("x", "y", "z"), Num(1), Num(2), Num(3)), Assign(xyz(), Num(0), e), Emit(xyz()...)}
			}},
			{"assigne0", false, func(e Expr) []Stat {
				return []Stat{Local(names("x", "y", "z"), Num(1), Num(2), Num(3)), Assign(xyz(), e, Num(0)), Emit(xyz()...)}
			}},
			{"local1", false, func(e Expr) []Stat { return []Stat{Local(names("x"), e), Emit(Name("x"))} }},
			{"local3", false, func(e Expr) []Stat { return []Stat{Local(names("x", "y", "z"), e), Emit(xyz()...)} }},
			{"local0e", false, func(e Expr) []Stat { return []Stat{Local(names("x", "y", "z"), Num(0), e), Emit(xyz()...)} }},
			{"operand", false, func(e Expr) []Stat { return []Stat{Emit(Bin("==", e, Num(11)))} }},
			{"cond", false, func(e Expr) []Stat { return []Stat{IfElse(e, []Stat{Emit(Num(1))}, []Stat{Emit(Num(2))})} }},
			{"global", false, func(e Expr) []Stat {
				return []Stat{Assign([]Expr{Name("gx"), Name("gy")}, e), Emit(Name("gx"), Name("gy"))}
			}},
			{"field", false, func(e Expr) []Stat {
				return []Stat{Assign([]Expr{Dot(Name("t"), "p"), Dot(Name("t"), "q")}, e), Emit(Dot(Name("t"), "p"), Dot(Name("t"), "q"))}
			}},
			{"pcallarg", false, func(e Expr) []Stat { return []Stat{Emit(CallN("pcall", Name("hid"), e))} }},
		}
		f0 := func() Stat { return LocalFunc("f0", Func(nil, false)) }
		pre := func(extra ...Stat) []Stat { return append(append(exprPrelude(), f0()), extra...) }

		emitAll := func(family, calleeName string, def func() []Stat, call func(args []Expr) Expr, avs []argv, cs []ctx) {
			for _, av := range avs {
				for _, c := range cs {
					av, c := av, c
					yield(&Prog{Family: family, Shape: calleeName + "(" + av.name + ")@" + c.name, Mk: func() *Block {
						return wrapTest(pre(def()...), c.mk(call(av.mk())))
					}})
				}
			}
		}
		// K1: Lua closures of every shape
		for np := 0; np <= 3; np++ {
			for _, va := range []bool{false, true} {
				for body := 0; body <= 6; body++ {
					if !va && (body == 1 || body == 2 || body == 5) {
						continue
					}
					if va && body == 6 {
						continue
					}
					np, va, body := np, va, body
					name := fmt.Sprintf("lua[p%d,va=%v,b%d]", np, va, body)
					def := func() []Stat { return []Stat{LocalFunc("callee", Func(params(np), va, c02Body(np, va, body)...))} }
					call := func(a []Expr) Expr { return CallN("callee", a...) }
					avs, cs := argvs, ctxs
					if !thorough && body >= 3 && body != 6 {
						cs = []ctx{ctxs[0], ctxs[2], ctxs[3], ctxs[7], ctxs[10], ctxs[14]}
					}
					emitAll("F-call", name, def, call, avs, cs)
				}
			}
		}
		// K2: host (Go) callees
		emitAll("F-call", "host:hid", func() []Stat { return nil }, func(a []Expr) Expr { return CallN("hid", a...) }, argvs, ctxs)
		for p := 0; p <= 3; p++ {
			for c := 0; c <= p+2; c++ {
				p, c := p, c
				emitAll("F-call", fmt.Sprintf("host:hpush(%d,%d)", p, c), func() []Stat { return nil }, func(a []Expr) Expr { return CallN("hpush", Num(float64(p)), Num(float64(c))) }, argvs[:1], ctxs)
			}
		}
		for k := 0; k <= 4; k++ {
			k := k
			emitAll("F-call", fmt.Sprintf("host:hn(%d)", k), func() []Stat { return nil }, func(a []Expr) Expr { return CallN("hn", Num(float64(k))) }, argvs[:1], ctxs)
		}
		// host function calling back into Lua
		emitAll("F-call", "host:hcall(lua)", func() []Stat { return []Stat{LocalFunc("callee", Func(params(2), true, c02Body(2, true, 1)...))} },
			func(a []Expr) Expr { return CallN("hcall", append([]Expr{Name("callee")}, a...)...) }, argvs, ctxs)
		// K3: __call objects
		for _, body := range []int{0, 1, 3} {
			body := body
			def := func() []Stat {
				h := Func(append([]string{"self"}, params(2)...), true, c02Body(2, true, body)...)
				return []Stat{Local1("obj", CallN("setmetatable", TableE(), TableE(NamedField("__call", h))))}
			}
			emitAll("F-call", fmt.Sprintf("__call[b%d]", body), def, func(a []Expr) Expr { return CallN("obj", a...) }, argvs, ctxs)
		}
		// K4: method calls, with the method name as an ordinary constant and beyond constant index 255
		for _, far := range []bool{false, true} {
			for _, body := range []int{0, 1} {
				far, body := far, body
				def := func() []Stat {
					m := Func(append([]string{"self"}, params(2)...), true, append([]Stat{Emit(Str("self"), Bin("==", Name("self"), Name("obj")))}, c02Body(2, true, body)...)...)
					st := []Stat{Local1("obj", TableE(NamedField("meth", m)))}
					return st
				}
				call := func(a []Expr) Expr { return Method(Name("obj"), "meth", a...) }
				name := fmt.Sprintf("method[far=%v,b%d]", far, body)
				for _, av := range argvs {
					for _, c := range ctxs {
						av, c := av, c
						yield(&Prog{Family: "F-call", Shape: name + "(" + av.name + ")@" + c.name, Mk: func() *Block {
							body := c.mk(call(av.mk()))
							if far {
								var fs []Field
								for i := 0; i < 260; i++ {
									fs = append(fs, Pos1(Num(float64(1001+i))))
								}
								body = append([]Stat{Local1("kk", TableE(fs...))}, body...)
							}
							return wrapTest(pre(def()...), body)
						}})
					}
				}
			}
		}
		// K5: through pcall
		for _, body := range []int{0, 1, 3, 4} {
			body := body
			def := func() []Stat { return []Stat{LocalFunc("callee", Func(params(2), true, c02Body(2, true, body)...))} }
			emitAll("F-call", fmt.Sprintf("pcall[b%d]", body), def, func(a []Expr) Expr { return CallN("pcall", append([]Expr{Name("callee")}, a...)...) }, argvs, ctxs)
		}
		// non-vararg Lua callees with 1-3 parameters reached through pcall, a host call-back and a
		// __call object (the callee is entered through the Go-side frame set-up, not through OP_CALL)
		for np := 1; np <= 3; np++ {
			for _, body := range []int{0, 3} {
				np, body := np, body
				def := func() []Stat {
					return []Stat{LocalFunc("callee", Func(params(np), false, c02Body(np, false, body)...))}
				}
				emitAll("F-call", fmt.Sprintf("pcall-fixed[p%d,b%d]", np, body), def, func(a []Expr) Expr { return CallN("pcall", append([]Expr{Name("callee")}, a...)...) }, argvs, ctxs[:8])
				emitAll("F-call", fmt.Sprintf("hcall-fixed[p%d,b%d]", np, body), def, func(a []Expr) Expr { return CallN("hcall", append([]Expr{Name("callee")}, a...)...) }, argvs, ctxs[:8])
				defObj := func() []Stat {
					h := Func(append([]string{"self"}, params(np)...), false, c02Body(np, false, body)...)
					return []Stat{Local1("obj", CallN("setmetatable", TableE(), TableE(NamedField("__call", h))))}
				}
				emitAll("F-call", fmt.Sprintf("__call-fixed[p%d,b%d]", np, body), defObj, func(a []Expr) Expr { return CallN("pcall", append([]Expr{Name("obj")}, a...)...) }, argvs, ctxs[:6])
			}
		}
		// for-in explist: the call supplies iterator, state and control
		for _, nret := range []int{1, 2, 3, 4} {
			nret := nret
			yield(&Prog{Family: "F-call", Shape: fmt.Sprintf("forin-explist[%d]", nret), Mk: func() *Block {
				iter := LocalFunc("iter", Func(names("s", "c"), false, Emit(Str("iter"), Name("s"), Name("c")), If(Bin("<", Bin("or", Name("c"), Num(0)), Num(2)), Return(Bin("+", Bin("or", Name("c"), Num(0)), Num(1)), Str("v")))))
				rs := []Expr{Name("iter"), Str("state"), Num(0), Str("extra")}[:nret]
				mk := LocalFunc("mk", Func(nil, false, Return(rs...)))
				return wrapTest(pre(iter, mk), []Stat{GenFor(names("a", "b"), []Expr{CallN("mk")}, Emit(Name("a"), Name("b")))})
			}})
		}
	}
}

// ---- F-select --------------------------------------------------------------------------------------

func genSelectUnpack(thorough bool) Gen {
	return func(yield func(*Prog)) {
		pre := exprPrelude
		// select(n, v1..vk)
		for k := 0; k <= 4; k++ {
			for n := -k - 2; n <= k+2; n++ {
				k, n := k, n
				for _, form := range []string{"arglast", "local", "count"} {
					form := form
					yield(&Prog{Family: "F-select", Shape: fmt.Sprintf("select(%d;%d)@%s", n, k, form), Mk: func() *Block {
						args := []Expr{Num(float64(n))}
						if n < 0 {
							args = []Expr{Un("-", Num(float64(-n)))}
						}
						for i := 0; i < k; i++ {
							args = append(args, Num(float64(31+i)))
						}
						call := CallN("select", args...)
						var body []Stat
						switch form {
						case "arglast":
							body = []Stat{Emit(Str("s"), call)}
						case "local":
							body = []Stat{Local(names("x", "y"), call), Emit(Name("x"), Name("y"))}
						case "count":
							body = []Stat{Emit(CallN("select", Str("#"), call))}
						}
						return wrapTest(pre(), body)
					}})
				}
			}
			k := k
			yield(&Prog{Family: "F-select", Shape: fmt.Sprintf("select(#;%d)", k), Mk: func() *Block {
				args := []Expr{Str("#")}
				for i := 0; i < k; i++ {
					args = append(args, Nil())
				}
				return wrapTest(pre(), []Stat{Emit(CallN("select", args...))})
			}})
			// through varargs
			for n := -k - 1; n <= k+1; n++ {
				n := n
				if n == 0 {
					continue
				}
				yield(&Prog{Family: "F-select", Shape: fmt.Sprintf("select(%d,...;%d)", n, k), Mk: func() *Block {
					var idx Expr = Num(float64(n))
					if n < 0 {
						idx = Un("-", Num(float64(-n)))
					}
					f := LocalFunc("vf", Func(nil, true, Return(CallN("select", idx, Vararg()))))
					var args []Expr
					for i := 0; i < k; i++ {
						args = append(args, Num(float64(31+i)))
					}
					return wrapTest(append(pre(), f), []Stat{Emit(Str("r"), CallN("vf", args...))})
				}})
			}
		}
		// unpack(t, i, j)
		for l := 0; l <= 4; l++ {
			for i := -2; i <= 6; i++ { // -2 stands for "omitted"
				for j := -2; j <= 6; j++ {
					if i == -2 && j != -2 {
						continue
					}
					l, i, j := l, i, j
					yield(&Prog{Family: "F-select", Shape: fmt.Sprintf("unpack(len%d,%d,%d)", l, i, j), Mk: func() *Block {
						var fs []Field
						for k := 0; k < l; k++ {
							fs = append(fs, Pos1(Num(float64(41+k))))
						}
						args := []Expr{Name("lst")}
						num := func(v int) Expr {
							if v < 0 {
								return Un("-", Num(float64(-v)))
							}
							return Num(float64(v))
						}
						if i != -2 {
							args = append(args, num(i))
						}
						if j != -2 {
							args = append(args, num(j))
						}
						return wrapTest(pre(), []Stat{Local1("lst", TableE(fs...)), Emit(Str("u"), CallN("unpack", args...)), Emit(CallN("select", Str("#"), CallN("unpack", args...)))})
					}})
				}
			}
		}
		// many results: table constructor / argument list / varargs around the flush boundary
		counts := []int{49, 50, 51, 99, 100, 101, 149, 150, 151}
		if thorough {
			counts = append(counts, 1, 2, 48, 52, 199, 200)
		}
		for _, n := range counts {
			for variant := 0; variant < 6; variant++ {
				n, variant := n, variant
				yield(&Prog{Family: "F-select", Shape: fmt.Sprintf("many(%d)/v%d", n, variant), Mk: func() *Block {
					build := []Stat{Local1("big", TableE()), NumFor("i", Num(1), Num(float64(n)), nil, Assign1(Index(Name("big"), Name("i")), Bin("+", Name("i"), Num(1000))))}
					var body []Stat
					obs := func(t string, extra int) Stat {
						var es []Expr
						es = append(es, Un("#", Name(t)))
						for _, i := range []int{1, 2, n - 1, n, n + 1, n + extra, n + extra + 1} {
							if i >= 1 {
								es = append(es, Index(Name(t), Num(float64(i))))
							}
						}
						return Emit(es...)
					}
					switch variant {
					case 0:
						body = []Stat{Local1("tt", TableE(Pos1(CallN("unpack", Name("big"))))), obs("tt", 0)}
					case 1:
						body = []Stat{Local1("tt", TableE(Pos1(Num(7)), Pos1(CallN("unpack", Name("big"))))), obs("tt", 1)}
					case 2:
						body = []Stat{Emit(CallN("select", Str("#"), CallN("unpack", Name("big"))))}
					case 3:
						vf := LocalFunc("vf", Func(nil, true, Local1("tt", TableE(Pos1(Vararg()))), Return(Un("#", Name("tt")), Index(Name("tt"), Num(float64(n))), CallN("select", Str("#"), Vararg()))))
						body = []Stat{vf, Emit(CallN("vf", CallN("unpack", Name("big"))))}
					case 4:
						vf := LocalFunc("vf", Func(names("a", "b"), true, Return(Name("a"), Name("b"), CallN("select", Un("-", Num(1)), Vararg()))))
						body = []Stat{vf, Emit(CallN("vf", CallN("unpack", Name("big"))))}
					case 5:
						body = []Stat{Emit(CallN("select", Num(float64(n)), CallN("hid", CallN("unpack", Name("big")))))}
					}
					return wrapTest(pre(), append(build, body...))
				}})
			}
		}
	}
}

// ---- F-tail ----------------------------------------------------------------------------------------

func genTail(thorough bool) Gen {
	return func(yield func(*Prog)) {
		iters := 8.0
		type kind struct {
			name string
			mk   func() []Stat // defines global function run(n) which loops by tail calls and calls tsnap() each iteration
		}
		ret := func(e Expr) Stat { return Return(e) }
		kinds := []kind{
			{"self", func() []Stat {
				return []Stat{LocalFunc("loop", Func(names("n", "acc"), false, CallS(Name("tsnap")), If(Bin("==", Name("n"), Num(0)), Return(Name("acc"))), ret(CallN("loop", Bin("-", Name("n"), Num(1)), Bin("+", Name("acc"), Num(1)))))),
					Emit(CallN("loop", Num(iters), Num(0)))}
			}},
			{"mutual", func() []Stat {
				return []Stat{Local(names("ping", "pong")),
					Assign1(Name("ping"), Func(names("n"), false, CallS(Name("tsnap")), If(Bin("==", Name("n"), Num(0)), Return(Str("done"))), ret(CallN("pong", Bin("-", Name("n"), Num(1)))))),
					Assign1(Name("pong"), Func(names("n"), false, CallS(Name("tsnap")), If(Bin("==", Name("n"), Num(0)), Return(Str("done"))), ret(CallN("ping", Bin("-", Name("n"), Num(1)))))),
					// both functions take the same number of snapshots per pair; compare every second one
					Emit(CallN("ping", Num(iters)))}
			}},
			{"method", func() []Stat {
				m := Func(names("self", "n"), false, CallS(Name("tsnap")), If(Bin("==", Name("n"), Num(0)), Return(Str("done"))), ret(Method(Name("self"), "step", Bin("-", Name("n"), Num(1)))))
				return []Stat{Local1("o", TableE(NamedField("step", m))), Emit(Method(Name("o"), "step", Num(iters)))}
			}},
			{"__call", func() []Stat {
				h := Func(names("self", "n"), false, CallS(Name("tsnap")), If(Bin("==", Name("n"), Num(0)), Return(Str("done"))), ret(CallN("obj", Bin("-", Name("n"), Num(1)))))
				return []Stat{Local1("obj", Nil()), Assign1(Name("obj"), CallN("setmetatable", TableE(), TableE(NamedField("__call", h)))), Emit(CallN("obj", Num(iters)))}
			}},
			{"vararg", func() []Stat {
				return []Stat{LocalFunc("loop", Func(names("n"), true, CallS(Name("tsnap")), If(Bin("==", Name("n"), Num(0)), Return(Vararg())), ret(CallN("loop", Bin("-", Name("n"), Num(1)), Vararg())))),
					Emit(CallN("loop", Num(iters), Num(5), Num(6)))}
			}},
			{"manyargs", func() []Stat {
				return []Stat{LocalFunc("loop", Func(names("n", "a", "b", "c", "d"), false, CallS(Name("tsnap")), Local(names("l1", "l2", "l3"), Name("a"), Name("b"), Name("c")), If(Bin("==", Name("n"), Num(0)), Return(Name("a"), Name("d"))), ret(CallN("loop", Bin("-", Name("n"), Num(1)), Name("b"), Name("a"), Name("l3"), Name("d"))))),
					Emit(CallN("loop", Num(iters), Num(1), Num(2), Num(3), Num(4)))}
			}},
			{"upvalue", func() []Stat {
				// each iteration creates a closure over its parameter; the tail call must close it
				return []Stat{Local1("keep", TableE()), LocalFunc("loop", Func(names("n"), false, CallS(Name("tsnap")), Assign1(Index(Name("keep"), Bin("+", Un("#", Name("keep")), Num(1))), Func(nil, false, Return(Name("n")))), If(Bin("==", Name("n"), Num(0)), Return(Str("done"))), ret(CallN("loop", Bin("-", Name("n"), Num(1)))))),
					Emit(CallN("loop", Num(iters))), Emit(CallS(Index(Name("keep"), Num(1))).Call, CallS(Index(Name("keep"), Num(3))).Call, CallS(Index(Name("keep"), Num(9))).Call)}
			}},
		}
		for _, k := range kinds {
			k := k
			yield(&Prog{Family: "F-tail", Shape: k.name, Mk: func() *Block { return Blk(k.mk()...) }})
		}
	}
}

// c02LongTail runs 10^6 tail-recursive iterations under a tiny fixed call stack.
func c02LongTail(r *harness.Run) {
	progs := map[string]string{
		"self":   `local function loop(n, acc) if n == 0 then return acc end return loop(n - 1, acc + 1) end return loop(1000000, 0)`,
		"mutual": `local ping, pong; function ping(n) if n == 0 then return "done" end return pong(n - 1) end function pong(n) if n == 0 then return "done" end return ping(n - 1) end return ping(1000000)`,
		"method": `local o = {} function o:step(n) if n == 0 then return "done" end return self:step(n - 1) end return o:step(1000000)`,
		"__call": `local obj; obj = setmetatable({}, {__call = function(self, n) if n == 0 then return "done" end return obj(n - 1) end}) return obj(1000000)`,
		"vararg": `local function loop(n, ...) if n == 0 then return select('#', ...) end return loop(n - 1, ...) end return loop(1000000, 1, 2, 3)`,
	}
	want := map[string]string{"self": "1000000", "mutual": "done", "method": "done", "__call": "done", "vararg": "3"}
	for _, minimize := range []bool{false, true} {
		for name, src := range progs {
			L := lua.NewState(lua.Options{CallStackSize: 8, MinimizeStackMemory: minimize})
			err := L.DoString(src)
			got := ""
			if err == nil {
				got = L.Get(-1).String()
			}
			L.Close()
			r.Eval("longtail/"+name+fmt.Sprint(minimize), true, func() interface{} {
				return map[string]interface{}{"family": "F-longtail", "program": src, "CallStackSize": 8, "MinimizeStackMemory": minimize}
			})
			if err != nil || got != want[name] {
				msg := fmt.Sprintf("10^6 tail calls under CallStackSize 8 (MinimizeStackMemory=%v): err=%v result=%q want %q", minimize, err, got, want[name])
				if len(msg) > 400 {
					msg = msg[:400]
				}
				r.Violation("F-longtail/"+name+"/"+strings.ReplaceAll(fmt.Sprint(minimize), " ", ""), msg+"\nprogram: "+src, map[string]interface{}{"program": src, "CallStackSize": 8, "MinimizeStackMemory": minimize})
			}
		}
	}
}
