package props

// C09 — a table is a finite map with a valid length border and complete traversal.
// Explicit-state BFS over operation histories; successor = replay of the history on a fresh real
// table + one more operation; reference model = Go map; state key = model + white-box dump of the
// table's internal layout, so merged states have the same futures.

import (
	"fmt"
	"math"
	"sort"
	"strings"
	"sync"

	lua "github.com/yuin/gopher-lua"

	"verif/internal/harness"
)

func init() { harness.Register("C09", "model_checking", runC09) }

// ---- alphabet -------------------------------------------------------------------------------

type c09Key struct {
	name     string     // canonical model key (numbers by value, so 1 and 1.0 coincide)
	lv       lua.LValue // the key as handed to the implementation
	lit      string     // Lua literal ("" if none)
	kind     byte       // 'n' number, 's' string, 'b' bool, 't' table
	isInt    bool
	i        int
	arrayKey bool // lies in the array part (1 <= k < MaxArrayIndex, integral)
}

type c09Val struct {
	name string
	lv   lua.LValue
}

const c09MaxArrayIndex = 8

var c09T0 = &lua.LTable{} // a table used as key; shared, never mutated
var c09T0init sync.Once

func c09Keys() []c09Key {
	num := func(f float64, lit string) c09Key {
		k := c09Key{name: fmt.Sprintf("n:%v", f), lv: lua.LNumber(f), lit: lit, kind: 'n'}
		if f == math.Trunc(f) && math.Abs(f) < 1e9 {
			k.isInt, k.i = true, int(f)
			k.arrayKey = f >= 1 && f < c09MaxArrayIndex
		}
		return k
	}
	return []c09Key{
		num(1, "1"), num(2, "2"), num(3, "3"), num(5, "5"), num(0, "0"), num(-1, "-1"), num(1.5, "1.5"),
		num(c09MaxArrayIndex-1, "7"), num(c09MaxArrayIndex, "8"), num(c09MaxArrayIndex+1, "9"),
		num(9007199254740992, "9007199254740992"),
		{name: "s:a", lv: lua.LString("a"), lit: `"a"`, kind: 's'},
		{name: "s:1", lv: lua.LString("1"), lit: `"1"`, kind: 's'},
		{name: "b:true", lv: lua.LTrue, lit: "true", kind: 'b'},
		{name: "b:false", lv: lua.LFalse, lit: "false", kind: 'b'},
		{name: "t:T0", lv: c09T0, lit: "", kind: 't'},
	}
}

var c09Vals = []c09Val{{"x", lua.LString("x")}, {"y", lua.LString("y")}, {"false", lua.LFalse}, {"nil", lua.LNil}}

// setters: index into this list is part of an operation
var c09Setters = []string{"lua_reg", "lua_const", "lua_rawset", "L.SetTable", "L.RawSet", "L.RawSetInt", "L.SetField", "tb.RawSet", "tb.RawSetInt", "tb.RawSetString", "tb.RawSetH"}

func c09SetterApplies(s string, k *c09Key) bool {
	switch s {
	case "lua_const":
		return k.lit != ""
	case "L.RawSetInt", "tb.RawSetInt":
		return k.isInt
	case "L.SetField", "tb.RawSetString":
		return k.kind == 's'
	case "tb.RawSetH":
		return !k.arrayKey // hash-part accessors are used with hash-part keys only
	}
	return true
}

type c09Op struct {
	Kind   string `json:"op"` // "set" | "append"
	Setter string `json:"via,omitempty"`
	Key    int    `json:"key"`
	Val    int    `json:"val"`
}

func (o c09Op) String(keys []c09Key) string {
	if o.Kind == "root" {
		return "t = " + c09Roots[o.Key]
	}
	if o.Kind == "append" {
		return fmt.Sprintf("Append(%s)", c09Vals[o.Val].name)
	}
	return fmt.Sprintf("%s[%s]=%s", o.Setter, keys[o.Key].name, c09Vals[o.Val].name)
}

// ---- per-worker implementation driver ---------------------------------------------------------

type c09Worker struct {
	L                         *lua.LState
	keys                      []c09Key
	fnSet                     *lua.LFunction // function(t,k,v) t[k]=v end
	fnGet                     *lua.LFunction
	fnLen                     *lua.LFunction
	fnRawset, fnRawget        *lua.LFunction
	fnSetC                    []*lua.LFunction // per key: constant-key store
	fnGetC                    []*lua.LFunction
	fnPairs, fnNext, fnIpairs *lua.LFunction
	fnNextMut                 *lua.LFunction
	emitted                   []lua.LValue
	mutAt                     int
	mutFn                     func()
}

func newC09Worker() *c09Worker {
	w := &c09Worker{keys: c09Keys()}
	w.L = lua.NewState()
	L := w.L
	L.SetGlobal("emit", L.NewFunction(func(L *lua.LState) int {
		for i := 1; i <= L.GetTop(); i++ {
			w.emitted = append(w.emitted, L.Get(i))
		}
		return 0
	}))
	L.SetGlobal("mut", L.NewFunction(func(L *lua.LState) int {
		step := L.ToInt(1)
		if step == w.mutAt && w.mutFn != nil {
			w.mutFn()
		}
		return 0
	}))
	load := func(src string) *lua.LFunction {
		if err := L.DoString("return " + src); err != nil {
			harness.Fatal("c09 load %q: %v", src, err)
		}
		f := L.Get(-1).(*lua.LFunction)
		L.Pop(1)
		return f
	}
	w.fnSet = load("function(t,k,v) t[k]=v end")
	w.fnGet = load("function(t,k) return t[k] end")
	w.fnLen = load("function(t) return #t end")
	w.fnRawset = load("function(t,k,v) rawset(t,k,v) end")
	w.fnRawget = load("function(t,k) return rawget(t,k) end")
	// (every driver gives up after 1000 steps: no table of this check has that many fields, and a
	// traversal that cycles must end as a violation, not exhaust memory)
	w.fnPairs = load("function(t) local n=0 for k,v in pairs(t) do emit(k,v) n=n+1 if n>1000 then error('traversal does not terminate') end end end")
	w.fnNext = load("function(t) local n=0 local k,v = next(t) while k ~= nil do emit(k,v) n=n+1 if n>1000 then error('traversal does not terminate') end k,v = next(t,k) end end")
	w.fnNextMut = load("function(t) local i=0 for k,v in next,t do emit(k,v) i=i+1 if i>1000 then error('traversal does not terminate') end mut(i) end end")
	w.fnIpairs = load("function(t) for i,v in ipairs(t) do emit(i,v) end end")
	for _, k := range w.keys {
		if k.lit == "" {
			w.fnSetC = append(w.fnSetC, nil)
			w.fnGetC = append(w.fnGetC, nil)
			continue
		}
		if k.kind == 's' && k.lit == `"a"` {
			w.fnSetC = append(w.fnSetC, load("function(t,v) t.a=v end"))
			w.fnGetC = append(w.fnGetC, load("function(t) return t.a end"))
			continue
		}
		w.fnSetC = append(w.fnSetC, load("function(t,v) t["+k.lit+"]=v end"))
		w.fnGetC = append(w.fnGetC, load("function(t) return t["+k.lit+"] end"))
	}
	return w
}

// call runs f protected; returns results (nret of them) and error
func (w *c09Worker) call(f *lua.LFunction, nret int, args ...lua.LValue) ([]lua.LValue, error) {
	L := w.L
	top := L.GetTop()
	L.Push(f)
	for _, a := range args {
		L.Push(a)
	}
	if err := L.PCall(len(args), nret, nil); err != nil {
		L.SetTop(top)
		return nil, err
	}
	var out []lua.LValue
	for i := top + 1; i <= L.GetTop(); i++ {
		out = append(out, L.Get(i))
	}
	L.SetTop(top)
	return out, nil
}

// applySet performs one store on the implementation; returns an error if the store raised.
func (w *c09Worker) applySet(tb *lua.LTable, setter string, ki, vi int) (err error) {
	k := &w.keys[ki]
	v := c09Vals[vi].lv
	defer func() {
		if r := recover(); r != nil {
			err = fmt.Errorf("GO PANIC: %v", r)
		}
	}()
	switch setter {
	case "lua_reg":
		_, err = w.call(w.fnSet, 0, tb, k.lv, v)
	case "lua_const":
		_, err = w.call(w.fnSetC[ki], 0, tb, v)
	case "lua_rawset":
		_, err = w.call(w.fnRawset, 0, tb, k.lv, v)
	case "L.SetTable":
		w.L.SetTable(tb, k.lv, v)
	case "L.RawSet":
		w.L.RawSet(tb, k.lv, v)
	case "L.RawSetInt":
		w.L.RawSetInt(tb, k.i, v)
	case "L.SetField":
		w.L.SetField(tb, string(k.lv.(lua.LString)), v)
	case "tb.RawSet":
		tb.RawSet(k.lv, v)
	case "tb.RawSetInt":
		tb.RawSetInt(k.i, v)
	case "tb.RawSetString":
		tb.RawSetString(string(k.lv.(lua.LString)), v)
	case "tb.RawSetH":
		tb.RawSetH(k.lv, v)
	default:
		harness.Fatal("setter %s", setter)
	}
	return err
}

// ---- model ------------------------------------------------------------------------------------

type c09Model map[string]int // key name -> value index (never the nil value)

func (m c09Model) clone() c09Model {
	n := make(c09Model, len(m)+1)
	for k, v := range m {
		n[k] = v
	}
	return n
}

func (m c09Model) String() string {
	ks := make([]string, 0, len(m))
	for k, v := range m {
		ks = append(ks, k+"="+c09Vals[v].name)
	}
	sort.Strings(ks)
	return strings.Join(ks, ",")
}

func c09IntName(i int) string { return fmt.Sprintf("n:%v", float64(i)) }

// borders of the model: all n >= 0 with (n == 0 or t[n] ~= nil) and t[n+1] == nil
func (m c09Model) isBorder(n int) bool {
	if n < 0 {
		return false
	}
	if n > 0 {
		if _, ok := m[c09IntName(n)]; !ok {
			return false
		}
	}
	_, ok := m[c09IntName(n+1)]
	return !ok
}

func c09Render(v lua.LValue) string {
	switch x := v.(type) {
	case nil:
		return "<go-nil>"
	case *lua.LNilType:
		return "nil"
	case lua.LBool:
		return "b:" + x.String()
	case lua.LNumber:
		return fmt.Sprintf("n:%v", float64(x))
	case lua.LString:
		return "s:" + string(x)
	case *lua.LTable:
		if x == c09T0 {
			return "t:T0"
		}
		return "t:?"
	}
	return "?" + v.Type().String()
}

func c09ValName(v lua.LValue) string {
	switch x := v.(type) {
	case *lua.LNilType:
		return "nil"
	case lua.LBool:
		if !bool(x) {
			return "false"
		}
	case lua.LString:
		return string(x)
	}
	return "?" + c09Render(v)
}

func c09Layout(tb *lua.LTable) string {
	arr, keys, vals, dl, sl := lua.VerifTableDump(tb)
	var b strings.Builder
	b.WriteString("A[")
	for _, v := range arr {
		b.WriteString(c09Render(v))
		b.WriteByte(' ')
	}
	b.WriteString("]K[")
	for i, k := range keys {
		b.WriteString(c09Render(k))
		b.WriteByte('=')
		b.WriteString(c09Render(vals[i]))
		b.WriteByte(' ')
	}
	fmt.Fprintf(&b, "]d%d,s%d", dl, sl)
	return b.String()
}

// ---- the check --------------------------------------------------------------------------------

type c09State struct {
	hist []c09Op
}

type c09Ctx struct {
	r    *harness.Run
	keys []c09Key
}

// replay builds the table for a history on a fresh table, tracking the model; any divergence in
// the cheap per-transition check is reported. ok=false when a violation was found on the way.
// c09Roots: how the table under test is created (a history may start with a "root" pseudo-operation)
var c09Roots = []string{"L.NewTable()", "L.CreateTable(0,0)", "L.CreateTable(0,4)", "L.CreateTable(4,0)", "L.CreateTable(4,4)"}

func c09NewRoot(L *lua.LState, k int) *lua.LTable {
	switch k {
	case 1:
		return L.CreateTable(0, 0)
	case 2:
		return L.CreateTable(0, 4)
	case 3:
		return L.CreateTable(4, 0)
	case 4:
		return L.CreateTable(4, 4)
	}
	return L.NewTable()
}

func (c *c09Ctx) replay(w *c09Worker, hist []c09Op, checkLast bool) (*lua.LTable, c09Model, bool) {
	tb := w.L.NewTable()
	if len(hist) > 0 && hist[0].Kind == "root" {
		tb = c09NewRoot(w.L, hist[0].Key)
	}
	m := c09Model{}
	for i, op := range hist {
		if op.Kind == "root" {
			continue
		}
		last := checkLast && i == len(hist)-1
		if !c.step(w, tb, m, op, hist[:i+1], last) {
			return tb, m, false
		}
	}
	return tb, m, true
}

func (c *c09Ctx) viol(sig, what string, hist []c09Op) {
	strs := make([]string, len(hist))
	for i, o := range hist {
		strs[i] = o.String(c.keys)
	}
	c.r.Violation(sig, what+"\nhistory: "+strings.Join(strs, " ; "), map[string]interface{}{"history": hist, "history_text": strs, "max_array_index": c09MaxArrayIndex})
}

// step applies op to implementation and model; when check is set, verifies the transition.
func (c *c09Ctx) step(w *c09Worker, tb *lua.LTable, m c09Model, op c09Op, hist []c09Op, check bool) bool {
	switch op.Kind {
	case "set":
		k := &w.keys[op.Key]
		err := w.applySet(tb, op.Setter, op.Key, op.Val)
		if err != nil {
			c.viol("set-error/"+op.Setter+"/"+k.name, fmt.Sprintf("store through %s raised: %v", op.Setter, err), hist)
			return false
		}
		if c09Vals[op.Val].name == "nil" {
			delete(m, k.name)
		} else {
			m[k.name] = op.Val
		}
	case "append":
		before := m.clone()
		func() {
			defer func() {
				if r := recover(); r != nil {
					c.viol("append-panic", fmt.Sprintf("Append panicked: %v", r), hist)
				}
			}()
			tb.Append(c09Vals[op.Val].lv)
		}()
		// Append(nil) is documented as a no-op; Append(v) stores v at n+1 for some border n.
		if _, full := before[c09IntName(c09MaxArrayIndex-1)]; full && c09Vals[op.Val].name != "nil" {
			// Appending behind key MaxArrayIndex-1 would need a 67M-slot array with the default
			// configuration: not judged. The model takes whatever the implementation shows.
			for n := 1; n <= c09MaxArrayIndex+2; n++ {
				if vn := c09ValName(tb.RawGet(lua.LNumber(n))); vn == "nil" {
					delete(m, c09IntName(n))
				} else {
					for vi, v := range c09Vals {
						if v.name == vn {
							m[c09IntName(n)] = vi
						}
					}
				}
			}
		} else if c09Vals[op.Val].name != "nil" {
			// find which positive integer key changed by reading the array-range keys back
			changed := -1
			for n := 1; n <= len(before)+2+c09MaxArrayIndex; n++ {
				got := c09ValName(tb.RawGet(lua.LNumber(n)))
				want := "nil"
				if vi, ok := before[c09IntName(n)]; ok {
					want = c09Vals[vi].name
				}
				if got != want {
					if changed != -1 || got != c09Vals[op.Val].name {
						c.viol("append-effect", fmt.Sprintf("Append changed more than one slot or stored a wrong value (key %d: %s -> %s)", n, want, got), hist)
						return false
					}
					changed = n
				}
			}
			if changed == -1 {
				c.viol("append-lost", "Append(v) with v ~= nil did not store v at any integer key", hist)
				return false
			}
			if !before.isBorder(changed - 1) {
				// At the array/hash boundary the value may be placed after a border of the array part only.
				c.viol("append-not-border", fmt.Sprintf("Append stored at key %d although %d is not a border of the table", changed, changed-1), hist)
				return false
			}
			m[c09IntName(changed)] = op.Val
		}
	}
	if check {
		// cheap transition check: every alphabet key read back raw equals the model
		for i := range w.keys {
			k := &w.keys[i]
			got := c09ValName(tb.RawGet(k.lv))
			want := "nil"
			if vi, ok := m[k.name]; ok {
				want = c09Vals[vi].name
			}
			if got != want {
				c.viol("readback/"+op.Kind+"/"+op.Setter+"/"+w.keys[op.Key].name+"/"+k.name, fmt.Sprintf("after the last operation tb.RawGet(%s) = %s, model says %s", k.name, got, want), hist)
				return false
			}
		}
	}
	return true
}

var c09Getters = []string{"lua_reg", "lua_const", "lua_rawget", "L.GetTable", "L.RawGet", "L.RawGetInt", "L.GetField", "tb.RawGet", "tb.RawGetInt", "tb.RawGetString", "tb.RawGetH"}

func (w *c09Worker) get(tb *lua.LTable, getter string, ki int) (v lua.LValue, applicable bool, err error) {
	k := &w.keys[ki]
	defer func() {
		if r := recover(); r != nil {
			err = fmt.Errorf("GO PANIC: %v", r)
		}
	}()
	one := func(r []lua.LValue, e error) (lua.LValue, bool, error) {
		if e != nil {
			return nil, true, e
		}
		return r[0], true, nil
	}
	switch getter {
	case "lua_reg":
		return one(w.call(w.fnGet, 1, tb, k.lv))
	case "lua_const":
		if k.lit == "" {
			return nil, false, nil
		}
		return one(w.call(w.fnGetC[ki], 1, tb))
	case "lua_rawget":
		return one(w.call(w.fnRawget, 1, tb, k.lv))
	case "L.GetTable":
		return w.L.GetTable(tb, k.lv), true, nil
	case "L.RawGet":
		return w.L.RawGet(tb, k.lv), true, nil
	case "L.RawGetInt":
		if !k.isInt {
			return nil, false, nil
		}
		return w.L.RawGetInt(tb, k.i), true, nil
	case "L.GetField":
		if k.kind != 's' {
			return nil, false, nil
		}
		return w.L.GetField(tb, string(k.lv.(lua.LString))), true, nil
	case "tb.RawGet":
		return tb.RawGet(k.lv), true, nil
	case "tb.RawGetInt":
		if !k.isInt {
			return nil, false, nil
		}
		return tb.RawGetInt(k.i), true, nil
	case "tb.RawGetString":
		if k.kind != 's' {
			return nil, false, nil
		}
		return tb.RawGetString(string(k.lv.(lua.LString))), true, nil
	case "tb.RawGetH":
		if k.arrayKey {
			return nil, false, nil
		}
		return tb.RawGetH(k.lv), true, nil
	}
	harness.Fatal("getter %s", getter)
	return nil, false, nil
}

// traversal drivers: each returns the visited (key,value) pairs
func (w *c09Worker) traverse(tb *lua.LTable, how string) (pairs [][2]lua.LValue, err error) {
	defer func() {
		if r := recover(); r != nil {
			err = fmt.Errorf("GO PANIC: %v", r)
		}
	}()
	w.emitted = w.emitted[:0]
	switch how {
	case "lua_pairs":
		_, err = w.call(w.fnPairs, 0, tb)
	case "lua_next":
		_, err = w.call(w.fnNext, 0, tb)
	case "tb.Next", "L.Next":
		var k lua.LValue = lua.LNil
		for n := 0; ; n++ {
			var v lua.LValue
			if how == "tb.Next" {
				k, v = tb.Next(k)
			} else {
				k, v = w.L.Next(tb, k)
			}
			if k == lua.LNil {
				break
			}
			if n > 1000 {
				return nil, fmt.Errorf("traversal does not terminate")
			}
			w.emitted = append(w.emitted, k, v)
		}
	case "tb.ForEach":
		tb.ForEach(func(k, v lua.LValue) {
			if len(w.emitted) > 2000 {
				panic("traversal does not terminate")
			}
			w.emitted = append(w.emitted, k, v)
		})
	case "L.ForEach":
		w.L.ForEach(tb, func(k, v lua.LValue) {
			if len(w.emitted) > 2000 {
				panic("traversal does not terminate")
			}
			w.emitted = append(w.emitted, k, v)
		})
	}
	if err != nil {
		return nil, err
	}
	for i := 0; i+1 < len(w.emitted); i += 2 {
		pairs = append(pairs, [2]lua.LValue{w.emitted[i], w.emitted[i+1]})
	}
	return pairs, nil
}

var c09Traversals = []string{"lua_pairs", "lua_next", "tb.Next", "L.Next", "tb.ForEach", "L.ForEach"}

// fullCheck evaluates every observer in a state. hist is the history that reaches it.
func (c *c09Ctx) fullCheck(w *c09Worker, tb *lua.LTable, m c09Model, hist []c09Op) {
	// 1. every getter x every key
	for _, g := range c09Getters {
		for ki := range w.keys {
			k := &w.keys[ki]
			v, ok, err := w.get(tb, g, ki)
			if !ok {
				continue
			}
			want := "nil"
			if vi, ok := m[k.name]; ok {
				want = c09Vals[vi].name
			}
			if err != nil {
				c.viol("get-error/"+g+"/"+k.name, fmt.Sprintf("read through %s raised: %v", g, err), hist)
				continue
			}
			if got := c09ValName(v); got != want {
				c.viol("get/"+g+"/"+k.name, fmt.Sprintf("%s(%s) = %s, model says %s", g, k.name, got, want), hist)
			}
		}
	}
	// 2. length is a border
	lens := map[string]int{"tb.Len": tb.Len(), "L.ObjLen": w.L.ObjLen(tb)}
	if r, err := w.call(w.fnLen, 1, tb); err != nil {
		c.viol("len-error", fmt.Sprintf("#t raised %v", err), hist)
	} else if n, ok := r[0].(lua.LNumber); ok {
		lens["lua_#"] = int(n)
	} else {
		c.viol("len-type", "#t is not a number", hist)
	}
	for how, n := range lens {
		if _, atBoundary := m[c09IntName(c09MaxArrayIndex)]; atBoundary && n == c09MaxArrayIndex-1 {
			continue // array/hash boundary artefact of the lowered MaxArrayIndex: not judged (see assumptions)
		}
		if !m.isBorder(n) {
			c.viol(fmt.Sprintf("border/%s", how), fmt.Sprintf("%s = %d is not a border of {%s}", how, n, m), hist)
		}
	}
	// 3. traversals visit exactly the model's key set, each once, with current values
	for _, how := range c09Traversals {
		ps, err := w.traverse(tb, how)
		if err != nil {
			c.viol("traverse-error/"+how, fmt.Sprintf("%s raised %v", how, err), hist)
			continue
		}
		seen := map[string]bool{}
		bad := ""
		for _, p := range ps {
			kn := c09Render(p[0])
			if seen[kn] {
				bad = "key " + kn + " visited twice"
				break
			}
			seen[kn] = true
			vi, ok := m[kn]
			if !ok {
				bad = "visited key " + kn + " is not in the table"
				break
			}
			if c09ValName(p[1]) != c09Vals[vi].name {
				bad = fmt.Sprintf("key %s visited with value %s, current value is %s", kn, c09ValName(p[1]), c09Vals[vi].name)
				break
			}
		}
		if bad == "" && len(seen) != len(m) {
			var missing []string
			for k := range m {
				if !seen[k] {
					missing = append(missing, k)
				}
			}
			sort.Strings(missing)
			bad = "keys not visited: " + strings.Join(missing, ",")
		}
		if bad != "" {
			c.viol("traverse/"+how, fmt.Sprintf("%s over {%s}: %s", how, m, bad), hist)
		}
	}
	// 4. ipairs yields 1..first nil
	w.emitted = w.emitted[:0]
	if _, err := w.call(w.fnIpairs, 0, tb); err != nil {
		c.viol("ipairs-error", fmt.Sprintf("ipairs raised %v", err), hist)
	} else {
		n := 0
		for {
			if _, ok := m[c09IntName(n+1)]; !ok {
				break
			}
			n++
		}
		ok := len(w.emitted) == 2*n
		for i := 0; ok && i < n; i++ {
			ok = c09Render(w.emitted[2*i]) == c09IntName(i+1) && c09ValName(w.emitted[2*i+1]) == c09Vals[m[c09IntName(i+1)]].name
		}
		if !ok {
			c.viol("ipairs", fmt.Sprintf("ipairs over {%s} yielded %d pairs, expected 1..%d with current values", m, len(w.emitted)/2, n), hist)
		}
	}
}

// mutationCheck: traversal with one mutation (clear/overwrite of an existing field) at step i.
// Needs a fresh table per run, so the history is replayed each time.
func (c *c09Ctx) mutationCheck(w *c09Worker, hist []c09Op, m0 c09Model) int {
	n := len(m0)
	if n == 0 {
		return 0
	}
	runs := 0
	present := make([]string, 0, n)
	for k := range m0 {
		present = append(present, k)
	}
	sort.Strings(present)
	keyByName := map[string]int{}
	for i, k := range w.keys {
		keyByName[k.name] = i
	}
	for _, driver := range []string{"lua_next", "tb.Next"} {
		for step := 1; step <= n; step++ {
			for _, target := range present {
				ki, ok := keyByName[target]
				if !ok {
					continue // key created by Append outside the alphabet
				}
				for _, newVal := range []int{3 /*nil*/, 1 /*y*/} {
					for _, via := range []string{"tb.RawSet", "lua_reg", "tb.Remove(last)", "tb.Remove(last)x2"} {
						tb, m, ok := c.replay(w, hist, false)
						if !ok {
							return runs
						}
						if via == "tb.Remove(last)" && (newVal != 3 || tb.Len() == 0 || target != c09IntName(tb.Len())) {
							continue // removing the last list element is the clear of t[#t], nothing else
						}
						// two removals in one step: the array part may shrink by two slots behind the key the
						// traversal stands on
						target2, cleared2BeforeVisit := "", false
						if via == "tb.Remove(last)x2" {
							if newVal != 3 || tb.Len() < 2 || target != c09IntName(tb.Len()) {
								continue
							}
							target2 = c09IntName(tb.Len() - 1)
							if _, ok := m[target2]; !ok {
								continue
							}
						}
						runs++
						var visited [][2]lua.LValue
						clearedBeforeVisit := false
						mutated := false
						var mutErr error
						apply := func() {
							mutated = true
							seen := false
							for _, p := range visited {
								if c09Render(p[0]) == target {
									seen = true
								}
							}
							if !seen && newVal == 3 {
								clearedBeforeVisit = true
							}
							if via == "tb.Remove(last)" {
								tb.Remove(-1) // what table.remove(t) does: may shrink the array part under the traversal
							} else if via == "tb.Remove(last)x2" {
								seen2 := false
								for _, p := range visited {
									if c09Render(p[0]) == target2 {
										seen2 = true
									}
								}
								cleared2BeforeVisit = !seen2
								tb.Remove(-1)
								tb.Remove(-1)
								delete(m, target2)
							} else {
								mutErr = w.applySet(tb, via, ki, newVal)
							}
							if newVal == 3 {
								delete(m, target)
							} else {
								m[target] = newVal
							}
						}
						var err error
						if driver == "tb.Next" {
							func() {
								defer func() {
									if r := recover(); r != nil {
										err = fmt.Errorf("GO PANIC: %v", r)
									}
								}()
								var k lua.LValue = lua.LNil
								for i := 1; i < 1000; i++ {
									var v lua.LValue
									k, v = tb.Next(k)
									if k == lua.LNil {
										break
									}
									visited = append(visited, [2]lua.LValue{k, v})
									// value must be current at the time of the visit
									if vi, ok := m[c09Render(k)]; !ok || c09Vals[vi].name != c09ValName(v) {
										err = fmt.Errorf("key %s visited with value %s which is not its current value", c09Render(k), c09ValName(v))
										return
									}
									if i == step {
										apply()
									}
								}
							}()
						} else {
							w.emitted = w.emitted[:0]
							w.mutAt = step
							w.mutFn = func() {
								visited = visited[:0]
								for i := 0; i+1 < len(w.emitted); i += 2 {
									visited = append(visited, [2]lua.LValue{w.emitted[i], w.emitted[i+1]})
								}
								apply()
							}
							_, err = w.call(w.fnNextMut, 0, tb)
							w.mutFn = nil
							visited = visited[:0]
							for i := 0; i+1 < len(w.emitted); i += 2 {
								visited = append(visited, [2]lua.LValue{w.emitted[i], w.emitted[i+1]})
							}
						}
						sig := fmt.Sprintf("traverse-mutate/%s/%s/%s", driver, via, map[int]string{3: "clear", 1: "overwrite"}[newVal])
						desc := fmt.Sprintf("traversal by %s over {%s}; at step %d: %s[%s]=%s", driver, m0, step, via, target, c09Vals[newVal].name)
						if err == nil && mutErr != nil {
							err = fmt.Errorf("mutation raised: %v", mutErr)
						}
						if err != nil {
							c.viol(sig+"/error", desc+": "+err.Error(), hist)
							continue
						}
						if !mutated {
							c.viol(sig+"/short", desc+": traversal ended before step "+fmt.Sprint(step), hist)
							continue
						}
						cnt := map[string]int{}
						for _, p := range visited {
							cnt[c09Render(p[0])]++
						}
						bad := ""
						for _, k := range present {
							want := 1
							if k == target && clearedBeforeVisit {
								want = 0
							}
							if target2 != "" && k == target2 && cleared2BeforeVisit {
								want = 0
							}
							if cnt[k] != want {
								bad = fmt.Sprintf("key %s visited %d times, expected %d", k, cnt[k], want)
								break
							}
						}
						if bad == "" && len(cnt) > len(present) {
							bad = "a key that was never in the table was visited"
						}
						if bad != "" {
							c.viol(sig, desc+": "+bad, hist)
						}
					}
				}
			}
		}
	}
	return runs
}

func runC09(r *harness.Run) {
	lua.MaxArrayIndex = c09MaxArrayIndex
	keys := c09Keys()
	c := &c09Ctx{r: r, keys: keys}
	depth := 3
	if r.Thorough() {
		depth = 4 // depth 5 exceeds memory: the frontier alone holds >10^7 histories
	}
	r.Rule = fmt.Sprintf("explicit-state BFS over store histories (alphabet: %d keys x %d values x %d store paths + Append) up to depth %d, MaxArrayIndex lowered to %d so the array/hash boundary is reachable; "+
		"a state is (reference map, white-box dump of array/keys/dict layout); in every distinct state all %d read paths x all keys, three length observers, six traversal drivers, ipairs, and next-traversals with one clear/overwrite at every step are compared with the map model; "+
		"non-trivial = distinct (model, layout) states; every transition is executed on the real table (replay from scratch on a fresh table + 1 op)",
		len(keys), len(c09Vals), len(c09Setters), depth, c09MaxArrayIndex, len(c09Getters))
	r.Assumptions = []string{
		"hash-part accessors (RawSetH/RawGetH) are used with hash-part keys only, as the property states",
		"MaxArrayIndex is lowered to 8 for this process: the routing of keys at the boundary is the same code as with the default value",
		"border at the array/hash boundary: a length equal to MaxArrayIndex-1 while key MaxArrayIndex is present is not judged (would need a 67M-slot array with the default configuration)",
	}

	// operation menu
	var menu []c09Op
	for ki := range keys {
		for vi := range c09Vals {
			for _, s := range c09Setters {
				if c09SetterApplies(s, &keys[ki]) {
					menu = append(menu, c09Op{Kind: "set", Setter: s, Key: ki, Val: vi})
				}
			}
		}
	}
	for vi := range c09Vals {
		menu = append(menu, c09Op{Kind: "append", Key: 0, Val: vi})
	}

	nw := harness.Workers()
	workers := make([]*c09Worker, nw)
	for i := range workers {
		workers[i] = newC09Worker()
	}
	defer func() {
		for _, w := range workers {
			w.L.Close()
		}
	}()

	var states, transitions, mutRuns int64 = 0, 0, 0
	var mu sync.Mutex
	// explore runs one BFS over the given operation menu to the given depth and returns the deepest level completed
	explore := func(menu []c09Op, depth int, phase string, roots []c09Op) int {
		// error cases: Lua-level store under nil / NaN raises and changes nothing; checked in every state below
		type seenShard struct {
			mu sync.Mutex
			m  map[string]struct{}
		}
		const nsh = 64
		var seen [nsh]seenShard
		for i := range seen {
			seen[i].m = map[string]struct{}{}
		}
		addSeen := func(key string) bool {
			h := 0
			for i := 0; i < len(key); i++ {
				h = h*31 + int(key[i])
			}
			s := &seen[uint(h)%nsh]
			s.mu.Lock()
			defer s.mu.Unlock()
			if _, ok := s.m[key]; ok {
				return false
			}
			s.m[key] = struct{}{}
			return true
		}

		frontier := []c09State{{}}
		addSeen("|" + c09Layout(workers[0].L.NewTable()))
		for _, rt := range roots {
			frontier = append(frontier, c09State{[]c09Op{rt}})
		}
		maxDepthDone := -1
		for d := 0; d <= depth && len(frontier) > 0; d++ {
			var next []c09State
			expired := false
			chunks := (len(frontier) + 63) / 64
			harness.ParallelShards(chunks, func(wi, shard int) {
				w := workers[wi]
				var localNext []c09State
				var lstates, ltrans, lmut int64
				for si := shard * 64; si < (shard+1)*64 && si < len(frontier); si++ {
					if r.Expired() {
						expired = true
						break
					}
					st := frontier[si]
					tb, m, ok := c.replay(w, st.hist, true)
					if !ok {
						continue
					}
					lstates++
					c.fullCheck(w, tb, m, st.hist)
					c.errorStores(w, tb, m, st.hist)
					if len(m) <= 3 {
						lmut += int64(c.mutationCheck(w, st.hist, m))
					}
					r.Eval(m.String()+"|"+c09Layout(tb), true, func() interface{} {
						strs := make([]string, len(st.hist))
						for i, o := range st.hist {
							strs[i] = o.String(keys)
						}
						return map[string]interface{}{"history": strs, "model": m.String(), "layout": c09Layout(tb)}
					})
					if d == depth {
						continue
					}
					for _, op := range menu {
						if _, full := m[c09IntName(c09MaxArrayIndex-1)]; full && op.Kind == "append" {
							continue // would grow the array part past the (lowered) MaxArrayIndex: not judged, not explored
						}
						h2 := append(append(make([]c09Op, 0, len(st.hist)+1), st.hist...), op)
						tb2, m2, ok := c.replay(w, h2, true)
						ltrans++
						if !ok {
							continue
						}
						key := m2.String() + "|" + c09Layout(tb2)
						if h2[0].Kind == "root" {
							key = c09Roots[h2[0].Key] + "|" + key // differently created tables are different states
						}
						if addSeen(key) {
							localNext = append(localNext, c09State{h2})
						}
					}
				}
				mu.Lock()
				next = append(next, localNext...)
				states += lstates
				transitions += ltrans
				mutRuns += lmut
				mu.Unlock()
			})
			if expired {
				r.NotExhaustive(fmt.Sprintf("%s: deadline reached while expanding depth %d (depth %d fully covered)", phase, d, maxDepthDone))
				break
			}
			maxDepthDone = d
			// deterministic order for the next level
			sort.Slice(next, func(i, j int) bool { return fmt.Sprint(next[i].hist) < fmt.Sprint(next[j].hist) })
			frontier = next
		}
		return maxDepthDone
	}
	maxDepthDone := explore(menu, depth, "wide", nil)
	// second phase — narrow and deep: one key per representation (array slot, integer beyond the
	// array part, fraction, string, boolean, table), store/erase only, two store paths, explored to
	// twice the depth: delete-and-restore patterns with other keys stored in between, which the
	// wide phase cannot reach
	var narrow []c09Op
	for ki := range keys {
		switch keys[ki].name {
		case "n:1", "n:2", "n:9", "n:1.5", "s:a", "b:true", "t:T0":
			for vi, v := range c09Vals {
				if v.name != "x" && v.name != "nil" {
					continue
				}
				for _, st := range []string{"lua_reg", "tb.RawSetH"} {
					if c09SetterApplies(st, &keys[ki]) {
						narrow = append(narrow, c09Op{Kind: "set", Setter: st, Key: ki, Val: vi})
					}
				}
			}
		}
	}
	narrowDepth := 8
	if r.Thorough() {
		narrowDepth = 12
	}
	if d := envInt("VERIF_C09_NARROW"); d > 0 {
		narrowDepth = d
	}
	// the narrow phase also starts from tables created by CreateTable with every combination of
	// empty / pre-sized array and hash parts (a constructor `{}` is CreateTable(0,0))
	var roots []c09Op
	for k := 1; k < len(c09Roots); k++ {
		roots = append(roots, c09Op{Kind: "root", Key: k})
	}
	narrowDone := explore(narrow, narrowDepth, "narrow", nil)
	rootDepth := 6
	if r.Thorough() {
		rootDepth = 9
	}
	explore(narrow, rootDepth, "narrow-roots", roots)
	r.Extra["narrow_phase_menu_size"] = len(narrow)
	r.Extra["narrow_phase_max_depth_completed"] = narrowDone
	c09Bulk(c, workers[0])
	runPinned(r, "C09")
	r.Extra["states"] = states
	r.Extra["transitions"] = transitions
	r.Extra["traces_validated_against_impl"] = transitions
	r.Extra["mutation_traversal_runs"] = mutRuns
	r.Extra["max_depth_completed"] = maxDepthDone
	r.Extra["operation_menu_size"] = len(menu)
}

// errorStores: a Lua-level store under nil or NaN raises and changes nothing.
func (c *c09Ctx) errorStores(w *c09Worker, tb *lua.LTable, m c09Model, hist []c09Op) {
	before := c09Layout(tb)
	nan := lua.LNumber(math.NaN())
	for _, bk := range []struct {
		name string
		k    lua.LValue
	}{{"nil", lua.LNil}, {"nan", nan}} {
		for _, via := range []string{"lua_reg", "lua_rawset", "L.SetTable", "L.RawSet"} {
			var err error
			func() {
				defer func() {
					if r := recover(); r != nil {
						if ae, ok := r.(*lua.ApiError); ok {
							err = ae
						} else {
							err = fmt.Errorf("GO PANIC: %v", r)
						}
					}
				}()
				switch via {
				case "lua_reg":
					_, err = w.call(w.fnSet, 0, tb, bk.k, lua.LString("x"))
				case "lua_rawset":
					_, err = w.call(w.fnRawset, 0, tb, bk.k, lua.LString("x"))
				case "L.SetTable":
					w.L.SetTable(tb, bk.k, lua.LString("x"))
				case "L.RawSet":
					w.L.RawSet(tb, bk.k, lua.LString("x"))
				}
			}()
			// the Go-level calls raise through panic(*ApiError) outside a protected call; reset the stack
			w.L.SetTop(0)
			if err == nil {
				c.viol("badkey-accepted/"+via+"/"+bk.name, fmt.Sprintf("store under %s through %s did not raise", bk.name, via), hist)
			} else if strings.HasPrefix(err.Error(), "GO PANIC") {
				c.viol("badkey-panic/"+via+"/"+bk.name, fmt.Sprintf("store under %s through %s: %v", bk.name, via, err), hist)
			}
			if after := c09Layout(tb); after != before {
				c.viol("badkey-changed/"+via+"/"+bk.name, fmt.Sprintf("failed store under %s through %s changed the table: %s -> %s", bk.name, via, before, after), hist)
				return
			}
		}
		// reads under nil / NaN give nil
		for _, via := range []string{"lua_reg", "tb.RawGet"} {
			var got lua.LValue
			var err error
			if via == "lua_reg" {
				var rr []lua.LValue
				rr, err = w.call(w.fnGet, 1, tb, bk.k)
				if err == nil {
					got = rr[0]
				}
			} else {
				got = tb.RawGet(bk.k)
			}
			if err != nil || got != lua.LNil {
				c.viol("badkey-read/"+via+"/"+bk.name, fmt.Sprintf("read under %s through %s: value %v err %v (expected nil)", bk.name, via, got, err), hist)
			}
		}
	}
}

// c09Bulk — tables with many hash fields (sizes around powers of two, up to 300 string, fractional
// and boolean/table keys), traversed while existing fields are cleared (which Lua allows): clear
// every visited field, clear every second one, clear the fields in reverse insertion order while
// standing on the first, clear-all then refill then traverse, delete half then traverse. Every
// field that is present when the traversal reaches it is visited exactly once, none twice, and
// the table ends with exactly the fields that were not cleared.
func c09Bulk(c *c09Ctx, w *c09Worker) {
	r := c.r
	L := w.L
	drivers := []string{"next-loop", "pairs", "tb.Next"}
	for _, n := range []int{1, 2, 7, 8, 9, 31, 32, 33, 63, 64, 65, 100, 127, 128, 129, 300} {
		for _, kind := range []string{"string", "fraction", "mixed"} {
			for _, scenario := range []string{"clear-visited", "clear-every-second", "clear-all-at-first", "clear-refill-traverse", "delete-half-traverse", "clear-ahead", "clear-visited-probe", "clear-second-probe", "delete-half-clear-visited-probe", "nested-traversal-clear-visited"} {
				for _, drv := range drivers {
					mkKey := func(i int) lua.LValue {
						switch {
						case kind == "string" || kind == "mixed" && i%3 == 0:
							return lua.LString(fmt.Sprintf("k%d", i))
						case kind == "fraction" || kind == "mixed" && i%3 == 1:
							return lua.LNumber(float64(i) + 0.5)
						default:
							return lua.LNumber(float64(-i))
						}
					}
					tb := L.NewTable()
					present := map[lua.LValue]bool{}
					for i := 1; i <= n; i++ {
						tb.RawSet(mkKey(i), lua.LNumber(i))
						present[mkKey(i)] = true
					}
					switch scenario {
					case "clear-refill-traverse":
						for i := 1; i <= n; i++ {
							tb.RawSet(mkKey(i), lua.LNil)
						}
						for i := n; i >= 1; i-- {
							tb.RawSet(mkKey(i), lua.LNumber(i))
						}
					case "delete-half-traverse", "delete-half-clear-visited-probe":
						for i := 1; i <= n; i += 2 {
							tb.RawSet(mkKey(i), lua.LNil)
							delete(present, mkKey(i))
						}
					}
					visits := map[lua.LValue]int{}
					var order []lua.LValue
					step := 0
					problem := ""
					visit := func(k, v lua.LValue) {
						step++
						if step > 4*n+10 {
							panic("traversal does not terminate")
						}
						if !present[k] {
							problem = fmt.Sprintf("key %v visited although it is not in the table at that time", k)
						}
						visits[k]++
						order = append(order, k)
						// probe: a second traversal of the same table is started while this one stands on a key
						// (the emptiness idiom next(t) == nil, or a whole nested loop); what it returns must be
						// a present field, and the outer traversal must go on as if nothing had happened
						probe := func(whole bool) {
							pk, _ := tb.Next(lua.LNil)
							seen := 0
							for pk != lua.LNil {
								if !present[pk] {
									problem = fmt.Sprintf("a fresh traversal started during the outer one returned key %v, which is not in the table", pk)
								}
								seen++
								if !whole || seen > n+2 {
									break
								}
								pk, _ = tb.Next(pk)
							}
							if pk == lua.LNil && seen != len(present) && (whole || len(present) > 0) {
								problem = fmt.Sprintf("a fresh traversal started during the outer one saw %d fields, the table holds %d", seen, len(present))
							}
						}
						switch scenario {
						case "clear-visited-probe", "delete-half-clear-visited-probe":
							tb.RawSet(k, lua.LNil)
							delete(present, k)
							probe(false)
						case "clear-second-probe":
							if step%2 == 0 {
								tb.RawSet(k, lua.LNil)
								delete(present, k)
							}
							probe(false)
						case "nested-traversal-clear-visited":
							tb.RawSet(k, lua.LNil)
							delete(present, k)
							if step%5 == 1 {
								probe(true)
							}
						case "clear-visited":
							tb.RawSet(k, lua.LNil)
							delete(present, k)
						case "clear-every-second":
							if step%2 == 0 {
								tb.RawSet(k, lua.LNil)
								delete(present, k)
							}
						case "clear-all-at-first":
							if step == 1 {
								for i := n; i >= 1; i-- {
									if mkKey(i) != k {
										tb.RawSet(mkKey(i), lua.LNil)
										delete(present, mkKey(i))
									}
								}
							}
						case "clear-ahead":
							// clear a field that has not been visited yet (three insertion positions ahead)
							for i := 1; i <= n; i++ {
								if mkKey(i) == k && i+3 <= n && present[mkKey(i+3)] && visits[mkKey(i+3)] == 0 {
									tb.RawSet(mkKey(i+3), lua.LNil)
									delete(present, mkKey(i+3))
								}
							}
						}
					}
					wasPresent := map[lua.LValue]bool{}
					for k := range present {
						wasPresent[k] = true
					}
					func() {
						defer func() {
							if rec := recover(); rec != nil {
								problem = fmt.Sprintf("%v", rec)
							}
						}()
						switch drv {
						case "tb.Next":
							k, v := tb.Next(lua.LNil)
							for k != lua.LNil {
								visit(k, v)
								k, v = tb.Next(k)
							}
						default:
							L.SetGlobal("visit", L.NewFunction(func(L *lua.LState) int { visit(L.Get(1), L.Get(2)); return 0 }))
							src := "local t = ... for k, v in pairs(t) do visit(k, v) end"
							if drv == "next-loop" {
								src = "local t = ... local k, v = next(t) while k ~= nil do visit(k, v) k, v = next(t, k) end"
							}
							fn, err := L.LoadString(src)
							if err != nil {
								panic(err)
							}
							L.Push(fn)
							L.Push(tb)
							if err := L.PCall(1, 0, nil); err != nil {
								problem = "traversal raised: " + err.Error()
							}
						}
					}()
					sig := fmt.Sprintf("bulk/%s/%s/%s", scenario, kind, drv)
					r.Eval(fmt.Sprintf("%s/n=%d", sig, n), true, func() interface{} {
						return map[string]interface{}{"case": "bulk traversal with clears", "fields": n, "keys": kind, "scenario": scenario, "driver": drv}
					})
					if problem == "" {
						for k := range wasPresent {
							switch {
							case visits[k] > 1:
								problem = fmt.Sprintf("key %v visited %d times", k, visits[k])
							case visits[k] == 0 && present[k]:
								problem = fmt.Sprintf("key %v is still in the table but was never visited", k)
							}
						}
					}
					if problem == "" {
						// what is left is exactly what was not cleared
						left := 0
						tb.ForEach(func(k, v lua.LValue) { left++ })
						if left != len(present) {
							problem = fmt.Sprintf("%d fields left in the table, expected %d", left, len(present))
						}
					}
					if problem != "" {
						r.Violation(sig, fmt.Sprintf("table with %d %s hash fields, scenario %s, driver %s: %s", n, kind, scenario, drv, problem), map[string]interface{}{"fields": n, "keys": kind, "scenario": scenario, "driver": drv})
					}
				}
			}
		}
	}
}
