package props

import (
	"fmt"
	"os"
	"runtime/pprof"
	"sync/atomic"
	"time"
)

// Optional timing by configuration class (VERIF_C10_PROF=1) and CPU profile (VERIF_C10_PPROF=file),
// used for tuning the bounds only; neither influences a verdict.
var c10ProfOn = os.Getenv("VERIF_C10_PROF") != ""
var c10ProfNs [8]int64
var c10ProfN [8]int64

func c10ProfAdd(class int, t0 time.Time) {
	atomic.AddInt64(&c10ProfNs[class], int64(time.Since(t0)))
	atomic.AddInt64(&c10ProfN[class], 1)
}

func c10ProfDump(tag string) {
	if !c10ProfOn {
		return
	}
	for i := range c10ProfN {
		if n := atomic.LoadInt64(&c10ProfN[i]); n > 0 {
			ns := atomic.LoadInt64(&c10ProfNs[i])
			fmt.Fprintf(os.Stderr, "c10prof %s class %d: %d runs, %.2fs, %.1fus/run\n", tag, i, n, float64(ns)/1e9, float64(ns)/float64(n)/1e3)
		}
	}
}

func c10ProfPhase(tag string, t0 time.Time) {
	if c10ProfOn {
		fmt.Fprintf(os.Stderr, "c10prof phase %s: %.2fs wall\n", tag, time.Since(t0).Seconds())
	}
}

func c10StartPprof() func() {
	path := os.Getenv("VERIF_C10_PPROF")
	if path == "" {
		return func() {}
	}
	f, err := os.Create(path)
	if err != nil {
		return func() {}
	}
	pprof.StartCPUProfile(f)
	return func() { pprof.StopCPUProfile(); f.Close() }
}

// VERIF_C10_DUMP=1 prints both outcomes of every object-level case (debugging aid).
var c10DumpObj = os.Getenv("VERIF_C10_DUMP") != ""
