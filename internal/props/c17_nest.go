package props

// C17, family F-nestlocals — debug.getlocal/setlocal at every statement gap of every nesting of
// block kinds (do / while / repeat / numeric for / generic for / if / else / function literal
// called in place), each level declaring a local `a` that shadows the enclosing one, a local of
// its own before the inner block and another after it. The scope records (start/end pc per local)
// are produced per block by the compiler; the product makes every block kind end inside every
// other one, with a shadowed name alive on both sides of the boundary.

import (
	"fmt"

	. "verif/internal/luaref"
)

func genNestLocals(thorough bool) Gen {
	depth := 2
	if thorough {
		depth = 3
	}
	kinds := append(append([]string{}, nestKinds...), "fncall")
	dbg := func(f string, args ...Expr) Expr { return Call(Dot(Name("debug"), f), args...) }
	plocals := func() Stat {
		return FuncS("plocals", Func(names("tag"), false,
			Local1("i", Num(1)),
			While(True(),
				Local(names("n", "v"), dbg("getlocal", Num(2), Name("i"))),
				If(Bin("==", Name("n"), Nil()), Break()),
				If(Bin("~=", Method(Name("n"), "sub", Num(1), Num(1)), Str("(")), Emit(Str("L"), Name("tag"), Name("n"), Name("v"))),
				Assign1(Name("i"), Bin("+", Name("i"), Num(1)))),
			Emit(Str("Lend"), Name("tag"))))
	}
	// setl(name, v): sets every visible local of the caller with that name to v .. its index among them
	setl := func() Stat {
		return FuncS("setl", Func(names("name", "nv"), false,
			Local(names("i", "k"), Num(1), Num(0)),
			While(True(),
				Local1("n", Paren(dbg("getlocal", Num(2), Name("i")))),
				If(Bin("==", Name("n"), Nil()), Break()),
				If(Bin("==", Name("n"), Name("name")), Assign1(Name("k"), Bin("+", Name("k"), Num(1))), Emit(Str("setlocal"), dbg("setlocal", Num(2), Name("i"), Bin("..", Name("nv"), Name("k"))))),
				Assign1(Name("i"), Bin("+", Name("i"), Num(1))))))
	}
	var build func(ks []string, lv int) []Stat
	build = func(ks []string, lv int) []Stat {
		if lv > len(ks) {
			return nil
		}
		k := ks[lv-1]
		iv := fmt.Sprintf("i%d", lv)
		var body []Stat
		if k == "while" || k == "repeat" || nestIsGoto(k) {
			body = append(body, Assign1(Name(iv), Bin("+", Name(iv), Num(1))))
		}
		body = append(body, Local1("a", Str(fmt.Sprintf("a%d", lv))), Local1(fmt.Sprintf("b%d", lv), Bin("..", Name("a"), Str("+"))))
		body = append(body, build(ks, lv+1)...)
		body = append(body, Local1(fmt.Sprintf("c%d", lv), Name("a")), Assign1(Name("n"), Bin("+", Name("n"), Num(1))))
		switch k {
		case "do":
			return []Stat{Do(body...)}
		case "while":
			return []Stat{Local1(iv, Num(0)), While(Bin("<", Name(iv), Num(2)), body...)}
		case "repeat":
			return []Stat{Local1(iv, Num(0)), Repeat(Bin(">=", Name(iv), Num(2)), body...)}
		case "gotoloop", "gotoloopL":
			// a loop made of a label and a backward goto: the locals behind the label end at the goto
			st := []Stat{Local1(iv, Num(0))}
			if k == "gotoloopL" {
				st = append(st, Local1(fmt.Sprintf("g%d", lv), Str("before-label")))
			}
			st = append(st, Label(fmt.Sprintf("top%d", lv)))
			st = append(st, body...)
			st = append(st, If(Bin("<", Name(iv), Num(2)), Goto(fmt.Sprintf("top%d", lv))))
			return []Stat{Do(st...)}
		case "numfor":
			return []Stat{NumFor(iv, Num(1), Num(2), nil, body...)}
		case "genfor":
			return []Stat{GenFor(names(iv, fmt.Sprintf("e%d", lv)), []Expr{CallN("ipairs", TableE(Pos1(Str("x")), Pos1(Str("y"))))}, body...)}
		case "if":
			return []Stat{If(Bin(">", Name("n"), Num(-1)), body...)}
		case "else":
			return []Stat{IfElse(Bin("<", Name("n"), Num(0)), []Stat{Local1("never", Num(0))}, body)}
		case "fncall":
			// a function literal with a parameter named like the shadowed local, called right away
			// (a call statement starting with a parenthesis would continue the previous statement)
			fn := fmt.Sprintf("f%d", lv)
			return []Stat{Local1(fn, Func(names("a", fmt.Sprintf("q%d", lv)), false, body...)), CallS(Name(fn), Str(fmt.Sprintf("arg%d", lv)))}
		}
		panic("kind")
	}
	return func(yield func(*Prog)) {
		idx := make([]int, depth)
		var rec func(i int)
		rec = func(i int) {
			if i < depth {
				for k := range kinds {
					idx[i] = k
					rec(i + 1)
				}
				return
			}
			ks := make([]string, depth)
			shape := ""
			for j := range ks {
				ks[j] = kinds[idx[j]]
				shape += ks[j] + ">"
			}
			mkBody := func() *Block {
				st := []Stat{Local1("n", Num(0)), Local1("a", Str("a0"))}
				st = append(st, build(ks, 1)...)
				st = append(st, Local1("z", Name("a")))
				return Blk(st...)
			}
			ngaps := countGaps(mkBody())
			for g := 0; g < ngaps; g++ {
				g := g
				for _, mode := range []string{"get", "set"} {
					mode := mode
					lays := []Layout{{}}
					if thorough {
						lays = append(lays, Layout{StmtSep: "sp"})
					}
					for li, lay := range lays {
						yield(&Prog{Family: "F-nestlocals", Shape: fmt.Sprintf("%s/gap%d/%s/lay%d", shape, g, mode, li), Layout: lay, Mk: func() *Block {
							body := mkBody()
							insertAt(body, g, func() Stat {
								if mode == "get" {
									return CallS(Name("plocals"), Num(float64(g)))
								}
								return Do(CallS(Name("setl"), Str("a"), Str("SET-a")), CallS(Name("setl"), Str("b1"), Str("SET-b")), CallS(Name("setl"), Str("c1"), Str("SET-c")), CallS(Name("plocals"), Num(float64(g))))
							})
							body.Stats = append(body.Stats, CallS(Name("plocals"), Str("end")))
							return Blk(plocals(), setl(), FuncS("test", Func(names("p1"), true, body.Stats...)), CallS(Name("test"), Str("P1"), Str("V1")))
						}})
					}
				}
			}
		}
		rec(0)
	}
}

// F-firstblock — scope records at the very start of a function: functions with 0-3 parameters
// (with and without `...`) whose body *begins* with a minimal block or declaration (a block of a
// single instruction ends at pc 0 or 1, where "not yet closed" and "closed at 0" are easily
// confused, and the parameters' own records start there), followed by a local, a second block and
// another local; debug.getlocal at every statement gap, and setlocal by name followed by getlocal.
func genFirstBlock() Gen {
	dbg := func(f string, args ...Expr) Expr { return Call(Dot(Name("debug"), f), args...) }
	plocals := func() Stat {
		return FuncS("plocals", Func(names("tag"), false,
			Local1("i", Num(1)),
			While(True(),
				Local(names("n", "v"), dbg("getlocal", Num(2), Name("i"))),
				If(Bin("==", Name("n"), Nil()), Break()),
				If(Bin("~=", Method(Name("n"), "sub", Num(1), Num(1)), Str("(")), Emit(Str("L"), Name("tag"), Name("n"), Name("v"))),
				Assign1(Name("i"), Bin("+", Name("i"), Num(1)))),
			Emit(Str("Lend"), Name("tag"))))
	}
	setl := func() Stat {
		return FuncS("setl", Func(names("name", "nv"), false,
			Local(names("i", "k"), Num(1), Num(0)),
			While(True(),
				Local1("n", Paren(dbg("getlocal", Num(2), Name("i")))),
				If(Bin("==", Name("n"), Nil()), Break()),
				If(Bin("==", Name("n"), Name("name")), Assign1(Name("k"), Bin("+", Name("k"), Num(1))), Emit(Str("setlocal"), dbg("setlocal", Num(2), Name("i"), Bin("..", Name("nv"), Name("k"))))),
				Assign1(Name("i"), Bin("+", Name("i"), Num(1))))))
	}
	firsts := []struct {
		name string
		mk   func(p Expr) Stat
	}{
		{"do-local", func(p Expr) Stat { return Do(Local(names("a"))) }},
		{"do-empty", func(p Expr) Stat { return Do() }},
		{"do-local-init", func(p Expr) Stat { return Do(Local1("a", p)) }},
		{"do-two-locals", func(p Expr) Stat { return Do(Local(names("a", "b"))) }},
		{"do-do-local", func(p Expr) Stat { return Do(Do(Local(names("a")))) }},
		{"do-shadow-param", func(p Expr) Stat { return Do(Local(names("p"))) }},
		{"if-empty", func(p Expr) Stat { return If(Name("nothing")) }},
		{"if-false-local", func(p Expr) Stat { return If(False(), Local(names("a"))) }},
		{"while-false", func(p Expr) Stat { return While(False()) }},
		{"numfor-empty", func(p Expr) Stat { return NumFor("i", Num(1), Num(0), nil) }},
		{"genfor-empty", func(p Expr) Stat { return GenFor(names("k"), []Expr{Name("next"), TableE()}) }},
		{"repeat-local", func(p Expr) Stat { return Repeat(True(), Local(names("a"))) }},
		{"local-declared-only", func(p Expr) Stat { return Local(names("a")) }},
		{"local-function", func(p Expr) Stat { return LocalFunc("a", Func(nil, false)) }},
	}
	return func(yield func(*Prog)) {
		for np := 0; np <= 3; np++ {
			for _, va := range []bool{false, true} {
				for _, fb := range firsts {
					np, va, fb := np, va, fb
					params := names("p", "q", "r")[:np]
					mkBody := func() *Block {
						var p Expr = Num(1)
						if np > 0 {
							p = Name("p")
						}
						return Blk(fb.mk(p), Local1("z", Num(3)), Do(Local1("b", Name("z"))), Local1("y", Name("z")))
					}
					ngaps := countGaps(mkBody())
					for g := 0; g < ngaps; g++ {
						g := g
						for _, mode := range []string{"get", "set"} {
							mode := mode
							yield(&Prog{Family: "F-firstblock", Shape: fmt.Sprintf("params=%d/vararg=%v/%s/gap%d/%s", np, va, fb.name, g, mode), Mk: func() *Block {
								body := mkBody()
								insertAt(body, g, func() Stat {
									if mode == "get" {
										return CallS(Name("plocals"), Num(float64(g)))
									}
									return Do(CallS(Name("setl"), Str("p"), Str("SET-p")), CallS(Name("setl"), Str("q"), Str("SET-q")), CallS(Name("setl"), Str("a"), Str("SET-a")), CallS(Name("setl"), Str("z"), Str("SET-z")), CallS(Name("plocals"), Num(float64(g))))
								})
								body.Stats = append(body.Stats, CallS(Name("plocals"), Str("end")), Return(Name("z"), Name("y")))
								return Blk(plocals(), setl(), LocalFunc("test", Func(params, va, body.Stats...)), Emit(Str("result"), CallN("test", Str("P"), Str("Q"), Str("R"), Str("V1"))))
							}})
						}
					}
				}
			}
		}
	}
}
