package props

// C19 — io handles act as a byte sequence with one cursor under any read/write/seek.
//
// Explicit-state BFS over operation histories on real files. Successor = replay of the whole
// history on a fresh file (rewritten from the initial image) through a handle opened with io.open
// + one more operation. Reference model = []byte + one cursor + mode flags + closed flag, written
// from ISO C stdio / Lua 5.1 liolib.c semantics (not from iolib.go). After every step the values
// returned by the implementation are compared with the model's; after flush/close and at the end
// of every history the bytes on disk (through a new io.open handle and through os.ReadFile) are
// compared with the model's content.
//
// Deviations of the unchanged tree are recorded in KNOWN_FINDINGS.jsonl (C19-F1..F8). A history is
// not continued behind a disagreeing step. Where a recorded defect can leave the implementation's
// cursor off although the step's own result agreed, the model carries a "taint" that is appended to
// the signature of any later disagreement on the same handle, so that it is attributed to that
// defect and to nothing else.
//
// Environment: C19_CAMPAIGNS=name:menuLevel:depth[:small|upd],... replaces the tier's campaigns
// (calibration aid only).

import (
	"bytes"
	"crypto/sha1"
	"encoding/binary"
	"encoding/json"
	"fmt"
	"os"
	"path/filepath"
	"runtime/debug"
	"sort"
	"strconv"
	"strings"
	"sync"
	"sync/atomic"
	"time"

	lua "github.com/yuin/gopher-lua"

	"verif/internal/harness"
)

func init() {
	harness.Register("C19", "model_checking", runC19)
	harness.RegisterReplay("C19", replayC19)
}

// c19JudgeSeekAfterBufferedWrite: under setvbuf("full") a write may leave bytes in the handle's
// buffer. ISO C fseek/ftell account for / flush them, and the property statement lists setvbuf
// among the operations of a history without restricting what may follow a buffered write, so a
// seek after an unflushed buffered write is judged (model: seek flushes). Set to false to exclude
// such histories from the domain instead (DESIGN §4 C19 variant).
const c19JudgeSeekAfterBufferedWrite = true

// ---- initial files ------------------------------------------------------------------------------

type c19Init struct {
	Name    string
	Data    []byte
	Numeric bool
	digest  [20]byte
}

// c19GenBytes: position-dependent lower-case bytes. The 3-byte file is "?\n?"; the 4095- and
// 4096-byte files are one unterminated line; the 4097-byte file is one line of exactly 4096 bytes
// plus its newline; the 8200-byte file starts with a line of 4150 bytes (longer than the 4096-byte
// reader buffer), then has newlines at 4150, 4160, 4161 (an empty line) and 8190, and ends with an
// unterminated line.
func c19GenBytes(size int) []byte {
	b := make([]byte, size)
	for i := range b {
		b[i] = 'a' + byte((uint32(i+1)*2654435761>>19)%26)
	}
	switch size {
	case 3:
		b[1] = '\n'
	case 4097:
		b[4096] = '\n'
	case 8200:
		for _, p := range []int{4150, 4160, 4161, 8190} {
			b[p] = '\n'
		}
	}
	return b
}

func c19Inits() []c19Init {
	var out []c19Init
	for _, n := range []int{0, 3, 4095, 4096, 4097, 8200} {
		out = append(out, c19Init{Name: fmt.Sprintf("s%d", n), Data: c19GenBytes(n)})
	}
	out = append(out, c19Init{Name: "num", Data: []byte("12 3.5\n-7\n\n  42\t.5 1e2\n"), Numeric: true})
	out = append(out, c19Init{Name: "crlf", Data: []byte("ab\r\nc\rd\n\r\nxy\r")})
	for i := range out {
		out[i].digest = sha1.Sum(out[i].Data)
	}
	return out
}

// ---- write payloads -----------------------------------------------------------------------------

type c19Payload struct {
	args  []lua.LValue
	bytes []byte
}

func c19Block(n, nlAt int) []byte {
	b := make([]byte, n)
	for i := range b {
		b[i] = 'A' + byte((uint32(i+3)*40503>>5)%26)
	}
	if nlAt >= 0 && nlAt < n {
		b[nlAt] = '\n'
	}
	return b
}

var c19Payloads = func() map[string]c19Payload {
	m := map[string]c19Payload{}
	str := func(name string, b []byte) { m[name] = c19Payload{[]lua.LValue{lua.LString(string(b))}, b} }
	str("x", []byte("x"))
	str("yz\\n", []byte("yz\n"))
	str("B4095", c19Block(4095, -1))
	str("B4097", c19Block(4097, 4000))
	m["#12"] = c19Payload{[]lua.LValue{lua.LNumber(12)}, []byte("12")}
	m["ab,#12,\\n"] = c19Payload{[]lua.LValue{lua.LString("ab"), lua.LNumber(12), lua.LString("\n")}, []byte("ab12\n")}
	return m
}()

// ---- operations ---------------------------------------------------------------------------------

type c19Op struct {
	Kind string `json:"op"`            // write read lines iter seek flush setvbuf close reopen
	Arg  string `json:"arg,omitempty"` // payload name | read formats | whence | buffering mode | open mode
	Off  *int64 `json:"off,omitempty"` // seek offset / setvbuf size; absent = argument not passed
	lvl  int    // lowest menu level that contains the op: 0 tiny, 1 small, 2 quick, 3 full
	rep  bool   // representative used on closed handles and on handles of the wrong direction
}

func (o c19Op) String() string {
	switch o.Kind {
	case "write":
		return "write(" + o.Arg + ")"
	case "read":
		parts := []string{}
		if o.Arg != "" {
			for _, f := range strings.Split(o.Arg, ",") {
				if f[0] == '*' {
					f = `"` + f + `"`
				}
				parts = append(parts, f)
			}
		}
		return "read(" + strings.Join(parts, ",") + ")"
	case "lines":
		return "lines()()"
	case "iter":
		return "it()"
	case "seek":
		s := "seek("
		if o.Arg != "" {
			s += `"` + o.Arg + `"`
			if o.Off != nil {
				s += "," + strconv.FormatInt(*o.Off, 10)
			}
		}
		return s + ")"
	case "setvbuf":
		s := `setvbuf("` + o.Arg + `"`
		if o.Off != nil {
			s += "," + strconv.FormatInt(*o.Off, 10)
		}
		return s + ")"
	case "reopen":
		return `reopen("` + o.Arg + `")`
	}
	return o.Kind + "()"
}

func c19I64(v int64) *int64 { return &v }

// c19Menu builds the operation menu for one initial file at one level (0 tiny, 1 small, 2 quick, 3 full).
func c19Menu(in *c19Init, level int) []c19Op {
	size := int64(len(in.Data))
	var all []c19Op
	add := func(lvl int, rep bool, kind, arg string, off *int64) {
		all = append(all, c19Op{Kind: kind, Arg: arg, Off: off, lvl: lvl, rep: rep})
	}
	const T, S, Q, F = 0, 1, 2, 3 // tiny, small, quick, full
	add(T, true, "write", "x", nil)
	add(S, false, "write", "yz\\n", nil)
	add(F, false, "write", "B4095", nil)
	add(T, false, "write", "B4097", nil)
	add(Q, false, "write", "#12", nil)
	add(F, false, "write", "ab,#12,\\n", nil)

	add(Q, false, "read", "0", nil)
	add(T, true, "read", "1", nil)
	add(Q, false, "read", "5", nil)
	add(T, false, "read", "4096", nil)
	add(S, false, "read", "5000", nil)
	add(T, true, "read", "*l", nil)
	add(T, true, "read", "*a", nil)
	add(F, false, "read", "", nil)
	add(Q, false, "read", "1,*l", nil)
	if in.Numeric {
		add(T, false, "read", "*n", nil)
		add(Q, false, "read", "*n,*l", nil)
	}
	add(S, true, "lines", "", nil)
	add(F, true, "iter", "", nil)

	add(T, true, "seek", "", nil)
	add(F, false, "seek", "set", nil)
	add(F, false, "seek", "end", nil)
	for _, s := range []struct {
		lvl    int
		whence string
		off    int64
	}{
		{T, "set", 0}, {Q, "set", 1}, {F, "set", 4095}, {T, "set", 4096}, {Q, "set", 4097},
		{F, "set", size - 1}, {Q, "set", size}, {S, "set", size + 1}, {Q, "set", -1},
		{T, "cur", -1}, {Q, "cur", 1}, {F, "cur", 4096}, {F, "cur", -4096}, {F, "cur", 0},
		{T, "end", 0}, {S, "end", -1}, {F, "end", 1}, {F, "end", -4096}, {F, "end", -size}, {F, "end", -size - 1},
	} {
		add(s.lvl, s.whence == "set" && s.off == 0, "seek", s.whence, c19I64(s.off))
	}
	add(T, true, "flush", "", nil)
	add(Q, true, "setvbuf", "no", nil)
	add(T, true, "setvbuf", "full", nil)
	add(S, false, "setvbuf", "full", c19I64(16))
	add(T, true, "close", "", nil)
	add(F, false, "reopen", "r", nil)
	add(F, false, "reopen", "w", nil)
	add(F, false, "reopen", "a", nil)
	add(S, false, "reopen", "r+", nil)
	add(F, false, "reopen", "w+", nil)
	add(Q, false, "reopen", "a+", nil)

	// keep ops of the level; drop duplicates (same text), keeping the first
	seen := map[string]bool{}
	var out []c19Op
	sort.SliceStable(all, func(i, j int) bool { return all[i].lvl < all[j].lvl })
	for _, o := range all {
		if o.lvl > level || seen[o.String()] {
			continue
		}
		seen[o.String()] = true
		out = append(out, o)
	}
	if len(out) > 250 {
		harness.Fatal("c19: menu too large")
	}
	return out
}

// ---- reference model ----------------------------------------------------------------------------

type c19Model struct {
	content  []byte
	shared   bool // content still aliases the initial image (never modified, never truncated): copy before writing
	in       *c19Init
	cur      int64
	curKnown bool // false for a/a+ handles before the first seek("set"|"end") or write: ISO C leaves the initial position open
	mode     string
	readable bool
	writable bool
	app      bool
	closed   bool
	buf      int  // 0: no setvbuf("full") in force; otherwise the requested buffer size
	pending  bool // bytes written under full buffering and not yet flushed
	last     byte // 0, 'r', 'w': direction of the most recent I/O not yet separated by seek/flush
	eof      bool // the most recent read ran into end-of-file
	// The most recent run of consecutive reads on this handle: where it started and where it ended.
	// Part of the state key only: it stands for the state of the implementation's read buffer, which
	// a correct implementation discards at the next seek or write but a broken one may keep, so two
	// histories are merged only if their last read runs agree (cleared by a write and by reopen).
	hasRun     bool
	sep        byte // what separated the most recent run of reads from now: 0 nothing yet, 'f' a flush, 's' a seek, 'v' setvbuf (the implementation may treat its read-ahead differently in each case)
	runA, runE int64
	// taint: an earlier step on this handle was a case of a recorded defect whose returned value
	// happened to agree (lines() on a line of exactly 4096 bytes; "*n" over a newline that is followed
	// by end-of-file; a seek over unflushed full-buffered bytes whose result happens to be right, see
	// c19JudgeSeekAfterBufferedWrite) while the implementation's cursor may already be off. Later disagreements on
	// the same handle carry the taint as a signature suffix so that they are attributed to that defect.
	taint  string
	unspec bool // the cursor is not defined by the reference semantics any more: do not expand
}

func c19NewModel(in *c19Init, mode string) *c19Model {
	m := &c19Model{content: in.Data, shared: true, in: in}
	m.open(mode)
	return m
}

func (m *c19Model) open(mode string) {
	m.mode = mode
	m.readable = mode == "r" || strings.Contains(mode, "+")
	m.writable = mode != "r"
	m.app = mode[0] == 'a'
	if mode[0] == 'w' && (len(m.content) > 0 || m.shared) {
		m.content, m.shared = []byte{}, false
	}
	m.cur, m.curKnown = 0, !m.app
	m.closed, m.buf, m.pending, m.last, m.eof, m.hasRun, m.runA, m.runE, m.unspec, m.taint, m.sep = false, 0, false, 0, false, false, 0, 0, false, "", 0
}

func (m *c19Model) update() bool { return m.readable && m.writable }

// enabled: the domain of histories (ISO C rules quoted by the property and representatives for
// operations that cannot change the state).
func (m *c19Model) enabled(op *c19Op) bool {
	if op.Kind == "reopen" {
		return true
	}
	if m.closed {
		if op.Kind == "iter" && !m.readable {
			return false // no iterator was obtained from a write-only handle
		}
		return op.rep
	}
	if !c19JudgeSeekAfterBufferedWrite && m.pending && op.Kind != "write" && op.Kind != "flush" && op.Kind != "close" {
		return false
	}
	switch op.Kind {
	case "write":
		if !m.writable {
			return op.rep
		}
		if m.update() && m.last == 'r' && !m.eof {
			return false // input directly followed by output needs a positioning call unless the read hit EOF
		}
	case "read":
		if !m.readable {
			return op.rep
		}
		if !m.curKnown {
			return false
		}
		if m.update() && m.last == 'w' {
			return false // output directly followed by input needs flush or a positioning call
		}
	case "lines", "iter":
		if !m.readable || !m.curKnown {
			return false
		}
		if m.update() && m.last == 'w' {
			return false
		}
	case "seek":
		if (op.Arg == "" || op.Arg == "cur") && !m.curKnown {
			return false
		}
	case "setvbuf":
		if !m.writable {
			return op.rep
		}
		// (changing the buffer with unwritten bytes in it is undefined in ISO C; every libc flushes them,
		// and the statement lists setvbuf among the operations of a history without restriction: judged as
		// "nothing is lost or reordered" - the model keeps the bytes and its unflushed flag)
	}
	return true
}

type c19Val struct {
	K byte // 'z' nil, 's' string, 'n' number, 'b' boolean, 'o' other
	S string
	N float64
}

var c19Nil = c19Val{K: 'z'}

func c19Str(b []byte) c19Val { return c19Val{K: 's', S: string(b)} }

func (v c19Val) String() string {
	switch v.K {
	case 'z':
		return "nil"
	case 'n':
		return strconv.FormatFloat(v.N, 'g', -1, 64)
	case 's':
		if len(v.S) <= 48 {
			return strconv.Quote(v.S)
		}
		h := sha1.Sum([]byte(v.S))
		return fmt.Sprintf("string[len=%d head=%q tail=%q sha1=%x]", len(v.S), v.S[:16], v.S[len(v.S)-16:], h[:4])
	}
	return "<" + v.S + ">"
}

func c19ValOf(v lua.LValue) c19Val {
	switch x := v.(type) {
	case *lua.LNilType:
		return c19Nil
	case lua.LString:
		return c19Val{K: 's', S: string(x)}
	case lua.LNumber:
		return c19Val{K: 'n', N: float64(x)}
	case lua.LBool:
		return c19Val{K: 'b', S: x.String()}
	}
	return c19Val{K: 'o', S: v.Type().String()}
}

type c19Exp struct {
	raise bool     // the call must raise a Lua error (closed handle)
	vals  []c19Val // expected results
	judge byte     // 0: results not judged; '1': first result; 'A': all expected results in order (extra results only after a failing nil)
	tag   string   // narrower class of the case, used in the violation signature
	disk  bool     // the bytes on disk are defined after this step
}

func c19IsSpaceC(b byte) bool { return b == ' ' || (b >= '\t' && b <= '\r') }

// scanNumber: what fscanf("%lf") does on clean decimal input. status 0: number; 1: only white space
// up to end-of-file; 2: anything else (outcome / cursor not asserted).
func (m *c19Model) scanNumber() (val float64, end int64, status int, nlSkipped, hitEOF bool) {
	b := m.content
	i := m.cur
	n := int64(len(b))
	for i < n && c19IsSpaceC(b[i]) {
		if b[i] == '\n' {
			nlSkipped = true
		}
		i++
	}
	if i >= n {
		return 0, c19Max64(n, m.cur), 1, nlSkipped, true
	}
	j := i
	if b[j] == '-' || b[j] == '+' {
		j++
	}
	d0 := j
	for j < n && b[j] >= '0' && b[j] <= '9' {
		j++
	}
	intDigits := j - d0
	fracDigits := int64(0)
	if j < n && b[j] == '.' {
		k := j + 1
		for k < n && b[k] >= '0' && b[k] <= '9' {
			k++
		}
		fracDigits = k - j - 1
		if fracDigits > 0 {
			j = k
		} else {
			return 0, 0, 2, nlSkipped, false // "3." style tokens: not asserted
		}
	}
	if intDigits+fracDigits == 0 {
		return 0, 0, 2, nlSkipped, false
	}
	if j < n && (b[j] == 'e' || b[j] == 'E') {
		k := j + 1
		if k < n && (b[k] == '-' || b[k] == '+') {
			k++
		}
		e0 := k
		for k < n && b[k] >= '0' && b[k] <= '9' {
			k++
		}
		if k == e0 {
			return 0, 0, 2, nlSkipped, false
		}
		j = k
	}
	if j < n && !c19IsSpaceC(b[j]) {
		return 0, 0, 2, nlSkipped, false // token glued to other text ("12x", "0x10"): not asserted
	}
	if b[i] == '0' && intDigits > 1 {
		return 0, 0, 2, nlSkipped, false // leading zeros: not asserted
	}
	v, err := strconv.ParseFloat(string(b[i:j]), 64)
	if err != nil {
		return 0, 0, 2, nlSkipped, false
	}
	return v, j, 0, nlSkipped, j >= n
}

func c19Max64(a, b int64) int64 {
	if a > b {
		return a
	}
	return b
}

// readOne applies one read format; iter says the line is read by the lines() iterator.
func (m *c19Model) readOne(f string, iter bool) (v c19Val, ok bool, tag string) {
	n := int64(len(m.content))
	switch f {
	case "*l":
		if m.cur >= n {
			m.eof = true
			return c19Nil, false, ""
		}
		rest := m.content[m.cur:]
		j := bytes.IndexByte(rest, '\n')
		var line []byte
		if j < 0 {
			line = rest
			m.cur = n
			m.eof = true
		} else {
			line = rest[:j]
			m.cur += int64(j) + 1
			m.eof = false
			if j > 0 && line[j-1] == '\r' {
				tag = "cr-before-newline"
			}
		}
		if iter && len(line) >= 4096 {
			tag = "line-ge-4096"
		}
		return c19Str(line), true, tag
	case "*a":
		var rest []byte
		if m.cur < n {
			rest = m.content[m.cur:]
			m.cur = n
		}
		m.eof = true
		return c19Str(rest), true, ""
	case "*n":
		val, end, st, nl, hit := m.scanNumber()
		if nl {
			tag = "newline-before-number"
		}
		switch st {
		case 0:
			m.cur, m.eof = end, hit
			return c19Val{K: 'n', N: val}, true, tag
		case 1:
			m.cur, m.eof = end, true
			return c19Nil, false, tag
		}
		m.unspec = true
		return c19Val{K: 'o', S: "unspecified"}, false, "unspecified"
	}
	cnt, err := strconv.ParseInt(f, 10, 64)
	if err != nil {
		harness.Fatal("c19: bad read format %q", f)
	}
	if cnt == 0 {
		if m.cur >= n {
			m.eof = true
			return c19Nil, false, ""
		}
		m.eof = false
		return c19Str(nil), true, ""
	}
	if m.cur >= n {
		m.eof = true
		return c19Nil, false, ""
	}
	k := n - m.cur
	m.eof = k < cnt
	if k > cnt {
		k = cnt
	}
	v = c19Str(m.content[m.cur : m.cur+k])
	m.cur += k
	return v, true, ""
}

// apply advances the model by one operation on the current handle and says what the
// implementation must return. reopen is split by the driver into close + open.
func (m *c19Model) apply(op *c19Op) c19Exp {
	if m.closed {
		return c19Exp{raise: true, disk: true}
	}
	switch op.Kind {
	case "write":
		if !m.writable {
			return c19Exp{vals: []c19Val{c19Nil}, judge: '1', tag: "not-writable"}
		}
		p := c19Payloads[op.Arg].bytes
		if m.app {
			m.cur = int64(len(m.content))
		}
		end := m.cur + int64(len(p))
		if m.shared {
			m.content, m.shared = append(make([]byte, 0, len(m.content)+len(p)+64), m.content...), false
		}
		for int64(len(m.content)) < end {
			m.content = append(m.content, 0)
		}
		copy(m.content[m.cur:end], p)
		m.cur, m.curKnown, m.last, m.eof, m.hasRun, m.sep = end, true, 'w', false, false, 0
		if m.buf > 0 {
			m.pending = true
		}
		return c19Exp{}
	case "read", "lines", "iter":
		if !m.readable {
			return c19Exp{vals: []c19Val{c19Nil}, judge: '1', tag: "not-readable"}
		}
		if m.last != 'r' || !m.hasRun {
			m.runA = m.cur
		}
		m.last, m.hasRun, m.sep = 'r', true, 0
		defer func() { m.runE = m.cur }()
		formats := []string{"*l"}
		if op.Kind == "read" && op.Arg != "" {
			formats = strings.Split(op.Arg, ",")
		}
		e := c19Exp{judge: 'A'}
		for _, f := range formats {
			v, ok, tag := m.readOne(f, op.Kind != "read")
			if tag != "" && e.tag == "" {
				e.tag = tag
			}
			if tag == "unspecified" {
				e.judge = 0
				break
			}
			e.vals = append(e.vals, v)
			if !ok {
				break
			}
		}
		switch e.tag {
		case "line-ge-4096":
			m.taint = "after-lines-ge-4096"
		case "newline-before-number":
			m.taint = "after-number-over-newline"
		}
		return e
	case "seek":
		var base, off int64
		switch op.Arg {
		case "", "cur":
			base = m.cur
		case "end":
			base = int64(len(m.content))
		}
		if op.Off != nil {
			off = *op.Off
		}
		e := c19Exp{judge: '1'}
		if m.pending {
			e.tag = "unflushed-buffered-write"
		}
		if base+off < 0 {
			e.vals = []c19Val{c19Nil}
			if e.tag == "" {
				e.tag = "negative"
			}
			return e
		}
		m.cur, m.curKnown, m.last, m.eof = base+off, true, 0, false
		if m.hasRun {
			m.sep = 's'
		}
		if m.pending {
			m.pending, m.taint = false, "after-seek-over-unflushed-bytes"
		}
		e.vals = []c19Val{{K: 'n', N: float64(m.cur)}}
		return e
	case "flush":
		m.pending = false
		// the statement names flush as a separator in both directions ("a seek or flush between a read
		// and a following write"; POSIX fflush on a seekable input stream moves the file offset to the
		// stream position), so a write may follow a read once the handle was flushed
		m.last = 0
		if m.hasRun {
			m.sep = 'f'
		}
		return c19Exp{disk: true}
	case "setvbuf":
		if m.hasRun && m.sep == 0 {
			m.sep = 'v'
		}
		if m.writable {
			m.buf = 0
			if op.Arg == "full" {
				m.buf = 4096
				if op.Off != nil {
					m.buf = int(*op.Off)
				}
			}
		}
		return c19Exp{}
	case "close":
		m.pending, m.closed = false, true
		return c19Exp{disk: true}
	}
	harness.Fatal("c19: unknown op %q", op.Kind)
	return c19Exp{}
}

func (m *c19Model) key(initIdx int) [16]byte {
	var hdr [40]byte
	hdr[0] = byte(initIdx)
	copy(hdr[1:3], m.mode)
	fl := byte(0)
	hdr[5] = byte(len(m.taint)) // the three taint strings have different lengths
	hdr[6] = m.sep
	for i, b := range []bool{m.closed, m.curKnown, m.pending, m.eof, m.unspec} {
		if b {
			fl |= 1 << uint(i)
		}
	}
	cur, last, buf := m.cur, m.last, m.buf
	runA, runE := int64(-1), int64(-1)
	if m.hasRun {
		runA, runE = m.runA, m.runE
	}
	if m.closed {
		// closed handles differ in what the implementation may still hold: the extent of the last
		// run of reads (a filled read buffer) stays in the key, so that "read some, close, use a
		// stored iterator" is not merged with "open, close"
		fl, cur, buf = 1, 0, 0
	}
	if !m.curKnown {
		cur = -1
	}
	hdr[3], hdr[4] = fl, last
	binary.LittleEndian.PutUint64(hdr[8:], uint64(cur))
	binary.LittleEndian.PutUint64(hdr[16:], uint64(runA))
	binary.LittleEndian.PutUint64(hdr[24:], uint64(runE))
	binary.LittleEndian.PutUint32(hdr[32:], uint32(buf))
	binary.LittleEndian.PutUint32(hdr[36:], uint32(len(m.content)))
	var kb [60]byte
	copy(kb[:40], hdr[:])
	d := m.in.digest
	if !m.shared {
		d = sha1.Sum(m.content)
	}
	copy(kb[40:], d[:])
	sum := sha1.Sum(kb[:])
	var k [16]byte
	copy(k[:], sum[:])
	return k
}

func (m *c19Model) summary() string {
	h := sha1.Sum(m.content)
	return fmt.Sprintf("mode=%s closed=%v len=%d sha1=%x cursor=%d known=%v last=%q eof=%v buf=%d pending=%v", m.mode, m.closed, len(m.content), h[:4], m.cur, m.curKnown, string(rune(m.last)), m.eof, m.buf, m.pending)
}

// ---- implementation driver ----------------------------------------------------------------------

type c19Worker struct {
	L       *lua.LState
	dir     string
	path    string
	lpath   lua.LString
	fnMeth  *lua.LFunction // function(f, name, ...) return f[name](f, ...) end
	fnOpen  *lua.LFunction
	fnLines *lua.LFunction // function(f) local it = f:lines() return it() end
	fnSlurp *lua.LFunction
	f, it   lua.LValue
	onDisk  int // index of the initial image the scratch file is known to hold, -1 = unknown
}

func newC19Worker(dir string) *c19Worker {
	w := &c19Worker{dir: dir, path: filepath.Join(dir, "f.dat"), onDisk: -1}
	if err := os.MkdirAll(dir, 0o755); err != nil {
		harness.Fatal("c19: %v", err)
	}
	w.lpath = lua.LString(w.path)
	w.L = lua.NewState()
	load := func(src string) *lua.LFunction {
		if err := w.L.DoString("return " + src); err != nil {
			harness.Fatal("c19 load %q: %v", src, err)
		}
		f := w.L.Get(-1).(*lua.LFunction)
		w.L.Pop(1)
		return f
	}
	w.fnMeth = load("function(f, name, ...) return f[name](f, ...) end")
	w.fnOpen = load("function(p, m) return io.open(p, m) end")
	w.fnLines = load("function(f) local it = f:lines() return it() end")
	w.fnSlurp = load("function(p) local g = assert(io.open(p, 'rb')) local s = g:read('*a') g:close() return s end")
	return w
}

// resetFile rewrites the scratch file in place. It deliberately avoids O_TRUNC + write + close:
// on ext4 that pattern forces block allocation at close (auto_da_alloc) and costs ~0.4 ms.
func (w *c19Worker) resetFile(data []byte) {
	f, err := os.OpenFile(w.path, os.O_WRONLY|os.O_CREATE, 0o600)
	if err == nil {
		if len(data) > 0 {
			_, err = f.WriteAt(data, 0)
		}
		if err == nil {
			err = f.Truncate(int64(len(data)))
		}
		if e := f.Close(); err == nil {
			err = e
		}
	}
	if err != nil {
		harness.Fatal("c19: cannot prepare %s: %v", w.path, err)
	}
}

func (w *c19Worker) close() {
	w.L.Close()
	os.RemoveAll(w.dir)
}

func (w *c19Worker) call(fn lua.LValue, args ...lua.LValue) (res []lua.LValue, err error) {
	L := w.L
	top := L.GetTop()
	defer func() {
		if r := recover(); r != nil {
			err = fmt.Errorf("GO PANIC: %v", r)
			L.SetTop(top)
		}
	}()
	L.Push(fn)
	for _, a := range args {
		L.Push(a)
	}
	if e := L.PCall(len(args), lua.MultRet, nil); e != nil {
		L.SetTop(top)
		return nil, e
	}
	n := L.GetTop() - top
	res = make([]lua.LValue, n)
	for i := 0; i < n; i++ {
		res[i] = L.Get(top + 1 + i)
	}
	L.SetTop(top)
	return res, nil
}

// exec performs op on the current handle.
func (w *c19Worker) exec(op *c19Op, closed bool) ([]lua.LValue, error) {
	switch op.Kind {
	case "write":
		args := append([]lua.LValue{w.f, lua.LString("write")}, c19Payloads[op.Arg].args...)
		return w.call(w.fnMeth, args...)
	case "read":
		args := []lua.LValue{w.f, lua.LString("read")}
		if op.Arg != "" {
			for _, f := range strings.Split(op.Arg, ",") {
				if f[0] == '*' {
					args = append(args, lua.LString(f))
				} else {
					n, _ := strconv.Atoi(f)
					args = append(args, lua.LNumber(n))
				}
			}
		}
		return w.call(w.fnMeth, args...)
	case "lines":
		if closed {
			return w.call(w.fnMeth, w.f, lua.LString("lines")) // f:lines() itself must raise
		}
		return w.call(w.fnLines, w.f)
	case "iter":
		return w.call(w.it)
	case "seek":
		args := []lua.LValue{w.f, lua.LString("seek")}
		if op.Arg != "" {
			args = append(args, lua.LString(op.Arg))
			if op.Off != nil {
				args = append(args, lua.LNumber(*op.Off))
			}
		}
		return w.call(w.fnMeth, args...)
	case "flush", "close":
		return w.call(w.fnMeth, w.f, lua.LString(op.Kind))
	case "setvbuf":
		args := []lua.LValue{w.f, lua.LString("setvbuf"), lua.LString(op.Arg)}
		if op.Off != nil {
			args = append(args, lua.LNumber(*op.Off))
		}
		return w.call(w.fnMeth, args...)
	}
	harness.Fatal("c19: exec %q", op.Kind)
	return nil, nil
}

// ---- the check ----------------------------------------------------------------------------------

type c19Replay struct {
	Init    string   `json:"init"`
	Mode    string   `json:"mode"`
	Ops     []c19Op  `json:"ops"`
	OpsText []string `json:"ops_text"`
}

type c19Ctx struct {
	inits  []c19Init
	report func(sig, what string, rp c19Replay)
	disks  int64
}

func c19OpsText(ops []c19Op) []string {
	s := make([]string, len(ops))
	for i, o := range ops {
		s[i] = o.String()
	}
	return s
}

func c19Vals(vs []c19Val) string {
	s := make([]string, len(vs))
	for i, v := range vs {
		s[i] = v.String()
	}
	return "(" + strings.Join(s, ", ") + ")"
}

type c19Run struct {
	c        *c19Ctx
	w        *c19Worker
	in       *c19Init
	mode     string
	ops      []c19Op
	m        *c19Model
	root     string // mode the history started with (mode follows reopen)
	obs      string // non-empty while the closing observation runs: prefix of violation signatures
	taint    string // the model's taint before the current step
	needIter bool   // the history contains an "iter" step
	held     []c19Held
}

// c19Held: a string an operation returned, kept as delivered (the Go string shares its bytes with the
// Lua value) next to a private copy taken at once. A Lua string is a value: whatever the handle does
// afterwards - refill or slide its read buffer, write, seek, close - the bytes a read returned must
// stay what they were. Compared at the end of every history.
type c19Held struct {
	step       int
	live, copy string
}

func (x *c19Run) heldCheck() bool {
	for _, h := range x.held {
		if h.live != h.copy {
			op := "open"
			if h.step >= 0 && h.step < len(x.ops) {
				op = c19OpSigName(&x.ops[h.step])
			}
			x.viol(len(x.ops)-1, "returned-string-changed-later/"+op+"/"+x.root, fmt.Sprintf("the string returned by step %d read %s when it was returned and reads %s at the end of the history: it shares memory with the handle's buffer", h.step+1, c19Str([]byte(h.copy)), c19Str([]byte(h.live))))
			return false
		}
	}
	return true
}

func (x *c19Run) viol(step int, sig, what string) {
	ops := x.ops
	if step >= 0 && step < len(ops) {
		ops = ops[:step+1]
	}
	txt := c19OpsText(ops)
	if x.obs != "" {
		what = "in the closing observation (read(1) and seek() on the handle after the history): " + what
	}
	if x.taint != "" {
		sig += "/" + x.taint
	}
	x.c.report(x.obs+sig, fmt.Sprintf("%s\nfile %s (%d bytes) opened with io.open(path,%q); history: %s\nmodel after the step: %s", what, x.in.Name, len(x.in.Data), x.root, strings.Join(txt, " ; "), x.m.summary()),
		c19Replay{Init: x.in.Name, Mode: x.root, Ops: ops, OpsText: txt})
}

// diskCheck compares the file's bytes (through os.ReadFile and through a new io.open handle) with
// the model's content.
func (x *c19Run) diskCheck(step int, where string) bool {
	atomic.AddInt64(&x.c.disks, 1)
	tag := ""
	b, err := os.ReadFile(x.w.path)
	if err != nil {
		x.viol(step, where+"/disk-missing"+tag+"/"+x.mode, fmt.Sprintf("os.ReadFile after %s: %v", where, err))
		return false
	}
	if !bytes.Equal(b, x.m.content) {
		x.viol(step, where+"/disk"+tag+"/"+x.mode, fmt.Sprintf("bytes on disk (os.ReadFile) differ from the model's content %s: on disk %s, model %s", c19Diff(b, x.m.content), c19Str(b), c19Str(x.m.content)))
		return false
	}
	if x.m.shared && len(x.ops) > 0 {
		return true // never written, never truncated: a new handle would only re-read the untouched image (checked for the roots)
	}
	res, err := x.w.call(x.w.fnSlurp, x.w.lpath)
	if err != nil || len(res) != 1 {
		x.viol(step, where+"/newhandle-error"+tag+"/"+x.mode, fmt.Sprintf("reading the file back through a new io.open handle failed: %v", err))
		return false
	}
	if s, ok := res[0].(lua.LString); !ok || string(s) != string(x.m.content) {
		x.viol(step, where+"/newhandle"+tag+"/"+x.mode, fmt.Sprintf("bytes seen through a new io.open handle differ from the model's content: got %s, model %s", c19ValOf(res[0]), c19Str(x.m.content)))
		return false
	}
	return true
}

func c19Diff(a, b []byte) string {
	n := len(a)
	if len(b) < n {
		n = len(b)
	}
	for i := 0; i < n; i++ {
		if a[i] != b[i] {
			return fmt.Sprintf("(first difference at offset %d; lengths %d vs %d)", i, len(a), len(b))
		}
	}
	return fmt.Sprintf("(common prefix of %d bytes; lengths %d vs %d)", n, len(a), len(b))
}

func (x *c19Run) openHandle(step int, mode string) bool {
	res, err := x.w.call(x.w.fnOpen, x.w.lpath, lua.LString(mode))
	if err != nil || len(res) == 0 {
		x.viol(step, "open/raise/"+mode, fmt.Sprintf("io.open(path,%q) on an existing file raised or returned nothing: %v", mode, err))
		return false
	}
	if _, ok := res[0].(*lua.LUserData); !ok {
		x.viol(step, "open/failed/"+mode, fmt.Sprintf("io.open(path,%q) on an existing file returned %s", mode, c19ValOf(res[0])))
		return false
	}
	x.w.f, x.w.it = res[0], lua.LNil
	if x.m.readable && x.needIter { // the iterator used by the "iter" operation is obtained right after opening
		it, err := x.w.call(x.w.fnMeth, x.w.f, lua.LString("lines"))
		if err != nil || len(it) != 1 || it[0].Type() != lua.LTFunction {
			x.viol(step, "open/lines/"+mode, fmt.Sprintf("f:lines() on a fresh readable handle did not return an iterator function: %v %v", it, err))
			return false
		}
		x.w.it = it[0]
	}
	return true
}

func c19OpSigName(op *c19Op) string {
	switch op.Kind {
	case "read":
		if op.Arg == "" {
			return "read/default"
		}
		return "read/" + op.Arg
	case "seek":
		if op.Arg == "" {
			return "seek/noargs"
		}
		if op.Off == nil {
			return "seek/" + op.Arg + "-nooffset"
		}
		return "seek/" + op.Arg
	case "setvbuf":
		return "setvbuf/" + op.Arg
	case "write":
		return "write/" + op.Arg
	}
	return op.Kind
}

// step performs one operation on implementation and model and compares. last: this is the newest
// step of the history (expensive observations are made only there; earlier steps were the newest
// step of a shorter history).
func (x *c19Run) step(i int, op *c19Op, last bool) bool {
	m := x.m
	x.taint = m.taint
	if op.Kind == "reopen" {
		if !m.closed {
			cl := c19Op{Kind: "close"}
			m.apply(&cl)
			if _, err := x.w.exec(&cl, false); err != nil {
				x.viol(i, "reopen/close-raise/"+x.mode, fmt.Sprintf("close of an open handle raised: %v", err))
				return false
			}
			if last && !x.diskCheck(i, "reopen-close") {
				return false
			}
		}
		m.open(op.Arg)
		x.mode = op.Arg
		if !x.openHandle(i, op.Arg) {
			return false
		}
		if last && !x.diskCheck(i, "reopen") {
			return false
		}
		return true
	}
	wasClosed := m.closed
	modeBefore := m.mode
	e := m.apply(op)
	res, err := x.w.exec(op, wasClosed)
	name := c19OpSigName(op)
	if e.raise {
		if err == nil {
			x.viol(i, "closed/"+op.Kind+"/no-raise/"+modeBefore, fmt.Sprintf("%s on a closed handle did not raise; it returned %s", op, c19Vals(c19ValsOf(res))))
			return false
		}
		if strings.HasPrefix(err.Error(), "GO PANIC") {
			x.viol(i, "closed/"+op.Kind+"/go-panic/"+modeBefore, fmt.Sprintf("%s on a closed handle: %v", op, err))
			return false
		}
		b, rerr := os.ReadFile(x.w.path)
		if rerr != nil || !bytes.Equal(b, m.content) {
			x.viol(i, "closed/"+op.Kind+"/file-changed/"+modeBefore, fmt.Sprintf("%s on a closed handle changed the file %s (%v)", op, c19Diff(b, m.content), rerr))
			return false
		}
		return true
	}
	if err != nil {
		tag := "raise"
		if e.tag != "" {
			tag = e.tag + "/raise"
		}
		x.viol(i, name+"/"+tag+"/"+modeBefore, fmt.Sprintf("%s on an open handle raised: %v (model expects %s)", op, err, c19Vals(e.vals)))
		return false
	}
	got := c19ValsOf(res)
	for _, g := range got {
		if g.K == 's' && len(g.S) > 0 {
			x.held = append(x.held, c19Held{i, g.S, strings.Clone(g.S)})
		}
	}
	bad := ""
	switch e.judge {
	case '1':
		if len(got) == 0 || got[0] != e.vals[0] {
			bad = "first result differs"
		}
	case 'A':
		if len(got) < len(e.vals) {
			bad = "too few results"
		} else {
			for k := range e.vals {
				if got[k] != e.vals[k] {
					bad = fmt.Sprintf("result %d differs", k+1)
					break
				}
			}
			if bad == "" && len(got) > len(e.vals) && (len(e.vals) == 0 || e.vals[len(e.vals)-1].K != 'z') {
				bad = "too many results"
			}
		}
	}
	if bad != "" {
		tag := e.tag
		if tag == "" {
			tag = "value"
		}
		x.viol(i, name+"/"+tag+"/"+modeBefore, fmt.Sprintf("%s returned %s, model expects %s (%s)", op, c19Vals(got), c19Vals(e.vals), bad))
		return false
	}
	if last && e.disk && !x.diskCheck(i, op.Kind) {
		return false
	}
	return true
}

func c19ValsOf(res []lua.LValue) []c19Val {
	out := make([]c19Val, len(res))
	for i, v := range res {
		out[i] = c19ValOf(v)
	}
	return out
}

// run replays a whole history on a fresh copy of the initial file. It returns the state key before
// the closing observation, whether the state may be expanded, and whether everything agreed.
func (c *c19Ctx) run(w *c19Worker, initIdx int, mode string, ops []c19Op) (key [16]byte, expand, ok bool) {
	in := &c.inits[initIdx]
	if w.onDisk != initIdx {
		w.resetFile(in.Data)
	}
	w.onDisk = -1
	x := &c19Run{c: c, w: w, in: in, mode: mode, root: mode, ops: ops, m: c19NewModel(in, mode)}
	for i := range ops {
		if ops[i].Kind == "iter" {
			x.needIter = true
		}
	}
	w.L.SetTop(0)
	if !x.openHandle(-1, mode) {
		return key, false, false
	}
	defer func() {
		if w.f != nil && w.f != lua.LNil && (!ok || !x.m.closed) { // do not leak descriptors on the paths that stop early
			w.call(w.fnMeth, w.f, lua.LString("close"))
		}
		w.f, w.it = lua.LNil, lua.LNil
	}()
	for i := range ops {
		if !x.step(i, &ops[i], i == len(ops)-1) {
			return key, false, false
		}
	}
	key = x.m.key(initIdx)
	expand = !x.m.unspec
	if x.m.unspec {
		return key, false, true // cursor not defined: content is, but the final flush position is not asserted either
	}
	// closing observation (on this throw-away handle, after the state key was taken): the next byte
	// and the offset as the handle sees them - one step of look-ahead beyond the depth bound, which
	// shows a stale read buffer or a misplaced descriptor even when the model state was seen before
	lastKind := "open"
	if len(ops) > 0 {
		lastKind = ops[len(ops)-1].Kind
	}
	x.taint = x.m.taint
	if m := x.m; !m.closed && !m.pending && m.curKnown {
		x.obs = "observe-after-" + lastKind + "/"
		rd, sk := c19Op{Kind: "read", Arg: "1"}, c19Op{Kind: "seek"}
		probe := []*c19Op{&rd, &sk}
		if !m.readable {
			probe = probe[1:]
		} else if m.update() && m.last == 'w' {
			probe = []*c19Op{&sk, &rd}
		}
		for _, p := range probe {
			if !x.step(len(ops)-1, p, false) {
				return key, false, false
			}
		}
		x.obs = ""
	}
	// close (must not raise), then the file holds exactly the model's bytes
	x.taint = x.m.taint
	if !x.m.closed {
		cl := c19Op{Kind: "close"}
		x.m.apply(&cl)
		if _, err := w.exec(&cl, false); err != nil {
			x.viol(len(ops)-1, "final-close/raise/"+x.mode, fmt.Sprintf("close of an open handle raised: %v", err))
			return key, false, false
		}
	}
	if !x.diskCheck(len(ops)-1, "final/after-"+lastKind) {
		return key, false, false
	}
	if !x.heldCheck() {
		return key, false, false
	}
	if x.m.shared {
		w.onDisk = initIdx // verified just now: the file still holds the initial image
	}
	return key, expand, true
}

// modelOnly replays a history on the model alone.
func (c *c19Ctx) modelOnly(initIdx int, mode string, ops []c19Op) *c19Model {
	m := c19NewModel(&c.inits[initIdx], mode)
	for i := range ops {
		if ops[i].Kind == "reopen" {
			m.open(ops[i].Arg)
			continue
		}
		m.apply(&ops[i])
	}
	return m
}

// openAbsent: io.open on a path that does not exist.
func (c *c19Ctx) openAbsent(w *c19Worker) int {
	n := 0
	for _, mode := range []string{"r", "w", "a", "r+", "w+", "a+"} {
		os.Remove(w.path)
		n++
		rp := c19Replay{Init: "absent", Mode: mode}
		res, err := w.call(w.fnOpen, w.lpath, lua.LString(mode))
		if err != nil || len(res) == 0 {
			c.report("open-absent/raise/"+mode, fmt.Sprintf("io.open(absent,%q) raised: %v", mode, err), rp)
			continue
		}
		_, statErr := os.Stat(w.path)
		if mode[0] == 'r' {
			if res[0] != lua.LNil || statErr == nil {
				c.report("open-absent/created/"+mode, fmt.Sprintf("io.open(absent,%q) returned %s / file exists: %v", mode, c19ValOf(res[0]), statErr == nil), rp)
			}
			if ud, ok := res[0].(*lua.LUserData); ok {
				w.call(w.fnMeth, ud, lua.LString("close"))
			}
			continue
		}
		if _, ok := res[0].(*lua.LUserData); !ok || statErr != nil {
			c.report("open-absent/not-created/"+mode, fmt.Sprintf("io.open(absent,%q) returned %s, stat: %v", mode, c19ValOf(res[0]), statErr), rp)
			continue
		}
		w.call(w.fnMeth, res[0], lua.LString("close"))
		if b, _ := os.ReadFile(w.path); len(b) != 0 {
			c.report("open-absent/not-empty/"+mode, fmt.Sprintf("io.open(absent,%q) created a file of %d bytes", mode, len(b)), rp)
		}
	}
	return n
}

type c19Campaign struct {
	Name  string   `json:"name"`
	Inits []string `json:"initial_files"`
	Modes []string `json:"modes"`
	Level int      `json:"menu_level"`
	Depth int      `json:"depth"`
}

type c19Node struct {
	init uint8
	mode string
	hist string // menu indexes
}

func c19NodeLess(a, b c19Node) bool {
	if a.init != b.init {
		return a.init < b.init
	}
	if a.mode != b.mode {
		return a.mode < b.mode
	}
	return a.hist < b.hist
}

const c19Shards = 256

type c19Set struct {
	mu [c19Shards]sync.Mutex
	m  [c19Shards]map[[16]byte]c19Node
}

func newC19Set() *c19Set {
	s := &c19Set{}
	for i := range s.m {
		s.m[i] = map[[16]byte]c19Node{}
	}
	return s
}

func (s *c19Set) has(k [16]byte) bool {
	i := int(k[0])
	s.mu[i].Lock()
	_, ok := s.m[i][k]
	s.mu[i].Unlock()
	return ok
}

// putMin keeps, per key, the smallest node (so that the representative history of a state does not
// depend on the order in which workers finish).
func (s *c19Set) putMin(k [16]byte, n c19Node) {
	i := int(k[0])
	s.mu[i].Lock()
	if old, ok := s.m[i][k]; !ok || c19NodeLess(n, old) {
		s.m[i][k] = n
	}
	s.mu[i].Unlock()
}

func (s *c19Set) len() int {
	n := 0
	for i := range s.m {
		n += len(s.m[i])
	}
	return n
}

func runC19(r *harness.Run) {
	start := time.Now()
	soft := 50 * time.Second
	if r.Thorough() {
		soft = 17 * time.Minute
	}
	if os.Getenv("VERIF_BUDGET_S") == "" && start.Add(soft).Before(r.Deadline) {
		r.Deadline = start.Add(soft)
	}
	defer debug.SetGCPercent(debug.SetGCPercent(400)) // the live heap is small; most garbage is 4 KiB reader buffers
	inits := c19Inits()
	initIdx := map[string]int{}
	for i, in := range inits {
		initIdx[in.Name] = i
	}
	c := &c19Ctx{inits: inits}
	c.report = func(sig, what string, rp c19Replay) { r.Violation(sig, what, rp) }

	allModes := []string{"r", "w", "a", "r+", "w+", "a+"}
	allInits := []string{"s0", "s3", "s4095", "s4096", "s4097", "s8200", "num", "crlf"}
	var campaigns []c19Campaign
	if r.Thorough() {
		campaigns = []c19Campaign{
			{"full-menu/depth4", allInits, allModes, 3, 4},
			{"quick-menu/depth5", allInits, allModes, 2, 5},
			{"small-menu/depth6", allInits, allModes, 1, 6},
			{"tiny-menu/depth7", allInits, allModes, 0, 7},
			{"quick-menu/depth6/update-modes", []string{"s8200"}, []string{"r+", "a+"}, 2, 6},
		}
	} else {
		campaigns = []c19Campaign{
			{"full-menu/depth3", []string{"s3", "s4097", "s8200", "num", "crlf"}, allModes, 3, 3},
			{"quick-menu/depth4", []string{"s0", "s3", "s4096", "s4097", "s8200", "num"}, allModes, 2, 4},
			{"tiny-menu/depth6", []string{"s3", "s4097", "s8200", "num"}, []string{"r", "r+", "w+", "a+"}, 0, 6},
		}
	}
	if s := os.Getenv("C19_CAMPAIGNS"); s != "" { // calibration aid: name:level:depth,...
		campaigns = nil
		for _, p := range strings.Split(s, ",") {
			f := strings.Split(p, ":")
			lv, _ := strconv.Atoi(f[1])
			d, _ := strconv.Atoi(f[2])
			cp := c19Campaign{f[0], allInits, allModes, lv, d}
			if len(f) > 3 && f[3] == "small" {
				cp.Inits, cp.Modes = []string{"s3", "s4097", "s8200", "num"}, []string{"r", "r+", "w+", "a+"}
			}
			if len(f) > 3 && f[3] == "upd" {
				cp.Inits, cp.Modes = []string{"s4097", "s8200"}, []string{"r+", "w+", "a+"}
			}
			campaigns = append(campaigns, cp)
		}
	}

	r.Rule = "explicit-state BFS over operation histories on real files: roots = (initial file image, io.open mode); successor = the whole history replayed on a freshly rewritten file through a new io.open handle + one more operation from the menu " +
		"(write of small strings / 4095- and 4097-byte blocks / a number / several arguments; read by count 0,1,5,4096,5000, \"*l\", \"*a\", \"*n\" and two formats; lines() steps; seek set/cur/end around 0, +-1, 4096, size; seek(); flush; setvbuf; close; reopen in another mode; every operation after close); " +
		"histories obey the ISO C rule (read->write only after a seek or a read that hit end-of-file, write->read only after flush or seek); after every step the returned values are compared with a []byte+cursor model; at the end of every history the handle is probed once more (read(1) and seek()), closed, " +
		"and the bytes on disk are compared with the model through os.ReadFile and - once the content was ever modified - through a new io.open handle (also directly after flush/close steps); " +
		"several campaigns trade menu size against depth (see coverage.campaigns); a state is (initial image, file content hash, cursor, mode, closed, buffering, direction of the last I/O, eof flag, start and end offset of the most recent run of reads as a stand-in for the read buffer, unflushed flag); " +
		"states are merged only on equal keys, the representative history of a state is the smallest one; non-trivial = distinct states reached by at least one operation"
	r.Assumptions = []string{
		"initial cursor of a/a+ handles is not asserted (ISO C leaves it open): reads and relative seeks are enabled only after a seek(\"set\"|\"end\") or a write",
		"read -> flush -> write is judged as the statement words it (flush separates a read from a following write; POSIX gives fflush on a seekable input stream that meaning, ISO C alone leaves it undefined)",
		"setvbuf on a handle that holds unflushed full-buffered bytes (undefined in ISO C) is judged as: no byte is lost or reordered - they must be on disk at the next flush/close, before whatever is written afterwards",
		"return values of write, flush, setvbuf and close are not judged (the statement does not fix them); a write on a read-only handle and a read on a write-only handle must return nil first and change nothing",
		"read(\"*n\") is asserted only where fscanf(\"%lf\") is unambiguous: optional white space, then a plain decimal token followed by white space or end-of-file, or white space up to end-of-file; otherwise the history is not continued",
		"real OS errors (EIO, short reads) are not injected",
		"state merging uses the reference model's state plus the extent of the last read run, not the implementation's private buffer fields; the closing probe adds one step of look-ahead for what that key cannot see",
		"histories are not continued behind a step that disagrees (all such steps on the unchanged tree are recorded findings), behind a seek over unflushed full-buffered bytes, or behind a read(\"*n\") with an unspecified outcome",
	}

	nw := harness.Workers()
	base := harness.WorkDir("c19")
	workers := make([]*c19Worker, nw)
	for i := range workers {
		workers[i] = newC19Worker(filepath.Join(base, fmt.Sprintf("w%d", i)))
	}
	defer func() {
		for _, w := range workers {
			w.close()
		}
		os.RemoveAll(base)
	}()

	r.EvalN(int64(c.openAbsent(workers[0])))

	var totStates, totTrans int64
	var campReports []map[string]interface{}
	expiredAll := false
	for _, cp := range campaigns {
		if expiredAll {
			r.NotExhaustive("campaign " + cp.Name + " not started (deadline)")
			continue
		}
		menus := make([][]c19Op, len(inits))
		for i := range inits {
			menus[i] = c19Menu(&inits[i], cp.Level)
		}
		opsOf := func(n c19Node) []c19Op {
			ops := make([]c19Op, len(n.hist), len(n.hist)+1)
			for i := 0; i < len(n.hist); i++ {
				ops[i] = menus[n.init][n.hist[i]]
			}
			return ops
		}
		seen := newC19Set()
		var frontier []c19Node
		var states, trans int64
		perDepth := []int{}
		// roots
		for _, in := range cp.Inits {
			for _, mode := range cp.Modes {
				ii := initIdx[in]
				if mode[0] == 'w' && in != "s3" && in != "s4097" {
					continue // "w"/"w+" truncate: the initial image only matters through the menu's size-relative seeks
				}
				n := c19Node{init: uint8(ii), mode: mode}
				k, _, ok := c.run(workers[0], ii, mode, nil)
				trans++
				if ok && !seen.has(k) {
					seen.putMin(k, n)
					frontier = append(frontier, n)
				}
			}
		}
		states += int64(len(frontier))
		perDepth = append(perDepth, len(frontier))
		maxDepthDone := 0
		menuSizes := map[string]int{}
		for i, in := range inits {
			menuSizes[in.Name] = len(menus[i])
		}
		for d := 1; d <= cp.Depth && len(frontier) > 0; d++ {
			cand := newC19Set()
			var expired int32
			var ltransTot int64
			const chunk = 16
			chunks := (len(frontier) + chunk - 1) / chunk
			harness.ParallelShards(chunks, func(wi, shard int) {
				w := workers[wi]
				var ltrans int64
				for si := shard * chunk; si < (shard+1)*chunk && si < len(frontier); si++ {
					if atomic.LoadInt32(&expired) != 0 || r.Expired() {
						atomic.StoreInt32(&expired, 1)
						break
					}
					nd := frontier[si]
					prefix := opsOf(nd)
					m := c.modelOnly(int(nd.init), nd.mode, prefix)
					menu := menus[nd.init]
					for oi := range menu {
						if !m.enabled(&menu[oi]) {
							continue
						}
						ops := append(prefix[:len(prefix):len(prefix)], menu[oi])
						k, expand, ok := c.run(w, int(nd.init), nd.mode, ops)
						ltrans++
						r.Count("op:"+menu[oi].Kind, 1)
						if !ok {
							r.Count("histories_ending_in_a_violation", 1)
							continue
						}
						if !expand {
							r.Count("histories_not_continued(unspecified cursor after read *n)", 1)
						}
						if seen.has(k) {
							continue
						}
						n2 := c19Node{init: nd.init, mode: nd.mode, hist: nd.hist + string([]byte{byte(oi)})}
						if !expand {
							n2.hist = "\xff" + n2.hist // marker: counted as a state, never expanded
						}
						cand.putMin(k, n2)
					}
				}
				atomic.AddInt64(&ltransTot, ltrans)
			})
			trans += ltransTot
			if expired != 0 {
				r.NotExhaustive(fmt.Sprintf("campaign %s: deadline reached while expanding depth %d (depth %d fully covered)", cp.Name, d, maxDepthDone))
				expiredAll = true
				break
			}
			maxDepthDone = d
			var next []c19Node
			newStates := 0
			for i := range cand.m {
				for k, n := range cand.m[i] {
					seen.m[i][k] = n
					newStates++
					if !strings.HasPrefix(n.hist, "\xff") {
						next = append(next, n)
					}
					nn := n
					r.Eval(cp.Name+string(k[:]), true, func() interface{} {
						nn.hist = strings.TrimPrefix(nn.hist, "\xff")
						ops := opsOf(nn)
						return map[string]interface{}{"campaign": cp.Name, "file": inits[nn.init].Name, "mode": nn.mode, "history": c19OpsText(ops),
							"model": c.modelOnly(int(nn.init), nn.mode, ops).summary()}
					})
				}
			}
			sort.Slice(next, func(i, j int) bool { return c19NodeLess(next[i], next[j]) })
			frontier = next
			states += int64(newStates)
			perDepth = append(perDepth, newStates)
		}
		totStates += states
		totTrans += trans
		campReports = append(campReports, map[string]interface{}{"campaign": cp, "states": states, "transitions": trans, "new_states_per_depth": perDepth,
			"max_depth_completed": maxDepthDone, "menu_sizes": menuSizes, "elapsed_s": time.Since(start).Seconds()})
	}
	r.Extra["states"] = totStates
	r.Extra["transitions"] = totTrans
	r.Extra["traces_validated_against_impl"] = totTrans
	r.Extra["campaigns"] = campReports
	r.Extra["disk_comparisons"] = atomic.LoadInt64(&c.disks)
	c19Spellings(r)
	runPinned(r, "C19")
	reentrantFamily(r, "C19")
}

// replayC19 re-executes one stored history.
func replayC19(raw json.RawMessage) (bool, string) {
	var rp c19Replay
	if err := json.Unmarshal(raw, &rp); err != nil {
		return false, "bad replay: " + err.Error()
	}
	inits := c19Inits()
	c := &c19Ctx{inits: inits}
	var out []string
	c.report = func(sig, what string, _ c19Replay) { out = append(out, "signature: "+sig+"\n"+what) }
	base := harness.WorkDir("c19-replay")
	w := newC19Worker(filepath.Join(base, "w0"))
	defer func() { w.close(); os.RemoveAll(base) }()
	if rp.Init == "absent" {
		c.openAbsent(w)
	} else {
		idx := -1
		for i, in := range inits {
			if in.Name == rp.Init {
				idx = i
			}
		}
		if idx < 0 {
			return false, "unknown initial file " + rp.Init
		}
		c.run(w, idx, rp.Mode, rp.Ops)
	}
	if len(out) == 0 {
		return true, fmt.Sprintf("C19 replay: file %s mode %s history %v agrees with the model", rp.Init, rp.Mode, c19OpsText(rp.Ops))
	}
	return false, strings.Join(out, "\n")
}
