package props

// C14 character-class table: the pattern/subject enumeration uses a 5-symbol subject alphabet, so
// class membership is checked separately, exhaustively over single-byte subjects:
// every class letter (both cases) x every byte 0..127, bare, inside a set, inside a complemented
// set; '.' and every escaped / literal single character x every byte; ranges between a list of
// end points (both orders) x every byte.

import (
	"sync/atomic"
)

func (c *c14Ctx) classTable(w *c14Worker) {
	var pats []string
	for _, l := range "acdlpsuwxzACDLPSUWXZ" {
		ls := string(l)
		pats = append(pats, "%"+ls, "[%"+ls+"]", "[^%"+ls+"]", "[%"+ls+"(]", "%"+ls+"+", "[^%"+ls+"]*$")
	}
	pats = append(pats, ".", "[^.]", "[.]")
	isAlnum := func(b byte) bool { return b >= '0' && b <= '9' || b >= 'a' && b <= 'z' || b >= 'A' && b <= 'Z' }
	for b := 1; b < 128; b++ {
		ch := string([]byte{byte(b)})
		if isAlnum(byte(b)) {
			pats = append(pats, ch, "["+ch+"]")
		} else {
			pats = append(pats, "%"+ch, "[%"+ch+"]", "[^%"+ch+"]")
		}
	}
	ends := []byte{'0', '9', 'A', 'Z', 'a', 'z', 'f', '!', '~', '(', '/', ':', 0x01, 0x7f, ' '}
	for _, lo := range ends {
		for _, hi := range ends {
			pats = append(pats, "["+string([]byte{lo})+"-"+string([]byte{hi})+"]", "[^"+string([]byte{lo})+"-"+string([]byte{hi})+"x]")
		}
	}
	plan := c14Plan{pmFind: true, luaFind: 1}
	var t int64
	for _, p := range pats {
		pt := c14MkPat(p)
		for b := 0; b < 128; b++ {
			t += c.runPair(w, pt, string([]byte{byte(b)}), &plan)
		}
		c.r.Nontrivial("class:" + p)
	}
	// '.' and a complemented set on bytes >= 0x80 (no class involved: locale independent)
	for _, p := range []string{".", "[^a]", "a?.$"} {
		pt := c14MkPat(p)
		for b := 128; b < 256; b++ {
			t += c.runPair(w, pt, string([]byte{byte(b)}), &plan)
		}
	}
	atomic.AddUint64(&w.seq, 1)
	w.cur.Store("")
	c.r.EvalN(t)
	c.r.Count("class_table_tuples", t)
	c.r.Count("class_table_patterns", int64(len(pats)))
}
