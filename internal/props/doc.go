// Package props holds one file per property: alphabet, bound, oracle, evidence.
package props
