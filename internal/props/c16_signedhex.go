package props

// C16, signed hexadecimal numerals in strings. A string reader (tonumber without base or with base
// 10, arithmetic coercion) may reject "-0x…" (the C89 reading of Lua 5.1's lua_str2number) - but when
// it accepts the string, the value is the one the lexer gives the same text, `-` being unary minus on
// the unsigned token: "tonumber, arithmetic coercion of strings and the lexer agree on the value of
// every … 0x-hexadecimal numeral". Complete product of hex body (1…25 digits, around 2^53, 2^63, 2^64
// and beyond, leading zeros, both letter cases) x sign x surrounding blanks x reader.

import (
	"fmt"
	"math"

	lua "github.com/yuin/gopher-lua"

	"verif/internal/harness"
)

func c16SignedHex(r *harness.Run) {
	bodies := []string{"0", "1", "10", "ff", "FF", "7fffffff", "80000000", "ffffffff", "100000000", "1fffffffffffff", "20000000000000", "20000000000001",
		"7fffffffffffffff", "8000000000000000", "8000000000000001", "ffffffffffffffff", "FFFFFFFFFFFFFFFF", "0ffffffffffffffff", "00000000000000010",
		"10000000000000000", "10000000000000001", "1ffffffffffffffff", "fffffffffffffffff", "123456789abcdef012", "1000000000000000000000000", "abcdefABCDEFabcdefABCDEF1"}
	blanks := [][2]string{{"", ""}, {" ", ""}, {"", " "}, {"\t", "\n"}}
	L := lua.NewState()
	defer L.Close()
	eval := func(src string, args ...lua.LValue) (lua.LValue, bool) {
		fn, err := L.LoadString(src)
		if err != nil {
			return lua.LNil, false
		}
		L.Push(fn)
		for _, a := range args {
			L.Push(a)
		}
		if err := L.PCall(len(args), 1, nil); err != nil {
			return lua.LNil, false
		}
		v := L.Get(-1)
		L.Pop(1)
		return v, true
	}
	readers := []struct{ name, src string }{
		{"tonumber(s)", "return tonumber((...))"},
		{"tonumber(s,10)", "local ok, v = pcall(tonumber, (...), 10) if ok then return v end"},
		{"s+0", "local ok, v = pcall(function(s) return s + 0 end, (...)) if ok then return v end"},
		{"s*1", "local ok, v = pcall(function(s) return s * 1 end, (...)) if ok then return v end"},
		{"-s", "local ok, v = pcall(function(s) return -s end, (...)) if ok then return -v end"},
	}
	for _, b := range bodies {
		for _, x := range []string{"0x", "0X"} {
			lexv, ok := eval("return " + x + b)
			lexn, isnum := lexv.(lua.LNumber)
			if !ok || !isnum {
				continue // judged by the numeral corpus
			}
			for _, sign := range []string{"-", ""} {
				for _, bl := range blanks {
					s := bl[0] + sign + x + b + bl[1]
					want := float64(lexn)
					if sign == "-" {
						want = -want
					}
					for _, rd := range readers {
						if rd.name == "tonumber(s,10)" && sign == "" {
							continue
						}
						got, _ := eval(rd.src, lua.LString(s))
						key := fmt.Sprintf("signedhex/%s/sign=%q/digits=%d/blanks=%q%q", rd.name, sign, len(b), bl[0], bl[1])
						r.Eval(key+"/"+x+b, true, func() interface{} {
							return map[string]interface{}{"case": "signed hexadecimal numeral in a string", "string": s, "reader": rd.name, "lexer_value_of_unsigned_token": float64(lexn)}
						})
						gn, isn := got.(lua.LNumber)
						switch {
						case got == lua.LNil && sign == "-":
							// rejected: admissible for a signed hexadecimal string
						case got == lua.LNil && rd.name != "tonumber(s,10)":
							r.Violation(fmt.Sprintf("signedhex/%s/unsigned-rejected/digits=%d", rd.name, len(b)), fmt.Sprintf("%s of %q is rejected; the lexer reads the same numeral as %v", rd.name, s, float64(lexn)), map[string]interface{}{"string": s, "reader": rd.name})
						case isn && (float64(gn) != want || math.Signbit(float64(gn)) != math.Signbit(want) && want != 0):
							r.Violation(fmt.Sprintf("signedhex/%s/sign=%q/value/digits=%d", rd.name, sign, len(b)), fmt.Sprintf("%s of %q gives %v; the lexer reads %s%s%s as %v", rd.name, s, float64(gn), sign, x, b, want), map[string]interface{}{"string": s, "reader": rd.name, "got": float64(gn), "want": want})
						}
					}
				}
			}
		}
	}
}
