package props

// C01 — the core language runs as Lua 5.1 defines. Bounded-exhaustive program enumeration against
// the reference interpreter (families F-assign, F-expr, F-ctrl, F-cond, F-numfor, F-tcons).

import (
	"fmt"
	"sort"

	"verif/internal/harness"
	. "verif/internal/luaref"
)

func init() { harness.Register("C01", "exploration", runC01) }

func runC01(r *harness.Run) {
	pr := c03Runner(r) // (with the white-box open-upvalue invariant the closure families use)
	pr.prop = "C01"
	th := r.Thorough()
	gens := map[string]Gen{
		"F-assign": genAssign(th),
		"F-expr":   genExpr(th),
		"F-cond":   genCond(th),
		"F-ctrl":   genCtrl(th),
		"F-numfor": genNumFor(th),
		"F-tcons":  genTCons(th),
		"F-genfor": genGenFor(th),
		// failing operations inside statements spread over several lines (every token gap): on which line it fails
		"F-faultline": genFaultLine(th),
		// every placement of a few gotos and labels (two names) over nested and sibling blocks
		"F-goto": genGoto(th),
		// stores and reads through constant prefixes
		"F-constobj": genConstObj(th),
		// where the scope of a local begins
		"F-localscope": genLocalScope(),
		"F-fractkey":   genFractKey(),
		// "an expression means the same whether ... kept in an upvalue": the closure families of C03
		// (capture sites x exit routes; block nestings x capture levels x exits) belong here as well
		"F-closure": genClosure(false),
		"F-nest":    genNest(false),
	}
	// the call, index, metamethod, closure and loop families once more behind 300 constants (every
	// later constant of the main function needs a register: K operands beyond 255)
	korder := []string{}
	// (the call family behind 300 and 600 constants runs under C02)
	for n, g := range map[string]Gen{"F-callmeta": genMetaCall(false), "F-index": genMetaIndex(false), "F-chain": genMetaChain(false), "F-select": genSelectUnpack(false),
		"F-genfor": genGenFor(false), "F-constobj": genConstObj(false), "F-fractkey": genFractKey(), "F-tcons": genTCons(false), "F-numfor": genNumFor(false), "F-closure": genClosure(false)} {
		gens["K300/"+n] = mapGen(g, "K300/", constPressure(300))
		korder = append(korder, "K300/"+n)
	}
	sort.Strings(korder)
	order := []string{"F-constobj", "F-localscope", "F-fractkey", "F-closure", "F-nest", "F-assign", "F-tcons", "F-numfor", "F-genfor", "F-faultline", "F-goto", "F-cond", "F-ctrl", "F-expr"}
	r.Rule = "every program of the families F-assign (all multiple assignments/local declarations over 8 target kinds x 11 source kinds with aliasing), " +
		"F-expr (all operator trees over a typed leaf alphabet x destination contexts x surrounding code), F-cond (boolean skeletons in value and branch position), " +
		"F-ctrl (statement trees over if/while/repeat/for/break/goto/return), F-goto (every placement of up to 3 (thorough: 4) goto/label statements over two names in 13 slots of a nest of blocks; validity decided by a transcription of the label rules: invalid programs must be refused by the loader, valid ones run like the reference), F-numfor (all start/limit/step triples), F-tcons (table constructors around the flush boundary) " +
		"is rendered to text, run on gopher-lua and on the reference interpreter luaref; host-call trace, results, failure and failure line are compared. " +
		"non-trivial = distinct program text whose reference trace contains a host call, a result or an error; programs the reference cannot decide (Lua 5.1 leaves the result open) are counted as indeterminate and not compared"
	r.Assumptions = []string{
		"luaref (internal/luaref) is the executable reading of the Lua 5.1 manual; its own conformance is checked by internal/luaref tests",
		"text of run-time fault messages is not compared, only that a string prefixed chunk:line: with a line of the innermost executing statement is delivered",
		"number->string conversions are compared only where %.14g and the shortest round-trip rendering agree",
	}
	runPinned(r, "C01")
	c01SignedZero(r)
	pr.runGens(gens, append(order, korder...))
}

// ---- common prelude ------------------------------------------------------------------------------

func names(ns ...string) []string { return ns }

// exprPrelude: declarations visible to the function under test.
//
//	local up, ups = 7, "x"      (upvalues of test)
//	gnum, gstr = 4, "5"         (globals)
//	local t = {x = 6, y = "k", 8}
//	local function f1() return 9 end
//	local function f3() return 1, 2, 3 end
func exprPrelude() []Stat {
	return []Stat{
		Local(names("up", "ups"), Num(7), Str("x")),
		Assign([]Expr{Name("gnum"), Name("gstr")}, Num(4), Str("5")),
		Local1("t", TableE(NamedField("x", Num(6)), NamedField("y", Str("k")), Pos1(Num(8)))),
		// the helper callees are observable (a shared call counter goes to the host), so that a call
		// which is skipped, repeated or made out of order shows in the trace
		Local1("nc", Num(0)),
		LocalFunc("f1", Func(nil, false, Assign1(Name("nc"), Bin("+", Name("nc"), Num(1))), Emit(Str("f1"), Name("nc")), Return(Num(9)))),
		LocalFunc("f3", Func(nil, false, Assign1(Name("nc"), Bin("+", Name("nc"), Num(1))), Emit(Str("f3"), Name("nc")), Return(Num(1), Num(2), Num(3)))),
		LocalFunc("fid", Func(names("v"), false, Assign1(Name("nc"), Bin("+", Name("nc"), Num(1))), Emit(Str("fid"), Name("nc"), Name("v")), Return(Name("v")))),
	}
}

// testFn wraps body in `local function test(...) local la, ls, ltab, lnil, lk = 3, "10", {}, nil, "y" <body> end`
// and calls it with (21, "22"), emitting its results.
func wrapTest(pre []Stat, body []Stat) *Block {
	decl := Local(names("la", "ls", "ltab", "lnil", "lk"), Num(3), Str("10"), TableE(), Nil(), Str("y"))
	fbody := append([]Stat{decl}, body...)
	stats := append([]Stat{}, pre...)
	stats = append(stats, LocalFunc("test", Func(nil, true, fbody...)))
	stats = append(stats, Emit(Str("ret"), CallN("test", Num(21), Str("22"))))
	return Blk(stats...)
}

// ---- F-assign ------------------------------------------------------------------------------------

type asgTarget struct {
	name string
	mk   func() Expr
	loc  string // location id, to exclude two targets denoting the same location
}

func genAssign(thorough bool) Gen {
	targets := []asgTarget{
		{"a", func() Expr { return Name("a") }, "a"},
		{"b", func() Expr { return Name("b") }, "b"},
		{"u", func() Expr { return Name("up") }, "u"},
		{"g", func() Expr { return Name("gnum") }, "g"},
		{"t[1]", func() Expr { return Index(Name("t"), Num(1)) }, "t1"},
		{"t.x", func() Expr { return Dot(Name("t"), "x") }, "tx"},
		{"t[a]", func() Expr { return Index(Name("t"), Name("a")) }, "t1"}, // a == 1
		{"t[b]", func() Expr { return Index(Name("t"), Name("b")) }, "t2"}, // b == 2
	}
	type src struct {
		name string
		mk   func() Expr
	}
	sources := []src{
		{"a", func() Expr { return Name("a") }},
		{"b", func() Expr { return Name("b") }},
		{"u", func() Expr { return Name("up") }},
		{"g", func() Expr { return Name("gnum") }},
		{"t[1]", func() Expr { return Index(Name("t"), Num(1)) }},
		{"t[b]", func() Expr { return Index(Name("t"), Name("b")) }},
		{"k", func() Expr { return Num(50) }},
		{"a+1", func() Expr { return Bin("+", Name("a"), Num(1)) }},
		{"f()", func() Expr { return CallN("f1") }},
		{"mr()", func() Expr { return CallN("f3") }},
		{"...", func() Expr { return Vararg() }},
		{"nil", func() Expr { return Nil() }},
		// multi-valued sources cut to one value by parentheses (aimed straight at the target's register)
		{"(...)", func() Expr { return Paren(Vararg()) }},
		{"(mr())", func() Expr { return Paren(CallN("f3")) }},
	}
	maxT, maxS := 3, 3
	return func(yield func(*Prog)) {
		observe := func() Stat {
			return Emit(Name("a"), Name("b"), Name("up"), Name("gnum"), Index(Name("t"), Num(1)), Index(Name("t"), Num(2)), Dot(Name("t"), "x"))
		}
		var srcCombos [][]int
		var rec func(cur []int)
		rec = func(cur []int) {
			if len(cur) > 0 {
				srcCombos = append(srcCombos, append([]int(nil), cur...))
			}
			if len(cur) == maxS {
				return
			}
			for i := range sources {
				rec(append(cur, i))
			}
		}
		rec(nil)
		var tgtCombos [][]int
		var rect func(cur []int)
		rect = func(cur []int) {
			if len(cur) > 0 {
				tgtCombos = append(tgtCombos, append([]int(nil), cur...))
			}
			if len(cur) == maxT {
				return
			}
			for i := range targets {
				dup := false
				for _, j := range cur {
					if targets[j].loc == targets[i].loc {
						dup = true
					}
				}
				if !dup {
					rect(append(cur, i))
				}
			}
		}
		rect(nil)
		// order simplest first
		for size := 2; size <= maxT+maxS; size++ {
			for _, tc := range tgtCombos {
				for _, sc := range srcCombos {
					if len(tc)+len(sc) != size {
						continue
					}
					if !thorough && len(tc) == 3 && len(sc) == 3 {
						continue
					}
					shape := "assign:"
					for _, i := range tc {
						shape += targets[i].name + ","
					}
					shape += "="
					for _, i := range sc {
						shape += sources[i].name + ","
					}
					yield(&Prog{Family: "F-assign", Shape: shape, Mk: func() *Block {
						var ts, ss []Expr
						for _, i := range tc {
							ts = append(ts, targets[i].mk())
						}
						for _, i := range sc {
							ss = append(ss, sources[i].mk())
						}
						body := []Stat{
							Local(names("a", "b"), Num(1), Num(2)),
							Assign(ts, ss...),
							observe(),
						}
						return wrapTest(exprPrelude(), body)
					}})
				}
			}
		}
		// local declarations: 1..3 names, same sources
		for nn := 1; nn <= 3; nn++ {
			for _, sc := range srcCombos {
				if !thorough && nn == 3 && len(sc) == 3 {
					continue
				}
				shape := fmt.Sprintf("local%d=", nn)
				for _, i := range sc {
					shape += sources[i].name + ","
				}
				yield(&Prog{Family: "F-assign", Shape: shape, Mk: func() *Block {
					var ss []Expr
					for _, i := range sc {
						ss = append(ss, sources[i].mk())
					}
					ns := []string{"a", "b", "c"}[:nn]
					// `local a, b = b, a` style: new locals shadow the old ones only after the statement
					obs := []Expr{}
					for _, n := range ns {
						obs = append(obs, Name(n))
					}
					body := []Stat{
						Local(names("a", "b"), Num(1), Num(2)),
						&LocalStat{Names: ns, Exprs: ss},
						Emit(obs...),
					}
					return wrapTest(exprPrelude(), body)
				}})
			}
		}
	}
}

// ---- F-expr ----------------------------------------------------------------------------------------

type leaf struct {
	name string
	mk   func() Expr
}

func exprLeaves() []leaf {
	neg1 := func() Expr { return Un("-", Num(1)) }
	return []leaf{
		{"0", func() Expr { return Num(0) }},
		{"2", func() Expr { return Num(2) }},
		{"-1", neg1},
		{"2.5", func() Expr { return Num(2.5) }},
		{"200", func() Expr { return Num(200) }},
		{`"a"`, func() Expr { return Str("a") }},
		{`"10"`, func() Expr { return Str("10") }},
		{`" 3 "`, func() Expr { return Str(" 3 ") }},
		{`""`, func() Expr { return Str("") }},
		{"nil", func() Expr { return Nil() }},
		{"true", func() Expr { return True() }},
		{"false", func() Expr { return False() }},
		{"la", func() Expr { return Name("la") }},
		{"ls", func() Expr { return Name("ls") }},
		{"ltab", func() Expr { return Name("ltab") }},
		{"lnil", func() Expr { return Name("lnil") }},
		{"up", func() Expr { return Name("up") }},
		{"gnum", func() Expr { return Name("gnum") }},
		{"gstr", func() Expr { return Name("gstr") }},
		{"t.x", func() Expr { return Dot(Name("t"), "x") }},
		{"t[1]", func() Expr { return Index(Name("t"), Num(1)) }},
		{"t[lk]", func() Expr { return Index(Name("t"), Name("lk")) }},
		{"f1()", func() Expr { return CallN("f1") }},
		{"f3()", func() Expr { return CallN("f3") }},
		{"...", func() Expr { return Vararg() }},
		{"(...)", func() Expr { return Paren(Vararg()) }},
		{"(f3())", func() Expr { return Paren(CallN("f3")) }},
		// calls whose argument is the very local most destinations store into
		{"fid(la)", func() Expr { return CallN("fid", Name("la")) }},
		{"(fid(la))", func() Expr { return Paren(CallN("fid", Name("la"))) }},
	}
}

var binOps = []string{"+", "-", "*", "/", "%", "^", "..", "==", "~=", "<", "<=", ">", ">=", "and", "or"}
var unOps = []string{"-", "not", "#"}

type dest struct {
	name string
	mk   func(e Expr) []Stat
}

func exprDests() []dest {
	return []dest{
		{"local", func(e Expr) []Stat { return []Stat{Local1("x", e), Emit(Name("x"))} }},
		{"setlocal", func(e Expr) []Stat { return []Stat{Assign1(Name("la"), e), Emit(Name("la"))} }},
		{"setupval", func(e Expr) []Stat { return []Stat{Assign1(Name("up"), e), Emit(Name("up"))} }},
		{"setglobal", func(e Expr) []Stat { return []Stat{Assign1(Name("gnum"), e), Emit(Name("gnum"))} }},
		{"setfield", func(e Expr) []Stat { return []Stat{Assign1(Dot(Name("t"), "k"), e), Emit(Dot(Name("t"), "k"))} }},
		{"setindex", func(e Expr) []Stat {
			return []Stat{Assign1(Index(Name("t"), Name("lk")), e), Emit(Index(Name("t"), Name("lk")))}
		}},
		{"return", func(e Expr) []Stat { return []Stat{Return(e)} }},
		{"argmid", func(e Expr) []Stat { return []Stat{Emit(Num(1), e, Num(2))} }},
		{"arglast", func(e Expr) []Stat { return []Stat{Emit(Num(1), e)} }},
		{"tpos", func(e Expr) []Stat {
			return []Stat{Local1("tt", TableE(Pos1(e), Pos1(Num(5)))), Emit(Index(Name("tt"), Num(1)), Index(Name("tt"), Num(2)))}
		}},
		{"tlast", func(e Expr) []Stat {
			return []Stat{Local1("tt", TableE(Pos1(Num(5)), Pos1(e))), Emit(Index(Name("tt"), Num(1)), Index(Name("tt"), Num(2)), Index(Name("tt"), Num(3)), Index(Name("tt"), Num(4)))}
		}},
		{"tkey", func(e Expr) []Stat {
			return []Stat{Local1("tt", TableE(NamedField("k", e))), Emit(Dot(Name("tt"), "k"))}
		}},
		{"concat", func(e Expr) []Stat { return []Stat{Emit(Bin("..", Str("p"), e))} }},
		{"if", func(e Expr) []Stat { return []Stat{IfElse(e, []Stat{Emit(Num(1))}, []Stat{Emit(Num(2))})} }},
		{"while", func(e Expr) []Stat { return []Stat{While(e, Emit(Num(1)), Break()), Emit(Num(3))} }},
		{"until", func(e Expr) []Stat {
			return []Stat{Local1("i", Num(0)), Repeat(Bin("or", e, Bin(">=", Name("i"), Num(2))), Assign1(Name("i"), Bin("+", Name("i"), Num(1)))), Emit(Name("i"))}
		}},
		{"andor", func(e Expr) []Stat { return []Stat{Emit(Bin("or", Bin("and", e, Num(1)), Num(2)))} }},
		{"orrhs", func(e Expr) []Stat { return []Stat{Emit(Bin("or", Name("lnil"), e))} }},
		{"not", func(e Expr) []Stat { return []Stat{Emit(Un("not", e))} }},
		{"index", func(e Expr) []Stat { return []Stat{Emit(Index(Name("ltab"), e))} }},
	}
}

type surround struct {
	name string
	mk   func(body []Stat) []Stat
}

func exprSurrounds() []surround {
	return []surround{
		{"plain", func(b []Stat) []Stat { return b }},
		{"260consts", func(b []Stat) []Stat {
			var fs []Field
			for i := 0; i < 260; i++ {
				fs = append(fs, Pos1(Num(float64(1001+i))))
			}
			return append([]Stat{Local1("kk", TableE(fs...))}, b...)
		}},
		{"150locals", func(b []Stat) []Stat {
			var ns []string
			for i := 0; i < 150; i++ {
				ns = append(ns, fmt.Sprintf("v%d", i))
			}
			return append([]Stat{&LocalStat{Names: ns}}, b...)
		}},
		{"nested", func(b []Stat) []Stat {
			// operands become upvalues of the inner function
			return []Stat{LocalFunc("inner", Func(nil, true, b...)), Return(CallN("inner", Vararg()))}
		}},
		{"loop", func(b []Stat) []Stat {
			// a return inside the loop body is fine: it is the last statement of that block
			return []Stat{NumFor("ii", Num(1), Num(2), nil, b...)}
		}},
		{"pageturn", func(b []Stat) []Stat {
			return append([]Stat{Local1("q", TableE()), NumFor("ii", Num(1), Num(40), nil, Assign1(Index(Name("q"), Name("ii")), Bin("+", Name("ii"), Num(0.5))))}, b...)
		}},
		{"params", func(b []Stat) []Stat {
			// the operands and the destination `la` are parameters of the function (la the last one)
			return []Stat{LocalFunc("inner", Func(names("ls", "ltab", "lnil", "lk", "la"), true, b...)), Return(CallN("inner", Name("ls"), Name("ltab"), Name("lnil"), Name("lk"), Name("la"), Vararg()))}
		}},
	}
}

func genExpr(thorough bool) Gen {
	return func(yield func(*Prog)) {
		leaves := exprLeaves()
		dests := exprDests()
		surs := exprSurrounds()
		emitProg := func(shape string, mkE func() Expr, ds []dest, ss []surround) {
			for _, s := range ss {
				for _, d := range ds {
					yield(&Prog{Family: "F-expr", Shape: shape + "@" + d.name + "/" + s.name, Mk: func() *Block { return wrapTest(exprPrelude(), s.mk(d.mk(mkE()))) }})
				}
			}
		}
		// E0: every leaf in every destination and surrounding
		for _, l := range leaves {
			l := l
			emitProg("leaf:"+l.name, l.mk, dests, surs)
		}
		// E1u: unary ops over leaves
		for _, op := range unOps {
			for _, l := range leaves {
				op, l := op, l
				emitProg("un:"+op+" "+l.name, func() Expr { return Un(op, l.mk()) }, dests, surs[:1])
				emitProg("un:"+op+" "+l.name, func() Expr { return Un(op, l.mk()) }, dests[:4], surs[1:])
			}
		}
		// E1: every binary operator over every ordered pair of leaves, in every destination (plain),
		// and in four destinations under every other surrounding
		for _, op := range binOps {
			for _, a := range leaves {
				for _, b := range leaves {
					op, a, b := op, a, b
					mk := func() Expr { return Bin(op, a.mk(), b.mk()) }
					shape := "bin:" + a.name + " " + op + " " + b.name
					emitProg(shape, mk, dests, surs[:1])
					if thorough {
						emitProg(shape, mk, dests[:8], surs[1:])
					} else if opClass(op) {
						emitProg(shape, mk, []dest{dests[0], dests[6], dests[13]}, surs[1:])
					}
				}
			}
		}
		// E2: depth-2 trees over a reduced operator and leaf set
		ops2 := []string{"+", "-", "..", "==", "<", "and", "or", "^", "%", "*"}
		lv2 := []leaf{leaves[1], leaves[6], leaves[9], leaves[12], leaves[13], leaves[16], leaves[19], leaves[22]}
		if thorough {
			ops2 = binOps
		}
		for _, o1 := range ops2 {
			for _, o2 := range ops2 {
				for _, a := range lv2 {
					for _, b := range lv2 {
						for _, c := range lv2 {
							o1, o2, a, b, c := o1, o2, a, b, c
							emitProg("bin2L:("+a.name+o2+b.name+")"+o1+c.name, func() Expr { return Bin(o1, Bin(o2, a.mk(), b.mk()), c.mk()) }, []dest{dests[0], dests[13]}, surs[:1])
							emitProg("bin2R:"+a.name+o1+"("+b.name+o2+c.name+")", func() Expr { return Bin(o1, a.mk(), Bin(o2, b.mk(), c.mk())) }, []dest{dests[0], dests[13]}, surs[:1])
						}
					}
				}
			}
		}
		// unary over binary and binary over unary
		for _, u := range unOps {
			for _, o := range ops2 {
				for _, a := range lv2 {
					for _, b := range lv2 {
						u, o, a, b := u, o, a, b
						emitProg("un2:"+u+"("+a.name+o+b.name+")", func() Expr { return Un(u, Bin(o, a.mk(), b.mk())) }, []dest{dests[0], dests[13], dests[7]}, surs[:1])
						emitProg("bin-un:("+u+a.name+")"+o+b.name, func() Expr { return Bin(o, Un(u, a.mk()), b.mk()) }, []dest{dests[0], dests[13]}, surs[:1])
					}
				}
			}
		}
	}
}

// opClass: one representative per lowering class gets the full surrounding treatment in the quick tier
func opClass(op string) bool {
	switch op {
	case "+", "%", "^", "..", "==", "<", "<=", "and", "or":
		return true
	}
	return false
}

// ---- F-cond ----------------------------------------------------------------------------------------

func genCond(thorough bool) Gen {
	return func(yield func(*Prog)) {
		type cl struct {
			name string
			mk   func() Expr
		}
		leaves := []cl{
			{"true", func() Expr { return True() }},
			{"false", func() Expr { return False() }},
			{"nil", func() Expr { return Nil() }},
			{"lt", func() Expr { return Bin("<", Name("la"), Name("up")) }}, // 3 < 7  true
			{"gt", func() Expr { return Bin(">", Name("la"), Name("up")) }}, // false
			{"eq", func() Expr { return Bin("==", Name("ls"), Str("10")) }}, // true
			{"num", func() Expr { return Name("la") }},                      // truthy non-boolean
			{"lnil", func() Expr { return Name("lnil") }},                   // falsy non-boolean
			{"call", func() Expr { return CallN("tick", Num(1)) }},          // side effect, returns its argument
			{"callf", func() Expr { return CallN("tick", False()) }},        // side effect, returns false
			{"calln", func() Expr { return CallN("tick", Nil()) }},          // side effect, returns nil
		}
		type tree struct {
			name  string
			mk    func() Expr
			depth int
		}
		var level [][]tree
		var l0 []tree
		for _, l := range leaves {
			l := l
			l0 = append(l0, tree{l.name, l.mk, 0})
		}
		level = append(level, l0)
		maxDepth := 2
		all := append([]tree(nil), l0...)
		for d := 1; d <= maxDepth; d++ {
			var cur []tree
			prev := all
			pool := prev
			if d == 2 && !thorough {
				// quick tier: depth-2 trees over a reduced leaf set
				pool = nil
				for _, t := range prev {
					if t.depth == 0 {
						switch t.name {
						case "true", "nil", "lt", "gt", "num", "call", "callf", "calln":
							pool = append(pool, t)
						}
					} else {
						ok := true
						for _, bad := range []string{"false", "eq", "lnil"} {
							if containsWord(t.name, bad) {
								ok = false
							}
						}
						if ok {
							pool = append(pool, t)
						}
					}
				}
			}
			for _, a := range pool {
				a := a
				if a.depth == d-1 {
					cur = append(cur, tree{"not(" + a.name + ")", func() Expr { return Un("not", a.mk()) }, d})
				}
				for _, b := range pool {
					b := b
					if a.depth != d-1 && b.depth != d-1 {
						continue
					}
					for _, op := range []string{"and", "or"} {
						op := op
						cur = append(cur, tree{"(" + a.name + " " + op + " " + b.name + ")", func() Expr { return Bin(op, a.mk(), b.mk()) }, d})
					}
				}
			}
			all = append(all, cur...)
		}
		tickDef := func() Stat {
			return FuncS("tick", Func(names("v"), false, Emit(Str("tick"), Name("v")), Return(Name("v"))))
		}
		for _, t := range all {
			t := t
			ctxs := []struct {
				name string
				mk   func() []Stat
			}{
				{"value", func() []Stat { return []Stat{Emit(t.mk())} }},
				{"local", func() []Stat { return []Stat{Local1("x", t.mk()), Emit(Name("x"))} }},
				// stores into a variable that already exists: on every path the old value must be replaced
				{"setlocal", func() []Stat { return []Stat{Local1("x", Str("old")), Assign1(Name("x"), t.mk()), Emit(Name("x"))} }},
				{"setupval", func() []Stat { return []Stat{Assign1(Name("up"), t.mk()), Emit(Name("up"))} }},
				{"setfield", func() []Stat { return []Stat{Assign1(Dot(Name("t"), "x"), t.mk()), Emit(Dot(Name("t"), "x"))} }},
				{"if", func() []Stat { return []Stat{IfElse(t.mk(), []Stat{Emit(Num(1))}, []Stat{Emit(Num(2))})} }},
				{"while", func() []Stat { return []Stat{While(t.mk(), Emit(Num(1)), Break()), Emit(Num(3))} }},
				{"return", func() []Stat { return []Stat{Return(t.mk())} }},
				{"ifnot", func() []Stat { return []Stat{If(Un("not", t.mk()), Emit(Num(1)))} }},
				{"until", func() []Stat {
					return []Stat{Local1("i", Num(0)), Repeat(Bin("or", t.mk(), Bin(">=", Name("i"), Num(2))), Assign1(Name("i"), Bin("+", Name("i"), Num(1)))), Emit(Name("i"))}
				}},
			}
			for _, c := range ctxs {
				yield(&Prog{Family: "F-cond", Shape: "cond:" + t.name + "@" + c.name, Mk: func() *Block { return wrapTest(append(exprPrelude(), tickDef()), c.mk()) }})
			}
		}
		// long chains (beyond the jump-threading limit of the optimiser)
		for n := 3; n <= 9; n++ {
			for _, op := range []string{"and", "or"} {
				for falseAt := 0; falseAt <= n; falseAt++ {
					n, op, falseAt := n, op, falseAt
					mk := func() Expr {
						var e Expr
						for i := n; i >= 1; i-- {
							var l Expr = CallN("tick", Num(float64(i)))
							if i == falseAt {
								l = CallN("tick", False())
							}
							if e == nil {
								e = l
							} else {
								e = Bin(op, l, e)
							}
						}
						return e
					}
					pre := func() []Stat { return append(exprPrelude(), tickDef()) }
					yield(&Prog{Family: "F-cond", Shape: fmt.Sprintf("chain:%s%d/%d@value", op, n, falseAt), Mk: func() *Block { return wrapTest(pre(), []Stat{Emit(mk())}) }})
					yield(&Prog{Family: "F-cond", Shape: fmt.Sprintf("chain:%s%d/%d@if", op, n, falseAt), Mk: func() *Block {
						return wrapTest(pre(), []Stat{IfElse(mk(), []Stat{Emit(Num(1))}, []Stat{Emit(Num(2))})})
					}})
				}
			}
		}
	}
}

func containsWord(s, w string) bool {
	for i := 0; i+len(w) <= len(s); i++ {
		if s[i:i+len(w)] == w {
			before := i == 0 || !isWordByte(s[i-1])
			after := i+len(w) == len(s) || !isWordByte(s[i+len(w)])
			if before && after {
				return true
			}
		}
	}
	return false
}

func isWordByte(c byte) bool { return c >= 'a' && c <= 'z' || c >= 'A' && c <= 'Z' }

// ---- F-numfor --------------------------------------------------------------------------------------

func genNumFor(thorough bool) Gen {
	return func(yield func(*Prog)) {
		type v struct {
			name string
			mk   func() Expr
		}
		vals := []v{
			{"0", func() Expr { return Num(0) }},
			{"1", func() Expr { return Num(1) }},
			{"3", func() Expr { return Num(3) }},
			{"-1", func() Expr { return Un("-", Num(1)) }},
			{"-2", func() Expr { return Un("-", Num(2)) }},
			{"0.5", func() Expr { return Num(0.5) }},
			{"2.5", func() Expr { return Num(2.5) }},
			{`"2"`, func() Expr { return Str("2") }},
			{"la", func() Expr { return Name("la") }},
			{"nil", func() Expr { return Nil() }},
			{"huge", func() Expr { return Dot(Name("math"), "huge") }},
		}
		steps := append([]v{{"none", nil}}, vals...)
		for _, a := range vals {
			for _, b := range vals {
				for _, s := range steps {
					if a.name == "huge" || (b.name == "huge" && (s.name == "none" || s.name == "1" || s.name == "0.5" || s.name == "3" || s.name == "2.5" || s.name == `"2"` || s.name == "la")) {
						continue // would not terminate
					}
					var step Expr
					if s.mk != nil {
						step = s.mk()
					}
					for variant := 0; variant < 3; variant++ {
						var body []Stat
						switch variant {
						case 0:
							body = []Stat{Emit(Name("i"))}
						case 1: // assigning the loop variable does not affect the iteration
							body = []Stat{Emit(Name("i")), Assign1(Name("i"), Bin("+", Name("i"), Num(10)))}
						case 2: // bounded by a counter as well
							body = []Stat{Assign1(Name("n"), Bin("+", Name("n"), Num(1))), If(Bin(">", Name("n"), Num(12)), Break())}
						}
						st := []Stat{Local1("n", Num(0)), NumFor("i", a.mk(), b.mk(), step, body...), Emit(Str("n"), Name("n"))}
						yield(&Prog{Family: "F-numfor", Shape: fmt.Sprintf("for %s,%s,%s/v%d", a.name, b.name, s.name, variant), Mk: func() *Block { return wrapTest(exprPrelude(), st) }})
					}
				}
			}
		}
	}
}

// ---- F-tcons ---------------------------------------------------------------------------------------

func genTCons(thorough bool) Gen {
	return func(yield func(*Prog)) {
		counts := []int{0, 1, 2, 3, 49, 50, 51, 99, 100, 101, 149, 150, 151}
		if thorough {
			counts = append(counts, 199, 200, 201, 250, 255, 256, 257, 300, 511, 512, 513)
		}
		type tail struct {
			name string
			mk   func() Expr
			n    int
		}
		tails := []tail{{"none", nil, 0}, {"f3()", func() Expr { return CallN("f3") }, 3}, {"...", func() Expr { return Vararg() }, 2}, {"(f3())", func() Expr { return Paren(CallN("f3")) }, 1}, {"f0()", func() Expr { return CallN("f0") }, 0}, {"nil", func() Expr { return Nil() }, 0}}
		f0 := LocalFunc("f0", Func(nil, false))
		for _, n := range counts {
			for _, tl := range tails {
				for keyed := 0; keyed < 3; keyed++ {
					var fs []Field
					for i := 1; i <= n; i++ {
						if keyed == 1 && i == n/2+1 {
							fs = append(fs, NamedField("k", Str("kv")))
						}
						if keyed == 2 && i == n/2+1 {
							fs = append(fs, KeyField(Num(float64(n+10)), Str("far")))
						}
						fs = append(fs, Pos1(Num(float64(i))))
					}
					if tl.mk != nil {
						fs = append(fs, Pos1(tl.mk()))
					}
					total := n + tl.n
					obs := []Expr{Un("#", Name("tt"))}
					for _, i := range []int{1, n / 2, n - 1, n, n + 1, n + 2, n + 3, total, total + 1} {
						if i >= 1 {
							obs = append(obs, Index(Name("tt"), Num(float64(i))))
						}
					}
					obs = append(obs, Dot(Name("tt"), "k"), Index(Name("tt"), Num(float64(n+10))))
					body := []Stat{Local1("tt", TableE(fs...)), Local1("sum", Num(0)),
						NumFor("i", Num(1), Num(float64(total)), nil, Assign1(Name("sum"), Bin("+", Name("sum"), Bin("or", Index(Name("tt"), Name("i")), Num(0))))),
						Emit(Name("sum")), Emit(obs...)}
					if tl.name == "nil" && n > 0 {
						// a trailing nil makes the border ambiguous only if followed by more; here #tt has the unique border n
					}
					yield(&Prog{Family: "F-tcons", Shape: fmt.Sprintf("tcons n=%d tail=%s keyed=%d", n, tl.name, keyed), Mk: func() *Block { return wrapTest(append(exprPrelude(), f0), body) }})
				}
			}
		}
	}
}

// ---- F-ctrl ----------------------------------------------------------------------------------------

// Statement trees. Every loop is bounded by construction: loops run over fixed small ranges and
// `while`/`repeat` loops are guarded by the shared counter c with a hard cap.
func genCtrl(thorough bool) Gen {
	return func(yield func(*Prog)) {
		type stmtGen struct {
			name string
			mk   func() []Stat
		}
		labelN := 0
		atoms := func(inLoop bool) []stmtGen {
			a := []stmtGen{
				{"emit", func() []Stat { return []Stat{Emit(Name("c"))} }},
				{"inc", func() []Stat { return []Stat{Assign1(Name("c"), Bin("+", Name("c"), Num(1)))} }},
				{"ret", func() []Stat { return []Stat{Do(Return(Name("c")))} }},
			}
			if inLoop {
				a = append(a,
					stmtGen{"break", func() []Stat { return []Stat{Do(Break())} }},
					stmtGen{"cont", func() []Stat { return []Stat{Goto("cont")} }}, // label supplied by the enclosing loop body
				)
			}
			return a
		}
		_ = labelN
		// loopBody appends the continue label at the end of a loop body (label at block end is always legal)
		loopBody := func(b []Stat) []Stat {
			return append(append([]Stat{}, b...), Label("cont"))
		}
		conds := []struct {
			name string
			mk   func() Expr
		}{
			{"c<2", func() Expr { return Bin("<", Name("c"), Num(2)) }},
			{"c==1", func() Expr { return Bin("==", Name("c"), Num(1)) }},
			{"c%2==0", func() Expr { return Bin("==", Bin("%", Name("c"), Num(2)), Num(0)) }},
		}
		var blocks func(depth int, inLoop bool, maxLen int) []stmtGen
		var stmts func(depth int, inLoop bool) []stmtGen
		stmts = func(depth int, inLoop bool) []stmtGen {
			out := atoms(inLoop)
			if depth == 0 {
				return out
			}
			innerLen := 2
			if depth >= 2 && !thorough {
				innerLen = 1
			}
			sub := blocks(depth-1, inLoop, innerLen)
			subLoop := blocks(depth-1, true, innerLen)
			for _, c := range conds {
				for _, b := range sub {
					c, b := c, b
					out = append(out, stmtGen{"if " + c.name + "{" + b.name + "}", func() []Stat { return []Stat{If(c.mk(), b.mk()...)} }})
				}
			}
			for i, b := range sub {
				b := b
				// if/else with a fixed else branch, and elseif chains
				out = append(out, stmtGen{"ifelse{" + b.name + "}", func() []Stat {
					return []Stat{IfElse(Bin("<", Name("c"), Num(1)), b.mk(), []Stat{Emit(Str("else"), Name("c"))})}
				}})
				out = append(out, stmtGen{"do{" + b.name + "}", func() []Stat { return []Stat{Do(b.mk()...)} }})
				if i%3 == 0 {
					out = append(out, stmtGen{"elseif{" + b.name + "}", func() []Stat {
						return []Stat{&IfStat{Conds: []Expr{Bin("==", Name("c"), Num(0)), Bin("==", Name("c"), Num(1))}, Blocks: []*Block{Blk(Emit(Str("c0"))), Blk(b.mk()...)}, Else: Blk(Emit(Str("celse")))}}
					}})
				}
			}
			for _, b := range subLoop {
				b := b
				out = append(out,
					stmtGen{"while{" + b.name + "}", func() []Stat {
						// guard: w counts iterations of this loop
						return []Stat{Local1("w", Num(0)), While(Bin("<", Name("w"), Num(3)), loopBody(append([]Stat{Assign1(Name("w"), Bin("+", Name("w"), Num(1)))}, b.mk()...))...)}
					}},
					stmtGen{"repeat{" + b.name + "}", func() []Stat {
						// the until condition sees the body local rr
						// the generated statements go into a do-block: a `goto cont` may not jump over a local
						// declaration into a label that the until-expression's scope still covers
						body := []Stat{Assign1(Name("w2"), Bin("+", Name("w2"), Num(1))), Local1("rr", Bin(">=", Name("w2"), Num(3))), Do(b.mk()...)}
						return []Stat{Local1("w2", Num(0)), Repeat(Bin("or", Name("rr"), Bin(">=", Name("w2"), Num(3))), loopBody(body)...)}
					}},
					stmtGen{"for{" + b.name + "}", func() []Stat { return []Stat{NumFor("i", Num(1), Num(3), nil, loopBody(b.mk())...)} }},
					stmtGen{"fordown{" + b.name + "}", func() []Stat {
						return []Stat{NumFor("i", Num(2), Num(1), Un("-", Num(1)), loopBody(append([]Stat{Emit(Str("i"), Name("i"))}, b.mk()...))...)}
					}},
					stmtGen{"ipairs{" + b.name + "}", func() []Stat {
						return []Stat{GenFor(names("k", "v"), []Expr{CallN("ipairs", TableE(Pos1(Str("p")), Pos1(Str("q"))))}, loopBody(append([]Stat{Emit(Name("k"), Name("v"))}, b.mk()...))...)}
					}},
					stmtGen{"iter{" + b.name + "}", func() []Stat {
						// stateless iterator written in Lua: counts 1..2
						return []Stat{GenFor(names("k"), []Expr{Name("upto"), Num(2), Num(0)}, loopBody(b.mk())...)}
					}},
				)
			}
			return out
		}
		blocks = func(depth int, inLoop bool, maxLen int) []stmtGen {
			ss := stmts(depth, inLoop)
			out := append([]stmtGen(nil), ss...)
			if maxLen >= 2 {
				for _, a := range ss {
					if a.name == "ret" || a.name == "break" || a.name == "cont" {
						// unconditional exits first make the second statement dead but it is still legal code
					}
					for _, b := range ss {
						a, b := a, b
						out = append(out, stmtGen{a.name + ";" + b.name, func() []Stat { return append(a.mk(), b.mk()...) }})
					}
				}
			}
			return out
		}
		depth := 2
		top := blocks(depth, false, 1)
		// depth-1 blocks of length 2 at top level are part of both tiers
		top = append(top, blocks(1, false, 2)...)
		for _, b := range top {
			yield(&Prog{Family: "F-ctrl", Shape: "ctrl:" + b.name, Mk: func() *Block {
				gen := b.mk()
				nl := 0
				renameConts(gen, "", &nl)
				body := append([]Stat{Local1("c", Num(0))}, gen...)
				body = append(body, Emit(Str("end"), Name("c")))
				upto := LocalFunc("upto", Func(names("n", "i"), false, If(Bin("<", Name("i"), Name("n")), Return(Bin("+", Name("i"), Num(1))))))
				return wrapTest(append(exprPrelude(), upto), body)
			}})
		}
	}
}

// renameConts gives every loop body its own continue label (unique per function) and points each
// `goto cont` at the label of the innermost enclosing loop.
func renameConts(stats []Stat, cur string, n *int) {
	loop := func(b *Block) {
		*n++
		l := fmt.Sprintf("cont%d", *n)
		renameConts(b.Stats, l, n)
	}
	for _, st := range stats {
		switch s := st.(type) {
		case *GotoStat:
			if s.Label == "cont" {
				s.Label = cur
			}
		case *LabelStat:
			if s.Name == "cont" {
				s.Name = cur
			}
		case *DoStat:
			renameConts(s.Body.Stats, cur, n)
		case *IfStat:
			for _, b := range s.Blocks {
				renameConts(b.Stats, cur, n)
			}
			if s.Else != nil {
				renameConts(s.Else.Stats, cur, n)
			}
		case *WhileStat:
			loop(s.Body)
		case *RepeatStat:
			loop(s.Body)
		case *NumForStat:
			loop(s.Body)
		case *GenForStat:
			loop(s.Body)
		}
	}
}

// ---- F-genfor --------------------------------------------------------------------------------------

// Generic for over iterators whose control values run through every value kind: the loop ends only
// when the first value is nil (false, 0 and "" continue), the control value is passed back
// unchanged, the state is passed every time, extra results are dropped and missing ones are nil.
func genGenFor(thorough bool) Gen {
	return func(yield func(*Prog)) {
		type cv struct {
			name string
			mk   func() Expr
		}
		ctl := []cv{
			{"false", func() Expr { return False() }}, {"0", func() Expr { return Num(0) }}, {"1", func() Expr { return Num(1) }}, {`""`, func() Expr { return Str("") }},
			{`"s"`, func() Expr { return Str("s") }}, {"true", func() Expr { return True() }}, {"tab", func() Expr { return Name("ltab") }}, {"nil", func() Expr { return Nil() }},
		}
		// sequences of 1..3 control values followed by nil
		var seqs [][]int
		var rec func(cur []int)
		rec = func(cur []int) {
			if len(cur) > 0 {
				seqs = append(seqs, append([]int(nil), cur...))
			}
			if len(cur) == 3 {
				return
			}
			for i := range ctl[:7] {
				if !thorough && len(cur) == 2 && i > 3 {
					continue
				}
				rec(append(cur, i))
			}
		}
		rec(nil)
		for _, sq := range seqs {
			for nvars := 1; nvars <= 3; nvars++ {
				for _, kind := range []string{"closure", "stateless", "callable", "host"} {
					sq, nvars, kind := sq, nvars, kind
					name := ""
					for _, i := range sq {
						name += ctl[i].name + ","
					}
					yield(&Prog{Family: "F-genfor", Shape: fmt.Sprintf("ctl=%s/vars=%d/%s", name, nvars, kind), Mk: func() *Block {
						// seq = {v1, v2, ...}; the iterator returns seq[n], "x"..n, "dropped" for n = 1.. and nil after the last
						var fs []Field
						for _, i := range sq {
							fs = append(fs, Pos1(ctl[i].mk()))
						}
						vars := []string{"a", "b", "c"}[:nvars]
						var obs []Expr
						for _, v := range vars {
							obs = append(obs, Name(v))
						}
						st := []Stat{Local1("seq", TableE(fs...)), Local1("n", Num(0))}
						nseq := float64(len(sq))
						step := []Stat{Assign1(Name("n"), Bin("+", Name("n"), Num(1))), If(Bin(">", Name("n"), Num(nseq)), Return(Nil())), Return(Index(Name("seq"), Name("n")), Bin("..", Str("x"), Name("n")))}
						var explist []Expr
						switch kind {
						case "closure":
							st = append(st, LocalFunc("it", Func(names("s", "c"), false, append([]Stat{Emit(Str("it"), Name("s"), Name("c"))}, step...)...)))
							explist = []Expr{Name("it"), Str("state"), Str("init")}
						case "stateless":
							// control value travels through the loop: index kept in the state table
							st = append(st, LocalFunc("it", Func(names("s", "c"), false, Emit(Str("it"), Name("c")), Assign1(Dot(Name("s"), "i"), Bin("+", Dot(Name("s"), "i"), Num(1))), If(Bin(">", Dot(Name("s"), "i"), Num(nseq)), Return()), Return(Index(Name("seq"), Dot(Name("s"), "i")), Dot(Name("s"), "i"), Str("third"), Str("dropped")))))
							explist = []Expr{Name("it"), TableE(NamedField("i", Num(0)))}
						case "callable":
							h := Func(names("self", "s", "c"), false, append([]Stat{Emit(Str("call"), Name("s"), Name("c"))}, step...)...)
							st = append(st, Local1("it", CallN("setmetatable", TableE(), TableE(NamedField("__call", h)))))
							explist = []Expr{Name("it"), Str("state")}
						case "host":
							// a host function as iterator: hid returns its arguments (state, control): first value = state
							st = append(st, LocalFunc("it", Func(names("s", "c"), false, step...)))
							explist = []Expr{CallN("hid", Name("it"), Str("hs"), Str("hc"))}
						}
						st = append(st, GenFor(vars, explist, Emit(obs...)), Emit(Str("n"), Name("n")))
						return wrapTest(exprPrelude(), st)
					}})
				}
			}
		}
	}
}
