package props

// C13 part "pool histories": states created with Options.MinimizeStackMemory take the 8-frame
// segments of their call stacks from one process-wide pool and give them back when an error
// unwinds the stack and when the state is closed. That pool is the one piece of mutable state all
// LStates of a process share by construction, so "states never interfere" has a sequential half
// too: whatever one state did (and however it ended) must not change what another state computes
// afterwards, nor what a state computes while another runs in the middle of its call.
//
// Explicit enumeration of operation histories: every sequence of at most D operations over two
// states from the alphabet below; after every operation the result must equal the value the
// operation has when run in a lone process-fresh state (known in closed form). The histories of
// one shard run in one child process with GOMAXPROCS=1 (the pool is process state: a child gives
// an isolated, deterministic pool; a defect there typically crashes or hangs the victim, which must
// not take the checker with it).

import (
	"bytes"
	"context"
	"encoding/json"
	"fmt"
	"os"
	"os/exec"
	"runtime"
	"strconv"
	"strings"
	"sync"
	"time"

	lua "github.com/yuin/gopher-lua"

	"verif/internal/harness"
)

const c13PoolEnv = "VERIF_C13_POOL" // depth:shard:nshards  or  one:<json history>

const c13PoolLua = `
function rec(n, tag, bottom)
  local a, b = n, tag
  local r
  if n == 0 then
    if bottom then r = bottom() else r = 0 end
  else
    r = rec(n - 1, tag, bottom)
  end
  if a ~= n or b ~= tag then error("frame locals changed") end
  return r + n
end
function op_rec(d) return rec(d, "r") end
function op_err(d)
  local ok, msg = pcall(rec, d, "e", function() error("E" .. d, 0) end)
  if ok or msg ~= "E" .. d then error("pcall gave " .. tostring(ok) .. " " .. tostring(msg)) end
  return rec(3, "after")
end
function op_xerr(d)
  -- the handler runs on top of the failing frames, the unwinding happens afterwards
  local ok, msg = xpcall(function() return rec(d, "x", function() local t = nil; return t.x end) end, function(m) return "H:" .. rec(4, "h") end)
  if ok or msg ~= "H:10" then error("xpcall gave " .. tostring(ok) .. " " .. tostring(msg)) end
  return rec(3, "after")
end
function op_co(d)
  local co = coroutine.wrap(function() return rec(d, "c", function() return coroutine.yield(1) end) end)
  if co() ~= 1 then error("first resume") end
  return co(100)
end
function op_coerr(d)
  -- an error inside a coroutine: its whole stack is abandoned
  local co = coroutine.create(function() return rec(d, "c", function() error("CE", 0) end) end)
  local ok, msg = coroutine.resume(co)
  if ok or msg ~= "CE" then error("resume gave " .. tostring(ok) .. " " .. tostring(msg)) end
  return rec(3, "after")
end
function op_nest(d, what, e)
  -- the other state works while this one is d frames deep
  return rec(d, "n", function() return other(what, e) end)
end
`

type c13PoolOp struct {
	S    int    `json:"state"`
	Kind string `json:"op"` // rec err xerr co coerr nest-rec nest-err goerr close
	D    int    `json:"depth"`
	E    int    `json:"inner_depth,omitempty"`
}

func (o c13PoolOp) String() string {
	if o.E > 0 {
		return fmt.Sprintf("S%d.%s(%d,%d)", o.S, o.Kind, o.D, o.E)
	}
	return fmt.Sprintf("S%d.%s(%d)", o.S, o.Kind, o.D)
}

func tri(n int) int { return n * (n + 1) / 2 }

// expected: the closed-form result of the operation on a lone state
func (o c13PoolOp) expected() string {
	switch o.Kind {
	case "rec":
		return strconv.Itoa(tri(o.D))
	case "err", "xerr", "coerr":
		return strconv.Itoa(tri(3))
	case "co":
		return strconv.Itoa(100 + tri(o.D))
	case "nest-rec":
		return strconv.Itoa(tri(o.D) + tri(o.E))
	case "nest-err":
		return strconv.Itoa(tri(o.D) + tri(3))
	case "goerr":
		return "go-error-caught"
	case "close":
		return "closed"
	}
	return "?"
}

func c13PoolAlphabet(thorough bool) []c13PoolOp {
	var ops []c13PoolOp
	for s := 0; s < 2; s++ {
		ops = append(ops,
			c13PoolOp{S: s, Kind: "rec", D: 20},
			c13PoolOp{S: s, Kind: "err", D: 12},
			c13PoolOp{S: s, Kind: "err", D: 20},
			c13PoolOp{S: s, Kind: "co", D: 12},
			c13PoolOp{S: s, Kind: "nest-rec", D: 12, E: 20},
			c13PoolOp{S: s, Kind: "nest-err", D: 12, E: 20},
			c13PoolOp{S: s, Kind: "goerr", D: 20},
			c13PoolOp{S: s, Kind: "close"})
		if thorough {
			ops = append(ops,
				c13PoolOp{S: s, Kind: "rec", D: 7},
				c13PoolOp{S: s, Kind: "xerr", D: 20},
				c13PoolOp{S: s, Kind: "coerr", D: 20},
				c13PoolOp{S: s, Kind: "err", D: 8})
		}
	}
	return ops
}

type c13PoolWorld struct {
	states [2]*lua.LState
}

func (w *c13PoolWorld) newState(i int) {
	L := lua.NewState(lua.Options{SkipOpenLibs: true, MinimizeStackMemory: true, CallStackSize: 120})
	for _, lib := range []struct {
		n string
		f lua.LGFunction
	}{{lua.BaseLibName, lua.OpenBase}, {lua.CoroutineLibName, lua.OpenCoroutine}} {
		L.Push(L.NewFunction(lib.f))
		L.Push(lua.LString(lib.n))
		L.Call(1, 0)
	}
	if err := L.DoString(c13PoolLua); err != nil {
		panic(err)
	}
	L.SetGlobal("other", L.NewFunction(func(L *lua.LState) int {
		what, e := L.CheckString(1), L.CheckInt(2)
		res := w.call(1-i, what, e)
		n, err := strconv.Atoi(res)
		if err != nil {
			L.RaiseError("other state: %s", res)
		}
		L.Push(lua.LNumber(n))
		return 1
	}))
	w.states[i] = L
}

// call runs op_<what>(args...) in state i and renders the result
func (w *c13PoolWorld) call(i int, what string, args ...int) string {
	L := w.states[i]
	top := L.GetTop()
	defer L.SetTop(top)
	var largs []lua.LValue
	for _, a := range args {
		largs = append(largs, lua.LNumber(a))
	}
	if err := L.CallByParam(lua.P{Fn: L.GetGlobal("op_" + what), NRet: 1, Protect: true}, largs...); err != nil {
		return "error: " + firstLine(err.Error())
	}
	return L.Get(-1).String()
}

func (w *c13PoolWorld) apply(o c13PoolOp) string {
	switch o.Kind {
	case "close":
		w.states[o.S].Close()
		w.newState(o.S)
		return "closed"
	case "nest-rec":
		L := w.states[o.S]
		top := L.GetTop()
		defer L.SetTop(top)
		if err := L.CallByParam(lua.P{Fn: L.GetGlobal("op_nest"), NRet: 1, Protect: true}, lua.LNumber(o.D), lua.LString("rec"), lua.LNumber(o.E)); err != nil {
			return "error: " + firstLine(err.Error())
		}
		return L.Get(-1).String()
	case "nest-err":
		L := w.states[o.S]
		top := L.GetTop()
		defer L.SetTop(top)
		if err := L.CallByParam(lua.P{Fn: L.GetGlobal("op_nest"), NRet: 1, Protect: true}, lua.LNumber(o.D), lua.LString("err"), lua.LNumber(o.E)); err != nil {
			return "error: " + firstLine(err.Error())
		}
		return L.Get(-1).String()
	case "goerr":
		// the error is caught by the Go caller (PCall from the host), d frames above the failing one
		L := w.states[o.S]
		top := L.GetTop()
		defer L.SetTop(top)
		fail := L.NewFunction(func(L *lua.LState) int { L.RaiseError("GE"); return 0 })
		err := L.CallByParam(lua.P{Fn: L.GetGlobal("rec"), NRet: 1, Protect: true}, lua.LNumber(o.D), lua.LString("g"), fail)
		if err == nil || !strings.Contains(err.Error(), "GE") {
			return fmt.Sprintf("go caller got %v", err)
		}
		return "go-error-caught"
	}
	return w.call(o.S, o.Kind, o.D)
}

// c13PoolRunHistory runs one history on two fresh states; "" when every operation gave its lone result.
func c13PoolRunHistory(h []c13PoolOp) string {
	w := &c13PoolWorld{}
	w.newState(0)
	w.newState(1)
	defer func() {
		w.states[0].Close()
		w.states[1].Close()
	}()
	for i, o := range h {
		if got, want := w.apply(o), o.expected(); got != want {
			return fmt.Sprintf("operation %d %s gave %q, alone it gives %q", i+1, o, got, want)
		}
	}
	// both states must still compute correctly at the end, at a depth that spans four segments
	for s := 0; s < 2; s++ {
		if got, want := w.call(s, "rec", 30), strconv.Itoa(tri(30)); got != want {
			return fmt.Sprintf("after the history, S%d.rec(30) gave %q, alone it gives %q", s, got, want)
		}
	}
	return ""
}

func c13PoolHistoryString(h []c13PoolOp) string {
	var parts []string
	for _, o := range h {
		parts = append(parts, o.String())
	}
	return strings.Join(parts, " ")
}

// child side
func init() {
	spec := os.Getenv(c13PoolEnv)
	if spec == "" {
		return
	}
	var current struct {
		sync.Mutex
		h     []c13PoolOp
		since time.Time
	}
	report := func(h []c13PoolOp, msg string) {
		b, _ := json.Marshal(h)
		fmt.Printf("POOL violation %s %s\n", b, strings.ReplaceAll(msg, "\n", " / "))
		os.Exit(0)
	}
	// watchdog: a victim of a corrupted call stack may spin or allocate without end
	go func() {
		var ms runtime.MemStats
		for {
			time.Sleep(200 * time.Millisecond)
			current.Lock()
			h, since := current.h, current.since
			current.Unlock()
			if h != nil && time.Since(since) > 20*time.Second {
				report(h, "the history does not finish (no result after 20 s)")
			}
			runtime.ReadMemStats(&ms)
			if ms.HeapAlloc > 2<<30 {
				report(h, "the history allocates without bound (heap above 2 GiB)")
			}
		}
	}()
	runOne := func(h []c13PoolOp) {
		current.Lock()
		current.h, current.since = h, time.Now()
		current.Unlock()
		var msg string
		func() {
			defer func() {
				if e := recover(); e != nil {
					msg = fmt.Sprintf("Go panic: %v", e)
				}
			}()
			msg = c13PoolRunHistory(h)
		}()
		if msg != "" {
			report(h, msg)
		}
	}
	if strings.HasPrefix(spec, "one:") {
		var h []c13PoolOp
		if err := json.Unmarshal([]byte(spec[4:]), &h); err != nil {
			panic(err)
		}
		runOne(h)
		fmt.Printf("POOL ok histories=1 ops=%d\n", len(h))
		os.Exit(0)
	}
	f := strings.Split(spec, ":")
	depth, _ := strconv.Atoi(f[0])
	shard, _ := strconv.Atoi(f[1])
	nsh, _ := strconv.Atoi(f[2])
	alpha := c13PoolAlphabet(f[3] == "t")
	n, nops, idx := 0, 0, 0
	var walk func(h []c13PoolOp)
	walk = func(h []c13PoolOp) {
		if len(h) > 0 {
			// a history is run when it is maximal or ends in an operation that can expose damage done before
			if idx%nsh == shard {
				runOne(h)
				n++
				nops += len(h)
			}
			idx++
		}
		if len(h) == depth {
			return
		}
		for _, o := range alpha {
			walk(append(h[:len(h):len(h)], o))
		}
	}
	walk(nil)
	fmt.Printf("POOL ok histories=%d ops=%d\n", n, nops)
	os.Exit(0)
}

// parent side
func c13PoolHistories(r *harness.Run) {
	// quick: every history of at most 4 operations over the 16-operation alphabet; thorough: at most
	// 4 over the 24-operation alphabet and at most 5 over the 16-operation one
	if !r.Thorough() {
		c13PoolPass(r, 4, "q")
		return
	}
	c13PoolPass(r, 4, "t")
	c13PoolPass(r, 5, "q")
}

func c13PoolPass(r *harness.Run, depth int, tier string) {
	if d := envInt("VERIF_C13_POOLDEPTH"); d > 0 {
		depth = d
	}
	nsh := harness.Workers()
	type res struct {
		hist, ops int
		viol      string
		h         string
	}
	out := make([]res, nsh)
	timeout := 10 * time.Minute
	child := func(spec string) (string, string, error) {
		ctx, cancel := context.WithTimeout(context.Background(), timeout)
		defer cancel()
		cmd := exec.CommandContext(ctx, os.Args[0])
		cmd.Env = append(os.Environ(), c13PoolEnv+"="+spec, "GOMAXPROCS=1", "GOTRACEBACK=single")
		var so bytes.Buffer
		errb := &c08TailWriter{max: 2048, buf: &bytes.Buffer{}}
		cmd.Stdout = &so
		cmd.Stderr = errb
		err := cmd.Run()
		if ctx.Err() == context.DeadlineExceeded {
			// (a history that hangs is reported by the child's own watchdog long before this)
			return "POOL slow\n", "", nil
		}
		return so.String(), errb.buf.String(), err
	}
	var wg sync.WaitGroup
	for s := 0; s < nsh; s++ {
		wg.Add(1)
		go func(s int) {
			defer wg.Done()
			so, se, err := child(fmt.Sprintf("%d:%d:%d:%s", depth, s, nsh, tier))
			for _, line := range strings.Split(so, "\n") {
				if strings.HasPrefix(line, "POOL ok ") {
					fmt.Sscanf(line, "POOL ok histories=%d ops=%d", &out[s].hist, &out[s].ops)
					return
				}
				if strings.HasPrefix(line, "POOL slow") {
					r.NotExhaustive(fmt.Sprintf("pool histories: shard %d did not finish within %v", s, timeout))
					return
				}
				if strings.HasPrefix(line, "POOL violation ") {
					rest := strings.TrimPrefix(line, "POOL violation ")
					if i := strings.Index(rest, "] "); i >= 0 {
						out[s].h, out[s].viol = rest[:i+1], rest[i+2:]
					} else {
						out[s].viol = rest
					}
					return
				}
			}
			head := strings.ReplaceAll(se, "\n", " / ")
			if len(head) > 600 {
				head = head[:600]
			}
			out[s].viol = fmt.Sprintf("the child process of shard %d died (%v): %s", s, err, head)
		}(s)
	}
	wg.Wait()
	total, ops := 0, 0
	for s := range out {
		total += out[s].hist
		ops += out[s].ops
		if out[s].viol == "" {
			continue
		}
		data := map[string]interface{}{"shard": s, "shards": nsh, "depth": depth, "message": out[s].viol}
		sig := "pool-histories/child-died"
		if out[s].h != "" {
			var h []c13PoolOp
			json.Unmarshal([]byte(out[s].h), &h)
			data["history"] = h
			// does the history fail in a fresh process of its own?
			so, _, _ := child("one:" + out[s].h)
			alone := strings.Contains(so, "POOL violation ")
			data["reproduces_in_a_fresh_process"] = alone
			sig = "pool-histories/" + h[len(h)-1].Kind
			out[s].viol = c13PoolHistoryString(h) + ": " + out[s].viol + fmt.Sprintf(" (fails in a fresh process of its own: %v)", alone)
		}
		r.Violation(sig, out[s].viol, data)
		break
	}
	r.EvalN(int64(ops))
	r.Eval(fmt.Sprintf("pool-histories/%d/%s", depth, tier), true, func() interface{} {
		return map[string]interface{}{"scenario": "pool-histories", "histories": total, "operations": ops, "depth": depth, "alphabet": len(c13PoolAlphabet(tier == "t"))}
	})
	r.Count("pool_histories", int64(total))
	r.Count("pool_history_operations", int64(ops))
	r.Extra[fmt.Sprintf("pool_history_depth_alphabet%d", len(c13PoolAlphabet(tier == "t")))] = depth
}

// c13SharedObjects: no object one state can reach from Lua is reachable from another state. The
// values a program can get hold of without creating them (library tables and functions, the
// string metatable, the standard files, and the sentinel require parks in package.loaded while a
// module loads) are captured by a host function in two states and must be pairwise different
// objects; a metatable attached to a captured object in one state must not be visible in the other.
func c13SharedObjects(r *harness.Run) {
	const src = `
local seen = {}
local function walk(name, v, depth)
  local t = type(v)
  if t ~= "table" and t ~= "function" and t ~= "userdata" and t ~= "thread" then return end
  if seen[v] then return end
  seen[v] = true
  capture(name, v)
  if t == "table" and depth < 3 then
    for k, x in pairs(v) do if type(k) == "string" then walk(name .. "." .. k, x, depth + 1) end end
  end
  local ok, mt = pcall(debug.getmetatable, v)
  if not ok then query_failed = name .. ": " .. tostring(mt) elseif mt then walk(name .. "<mt>", mt, depth + 1) end
end
walk("_G", _G, 0)
walk("string-metatable", debug.getmetatable(""), 0)
package.preload.verifmod = function(name)
  local s = package.loaded[name]
  walk("require-sentinel", s, 0)
  if type(s) == "userdata" then
    local ok, mt = pcall(debug.getmetatable, s)
    seen_tag = ok and (mt or {}).tag or nil
    pcall(debug.setmetatable, s, {tag = "from-" .. state_name})
  end
  return true
end
require("verifmod")
`
	type obj struct {
		name string
		v    lua.LValue
	}
	run := func(stateName string) ([]obj, string) {
		L := lua.NewState()
		// (not closed before the comparison: the objects must stay alive so that addresses cannot be reused)
		var got []obj
		L.SetGlobal("state_name", lua.LString(stateName))
		L.SetGlobal("capture", L.NewFunction(func(L *lua.LState) int {
			got = append(got, obj{L.CheckString(1), L.Get(2)})
			return 0
		}))
		if err := L.DoString(src); err != nil {
			// (the script only reads and compares; a failure is a defect of what it touched)
			r.Violation("shared-object/script-failed", "walking the objects reachable from Lua failed in state "+stateName+": "+firstLine(err.Error()), nil)
		}
		tag := L.GetGlobal("seen_tag").String()
		if q := L.GetGlobal("query_failed"); q != lua.LNil {
			r.Violation("shared-object/metatable-query-fails", "debug.getmetatable fails on an object the program can reach: "+q.String(), nil)
		}
		return got, tag
	}
	a, tagA := run("A")
	b, tagB := run("B")
	inA := map[lua.LValue]string{}
	for _, o := range a {
		inA[o.v] = o.name
	}
	n := 0
	for _, o := range b {
		n++
		if o.name == "_G.capture" {
			continue
		}
		if an, shared := inA[o.v]; shared {
			r.Violation("shared-object/"+o.name, fmt.Sprintf("the %s %s of state B is the same Go object as %s of state A: what one state does to it (a metatable, a field, an environment) shows in the other", o.v.Type(), o.name, an), map[string]interface{}{"name": o.name})
		}
	}
	if tagA != "nil" || tagB != "nil" {
		r.Violation("shared-object/metatable-leak", fmt.Sprintf("a metatable attached by another state was visible on the object require parks in package.loaded (A saw %s, B saw %s)", tagA, tagB), nil)
	}
	r.EvalN(int64(n))
	r.Eval("shared-objects", true, func() interface{} {
		return map[string]interface{}{"scenario": "shared-objects", "objects_compared": n}
	})
	r.Count("reachable_objects_compared_between_states", int64(n))
}
