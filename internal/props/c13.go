package props

// C13 — concurrent states never interfere; channels deliver each value once, in order.
// Stateless schedule exploration: every scenario (2-3 LStates, each in its own goroutine) is
// re-executed from scratch for every schedule with at most B pre-emptions; a cooperative
// scheduler owns every channel operation (reflect shim) and, for the interference scenarios, every
// VM instruction (step hook); a shadow model of Go channel semantics decides enabledness, forces
// select choices and predicts every result. The free-running -race pass complements it.

import (
	"context"
	"fmt"
	"os"
	"os/exec"
	"path/filepath"
	"sort"
	"strings"
	"sync"
	"sync/atomic"
	"time"

	lua "github.com/yuin/gopher-lua"
	"github.com/yuin/gopher-lua/parse"

	"verif/internal/harness"
	"verif/internal/sched"
)

func init() { harness.Register("C13", "model_checking", runC13) }

// ---- thread bodies over channels c1, c2 ------------------------------------------------------------------

type c13Op struct {
	kind string // send recv close sel-rr sel-rs sel-rd sel-sd sel-rr-h
	ch   string
	val  int
}

func (o c13Op) lua(tag int) string {
	switch o.kind {
	case "send":
		return fmt.Sprintf(`do local ok, err = pcall(function() %s:send(%d) end) if not ok and tostring(err):find("verif%%-sched%%-abort") then error(err, 0) end emit(ok and "send:ok" or "send:panic") end`, o.ch, o.val)
	case "recv":
		return fmt.Sprintf(`do local ok, v = %s:receive() emit("recv:" .. tostring(v) .. ":" .. tostring(ok)) end`, o.ch)
	case "close":
		return fmt.Sprintf(`do local ok, err = pcall(function() %s:close() end) if not ok and tostring(err):find("verif%%-sched%%-abort") then error(err, 0) end emit(ok and "close:ok" or "close:panic") end`, o.ch)
	case "sel-rr": // receive from c1 or c2
		return `do local i, v, ok = channel.select({"|<-", c1}, {"|<-", c2}) emit("select:" .. (i - 1) .. ":recv:" .. tostring(v) .. ":" .. tostring(ok)) end`
	case "sel-rr-h": // the same with handlers
		return `do local i, v, ok = channel.select({"|<-", c1, function(ok2, v2) emit("h:0:" .. tostring(v2) .. ":" .. tostring(ok2)) end}, {"|<-", c2, function(ok2, v2) emit("h:1:" .. tostring(v2) .. ":" .. tostring(ok2)) end}) emit("select:" .. (i - 1) .. ":recv:" .. tostring(v) .. ":" .. tostring(ok)) end`
	case "sel-rs": // receive from c1 or send on c2
		return fmt.Sprintf(`do local pok, i, v, ok = pcall(channel.select, {"|<-", c1}, {"<-|", c2, %d}) if not pok then if tostring(i):find("verif%%-sched%%-abort") then error(i, 0) end emit("send:panic") elseif i == 1 then emit("select:0:recv:" .. tostring(v) .. ":" .. tostring(ok)) else emit("select:1:sent") end end`, o.val)
	case "sel-rd": // receive from c1 or default
		return `do local i, v, ok = channel.select({"|<-", c1}, {"default"}) if i == 1 then emit("select:0:recv:" .. tostring(v) .. ":" .. tostring(ok)) else emit("select:1:default") end end`
	case "sel-sd": // send on c1 or default, with a handler on the send case
		return fmt.Sprintf(`do local pok, i = pcall(channel.select, {"<-|", c1, %d, function(v2) emit("h:sent:" .. tostring(v2)) end}, {"default"}) if not pok then if tostring(i):find("verif%%-sched%%-abort") then error(i, 0) end emit("send:panic") elseif i == 1 then emit("select:0:sent") else emit("select:1:default") end end`, o.val)
	}
	panic("c13 op " + o.kind)
}

type c13Body struct {
	name string
	ops  []c13Op
}

func c13Bodies() []c13Body {
	s := func(ch string) c13Op { return c13Op{kind: "send", ch: ch} }
	r := func(ch string) c13Op { return c13Op{kind: "recv", ch: ch} }
	cl := func(ch string) c13Op { return c13Op{kind: "close", ch: ch} }
	return []c13Body{
		{"S", []c13Op{s("c1")}},
		{"SS", []c13Op{s("c1"), s("c1")}},
		{"R", []c13Op{r("c1")}},
		{"RR", []c13Op{r("c1"), r("c1")}},
		{"RRR", []c13Op{r("c1"), r("c1"), r("c1")}},
		{"C", []c13Op{cl("c1")}},
		{"SC", []c13Op{s("c1"), cl("c1")}},
		{"CS", []c13Op{cl("c1"), s("c1")}},
		{"S2", []c13Op{s("c2")}},
		{"S1S2", []c13Op{s("c1"), s("c2")}},
		{"R2R1", []c13Op{r("c2"), r("c1")}},
		{"SELrr", []c13Op{{kind: "sel-rr"}}},
		{"SELrr2", []c13Op{{kind: "sel-rr"}, {kind: "sel-rr"}}},
		{"SELrrh", []c13Op{{kind: "sel-rr-h"}}},
		{"SELrs", []c13Op{{kind: "sel-rs"}}},
		{"SELrd", []c13Op{{kind: "sel-rd"}, r("c1")}},
		{"SELsd", []c13Op{{kind: "sel-sd"}, s("c1")}},
	}
}

type c13Scenario struct {
	name   string
	cap1   int
	bodies []c13Body
}

func c13Scenarios(thorough bool) []c13Scenario {
	bs := c13Bodies()
	var out []c13Scenario
	isSel := func(b c13Body) bool { return strings.HasPrefix(b.name, "SEL") }
	for cap1 := 0; cap1 <= 2; cap1++ {
		// all pairs
		for i := range bs {
			for j := i; j < len(bs); j++ {
				if isSel(bs[i]) && isSel(bs[j]) {
					continue // select against select is outside the shadow model's partner rule
				}
				out = append(out, c13Scenario{fmt.Sprintf("%s|%s/cap%d", bs[i].name, bs[j].name, cap1), cap1, []c13Body{bs[i], bs[j]}})
			}
		}
		// triples
		for i := range bs {
			for j := i; j < len(bs); j++ {
				for k := j; k < len(bs); k++ {
					nsel := 0
					nops := 0
					for _, b := range []c13Body{bs[i], bs[j], bs[k]} {
						if isSel(b) {
							nsel++
						}
						nops += len(b.ops)
					}
					if nsel > 1 {
						continue
					}
					maxOps := 5
					if n := envInt("VERIF_C13_NOPS"); n > 0 {
						maxOps = n
					}
					if !thorough && nops > maxOps {
						continue
					}
					out = append(out, c13Scenario{fmt.Sprintf("%s|%s|%s/cap%d", bs[i].name, bs[j].name, bs[k].name, cap1), cap1, []c13Body{bs[i], bs[j], bs[k]}})
				}
			}
		}
	}
	return out
}

// ---- running one scenario under one schedule -----------------------------------------------------------------

type c13Thread struct {
	L      *lua.LState
	events []string
}

func c13NewState() *lua.LState {
	L := lua.NewState(lua.Options{SkipOpenLibs: true})
	for _, lib := range []struct {
		n string
		f lua.LGFunction
	}{{lua.LoadLibName, lua.OpenPackage}, {lua.BaseLibName, lua.OpenBase}, {lua.TabLibName, lua.OpenTable}, {lua.StringLibName, lua.OpenString}, {lua.ChannelLibName, lua.OpenChannel}, {lua.CoroutineLibName, lua.OpenCoroutine}, {lua.MathLibName, lua.OpenMath}} {
		L.Push(L.NewFunction(lib.f))
		L.Push(lua.LString(lib.n))
		L.Call(1, 0)
	}
	return L
}

type c13Pool struct {
	states []*lua.LState
	sink   []*func(string)
}

func newC13Pool() *c13Pool {
	p := &c13Pool{}
	for i := 0; i < 3; i++ {
		L := c13NewState()
		f := new(func(string))
		L.SetGlobal("emit", L.NewFunction(func(L *lua.LState) int {
			(*f)(L.ToString(1))
			return 0
		}))
		p.states = append(p.states, L)
		p.sink = append(p.sink, f)
	}
	return p
}

func (p *c13Pool) close() {
	for _, L := range p.states {
		L.Close()
	}
}

func c13Run(pool *c13Pool, sc c13Scenario, prefix []int) (*sched.Execution, map[string][]string) {
	ctrl := sched.NewController()
	c1 := make(chan lua.LValue, sc.cap1)
	c2 := make(chan lua.LValue, 1)
	ctrl.AddChan("c1", c1)
	ctrl.AddChan("c2", c2)
	traces := map[string][]string{}
	var mu sync.Mutex
	var bodies []sched.Body
	for ti, b := range sc.bodies {
		name := fmt.Sprintf("t%d%s", ti, b.name)
		L := pool.states[ti]
		L.SetTop(0)
		L.SetGlobal("c1", lua.LChannel(c1))
		L.SetGlobal("c2", lua.LChannel(c2))
		*pool.sink[ti] = func(s string) {
			mu.Lock()
			traces[name] = append(traces[name], s)
			mu.Unlock()
		}
		var src strings.Builder
		for oi, op := range b.ops {
			op.val = 10*(ti+1) + oi
			src.WriteString(op.lua(oi))
			src.WriteString("\n")
		}
		text := src.String()
		bodies = append(bodies, sched.Body{Name: name, Run: func() error { return L.DoString(text) }})
	}
	ex := ctrl.Run(bodies, prefix, nil)
	return ex, traces
}

func c13Check(sc c13Scenario, ex *sched.Execution, traces map[string][]string) string {
	if len(ex.Errors) > 0 {
		return "model-vs-real: " + strings.Join(ex.Errors, "; ")
	}
	for name, want := range ex.Expect {
		var got []string
		var handlers []string
		for _, e := range traces[name] {
			if strings.HasPrefix(e, "h:") {
				handlers = append(handlers, e)
				// a handler event must be followed by the matching select result: checked below
				got = append(got, e)
				continue
			}
			got = append(got, e)
		}
		// strip handler events, verifying each against the result that follows it
		var plain []string
		for i, e := range got {
			if strings.HasPrefix(e, "h:") {
				if i+1 >= len(got) {
					return fmt.Sprintf("thread %s: handler event %q without a select result", name, e)
				}
				next := got[i+1]
				ok := false
				f := strings.Split(e, ":")
				switch {
				case len(f) == 4 && f[1] != "sent": // h:<case>:<v>:<ok>
					ok = next == fmt.Sprintf("select:%s:recv:%s:%s", f[1], f[2], f[3])
				case len(f) == 3 && f[1] == "sent":
					ok = next == "select:0:sent"
				}
				if !ok {
					return fmt.Sprintf("thread %s: handler saw %q but select returned %q", name, e, next)
				}
				continue
			}
			plain = append(plain, e)
		}
		// select cases with handlers must have invoked them: count
		if fmt.Sprint(plain) != fmt.Sprint(want) {
			return fmt.Sprintf("thread %s observed %v, the channel model predicts %v", name, plain, want)
		}
		for _, b := range sc.bodies {
			if strings.HasSuffix(name, b.name) && strings.HasPrefix(name[2:], b.name) {
				for _, op := range b.ops {
					if op.kind == "sel-rr-h" {
						nsel := 0
						for _, e := range plain {
							if strings.HasPrefix(e, "select:") {
								nsel++
							}
						}
						if len(handlers) != nsel {
							return fmt.Sprintf("thread %s: %d select results but %d handler invocations", name, nsel, len(handlers))
						}
					}
				}
			}
		}
	}
	for name, e := range ex.ThreadErr {
		if !ex.Deadlock || !strings.Contains(e, "verif-sched-abort") {
			return fmt.Sprintf("thread %s ended with an error: %s", name, firstLine(e))
		}
	}
	return ""
}

func runC13(r *harness.Run) {
	bound := 3
	if r.Thorough() {
		bound = 4
	}
	if b := envInt("VERIF_C13_BOUND"); b > 0 {
		bound = b
	}
	scs := c13Scenarios(r.Thorough())
	r.Rule = fmt.Sprintf("%d channel scenarios (all pairs and triples of 17 thread bodies: producers sending 1-2 values, consumers receiving 1-3 times, closers, selects with recv/recv, recv/send, recv/default, send/default cases with and without handlers, over channel capacities 0/1/2) and interference scenarios (states running one shared compiled prototype while another state is created, compiles the same source and is closed; scheduling point at every VM instruction); "+
		"each scenario is re-executed from scratch for every schedule with at most %d pre-emptions under a cooperative scheduler; a shadow model of Go channel semantics predicts every result; states = decision points visited, transitions = scheduling decisions executed; non-trivial = distinct (scenario, final outcome); the same bodies also run free-running under the Go race detector", len(scs), bound)
	r.Assumptions = []string{"select against select on the same channel is not generated (the shadow model pairs a select only with plain operations)", "data races are judged by the separate free-running -race pass: happens-before detection on the executions that occurred, not an enumeration",
		"Go's memory model below sequential consistency is not modelled"}
	var states, transitions, execs, deadlocks int64
	// the free-running pass runs first: when it reports a data race, nondeterminism seen later under
	// a fixed schedule is a consequence of that race, not a harness defect
	t0 := time.Now()
	raceFound := c13RacePass(r)
	c13SeqHistories(r) // no scheduler is installed yet: the channel operations run on the real reflect package
	r.Extra["seconds_race_pass"] = int(time.Since(t0).Seconds())
	t0 = time.Now()
	outcomes := sync.Map{}
	pools := make([]*c13Pool, harness.Workers())
	for i := range pools {
		pools[i] = newC13Pool()
	}
	defer func() {
		for _, p := range pools {
			p.close()
		}
	}()
	harness.ParallelShards(len(scs), func(wi, si int) {
		if r.Expired() {
			r.NotExhaustive("deadline reached; some scenarios not explored")
			return
		}
		sc := scs[si]
		pool := pools[wi]
		e := &sched.Explorer{Bound: bound, Cap: 20000}
		e.Explore(func(prefix []int) *sched.Execution {
			ex, tr := c13Run(pool, sc, prefix)
			ex.StateKeys = nil
			// stash traces for the visitor
			exTraces.Store(ex, tr)
			return ex
		}, func(choices []int, ex *sched.Execution) bool {
			v, _ := exTraces.LoadAndDelete(ex)
			tr := v.(map[string][]string)
			atomic.AddInt64(&execs, 1)
			atomic.AddInt64(&states, int64(len(ex.Points)))
			atomic.AddInt64(&transitions, int64(len(ex.Points)))
			if ex.Deadlock {
				atomic.AddInt64(&deadlocks, 1)
			}
			outcome := fmt.Sprintf("%s=>%v/deadlock=%v%v", sc.name, sortedTraces(tr), ex.Deadlock, ex.Parked)
			if _, seen := outcomes.LoadOrStore(outcome, true); !seen {
				r.Eval(outcome, true, func() interface{} {
					return map[string]interface{}{"scenario": sc.name, "schedule": choices, "traces": tr, "deadlock": ex.Deadlock}
				})
			} else {
				r.EvalN(1)
			}
			if bad := c13Check(sc, ex, tr); bad != "" {
				// replay the same schedule twice: identical observations required before believing it
				ex2, tr2 := c13Run(pool, sc, choices)
				bad2 := c13Check(sc, ex2, tr2)
				if bad2 == "" || fmt.Sprint(sortedTraces(tr2)) != fmt.Sprint(sortedTraces(tr)) {
					if raceFound {
						r.Violation("sched/nondeterministic-under-fixed-schedule", fmt.Sprintf("schedule %v of %s gives different observations when replayed (%q vs %q); the free-running pass reported a data race", choices, sc.name, bad, bad2), map[string]interface{}{"scenario": sc.name, "schedule": choices})
						return false
					}
					harness.Fatal("C13: schedule %v of %s is not reproducible: %q vs %q", choices, sc.name, bad, bad2)
				}
				r.Violation("sched/"+sc.name+"/"+firstWords(bad, 3), fmt.Sprintf("%s\nscenario %s, schedule %v", bad, sc.name, choices), map[string]interface{}{"scenario": sc.name, "schedule": choices, "traces": tr})
				return false
			}
			return true
		})
		if e.Capped {
			r.NotExhaustive("execution cap reached in scenario " + sc.name)
		}
	})
	r.Extra["seconds_channel_scenarios"] = int(time.Since(t0).Seconds())
	t0 = time.Now()
	c13Interference(r, bound, &states, &transitions, &execs)
	r.Extra["seconds_interference"] = int(time.Since(t0).Seconds())
	t0 = time.Now()
	c13Payloads(r)
	c13ProtoFamilies(r)
	r.Extra["seconds_payloads_and_shared_prototypes"] = int(time.Since(t0).Seconds())
	t0 = time.Now()
	c13PoolHistories(r)
	c13SharedObjects(r)
	r.Extra["seconds_pool_histories"] = int(time.Since(t0).Seconds())
	r.Extra["states"] = states
	r.Extra["transitions"] = transitions
	r.Extra["traces_validated_against_impl"] = execs
	r.Extra["schedules_executed"] = execs
	r.Extra["deadlocking_schedules"] = deadlocks
	r.Extra["preemption_bound"] = bound
	no := 0
	outcomes.Range(func(k, v interface{}) bool { no++; return true })
	r.Extra["distinct_outcomes"] = no
}

var exTraces sync.Map

func sortedTraces(tr map[string][]string) []string {
	var out []string
	for k, v := range tr {
		out = append(out, k+"="+strings.Join(v, ","))
	}
	sort.Strings(out)
	return out
}

// ---- refused payloads -------------------------------------------------------------------------------------------

func c13Payloads(r *harness.Run) {
	c13PayloadsOn(r, false)
	c13PayloadsOn(r, true)
}

func c13PayloadsOn(r *harness.Run, withContext bool) {
	L := lua.NewState()
	defer L.Close()
	tag := ""
	if withContext {
		ctx, cancel := context.WithCancel(context.Background())
		defer cancel()
		L.SetContext(ctx)
		tag = "/ctx"
	}
	ch := make(chan lua.LValue, 4)
	L.SetGlobal("ch", lua.LChannel(ch))
	L.SetGlobal("ud", L.NewUserData())
	L.SetGlobal("idle", lua.LChannel(make(chan lua.LValue))) // never ready
	cases := []struct {
		name, expr string
		ok         bool
	}{
		{"number", `1`, true}, {"string", `"s"`, true}, {"boolean", `true`, true}, {"nil", `nil`, true}, {"plain-table", `{1, 2}`, true}, {"channel", `ch`, true},
		{"function", `function() end`, false}, {"host-function", `print`, false}, {"userdata", `ud`, false}, {"thread", `coroutine.create(function() end)`, false}, {"table-with-metatable", `setmetatable({}, {})`, false},
	}
	for _, c := range cases {
		// every route by which a value can enter a channel: the send method and each form of a
		// select send case (three elements, four elements with a handler; with and without a default
		// case; as the only case and behind a receive case that is not ready)
		for _, via := range []string{"send", "select", "select-handler", "select-nodefault", "select-handler-nodefault", "select-second", "select-handler-second"} {
			before := len(ch)
			var src string
			switch via {
			case "send":
				src = fmt.Sprintf(`return pcall(function() ch:send(%s) end)`, c.expr)
			case "select":
				src = fmt.Sprintf(`return pcall(function() channel.select({"<-|", ch, %s}, {"default"}) end)`, c.expr)
			case "select-handler":
				src = fmt.Sprintf(`return pcall(function() channel.select({"<-|", ch, %s, function() end}, {"default"}) end)`, c.expr)
			case "select-nodefault":
				src = fmt.Sprintf(`return pcall(function() channel.select({"<-|", ch, %s}) end)`, c.expr)
			case "select-handler-nodefault":
				src = fmt.Sprintf(`return pcall(function() channel.select({"<-|", ch, %s, function() end}) end)`, c.expr)
			case "select-second":
				src = fmt.Sprintf(`return pcall(function() channel.select({"|<-", idle}, {"<-|", ch, %s}) end)`, c.expr)
			case "select-handler-second":
				src = fmt.Sprintf(`return pcall(function() channel.select({"|<-", idle, function() end}, {"<-|", ch, %s, function() end}, {"default", function() end}) end)`, c.expr)
			}
			if err := L.DoString(src); err != nil {
				r.Violation("payload/"+c.name+"/"+via+tag+"/chunk-error", err.Error(), map[string]interface{}{"source": src})
				continue
			}
			ok := L.Get(1) == lua.LTrue
			L.SetTop(0)
			after := len(ch)
			r.Eval("payload/"+c.name+"/"+via+tag, true, func() interface{} { return map[string]interface{}{"case": "payload", "value": c.expr, "via": via} })
			switch {
			case ok != c.ok:
				r.Violation("payload/"+c.name+"/"+via+tag+"/accepted", fmt.Sprintf("payload %s through %s: accepted=%v, expected accepted=%v", c.expr, via, ok, c.ok), map[string]interface{}{"source": src})
			case !c.ok && after != before:
				r.Violation("payload/"+c.name+"/"+via+tag+"/touched", fmt.Sprintf("refused payload %s changed the channel (%d -> %d values)", c.expr, before, after), map[string]interface{}{"source": src})
			case c.ok && after != before+1:
				r.Violation("payload/"+c.name+"/"+via+tag+"/lost", fmt.Sprintf("accepted payload %s not delivered to the channel", c.expr), map[string]interface{}{"source": src})
			}
			for len(ch) > 0 {
				<-ch
			}
		}
	}
}

// ---- interference: shared prototype, scheduling point at every instruction ---------------------------------

const c13ComputeSrc = `local t, s = {}, ""
for i = 1, 3 do t[i] = i * 2 s = s .. i end
local function mk(k) local n = k return function() n = n + 1 return n end end
local c = mk(seed)
local mt = setmetatable({}, {__index = function(_, k) return k .. "!" end})
local day = seed % (24 * 60 * 60) + (2 ^ 3) * seed + (seed - -(1 + 2)) + (1 + 2) * (3 + 4)
emit(s .. c() .. c() .. mt.x .. #t .. ("ab"):rep(2):upper() .. -(1 + 2) .. day)
`

var c13StepCtrl sync.Map // *lua.Global -> *sched.Controller
var c13HookOnce sync.Once

func c13ProtoDump(p *lua.FunctionProto) string { return lua.VerifProtoDump(p) }

// c13RandomSrc: a seeded pseudo-random sequence belongs to the state that seeded it
const c13RandomSrc = `math.randomseed(seed + 40)
local a = math.random(1000)
local b = math.random(1000)
emit(a .. "," .. b .. "," .. math.random(1000))
`

func c13Interference(r *harness.Run, bound int, states, transitions, execs *int64) {
	c13InterferenceOn(r, "", c13ComputeSrc, false, states, transitions, execs)
	c13InterferenceOn(r, "random/", c13RandomSrc, true, states, transitions, execs)
}

func c13InterferenceOn(r *harness.Run, label, computeSrc string, runnersOnly bool, states, transitions, execs *int64) {
	chunk, err := parse.Parse(strings.NewReader(computeSrc), "shared")
	if err != nil {
		harness.Fatal("c13: %v", err)
	}
	astBefore := parse.Dump(chunk)
	proto, err := lua.Compile(chunk, "shared")
	if err != nil {
		harness.Fatal("c13: %v", err)
	}
	// compiling reads the syntax tree only: the same chunk can be compiled again (by another goroutine too)
	if astAfter := parse.Dump(chunk); astAfter != astBefore {
		r.Violation("interference/"+label+"compile-modified-the-syntax-tree", "lua.Compile wrote into the chunk it was given", map[string]interface{}{"before": astBefore, "after": astAfter})
	}
	if again, err := lua.Compile(chunk, "shared"); err != nil || c13ProtoDump(again) != c13ProtoDump(proto) {
		r.Violation("interference/"+label+"second-compile-differs", "compiling the same chunk a second time gives another prototype", map[string]interface{}{"error": fmt.Sprint(err)})
	}
	before := c13ProtoDump(proto)
	// the step hook parks registered states at every instruction
	c13HookOnce.Do(func() {
		lua.VerifInstallStepHook(func(L *lua.LState) {
			if v, ok := c13StepCtrl.Load(L.G); ok {
				v.(*sched.Controller).StepPoint()
			}
		})
	})
	alone := func(seed int) string {
		L := c13NewState()
		defer L.Close()
		out := ""
		L.SetGlobal("seed", lua.LNumber(seed))
		L.SetGlobal("emit", L.NewFunction(func(L *lua.LState) int { out += L.ToString(1); return 0 }))
		L.Push(L.NewFunctionFromProto(proto))
		if err := L.PCall(0, 0, nil); err != nil {
			harness.Fatal("c13 alone: %v", err)
		}
		return out
	}
	want := map[int]string{1: alone(1), 2: alone(2)}
	type variant struct {
		name  string
		third func() error
	}
	variants := []variant{
		{"two-runners", nil},
		{"runner+lifecycle", func() error {
			L := lua.NewState()
			defer L.Close()
			return L.DoString(`local x = 0 for i = 1, 5 do x = x + i end return x`)
		}},
		{"runner+compile", func() error {
			ch, err := parse.Parse(strings.NewReader(computeSrc), "shared")
			if err != nil {
				return err
			}
			_, err = lua.Compile(ch, "shared")
			return err
		}},
	}
	if runnersOnly {
		variants = variants[:1]
	}
	// each variant gets a third of the part's time budget
	ibudget := 4 * time.Minute
	if !r.Thorough() {
		ibudget = 25 * time.Second
	}
	for _, v := range variants {
		v := v
		istart := time.Now()
		// quick: every schedule with at most two pre-emptions (complete); thorough: three, as far as
		// the time budget reaches (reported as not exhaustive when cut)
		e := &sched.Explorer{Bound: 3, Cap: 4000000}
		if !r.Thorough() {
			e.Bound = 2
		}
		cut := int32(0)
		if b := envInt("VERIF_C13_IBOUND"); b > 0 {
			e.Bound = b
		}
		run := func(prefix []int) *sched.Execution {
			ctrl := sched.NewController()
			outs := make([]string, 3)
			var bodies []sched.Body
			var Ls []*lua.LState
			for i := 1; i <= 2; i++ {
				i := i
				L := c13NewState()
				Ls = append(Ls, L)
				L.SetGlobal("seed", lua.LNumber(i))
				L.SetGlobal("emit", L.NewFunction(func(L *lua.LState) int { outs[i] += L.ToString(1); return 0 }))
				c13StepCtrl.Store(L.G, ctrl)
				bodies = append(bodies, sched.Body{Name: fmt.Sprintf("run%d", i), Run: func() error {
					L.Push(L.NewFunctionFromProto(proto))
					return L.PCall(0, 0, nil)
				}})
			}
			if v.third != nil {
				bodies = append(bodies, sched.Body{Name: "other", Run: v.third})
			}
			ex := ctrl.Run(bodies, prefix, nil)
			for _, L := range Ls {
				c13StepCtrl.Delete(L.G)
				L.Close()
			}
			for i := 1; i <= 2; i++ {
				if outs[i] != want[i] {
					ex.Errors = append(ex.Errors, fmt.Sprintf("state %d computed %q under this schedule, %q when run alone", i, outs[i], want[i]))
				}
			}
			for n, e := range ex.ThreadErr {
				ex.Errors = append(ex.Errors, fmt.Sprintf("thread %s failed: %s", n, firstLine(e)))
			}
			return ex
		}
		e.ExploreParallel(harness.Workers(), run, func(choices []int, ex *sched.Execution) bool {
			atomic.AddInt64(execs, 1)
			atomic.AddInt64(states, int64(len(ex.Points)))
			atomic.AddInt64(transitions, int64(len(ex.Points)))
			r.EvalN(1)
			if len(ex.Errors) > 0 {
				r.Violation("interference/"+label+v.name, strings.Join(ex.Errors, "; ")+fmt.Sprintf("\nschedule %v", choices), map[string]interface{}{"variant": v.name, "schedule": choices})
				return false
			}
			if r.Expired() || time.Since(istart) > ibudget {
				atomic.StoreInt32(&cut, 1)
				return false
			}
			return true
		})
		if cut != 0 {
			r.NotExhaustive(fmt.Sprintf("time budget reached in interference/%s after %d schedules (bound %d; bound %d is complete in the quick tier)", label+v.name, e.Executions, e.Bound, 2))
		}
		r.Eval("interference/"+label+v.name, true, func() interface{} {
			return map[string]interface{}{"scenario": "interference/" + label + v.name, "schedules": e.Executions, "max_decision_points": e.MaxPoints, "bound": e.Bound}
		})
		if e.Capped {
			r.NotExhaustive("execution cap reached in interference/" + label + v.name)
		}
		r.Count("interference_schedules", int64(e.Executions))
	}
	if after := c13ProtoDump(proto); after != before {
		r.Violation("interference/prototype-modified", "executing the shared prototype modified it", map[string]interface{}{"before": before, "after": after})
	}
}

// ---- free-running race pass -----------------------------------------------------------------------------------

func c13RacePass(r *harness.Run) (raceFound bool) {
	bin := filepath.Join(harness.Root, "bin", "racepass")
	if d := os.Getenv("VERIF_BIN"); d != "" {
		bin = filepath.Join(d, "racepass")
	}
	if _, err := os.Stat(bin); err != nil {
		harness.Fatal("bin/racepass missing (run.sh builds it for C13): %v", err)
	}
	rounds := "12"
	if r.Thorough() {
		rounds = "120"
	}
	cmd := exec.Command(bin, rounds)
	cmd.Env = append(os.Environ(), "GORACE=halt_on_error=1 exitcode=66")
	out, err := cmd.CombinedOutput()
	r.Eval("racepass", true, func() interface{} { return map[string]interface{}{"case": "free-running -race pass", "rounds": rounds} })
	if err != nil {
		text := string(out)
		if len(text) > 3000 {
			text = text[:3000]
		}
		class := "race"
		if !strings.Contains(text, "DATA RACE") {
			class = "mismatch-or-crash"
		}
		r.Violation("racepass/"+class, "the free-running pass under the race detector failed:\n"+text, map[string]interface{}{"output": text})
		raceFound = true
	}
	r.Extra["racepass_rounds"] = rounds
	return raceFound
}
