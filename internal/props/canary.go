package props

// Canaries: a handful of programs whose failure mode on a broken interpreter is a crash of the
// whole process (Go stack overflow, out of memory) run first, each in a child process, so that the
// enumeration that follows can leave the corresponding inputs out and report a violation instead
// of dying with them.

import (
	"bytes"
	"context"
	"fmt"
	"os"
	"os/exec"
	"runtime"
	"strings"
	"time"

	lua "github.com/yuin/gopher-lua"
)

const canaryEnv = "VERIF_CANARY_SRC"

func init() {
	src := os.Getenv(canaryEnv)
	if src == "" {
		return
	}
	// a canary whose failure mode is unbounded allocation must not take the machine with it
	go func() {
		var ms runtime.MemStats
		for {
			time.Sleep(20 * time.Millisecond)
			runtime.ReadMemStats(&ms)
			if ms.HeapAlloc > 3<<30 {
				fmt.Printf("CANARY memory-exhaustion (heap above 3 GiB)\n")
				os.Exit(0)
			}
		}
	}()
	L := lua.NewState()
	ctx, cancel := context.WithTimeout(context.Background(), 20*time.Second)
	defer cancel()
	L.SetContext(ctx)
	err := L.DoString(src)
	if err != nil {
		fmt.Printf("CANARY lua-error %s\n", strings.ReplaceAll(err.Error(), "\n", " / "))
	} else {
		fmt.Printf("CANARY ok\n")
	}
	os.Exit(0)
}

// canaryRun runs src in a child process; crashed reports that the process died (not a Lua error).
func canaryRun(src string, timeout time.Duration) (crashed bool, detail string) {
	ctx, cancel := context.WithTimeout(context.Background(), timeout)
	defer cancel()
	cmd := exec.CommandContext(ctx, os.Args[0])
	cmd.Env = append(os.Environ(), canaryEnv+"="+src, "GOTRACEBACK=single")
	var out bytes.Buffer
	errb := &c08TailWriter{max: 2048, buf: &bytes.Buffer{}}
	cmd.Stdout = &out
	cmd.Stderr = errb
	err := cmd.Run()
	if ctx.Err() == context.DeadlineExceeded {
		return true, fmt.Sprintf("no result after %v", timeout)
	}
	for _, line := range strings.Split(out.String(), "\n") {
		if strings.HasPrefix(line, "CANARY ") {
			return false, strings.TrimPrefix(line, "CANARY ")
		}
	}
	head := strings.ReplaceAll(errb.buf.String(), "\n", " / ")
	if len(head) > 400 {
		head = head[:400]
	}
	return true, fmt.Sprintf("child process died (%v): %s", err, head)
}
