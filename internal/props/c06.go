package props

// C06 — coroutines transfer values and control exactly as Lua 5.1 coroutines.
// Explicit-state BFS over drive histories: a state is the history that reaches it; a successor is
// the history plus one operation, rendered as a program and executed from scratch on gopher-lua
// and on the reference interpreter; states are merged on the reference model's abstract state.

import (
	"context"
	"fmt"
	"sort"
	"strings"
	"sync"
	"time"

	lua "github.com/yuin/gopher-lua"

	"verif/internal/glrun"
	"verif/internal/harness"
	. "verif/internal/luaref"
)

func init() { harness.Register("C06", "model_checking", runC06) }

type c06Body struct {
	name string
	mk   func() *FuncExpr
	pre  func() []Stat // helper definitions the body needs
}

func cy(args ...Expr) Expr { return Call(Dot(Name("coroutine"), "yield"), args...) }

func c06Bodies() []c06Body {
	echo := func(tag string, e Expr) Stat { return Emit(Str(tag), CallN("select", Str("#"), e), e) }
	_ = echo
	return []c06Body{
		{"ret0", func() *FuncExpr { return Func(nil, true, Emit(Str("ret0-in"), Vararg())) }, nil},
		{"retargs", func() *FuncExpr { return Func(nil, true, Return(Str("r"), Vararg())) }, nil},
		{"yield1", func() *FuncExpr {
			return Func(nil, true, Emit(Str("y1-start"), Vararg()), Emit(Str("y1-got"), cy(Str("y"), Vararg())), Return(Str("y1-ret")))
		}, nil},
		{"yield0", func() *FuncExpr {
			return Func(nil, true, Emit(Str("y0-got"), cy()), Emit(Str("y0-got2"), cy()), Return())
		}, nil},
		{"yield3", func() *FuncExpr {
			return Func(names("a", "b"), false, Local(names("x", "y", "z"), cy(Num(1), Num(2), Num(3))), Emit(Str("y3"), Name("a"), Name("b"), Name("x"), Name("y"), Name("z")), Return(Name("z"), Name("y"), Name("x")))
		}, nil},
		{"loop", func() *FuncExpr {
			// local counter, open upvalue shared with a helper closure, loop state across suspensions
			return Func(names("a"), false, Local1("n", Num(0)), LocalFunc("inc", Func(names("d"), false, Assign1(Name("n"), Bin("+", Name("n"), Name("d"))), Return(Name("n")))),
				NumFor("i", Num(1), Num(3), nil, Emit(Str("loop-got"), Name("i"), cy(Name("i"), CallN("inc", Name("i")), Name("a")))), Return(Str("sum"), Name("n")))
		}, nil},
		{"deep", func() *FuncExpr {
			return Func(names("a"), false, Emit(Str("deep-out"), CallN("lvl1", Name("a"))), Return(Str("deep-ret")))
		}, func() []Stat {
			return []Stat{LocalFunc("lvl2", Func(names("x"), false, Local1("keep", Bin("..", Str("k"), CallN("tostring", Name("x")))), Local(names("r1", "r2"), cy(Str("deep"), Name("x"))), Return(Name("keep"), Name("r1"), Name("r2")))),
				LocalFunc("lvl1", Func(names("x"), false, Local(names("a", "b", "c"), CallN("lvl2", Name("x"))), Return(Name("a"), Name("b"), Name("c"))))}
		}},
		{"tailhelper", func() *FuncExpr {
			return Func(nil, false, LocalFunc("mid", Func(nil, false, Return(CallN("thelper")))), Emit(Str("th-got"), CallN("mid")), Return(Str("th-ret")))
		}, func() []Stat { return []Stat{LocalFunc("thelper", Func(nil, false, Return(cy(Str("tail")))))} }},
		{"outertail", func() *FuncExpr { return Func(nil, true, Return(cy(Str("outer-tail"), Vararg()))) }, nil},
		{"errstr", func() *FuncExpr {
			return Func(nil, false, Emit(Str("es-got"), cy(Num(1))), CallS(Name("error"), Str("boom")))
		}, nil},
		{"errtab", func() *FuncExpr {
			return Func(nil, false, CallS(Name("error"), TableE(NamedField("code", Num(7)))))
		}, nil},
		{"fault", func() *FuncExpr {
			return Func(nil, false, Emit(Str("f-got"), cy(Num(1))), Local1("x", Bin("+", Name("nilv"), Num(1))), Return(Name("x")))
		}, nil},
		{"nested", func() *FuncExpr {
			// resumes the coroutine in slot 1 (whatever it is) and reports all statuses as seen from inside
			return Func(nil, true, Emit(Str("n-in"), Vararg()), CallS(Name("report"), Str("n-before")), Emit(Str("n-res"), CallN("presume", Num(1), Str("from-nested"))), CallS(Name("report"), Str("n-after")),
				Emit(Str("n-got"), cy(Str("n-y"))), Return(Str("n-ret")))
		}, nil},
		{"nested2", func() *FuncExpr {
			// resumes the coroutine in slot 2: with "nested" in slot 2 this gives three levels of resumes
			return Func(nil, true, CallS(Name("report"), Str("n2-before")), Emit(Str("n2-res"), CallN("presume", Num(2), Str("from-nested2"))), CallS(Name("report"), Str("n2-after")), Emit(Str("n2-got"), cy(Str("n2-y"))), Return(Str("n2-ret")))
		}, nil},
		{"reporter", func() *FuncExpr {
			// reports the status of every coroutine as seen from the innermost one
			return Func(nil, true, CallS(Name("report"), Str("rep-in")), Emit(Str("rep-got"), cy(Str("rep-y"))), CallS(Name("report"), Str("rep-in2")), Return(Str("rep-ret")))
		}, nil},
		{"selfresume", func() *FuncExpr {
			return Func(nil, false, Local1("me", Call(Dot(Name("coroutine"), "running"))), Emit(Str("self"), Call(Dot(Name("coroutine"), "status"), Name("me")), Paren(Call(Dot(Name("coroutine"), "resume"), Name("me")))), Emit(Str("self-got"), cy(Str("s-y"))), Return(Str("self-ret")))
		}, nil},
		{"upwrite", func() *FuncExpr {
			// assigns to a live local of its creator (the main chunk's `shared`): an open upvalue owned by another thread
			return Func(nil, false, Assign1(Name("shared"), Bin("+", Name("shared"), Num(1))), Emit(Str("up-got"), cy(Name("shared"))), Assign1(Name("shared"), Bin("+", Name("shared"), Num(10))), Return(Name("shared")))
		}, nil},
		{"setter", func() *FuncExpr {
			// exports a setter over its own local; the resumer calls it while this coroutine is suspended
			return Func(nil, false, Local1("x", Num(1)), Assign1(Index(Name("setters"), Bin("+", Un("#", Name("setters")), Num(1))), Func(names("v"), false, Assign1(Name("x"), Name("v")))),
				Emit(Str("set-got"), cy(Name("x"))), Emit(Str("set-x"), Name("x")), Emit(Str("set-got2"), cy(Name("x"))), Return(Name("x")))
		}, nil},
		{"faultescape", func() *FuncExpr {
			// a closure over a local of the frame that then faults escapes before the coroutine dies
			return Func(nil, false, Local(names("v", "w"), Num(5), Str("w")), Assign1(Index(Name("escaped"), Bin("+", Un("#", Name("escaped")), Num(1))), Func(nil, false, Assign1(Name("v"), Bin("+", Name("v"), Num(1))), Return(Name("v"), Name("w")))),
				Emit(Str("fe-got"), cy(Name("v"))), Local1("bad", Bin("+", Name("nilv"), Name("v"))), Return(Name("bad")))
		}, nil},
		{"wrapinside", func() *FuncExpr {
			// a generator consumed by a for-in loop inside the coroutine, yielding outward in between
			gen := Func(nil, false, NumFor("i", Num(1), Num(2), nil, CallS(Dot(Name("coroutine"), "yield"), Name("i"))))
			return Func(nil, false, GenFor(names("v"), []Expr{Call(Dot(Name("coroutine"), "wrap"), gen)}, Emit(Str("wi"), Name("v"), cy(Str("wi-y"), Name("v")))), Return(Str("wi-ret")))
		}, nil},
	}
}

var c06Interacting = map[string]bool{"nested": true, "nested2": true, "reporter": true, "selfresume": true, "yield1": true, "errtab": true, "upwrite": true, "faultescape": true}

type c06Op struct {
	Kind  string `json:"op"` // create | wrap | resume | status | genfor
	Body  int    `json:"body,omitempty"`
	Slot  int    `json:"slot,omitempty"`
	Arity int    `json:"arity,omitempty"`
}

func (o c06Op) String(bodies []c06Body) string {
	switch o.Kind {
	case "create", "wrap":
		return fmt.Sprintf("%s(%s)->%d", o.Kind, bodies[o.Body].name, o.Slot)
	case "genfor":
		return fmt.Sprintf("genfor(%s)", bodies[o.Body].name)
	}
	return fmt.Sprintf("resume(%d;%d args)", o.Slot, o.Arity)
}

const c06Slots = 3

// c06Program renders a history.
func c06Program(bodies []c06Body, hist []c06Op) *Block {
	var st []Stat
	st = append(st, Local1("nilv", Nil()), Local1("cos", TableE()), Local1("kinds", TableE()), Local1("shared", Num(0)), Local1("setters", TableE()), Local1("escaped", TableE()))
	// report(tag): statuses of all slots (wrapped ones have no handle)
	repArgs := []Expr{Name("tag")}
	for k := 1; k <= c06Slots; k++ {
		repArgs = append(repArgs, CallN("slotstatus", Num(float64(k))))
	}
	st = append(st,
		LocalFunc("slotstatus", Func(names("k"), false,
			If(Bin("==", Index(Name("kinds"), Name("k")), Nil()), Return(Str("none"))),
			If(Bin("==", Index(Name("kinds"), Name("k")), Str("wrap")), Return(Str("wrapped"))),
			Return(Call(Dot(Name("coroutine"), "status"), Index(Name("cos"), Name("k")))))),
		LocalFunc("report", Func(names("tag"), false, Emit(repArgs...))),
		// presume(k, ...): resume slot k whatever its kind; wrapped functions are called under pcall
		LocalFunc("presume", Func(names("k"), true,
			If(Bin("==", Index(Name("kinds"), Name("k")), Str("wrap")), Return(Str("w"), CallN("pcall", Index(Name("cos"), Name("k")), Vararg()))),
			If(Bin("==", Index(Name("kinds"), Name("k")), Nil()), Return(Str("noslot"))),
			Return(Str("c"), Call(Dot(Name("coroutine"), "resume"), Index(Name("cos"), Name("k")), Vararg())))),
	)
	defined := map[int]bool{}
	for _, op := range hist {
		if (op.Kind == "create" || op.Kind == "wrap" || op.Kind == "genfor") && !defined[op.Body] {
			defined[op.Body] = true
		}
	}
	var ids []int
	for b := range defined {
		ids = append(ids, b)
	}
	sort.Ints(ids)
	for _, b := range ids {
		if bodies[b].pre != nil {
			st = append(st, bodies[b].pre()...)
		}
		st = append(st, LocalFunc("body_"+bodies[b].name, bodies[b].mk()))
	}
	for step, op := range hist {
		switch op.Kind {
		case "create":
			st = append(st, Assign1(Index(Name("cos"), Num(float64(op.Slot))), Call(Dot(Name("coroutine"), "create"), Name("body_"+bodies[op.Body].name))), Assign1(Index(Name("kinds"), Num(float64(op.Slot))), Str("co")))
		case "wrap":
			st = append(st, Assign1(Index(Name("cos"), Num(float64(op.Slot))), Call(Dot(Name("coroutine"), "wrap"), Name("body_"+bodies[op.Body].name))), Assign1(Index(Name("kinds"), Num(float64(op.Slot))), Str("wrap")))
		case "resume":
			args := []Expr{Num(float64(op.Slot))}
			for i := 0; i < op.Arity; i++ {
				args = append(args, Str(fmt.Sprintf("p%d%c", step+1, 'a'+i)))
			}
			st = append(st, Emit(Str("res"), Num(float64(op.Slot)), CallN("presume", args...)))
		case "genfor":
			st = append(st, GenFor(names("a", "b"), []Expr{Call(Dot(Name("coroutine"), "wrap"), Name("body_"+bodies[op.Body].name))}, Emit(Str("gen"), Name("a"), Name("b"))))
		}
		// closures exported by coroutine bodies are exercised from the main chunk after every step
		st = append(st, NumFor("si", Num(1), Un("#", Name("setters")), nil, CallS(Index(Name("setters"), Name("si")), Num(float64(100+step)))),
			NumFor("ei", Num(1), Un("#", Name("escaped")), nil, Emit(Str("esc"), Name("ei"), CallS(Index(Name("escaped"), Name("ei"))).Call)),
			Emit(Str("shared"), Name("shared")))
		st = append(st, CallS(Name("report"), Str(fmt.Sprintf("st%d", step+1))), Emit(Str("running"), Call(Dot(Name("coroutine"), "running"))))
	}
	return Blk(st...)
}

func runC06(r *harness.Run) {
	bodies := c06Bodies()
	if getenv("VERIF_C06_PART") == "suspend" { // development aid: only the suspended-families part
		c06Suspended(r)
		return
	}
	// histories are complete up to fullDepth; one further level extends every state by resume
	// operations only
	fullDepth := 3
	if r.Thorough() {
		fullDepth = 5
	}
	if d := envInt("VERIF_C06_DEPTH"); d > 0 {
		fullDepth = d
	}
	depth := fullDepth + 1
	r.Rule = fmt.Sprintf("explicit-state BFS over drive histories, complete up to depth %d and extended by one further level of resume operations: operations create/wrap (over %d body kinds: returning, yielding 0/1/3 values, looping with local counter and shared upvalue, yielding from nested and tail-called helpers, erroring with string/table/fault, resuming another coroutine, resuming itself, nested generator), resume / call of any of %d slots with 0/1/3 payload values, generic-for over a wrapped generator; after every step the status of every coroutine and coroutine.running() are observed. "+
		"Each history is rendered as a program and executed from scratch on gopher-lua and on the reference interpreter; states are merged on (slot kinds/bodies, statuses, successful resumes per slot); non-trivial = distinct abstract states", fullDepth, len(bodies), c06Slots)
	r.Assumptions = []string{"luaref coroutines (goroutine-backed) are the reading of Lua 5.1's coroutine library", "bodies' control flow does not depend on payload values, so merged states have the same futures",
		"not generated: yield across pcall/metamethod/iterator boundaries (an error in PUC-Lua 5.1, supported by gopher-lua)"}

	// canaries: resuming a coroutine that is itself waiting for the current one (status normal)
	// must be refused; an interpreter that goes ahead recurses without bound and takes the process
	// down, so these run in child processes first and, if they crash, the histories that reach the
	// situation are judged by the canary alone
	skipNormal := false
	for _, cn := range []struct{ name, src string }{
		{"resume-resumer", `local co co = coroutine.create(function() local inner = coroutine.create(function() return coroutine.resume(co) end) return coroutine.resume(inner) end) local a, b, c = coroutine.resume(co) assert(a == true and b == true and c == false)`},
		{"wrap-calls-resumer", `local f f = coroutine.wrap(function() local inner = coroutine.wrap(function() return pcall(f) end) return inner() end) local ok = f() assert(ok == false)`},
		{"resume-grand-resumer", `local co co = coroutine.create(function() local mid = coroutine.create(function() local inner = coroutine.create(function() return coroutine.resume(co) end) return coroutine.resume(inner) end) return coroutine.resume(mid) end) local a, b, c, d = coroutine.resume(co) assert(a and b and c and d == false)`},
	} {
		crashed, detail := canaryRun(cn.src, 60*time.Second)
		r.Eval("canary/"+cn.name, true, func() interface{} { return map[string]interface{}{"case": "canary", "program": cn.src} })
		if crashed {
			skipNormal = true
			r.Violation("canary/"+cn.name+"/process-crash", "resuming a coroutine whose status is normal must be refused (false, message); the interpreter process died instead: "+detail+"\nprogram: "+cn.src, map[string]interface{}{"program": cn.src})
		} else if detail != "ok" {
			r.Violation("canary/"+cn.name+"/wrong-result", "resuming a coroutine whose status is normal must be refused with (false, message): "+detail+"\nprogram: "+cn.src, map[string]interface{}{"program": cn.src})
		}
	}

	type state struct {
		hist []c06Op
		key  string
		// per slot: created?
		slots [c06Slots + 1]string
	}
	nw := harness.Workers()
	impls := make([]*glrun.Impl, nw)
	for i := range impls {
		impls[i] = glrun.NewImpl(lua.Options{}, nil)
	}
	defer func() {
		for _, m := range impls {
			m.Close()
		}
	}()
	var mu sync.Mutex
	seen := map[string]bool{"": true}
	frontier := []state{{}}
	var states, transitions int64 = 1, 0
	maxDone := 0
	for d := 1; d <= depth && len(frontier) > 0; d++ {
		var next []state
		expired := false
		harness.ParallelShards(len(frontier), func(wi, si int) {
			if r.Expired() {
				expired = true
				return
			}
			stt := frontier[si]
			// menu
			var menu []c06Op
			free := 0
			for k := 1; k <= c06Slots; k++ {
				if stt.slots[k] == "" {
					free = k
					break
				}
			}
			if free > 0 && d <= fullDepth {
				for b := range bodies {
					if !r.Thorough() && d >= 3 && !c06Interacting[bodies[b].name] {
						continue // quick tier: the third operation creates only bodies that interact with other coroutines
					}
					menu = append(menu, c06Op{Kind: "create", Body: b, Slot: free}, c06Op{Kind: "wrap", Body: b, Slot: free})
				}
			}
			for k := 1; k <= c06Slots; k++ {
				if stt.slots[k] != "" {
					for _, ar := range []int{0, 1, 3} {
						menu = append(menu, c06Op{Kind: "resume", Slot: k, Arity: ar})
					}
				}
			}
			if d <= 2 {
				for b := range bodies {
					menu = append(menu, c06Op{Kind: "genfor", Body: b})
				}
			}
			var local []state
			var ltrans int64
			for _, op := range menu {
				h2 := append(append([]c06Op(nil), stt.hist...), op)
				chunk := c06Program(bodies, h2)
				src := Print(chunk, Layout{})
				mo := glrun.RunModel(chunk, nil)
				ltrans++
				if mo.Indeterminate != "" {
					r.Count("indeterminate", 1)
					r.Count("indeterminate/"+firstWords(mo.Indeterminate, 3), 1)
					continue
				}
				if skipNormal && mo.NormalResumes > 0 {
					r.Count("not-run/resume-of-normal-coroutine (canary crashed)", 1)
					continue
				}
				o := impls[wi].Run(src, int64(mo.Steps)*100+20000)
				class, diff := glrun.Compare(mo, o)
				hs := make([]string, len(h2))
				for i, x := range h2 {
					hs[i] = x.String(bodies)
				}
				if class != "" {
					// confirm on a fresh state
					f := glrun.NewImpl(lua.Options{}, nil)
					o2 := f.Run(src, int64(mo.Steps)*100+20000)
					f.Close()
					c2, d2 := glrun.Compare(mo, o2)
					if c2 == "" {
						harness.Fatal("C06: mismatch only on reused state:\n%s\n%s", src, diff)
					}
					sig := c06Sig(bodies, h2, c2)
					r.Violation(sig, d2+"\nhistory: "+strings.Join(hs, " ; ")+"\nprogram:\n"+src, map[string]interface{}{"history": h2, "history_text": hs, "program": src, "difference": d2})
					continue // successors of a violating transition are not explored
				}
				// abstract state from the model trace
				key, slots := c06Key(bodies, h2, mo)
				mu.Lock()
				fresh := !seen[key]
				if fresh {
					seen[key] = true
				}
				mu.Unlock()
				if fresh {
					var ns state
					ns.hist = h2
					ns.key = key
					ns.slots = slots
					local = append(local, ns)
					r.Eval(key, true, func() interface{} { return map[string]interface{}{"history": hs, "abstract_state": key} })
				} else {
					r.EvalN(1)
				}
			}
			mu.Lock()
			next = append(next, local...)
			transitions += ltrans
			states += int64(len(local))
			mu.Unlock()
		})
		if expired {
			r.NotExhaustive(fmt.Sprintf("deadline reached at depth %d (depth %d fully covered)", d, maxDone))
			break
		}
		maxDone = d
		sort.Slice(next, func(i, j int) bool { return fmt.Sprint(next[i].hist) < fmt.Sprint(next[j].hist) })
		frontier = next
	}
	r.Extra["states"] = states
	r.Extra["transitions"] = transitions
	r.Extra["traces_validated_against_impl"] = transitions
	r.Extra["max_depth_completed"] = maxDone
	c06GoAPI(r, bodies)
	c06Suspended(r)
	runPinned(r, "C06")
	reentrantFamily(r, "C06")
	pinnedGoAPI5(r, "C06")
}

// c06Suspended — "each coroutine keeps its own locals, loop state, call stack and open upvalues
// across suspensions": the program families of C01–C03 (control flow, loops, calls, closures with
// every exit route, block nestings) run as the body of a coroutine that suspends after every
// observable event, with a register-hungry call (and, second variant, another coroutine's resume)
// between two resumes. Programs whose events happen below a pcall/metamethod/iterator boundary are
// indeterminate for Lua 5.1 (yield across a C boundary) and are skipped by the model.
func c06Suspended(r *harness.Run) {
	th := r.Thorough()
	pr := c03Runner(r)
	pr.prop = "C06"
	base := map[string]Gen{"F-ctrl": genCtrl(false), "F-numfor": genNumFor(th), "F-genfor": genGenFor(th), "F-call": genCall(false), "F-tail": genTail(false), "F-closure": genClosure(th), "F-nest": genNest(false), "F-cond": genCond(false)}
	order := []string{"F-numfor", "F-genfor", "F-closure", "F-tail", "F-nest", "F-ctrl", "F-call"}
	if th {
		order = append(order, "F-cond")
	}
	gens := map[string]Gen{"F-yieldacross": genYieldAcross(), "F-hostbody": genHostBody(), "F-cochain": genCoChain(), "F-cooverflow": genCoOverflow()}
	names := []string{"F-yieldacross", "F-hostbody", "F-cochain", "F-cooverflow"}
	for _, n := range order {
		gens["S1/"+n] = mapGen(base[n], "S1/", suspendAtEmit(false))
		names = append(names, "S1/"+n)
		if th || n == "F-closure" || n == "F-numfor" || n == "F-genfor" || n == "F-tail" {
			gens["S2/"+n] = mapGen(base[n], "S2/", suspendAtEmit(true))
			names = append(names, "S2/"+n)
		}
	}
	pr.runGens(gens, names)
	// the coroutine-centred families once more on states that carry a live (never cancelled)
	// context: coroutines created at any depth behave the same
	ctx, cancel := context.WithCancel(context.Background())
	defer cancel()
	pc := c03Runner(r)
	pc.prop = "C06"
	pc.sigPrefix = "livectx/"
	inner := pc.extraI
	pc.extraI = func(m *glrun.Impl) {
		inner(m)
		m.L.SetContext(ctx)
	}
	pc.runGens(map[string]Gen{"F-cochain": genCoChain(), "F-hostbody": genHostBody(), "F-yieldacross": genYieldAcross(), "F-closure": genClosure(false)}, []string{"F-cochain", "F-hostbody", "F-yieldacross", "F-closure"})
}

func envInt(name string) int {
	var n int
	fmt.Sscanf(strings.TrimSpace(getenv(name)), "%d", &n)
	return n
}

// c06Sig: signature of a violating history: the body kinds involved and the last operation.
func c06Sig(bodies []c06Body, h []c06Op, class string) string {
	last := h[len(h)-1]
	var involved []string
	for _, op := range h {
		if op.Kind == "create" || op.Kind == "wrap" || op.Kind == "genfor" {
			involved = append(involved, op.Kind+":"+bodies[op.Body].name)
		}
	}
	nres := 0
	for _, op := range h {
		if op.Kind == "resume" && op.Slot == last.Slot {
			nres++
		}
	}
	return fmt.Sprintf("hist/%s/last=%s#%d/%s", strings.Join(involved, ","), last.Kind, nres, class)
}

// c06Key derives the abstract state: per slot (kind, body, successful resumes, status).
func c06Key(bodies []c06Body, h []c06Op, mo glrun.MOutcome) (string, [c06Slots + 1]string) {
	var slots [c06Slots + 1]string
	for _, op := range h {
		if op.Kind == "create" || op.Kind == "wrap" {
			slots[op.Slot] = op.Kind + ":" + bodies[op.Body].name
		}
	}
	okc := make([]int, c06Slots+1)
	var lastStatus string
	for _, e := range mo.Events {
		if e.Kind != "emit" || len(e.Args) == 0 {
			continue
		}
		tag := e.Args[0].S
		switch {
		case tag == "s:res" && len(e.Args) >= 4:
			// emit("res", slot, kind, ok, ...)
			var k int
			fmt.Sscanf(e.Args[1].S, "n:%d", &k)
			if e.Args[3].S == "true" && k >= 1 && k <= c06Slots {
				okc[k]++
			}
		case tag == "s:n-res" && len(e.Args) >= 3:
			if e.Args[2].S == "true" {
				okc[1]++
			}
		case tag == "s:n2-res" && len(e.Args) >= 3:
			if e.Args[2].S == "true" {
				okc[2]++
			}
		case strings.HasPrefix(tag, "s:st"):
			var ss []string
			for _, a := range e.Args[1:] {
				ss = append(ss, a.S)
			}
			lastStatus = strings.Join(ss, ",")
		}
	}
	var b strings.Builder
	for k := 1; k <= c06Slots; k++ {
		fmt.Fprintf(&b, "%s#%d|", slots[k], okc[k])
	}
	b.WriteString(lastStatus)
	if mo.Failed {
		b.WriteString("|failed")
	}
	return b.String(), slots
}

// c06GoAPI drives single coroutines through the Go API (NewThread/Resume) and compares with the
// same drive sequence performed from Lua on the same implementation and on the model.
func c06GoAPI(r *harness.Run, bodies []c06Body) {
	for bi, b := range bodies {
		if b.name == "nested" || b.name == "nested2" || b.name == "reporter" || b.name == "upwrite" || b.name == "setter" || b.name == "faultescape" {
			continue // these bodies use the drive program's own locals
		}
		for nres := 1; nres <= 5; nres++ {
			for _, arity := range []int{0, 1, 3} {
				// Lua-driven reference trace (from the model)
				hist := []c06Op{{Kind: "create", Body: bi, Slot: 1}}
				for i := 0; i < nres; i++ {
					hist = append(hist, c06Op{Kind: "resume", Slot: 1, Arity: arity})
				}
				chunk := c06Program(bodies, hist)
				mo := glrun.RunModel(chunk, nil)
				if mo.Indeterminate != "" {
					continue
				}
				// expected per-resume outcomes from the model's "res" events
				type exp struct {
					ok   bool
					vals []glrun.MTok
				}
				var exps []exp
				var innerEvents [][]glrun.MTok
				for _, e := range mo.Events {
					if e.Kind == "emit" && len(e.Args) >= 4 && e.Args[0].S == "s:res" {
						exps = append(exps, exp{e.Args[3].S == "true", e.Args[4:]})
					} else if e.Kind == "emit" && len(e.Args) > 0 && !strings.HasPrefix(e.Args[0].S, "s:st") && e.Args[0].S != "s:running" {
						innerEvents = append(innerEvents, e.Args)
					}
				}
				// Go-driven
				m := glrun.NewImpl(lua.Options{}, nil)
				L := m.L
				var pre []Stat
				pre = append(pre, Local1("nilv", Nil()))
				if b.pre != nil {
					pre = append(pre, b.pre()...)
				}
				pre = append(pre, Return(b.mk()))
				src := Print(Blk(pre...), Layout{})
				fn, err := L.LoadString(src)
				if err != nil {
					harness.Fatal("c06 goapi load: %v\n%s", err, src)
				}
				L.Push(fn)
				if err := L.PCall(0, 1, nil); err != nil {
					harness.Fatal("c06 goapi: %v", err)
				}
				bodyFn := L.Get(-1).(*lua.LFunction)
				L.Pop(1)
				co, _ := L.NewThread()
				m.ResetTrace()
				bad := ""
				for i := 0; i < nres && bad == ""; i++ {
					var args []lua.LValue
					for a := 0; a < arity; a++ {
						args = append(args, lua.LString(fmt.Sprintf("p%d%c", i+2, 'a'+a)))
					}
					var st lua.ResumeState
					var rerr error
					var vals []lua.LValue
					func() {
						defer func() {
							if rc := recover(); rc != nil {
								bad = fmt.Sprintf("resume #%d: Go panic %v", i+1, rc)
							}
						}()
						st, rerr, vals = L.Resume(co, bodyFn, args...)
					}()
					if bad != "" {
						break
					}
					if i >= len(exps) {
						break
					}
					e := exps[i]
					if e.ok != (st != lua.ResumeError) {
						bad = fmt.Sprintf("resume #%d: Go API state %v err %v, Lua-level resume ok=%v", i+1, st, rerr, e.ok)
						break
					}
					if e.ok {
						if len(e.vals) == 0 && len(vals) == 1 && vals[0] == lua.LNil {
							// documented quirk of LState.Resume: an empty result list is returned as one nil
						} else if len(vals) != len(e.vals) {
							bad = fmt.Sprintf("resume #%d: Go API returned %d values, expected %d", i+1, len(vals), len(e.vals))
							break
						}
						for j := range vals {
							if j < len(e.vals) && e.vals[j].Op == nil && m.Tok(vals[j]) != e.vals[j].S {
								bad = fmt.Sprintf("resume #%d: value %d is %s, expected %s", i+1, j+1, m.Tok(vals[j]), e.vals[j].S)
							}
						}
						// status after the step: yield <-> suspended, ok <-> dead
						wantDead := L.Status(co) == "dead"
						if (st == lua.ResumeOK) != wantDead {
							bad = fmt.Sprintf("resume #%d: ResumeState %v but status %s", i+1, st, L.Status(co))
						}
					}
				}
				m.Close()
				r.Eval(fmt.Sprintf("goapi/%s/%d/%d", b.name, nres, arity), true, func() interface{} {
					return map[string]interface{}{"family": "go-api", "body": b.name, "resumes": nres, "arity": arity}
				})
				if bad != "" {
					r.Violation(fmt.Sprintf("goapi/%s/resumes=%d/arity=%d", b.name, nres, arity), bad+"\nbody:\n"+src, map[string]interface{}{"body": b.name, "resumes": nres, "arity": arity, "body_source": src})
				}
			}
		}
	}
}
