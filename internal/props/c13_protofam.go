package props

// C13, part "shared prototypes over the program families": every program of a set of families
// (control flow, calls, closures, generic/numeric for, failing statements with tracebacks, debug
// queries) is compiled ONCE; the prototype tree is dumped completely (code, constants, line and
// debug tables, nested prototypes); two different states then execute that same prototype one
// after the other; both must produce the same trace, results and error, and the prototype must be
// unchanged afterwards. (The concurrent version of the same statement is the interference part and
// the race pass; this part widens the set of instructions and error/debug routes that are executed
// on a shared prototype.)

import (
	"fmt"
	"regexp"
	"strings"

	lua "github.com/yuin/gopher-lua"
	"github.com/yuin/gopher-lua/parse"

	"verif/internal/glrun"
	"verif/internal/harness"
	"verif/internal/luaref"
)

func c13ProtoFamilies(r *harness.Run) {
	th := r.Thorough()
	gens := []struct {
		name string
		g    Gen
	}{
		{"F-faultline", genFaultLine(false)}, {"F-getinfo", genGetInfo(th)}, {"F-locals", genLocals(false)},
		{"F-closure", genClosure(th)}, {"F-genfor", genGenFor(th)}, {"F-numfor", genNumFor(false)},
		{"F-tail", genTail(false)}, {"F-call", genCall(false)},
	}
	if th {
		type ng = struct {
			name string
			g    Gen
		}
		gens = append(gens, ng{"F-ctrl", genCtrl(false)}, ng{"F-nest", genNest(false)}, ng{"F-goto", genGoto(false)})
	}
	nw := harness.Workers()
	harness.ParallelShards(nw, func(worker, shard int) {
		a := glrun.NewImpl(lua.Options{}, nil)
		b := glrun.NewImpl(lua.Options{}, nil)
		defer a.Close()
		defer b.Close()
		for _, fam := range gens {
			i := 0
			stop := false
			fam.g(func(p *Prog) {
				if stop {
					return
				}
				i++
				if i%nw != shard {
					return
				}
				if i%256 == shard && r.Expired() {
					stop = true
					r.NotExhaustive("deadline reached inside the shared-prototype part, family " + fam.name)
					return
				}
				if p.Chunk == nil {
					p.Chunk = p.Mk()
					if p.Chunk == nil {
						return
					}
				}
				src := luaref.Print(p.Chunk, p.Layout)
				c13SharedProtoCase(r, a, b, fam.name, p.Family, p.Shape, src)
			})
		}
		// call-site kinds x debug/traceback probes: the routes that derive a function's name from
		// the caller's prototype (debug information of call sites)
		i := 0
		for _, site := range c13CallSites {
			for _, probe := range c13Probes {
				i++
				if i%nw != shard {
					continue
				}
				src := "local function probe()\n" + probe.body + "\nend\nlocal t = {f = probe, probe}\nfunction t:m() return probe() end\ngprobe = probe\nlocal function mk() return probe end\n" +
					"local function run()\n" + site.call + "\nend\n" + probe.driver + "\n"
				c13SharedProtoCase(r, a, b, "F-callsite", "F-callsite", site.name+"/"+probe.name, src)
			}
		}
	})
}

var c13CallSites = []struct{ name, call string }{
	{"local", "local r = probe() return r"}, {"global", "local r = gprobe() return r"}, {"field", "local r = t.f() return r"}, {"method", "local r = t:m() return r"},
	{"index", "local r = t[1]() return r"}, {"paren", "local r = (probe)() return r"}, {"call-result", "local r = mk()() return r"},
	{"anonymous", "local r = (function() return (probe()) end)() return r"}, {"tail", "return probe()"}, {"tail-index", "return t[1]()"},
	{"pcall", "local ok, r = pcall(probe) return r"}, {"iterator", "for r in probe do return r end"},
	{"metamethod", "local r = setmetatable({}, {__index = function() return (probe()) end}).x return r"},
}

var c13Probes = []struct{ name, body, driver string }{
	{"traceback", `return debug.traceback("tb")`, `emit(run()) emit(run())`},
	{"getinfo-n", `local i = debug.getinfo(1, "n") return tostring(i.name) .. "/" .. tostring(i.namewhat)`, `emit(run()) emit(run())`},
	{"getinfo-n2", `local i = debug.getinfo(2, "nSl") return tostring(i.name) .. "/" .. tostring(i.what) .. "/" .. tostring(i.currentline)`, `emit(run()) emit(run())`},
	{"error-uncaught", `error("boom")`, `emit("before") run()`},
	{"error-xpcall-traceback", `error("boom")`, `emit(xpcall(run, debug.traceback))`},
	{"fault-uncaught", `local x = nil + 1 return x`, `emit("before") run()`},
}

func c13SharedProtoCase(r *harness.Run, a, b *glrun.Impl, famName, family, shape, src string) {
	chunk, err := parse.Parse(strings.NewReader(src), glrun.ChunkName)
	if err != nil {
		return
	}
	proto, err := lua.Compile(chunk, glrun.ChunkName)
	if err != nil {
		return
	}
	before := lua.VerifProtoDump(proto)
	o1 := a.RunProto(proto, 2_000_000)
	mid := lua.VerifProtoDump(proto)
	o2 := b.RunProto(proto, 2_000_000)
	after := lua.VerifProtoDump(proto)
	r.Eval("protofam/"+src, len(o1.Events) > 0 || len(o1.Results) > 0 || o1.Failed, func() interface{} {
		return map[string]interface{}{"family": family, "shape": shape, "program": src}
	})
	r.Count("protofam/"+famName, 1)
	if before != mid || mid != after {
		r.Violation("protofam/"+family+"/"+shape+"/prototype-modified", "executing the compiled prototype modified it:\nbefore: "+firstDiff(before, after)+"\nprogram:\n"+src, map[string]interface{}{"program": src})
		return
	}
	if d := c13SameOutcome(o1, o2); d != "" {
		r.Violation("protofam/"+family+"/"+shape+"/second-state-differs", "a second state running the same prototype computed something else: "+d+"\nprogram:\n"+src, map[string]interface{}{"program": src})
	}
}

var hexAddr = regexp.MustCompile(`0x[0-9a-f]+`) // object addresses in messages differ between states

func firstDiff(a, b string) string {
	n := len(a)
	if len(b) < n {
		n = len(b)
	}
	i := 0
	for i < n && a[i] == b[i] {
		i++
	}
	lo := i - 60
	if lo < 0 {
		lo = 0
	}
	cut := func(s string) string {
		hi := i + 80
		if hi > len(s) {
			hi = len(s)
		}
		return s[lo:hi]
	}
	return fmt.Sprintf("…%s…\nafter:  …%s…", cut(a), cut(b))
}

func c13SameOutcome(x, y glrun.Outcome) string {
	if len(x.Events) != len(y.Events) {
		return fmt.Sprintf("%d host calls vs %d", len(x.Events), len(y.Events))
	}
	for i := range x.Events {
		if x.Events[i].Kind != y.Events[i].Kind || strings.Join(x.Events[i].Args, ",") != strings.Join(y.Events[i].Args, ",") {
			return fmt.Sprintf("host call #%d: %s(%s) vs %s(%s)", i+1, x.Events[i].Kind, strings.Join(x.Events[i].Args, ", "), y.Events[i].Kind, strings.Join(y.Events[i].Args, ", "))
		}
	}
	if x.Failed != y.Failed || x.ErrKind != y.ErrKind || x.ErrTok != y.ErrTok || hexAddr.ReplaceAllString(x.ErrText, "0x") != hexAddr.ReplaceAllString(y.ErrText, "0x") {
		return fmt.Sprintf("failure %v/%s/%s vs %v/%s/%s", x.Failed, x.ErrKind, x.ErrText, y.Failed, y.ErrKind, y.ErrText)
	}
	if strings.Join(x.Results, ",") != strings.Join(y.Results, ",") {
		return "results (" + strings.Join(x.Results, ", ") + ") vs (" + strings.Join(y.Results, ", ") + ")"
	}
	return ""
}
