package props

// C12 part 3 — Options are behaviour-neutral below the limits: a generated corpus of deterministic
// programs plus the repository's own Lua test scripts, each under the product of Options.

import (
	"crypto/sha1"
	"encoding/hex"
	"encoding/json"
	"fmt"
	"os"
	"path/filepath"
	"regexp"
	"sort"
	"strings"
	"sync"
	"sync/atomic"

	lua "github.com/yuin/gopher-lua"

	"verif/internal/harness"
)

type c12Prog struct {
	Name   string `json:"name"`
	Family string `json:"family"`
	Src    string `json:"source,omitempty"`
	File   string `json:"file,omitempty"`
}

// ---- corpus --------------------------------------------------------------------------------------

func c12Corpus() []c12Prog {
	var ps []c12Prog
	add := func(family, name, src string) {
		ps = append(ps, c12Prog{Name: family + "/" + name, Family: family, Src: src})
	}
	sf := fmt.Sprintf

	// A. arithmetic and comparison
	vals := "local V = {0, 1, -1, 2, 3.5, -7, 10, 0.1, 1e10, 255}\n"
	for _, op := range []struct{ name, op string }{{"add", "+"}, {"sub", "-"}, {"mul", "*"}, {"div", "/"}, {"mod", "%"}, {"pow", "^"}, {"eq", "=="}, {"ne", "~="}, {"lt", "<"}, {"le", "<="}, {"concat", ".."}} {
		add("arith", op.name, vals+sf("for _, a in ipairs(V) do for _, b in ipairs(V) do emit(a %s b) end end\n", op.op))
	}
	add("arith", "unary", vals+"for _, a in ipairs(V) do emit(-a, not a, #tostring(a)) end\n")
	add("arith", "mixed", "local s = 0 for i = 1, 200 do s = (s * 31 + i) % 1000003 if i % 7 == 0 then s = s - i / 2 end end emit(s)\n")
	add("arith", "strnum", `emit("10" + 5, "3" * "4", 10 .. 20, "2" ^ 3, -"2") emit(pcall(function() return "a" + 1 end))`+"\n")

	// B. closures
	for _, n := range []int{1, 2, 5, 20, 100} {
		add("closure", sf("loop%d", n), sf("local fs = {} for i = 1, %d do fs[i] = function() return i * 2 end end local s = 0 for i = 1, #fs do s = s + fs[i]() end emit(s, fs[1](), fs[#fs]())\n", n))
		add("closure", sf("counters%d", n), sf("local function mk() local c = 0 return function() c = c + 1 return c end end local cs = {} for i = 1, %d do cs[i] = mk() end for i = 1, #cs do for j = 1, i do cs[i]() end end local s = 0 for i = 1, #cs do s = s + cs[i]() end emit(s)\n", n))
	}
	for d := 1; d <= 6; d++ {
		var sb strings.Builder
		sb.WriteString("local function l0(a0)\n")
		for i := 1; i <= d; i++ {
			fmt.Fprintf(&sb, "%sreturn function(a%d)\n", strings.Repeat(" ", i), i)
		}
		sum := "a0"
		for i := 1; i <= d; i++ {
			sum += sf(" + a%d * %d", i, i+1)
		}
		fmt.Fprintf(&sb, "%sreturn %s\n", strings.Repeat(" ", d+1), sum)
		for i := d; i >= 1; i-- {
			fmt.Fprintf(&sb, "%send\n", strings.Repeat(" ", i))
		}
		sb.WriteString("end\nlocal f = l0(1)\n")
		for i := 1; i <= d; i++ {
			fmt.Fprintf(&sb, "f = f(%d)\n", i+1)
		}
		sb.WriteString("emit(f)\n")
		add("closure", sf("nested%d", d), sb.String())
	}
	add("closure", "shared", "local function mk() local v = 0 return function() return v end, function(x) v = x end end local g, s = mk() emit(g()) s(5) emit(g()) local g2, s2 = mk() s2(9) emit(g(), g2())\n")
	add("closure", "whilebreak", "local fs = {} local i = 0 while true do i = i + 1 local j = i * i fs[#fs + 1] = function() return j end if i >= 6 then break end end for k = 1, #fs do emit(fs[k]()) end\n")
	add("closure", "repeat", "local fs = {} local i = 0 repeat local k = i + 100 fs[#fs + 1] = function() k = k + 1 return k end i = i + 1 until k >= 104 for _, f in ipairs(fs) do emit(f(), f()) end\n")
	add("closure", "aftererror", "local x = 1 local function get() return x end emit(pcall(error, 'e')) x = 2 emit(get())\n")
	add("closure", "escape", "local function outer() local a, b, c = 1, 2, 3 local function inc() a = a + 1 b = b + a c = c + b return a, b, c end return inc end local f = outer() f() f() emit(f())\n")

	// C. varargs
	for p := 0; p <= 3; p++ {
		for _, v := range []int{0, 1, 2, 5, 20, 60, 100, 200} {
			var params []string
			for i := 1; i <= p; i++ {
				params = append(params, sf("a%d", i))
			}
			plist := strings.Join(append(append([]string{}, params...), "..."), ", ")
			pvals := "0"
			if p > 0 {
				pvals = strings.Join(params, " + ")
			}
			src := sf("local function f(%s)\n local n = select('#', ...) local t = {...}\n local last = nil if n > 0 then last = (select(n, ...)) end\n emit(n, #t, %s, last)\n return ...\nend\n", plist, pvals)
			src += sf("local args = {} for i = 1, %d do args[i] = i * 2 end\n", p+v)
			src += "local r = {f(unpack(args))} emit(#r, r[1], r[#r])\n"
			src += "local function g(...) return select('#', ...), ... end emit((g(f(unpack(args)))))\n"
			add("vararg", sf("p%dv%d", p, v), src)
		}
	}
	add("vararg", "nilholes", "local function f(...) return select('#', ...), (select(2, ...)) end emit(f(nil, nil, nil)) emit(f(1, nil)) emit(f(nil, 2, nil))\n")
	add("vararg", "adjust", "local function f() return 1, 2, 3 end local a, b, c, d = f() emit(a, b, c, d) local t = {f(), f()} emit(#t) emit((f())) emit(f(), 10) emit(10, f())\n")

	// D. coroutines
	for _, k := range []int{0, 1, 3, 10, 100} {
		add("coroutine", sf("gen%d", k), sf("local co = coroutine.create(function(a) for i = 1, %d do a = a + coroutine.yield(i * a) end return 'done', a end)\nlocal s = 0 local ok, v = coroutine.resume(co, 1) while coroutine.status(co) ~= 'dead' do s = s + v ok, v = coroutine.resume(co, 1) end emit(ok, v, s, coroutine.status(co)) emit(coroutine.resume(co))\n", k))
		add("coroutine", sf("wrap%d", k), sf("local w = coroutine.wrap(function() for i = 1, %d do coroutine.yield(i, i * i) end return -1 end)\nlocal s = 0 while true do local a, b = w() if a == -1 then break end s = s + a + b end emit(s) emit(pcall(w))\n", k))
	}
	for _, d := range []int{1, 2, 3, 4, 5, 10, 20} {
		add("coroutine", sf("nested%d", d), sf("local function lvl(n) if n == 0 then coroutine.yield('leaf') return 0 end local co = coroutine.wrap(lvl) local a = co(n - 1) coroutine.yield(a .. n) local b = co() return b + n end\nlocal co = coroutine.wrap(lvl) emit(co(%d)) emit(co())\n", d))
	}
	add("coroutine", "error", "local co = coroutine.create(function() local x = nil; return x.y end) emit(coroutine.resume(co)) emit(coroutine.status(co)) emit(coroutine.resume(co))\n")
	add("coroutine", "errorobj", "local co = coroutine.create(function() error({code = 7}) end) local ok, e = coroutine.resume(co) emit(ok, type(e), e.code)\n")
	add("coroutine", "wraperror", "local w = coroutine.wrap(function() error('inside') end) emit(pcall(w)) emit(pcall(w))\n")
	add("coroutine", "status", "local co co = coroutine.create(function() emit(coroutine.status(co)) coroutine.yield() end) emit(coroutine.status(co)) coroutine.resume(co) emit(coroutine.status(co)) coroutine.resume(co) emit(coroutine.status(co)) emit(coroutine.running() == nil)\n")
	add("coroutine", "passing", "local co = coroutine.wrap(function(...) local n = select('#', ...) while true do n = n + select('#', coroutine.yield(n)) end end) emit(co(1, 2, 3)) emit(co()) emit(co(nil, nil)) emit(co(1))\n")
	add("coroutine", "producer", "local function prod() return coroutine.wrap(function() for i = 1, 20 do coroutine.yield(i) end end) end local function filt(p) return coroutine.wrap(function() for v in p do if v % 3 == 0 then coroutine.yield(v) end end end) end local s = 0 for v in filt(prod()) do s = s * 10 + v end emit(s)\n")
	add("coroutine", "yieldmain", "emit(pcall(coroutine.yield, 1))\n")
	add("coroutine", "resumedead", "local co = coroutine.create(function() return 1 end) emit(coroutine.resume(co)) emit(coroutine.resume(co))\n")
	add("coroutine", "many", "local cs = {} for i = 1, 50 do cs[i] = coroutine.wrap(function(a) local b = coroutine.yield(a + i) return a + b + i end) end local s = 0 for i = 1, 50 do s = s + cs[i](i) end for i = 1, 50 do s = s + cs[i](1) end emit(s)\n")

	// E. pcall / error
	for i, ev := range []string{`"msg"`, "42", "nil", "true", "{1,2}", `setmetatable({}, {__tostring = function() return "custom" end})`} {
		for _, lvl := range []string{"", ", 0", ", 1", ", 2"} {
			add("error", sf("value%d%s", i, strings.ReplaceAll(lvl, ", ", "L")), sf("local function thrower() error(%s%s) end\nlocal function mid() thrower() end\nlocal ok, e = pcall(mid) local s = tostring(e) if type(e) == 'table' and getmetatable(e) == nil then s = 'TABLE' end emit(ok, type(e), s)\n", ev, lvl))
		}
	}
	for d := 1; d <= 6; d++ {
		add("error", sf("nested%d", d), sf("local function lvl(n) if n == 0 then error('bottom') end local ok, e = pcall(lvl, n - 1) if n %% 2 == 0 then error('re' .. n .. ':' .. tostring(e), 0) end return n, ok, e end emit(pcall(lvl, %d))\n", d))
	}
	add("error", "runtime", "emit(pcall(function() local t = nil return t.x end)) emit(pcall(function() local f f() end)) emit(pcall(function() return 1 + {} end)) emit(pcall(function() return {} < {} end)) emit(pcall(function() return #5 end)) emit(pcall(function() return ('x')() end))\n")
	add("error", "xpcall", "local function h(m) return 'H(' .. tostring(m) .. ')' end emit(xpcall(function() error('a') end, h)) emit(xpcall(function() return 1, 2, 3 end, h)) emit(xpcall(function() local x = nil; return x[1] end, h))\n")
	add("error", "xpcallhandlererr", "emit(xpcall(function() error('a') end, function(m) error('in handler') end))\n")
	add("error", "assert", "emit(pcall(assert, false)) emit(pcall(assert, nil, 'why')) emit(pcall(assert, 1, 2, 3)) emit(select('#', assert(1, 2, 3)))\n")
	add("error", "multret", "emit(pcall(function(...) return ... end, 1, nil, 3)) emit(select('#', pcall(function() end)))\n")
	add("error", "rethrow", "local ok, e = pcall(function() local ok2, e2 = pcall(error, {tag = 'T'}) error(e2) end) emit(ok, type(e), e.tag)\n")
	add("error", "tostringmeta", "local obj = setmetatable({}, {__tostring = function() return 'OBJ' end}) emit(tostring(obj)) emit(pcall(error, obj))\n")
	add("error", "loop", "local n = 0 for i = 1, 100 do local ok = pcall(function() if i % 3 == 0 then error('x') end end) if not ok then n = n + 1 end end emit(n)\n")

	// F. strings
	strs := `local S = {"", "a", "hello world", "The quick brown fox", "a,b,,c", "  pad  ", "1234567890", "x=1, y=22, z=333"}` + "\n"
	add("string", "basic", strs+"for _, s in ipairs(S) do emit(#s, s:upper(), s:lower(), s:reverse(), s:rep(2), s:sub(2, 5), s:sub(-3), s:byte(1), s:len()) end\n")
	add("string", "find", strs+"for _, s in ipairs(S) do emit(s:find('o'), s:find('%d+'), s:find('a', 1, true), s:find(',', 3), s:match('(%a+)'), s:match('(%d+)%D*(%d*)')) end\n")
	add("string", "gsub", strs+"for _, s in ipairs(S) do emit(s:gsub('%a', '%0%0'), s:gsub('%s+', '_'), s:gsub('%d', function(d) return '<' .. d .. '>' end), s:gsub('%w+', {hello = 'HI', x = 'X'}), s:gsub('', '-', 3)) end\n")
	add("string", "gmatch", strs+"for _, s in ipairs(S) do local n = 0 for w in s:gmatch('%w+') do n = n + #w emit(w) end emit(n) for k, v in s:gmatch('(%w+)=(%w+)') do emit(k, v) end end\n")
	add("string", "format", "emit(string.format('%d %5d %-5d| %05d %x %X %o', 42, 42, 42, 42, 255, 255, 8)) emit(string.format('%f %.2f %10.3f %e %g %g', 3.14159, 3.14159, 3.14159, 12345.678, 0.0001, 1e20)) emit(string.format('%s %10s %-10s| %q %c%c %%', 'a', 'b', 'c', 'q\"x\\n', 72, 105))\n")
	add("string", "tostring", "emit(tostring(1), tostring(1.5), tostring(-0.25), tostring(1e15), tostring(1e16), tostring(2^53), tostring(1/3), tostring(nil), tostring(true), tostring('s')) emit(tonumber('10'), tonumber('0x10'), tonumber('  5  '), tonumber('5x'), tonumber('z', 36), tonumber('11', 2), tonumber(nil))\n")
	add("string", "concat", "local s = '' for i = 1, 100 do s = s .. i .. ',' end emit(#s, s:sub(1, 20)) local t = {} for i = 1, 50 do t[i] = tostring(i) end emit(table.concat(t), table.concat(t, '-', 10, 15))\n")
	add("string", "compare", "local W = {'b', 'a', 'B', 'ab', '', 'a\\0b', 'a\\0a', '10', '9'} table.sort(W) emit(unpack(W)) emit('a' < 'b', 'a' < 'A', '' < 'a', 'abc' <= 'abc')\n")
	add("string", "bytechar", "local s = '' for i = 32, 126 do s = s .. string.char(i) end emit(s, #s) emit(s:byte(1, 10)) emit(string.char(72, 101, 108, 108, 111))\n")
	add("string", "rep", "for _, n in ipairs{0, 1, 2, 10, 100, 1000} do local s = ('ab'):rep(n) emit(#s, s:sub(1, 6)) end\n")
	add("string", "callback", "local calls = 0 local r = ('a1b22c333'):gsub('%d+', function(d) calls = calls + 1 return tostring(#d) end) emit(r, calls) emit(pcall(string.gsub, 'abc', '%w', function(c) error('cb:' .. c) end))\n")

	// G. tables
	for _, n := range []int{0, 1, 5, 50, 300} {
		add("table", sf("sort%d", n), sf("local t = {} local x = 7 for i = 1, %d do x = (x * 1103515245 + 12345) %% 2147483648 t[i] = x %% 1000 end table.sort(t) local ok = true for i = 2, #t do if t[i-1] > t[i] then ok = false end end emit(ok, #t, t[1], t[#t])\ntable.sort(t, function(a, b) return a > b end) emit(t[1], t[#t]) local calls = 0 table.sort(t, function(a, b) calls = calls + 1 return a %% 10 < b %% 10 end) emit(calls > 0 or #t < 2)\n", n))
		add("table", sf("insrem%d", n), sf("local t = {} for i = 1, %d do table.insert(t, i) end for i = 1, %d, 3 do table.insert(t, 1, -i) end emit(#t, t[1], t[#t]) local s = 0 while #t > 0 do s = s + table.remove(t) if #t > 0 then s = s - table.remove(t, 1) end end emit(s)\n", n, n))
	}
	add("table", "pairs", "local t = {10, 20, 30, a = 1, b = 2, [1.5] = 'x', [true] = 'y'} local ks = {} for k, v in pairs(t) do ks[#ks + 1] = tostring(k) .. '=' .. tostring(v) end table.sort(ks) emit(unpack(ks)) local n = 0 for i, v in ipairs(t) do n = n + i * v end emit(n)\n")
	add("table", "next", "local t = {} emit(next(t)) t.x = 1 emit(next(t)) emit(next(t, 'x')) emit(pcall(next, t, 'nokey'))\n")
	add("table", "length", "local t = {1, 2, 3} emit(#t) t[#t + 1] = 4 emit(#t) t[#t] = nil emit(#t) local u = {n = 1} emit(#u) emit(#{1, 2, nil}, #{nil}, #{n = 3})\n")
	add("table", "nested", "local t = {} for i = 1, 10 do t[i] = {} for j = 1, 10 do t[i][j] = i * j end end local s = 0 for i = 1, 10 do for j = 1, 10 do s = s + t[i][j] end end emit(s, t[3][4], #t, #t[10])\n")
	add("table", "concat", "emit(table.concat({}), table.concat({1, 2, 3}), table.concat({1, 2, 3}, ', '), table.concat({'a', 'b', 'c'}, '', 2), table.concat({'a', 'b', 'c'}, '/', 2, 3)) emit(pcall(table.concat, {1, {}, 3}))\n")
	add("table", "unpack", "emit(unpack({1, 2, 3})) emit(unpack({1, 2, 3}, 2)) emit(unpack({1, 2, 3}, 2, 3)) emit(unpack({}, 1, 3)) emit(select('#', unpack({}, 1, 0)))\n")
	add("table", "maxn", "emit(table.maxn({}), table.maxn({1, 2, 3}), table.maxn({[10] = 1, [2.5] = 1}), table.getn and table.getn({1, 2}) or 2)\n")
	add("table", "constructor", "local function f() return 1, 2, 3 end local t = {f(), f(), x = f(), f()} emit(#t, t[1], t[2], t[3], t[4], t[5], t.x) local big = {} for i = 1, 120 do big[i] = i end local c = {unpack(big)} emit(#c, c[60], c[120])\n")
	add("table", "sorterror", "emit(pcall(table.sort, {3, 1, 2}, function(a, b) error('cmp') end)) emit(pcall(table.sort, {3, 'a', 2}))\n")

	// H. recursion of moderate depth (depths around 64/65 hit the call-stack limit under some configurations)
	for _, d := range []int{1, 5, 10, 20, 30, 40, 50, 55, 58, 59, 60, 61, 62, 63, 64, 65, 70, 100, 150, 200, 250, 254} {
		add("recursion", sf("plain%d", d), sf("local function r(n) if n == 0 then return 0 end return 1 + r(n - 1) end emit(r(%d))\n", d))
		add("recursion", sf("caught%d", d), sf("local function r(n) if n == 0 then return 0 end return 1 + r(n - 1) end emit(pcall(r, %d)) emit(pcall(r, 3))\n", d))
	}
	for _, d := range []int{5, 10, 15, 20, 25, 30} {
		add("recursion", sf("locals%d", d), sf("local function r(n) local a, b, c, d, e, f, g, h, i, j = n, n+1, n+2, n+3, n+4, n+5, n+6, n+7, n+8, n+9 if n == 0 then return a + j end local x = r(n - 1) return x + a + b + c + d + e + f + g + h + i + j end emit(pcall(r, %d))\n", d))
	}
	add("recursion", "fib", "local function fib(n) if n < 2 then return n end return fib(n - 1) + fib(n - 2) end emit(fib(15))\n")
	add("recursion", "ack", "local function ack(m, n) if m == 0 then return n + 1 end if n == 0 then return ack(m - 1, 1) end return ack(m - 1, ack(m, n - 1)) end emit(ack(2, 3))\n")
	add("recursion", "mutual", "local even, odd function even(n) if n == 0 then return true end return not not odd(n - 1) end function odd(n) if n == 0 then return false end return not not even(n - 1) end emit(even(40), odd(41))\n")
	add("recursion", "tailloop", "local function loop(n, acc) if n == 0 then return acc end return loop(n - 1, acc + n) end emit(loop(10000, 0))\n")
	add("recursion", "tailgo", "local function f(...) return select('#', ...) end local function g(n) if n == 0 then return f(1, 2, 3) end return g(n - 1) end emit(g(1000))\n")
	add("recursion", "tailco", "local co = coroutine.wrap(function() local function loop(n) if n == 0 then return 'end' end coroutine.yield(n) return loop(n - 1) end return loop(5) end) for i = 1, 6 do emit(co()) end\n")

	// I. metamethods
	add("meta", "indexchain", "local base = {x = 1} local t = base for i = 1, 5 do t = setmetatable({['k' .. i] = i}, {__index = t}) end emit(t.x, t.k1, t.k5, t.nope)\n")
	add("meta", "indexfn", "local log = {} local t = setmetatable({}, {__index = function(t, k) log[#log + 1] = k return k .. '!' end, __newindex = function(t, k, v) rawset(t, k, v * 2) end}) emit(t.a, t.b) t.c = 5 emit(t.c, rawget(t, 'a'), #log)\n")
	add("meta", "call", "local c = setmetatable({}, {__call = function(self, a, b) return a + b, self end}) local s, me = c(3, 4) emit(s, me == c) emit(pcall(c, 1, 2))\n")
	add("meta", "arith", "local mt = {} local function V(x) return setmetatable({x = x}, mt) end mt.__add = function(a, b) return V(a.x + b.x) end mt.__sub = function(a, b) return V(a.x - b.x) end mt.__mul = function(a, b) return V(a.x * (type(b) == 'number' and b or b.x)) end mt.__unm = function(a) return V(-a.x) end mt.__concat = function(a, b) return 'V' .. tostring(type(a) == 'table' and a.x or a) .. tostring(type(b) == 'table' and b.x or b) end mt.__eq = function(a, b) return a.x == b.x end mt.__lt = function(a, b) return a.x < b.x end mt.__le = function(a, b) return a.x <= b.x end\nlocal a, b = V(3), V(4) emit((a + b).x, (a - b).x, (a * 2).x, (-a).x, a .. b, a .. 'z', a == b, a == V(3), a < b, a <= b, a > b)\n")
	add("meta", "tostring", "local o = setmetatable({}, {__tostring = function() return 'O!' end}) emit(tostring(o)) emit(#tostring(setmetatable({}, {})) > 0)\n")
	add("meta", "deepindex", "local function lvl(n) if n == 0 then return {leaf = 'L'} end return setmetatable({}, {__index = function(t, k) return lvl(n - 1)[k] end}) end emit(lvl(10).leaf, lvl(30).leaf)\n")
	add("meta", "errorinmeta", "local t = setmetatable({}, {__index = function(t, k) error('idx:' .. k) end, __add = function() error('add') end}) emit(pcall(function() return t.foo end)) emit(pcall(function() return t + 1 end))\n")

	// J. a host function that calls back with PCall / Call at every depth around the segment size
	for k := 1; k <= 20; k++ {
		cls := "in"
		if (k+3)%c12Seg == 0 {
			cls = "seg"
		}
		down := "local function down(n, v) if n == 0 then local a, b = hostpcall(v) return a, b end local a, b = down(n - 1, v) return a, b end\n"
		add("hostpcall-nonfn@"+cls, sf("k%d", k), down+sf("emit(down(%d, nil)) emit(down(%d, 5)) emit(depth())\n", k, k))
		add("hostpcall-err@"+cls, sf("k%d", k), down+sf("emit(down(%d, function() error('E') end)) emit(down(%d, function() local function r(n) if n == 0 then error('deep') end r(n - 1) end r(9) end)) emit(depth())\n", k, k))
		add("hostpcall-ok@"+cls, sf("k%d", k), down+sf("emit(down(%d, function() return 7, 8 end)) emit(depth())\n", k))
		add("hostcall@"+cls, sf("k%d", k), "local function down(n, v) if n == 0 then local a = hostcall(v) return a end local a = down(n - 1, v) return a end\n"+sf("emit(down(%d, function() return 7 end)) emit(pcall(down, %d, function() error('E') end)) emit(pcall(down, %d, nil)) emit(depth())\n", k, k, k))
	}
	// K. pcall at every depth around the segment size, pure Lua
	for k := 1; k <= 20; k++ {
		down := "local function down(n, f) if n == 0 then local a, b = pcall(f) return a, b end local a, b = down(n - 1, f) return a, b end\n"
		add("pcalldepth", sf("k%d", k), down+sf("emit(down(%d, function() error('now') end)) emit(down(%d, function() local function r(n) if n == 0 then error('deep') end r(n - 1) end r(10) end)) emit(down(%d, function() return 'fine', depth() end)) emit(down(%d, error)) emit(depth())\n", k, k, k, k))
		add("xpcalldepth", sf("k%d", k), "local function down(n, f) if n == 0 then local a, b = xpcall(f, function(m) return 'h:' .. tostring(m) end) return a, b end local a, b = down(n - 1, f) return a, b end\n"+sf("emit(down(%d, function() error('now') end)) emit(down(%d, function() return 'fine' end)) emit(depth())\n", k, k))
		add("codepth", sf("k%d", k), "local function down(n, f) if n == 0 then local co = coroutine.wrap(f) local a = co() local b = co() return a, b end local a, b = down(n - 1, f) return a, b end\n"+sf("emit(down(%d, function() local function r(n) if n == 0 then coroutine.yield('y') return 'r' end local v = r(n - 1) return v end return r(%d) end)) emit(depth())\n", k, k))
	}

	// L. register pressure (sizes at and around 128 and 5120 hit the registry limit under some configurations)
	mk := "local function mk(n) local t = {} for i = 1, n do t[i] = i end return t end\n"
	for _, n := range []int{10, 50, 100, 120, 127, 128, 129, 200, 1000, 2500} {
		add("registry", sf("unpackcount%d", n), mk+sf("emit(pcall(function() return select('#', unpack(mk(%d))) end))\n", n))
		add("registry", sf("pack%d", n), mk+sf("emit(pcall(function() local p = {unpack(mk(%d))} local s = 0 for i = 1, #p do s = s + p[i] end return #p, s end))\n", n))
		add("registry", sf("vararg%d", n), mk+sf("local function f(...) local t = {...} return #t, select('#', ...) end emit(pcall(f, unpack(mk(%d))))\n", n))
	}
	for _, n := range []int{5000, 5200} {
		add("registry", sf("unpackcount%d", n), mk+sf("emit(pcall(function() return select('#', unpack(mk(%d))) end))\n", n))
	}
	add("registry", "concat2000", mk+"emit(pcall(function() return #table.concat(mk(2000), ',') end))\n")
	add("registry", "strbyte", "emit(pcall(function() return select('#', (('x'):rep(300)):byte(1, -1)) end))\n")

	// M. control flow
	add("control", "numfor", "for _, st in ipairs{1, 2, -1, 0.5, -0.25, 3} do local n, last = 0 for i = (st > 0 and 1 or 5), (st > 0 and 5 or 1), st do n = n + 1 last = i end emit(st, n, last) end\n")
	add("control", "whilerepeat", "local i, s = 0, 0 while i < 10 do i = i + 1 if i % 2 == 0 then s = s + i end end repeat local done = s > 100 s = s * 2 until done emit(i, s)\n")
	add("control", "goto", "local s = 0 for i = 1, 10 do if i % 3 == 0 then goto continue end s = s + i ::continue:: end emit(s) do local i = 1 ::top:: if i <= 3 then emit(i) i = i + 1 goto top end end\n")
	add("control", "andor", "emit(nil and 1, false or 2, 1 and 2, nil or false, 0 and 'zero', '' or 'empty', not nil, not 0)\n")
	add("control", "genericfor", "local function iter(t, i) i = i + 1 if t[i] then return i, t[i] end end local s = '' for i, v in iter, {'a', 'b', 'c'}, 0 do s = s .. i .. v end emit(s)\n")
	add("control", "multiassign", "local a, b, c = 1 emit(a, b, c) local x, y = 1, 2, 3 emit(x, y) local t = {} t.a, t.b = (function() return 1, 2 end)() emit(t.a, t.b)\n")
	add("control", "globals", "g1 = 5 local function f() g1 = g1 + 1 return g1 end emit(f(), f(), g1, rawget(_G, 'g1'), undefinedglobal)\n")
	return ps
}

// ---- configurations ------------------------------------------------------------------------------

func c12NeutralConfigs(thorough bool) []c12Opts {
	regs := [][3]int{{128, 0, 0}, {5120, 0, 0}, {128, 8192, 1}, {128, 8192, 32}, {5120, 8192, 1}, {5120, 8192, 32}}
	csss := []int{64, 65, 256}
	var out []c12Opts
	i := 0
	for _, rg := range regs {
		for _, min := range []bool{false, true} {
			for _, ctx := range []bool{false, true} {
				if thorough {
					for _, css := range csss {
						out = append(out, c12Opts{CSS: css, Min: min, RS: rg[0], RMax: rg[1], RStep: rg[2], Ctx: ctx})
					}
				} else {
					out = append(out, c12Opts{CSS: csss[i%3], Min: min, RS: rg[0], RMax: rg[1], RStep: rg[2], Ctx: ctx})
					i++
				}
			}
		}
	}
	return out
}

// ---- running one program -------------------------------------------------------------------------

type c12ProgRun struct {
	Trace   string // rendered emit trace (joined)
	NEmit   int
	Err     string
	GoPanic string
	Hit     bool // a limit error is visible in the trace or the result
	Caught  bool // (wrapped runs) a limit error passed through pcall/xpcall/resume
}

func (r *c12ProgRun) outcome() string {
	h := sha1.Sum([]byte(r.Trace))
	return fmt.Sprintf("emits=%d trace=%s err=%q panic=%q", r.NEmit, hex.EncodeToString(h[:8]), r.Err, r.GoPanic)
}

var c12AddrRe = regexp.MustCompile(`0x[0-9a-fA-F]+`)

func c12IsLimitMsg(s string) bool {
	// (the value stack being too small surfaces under several texts: from a push, from unpack's own
	// room check, from resume's)
	return strings.Contains(s, "stack overflow") || strings.Contains(s, "registry overflow") || strings.Contains(s, "too many results to unpack") || strings.Contains(s, "too many arguments to resume")
}

const c12CatchWrap = `
local _pcall, _xpcall, _resume, _type, _find = pcall, xpcall, coroutine.resume, type, string.find
local function chk(ok, ...)
  if not ok then
    local m = ...
    if _type(m) == "string" and (_find(m, "stack overflow", 1, true) or _find(m, "registry overflow", 1, true) or _find(m, "too many results to unpack", 1, true) or _find(m, "too many arguments to resume", 1, true)) then __c12_hit() end
  end
  return ok, ...
end
pcall = function(f, ...) return chk(_pcall(f, ...)) end
xpcall = function(f, h) return chk(_xpcall(f, function(m) chk(false, m) return h(m) end)) end
coroutine.resume = function(co, ...) return chk(_resume(co, ...)) end
`

func c12RenderEmit(v lua.LValue) string {
	switch x := v.(type) {
	case *lua.LNilType:
		return "nil"
	case lua.LBool:
		return x.String()
	case lua.LNumber:
		return fmt.Sprintf("%.14g", float64(x))
	case lua.LString:
		return fmt.Sprintf("%q", string(x))
	}
	return "<" + v.Type().String() + ">"
}

func c12RunProg(p c12Prog, o c12Opts, wrapped bool) *c12ProgRun {
	res := &c12ProgRun{}
	L, cancel, failed := c12NewState(o)
	if failed != "" {
		res.GoPanic = failed
		return res
	}
	defer cancel()
	defer func() { c12Protect(func() { L.Close() }) }()
	var sb strings.Builder
	note := func(s string) {
		if c12IsLimitMsg(s) {
			res.Hit = true
		}
		sb.WriteString(s)
	}
	L.SetGlobal("emit", L.NewFunction(func(L *lua.LState) int {
		for i := 1; i <= L.GetTop(); i++ {
			note(c12RenderEmit(L.Get(i)))
			sb.WriteByte(' ')
		}
		sb.WriteByte('\n')
		res.NEmit++
		return 0
	}))
	L.SetGlobal("print", L.NewFunction(func(L *lua.LState) int {
		for i := 1; i <= L.GetTop(); i++ {
			note(c12AddrRe.ReplaceAllString(L.ToStringMeta(L.Get(i)).String(), "0xADDR"))
			sb.WriteByte('\t')
		}
		sb.WriteByte('\n')
		res.NEmit++
		return 0
	}))
	L.SetGlobal("collectgarbage", L.NewFunction(func(L *lua.LState) int {
		L.Push(lua.LNumber(0))
		return 1
	}))
	L.SetGlobal("depth", L.NewFunction(func(L *lua.LState) int {
		sp, _ := lua.VerifDepth(L)
		L.Push(lua.LNumber(sp))
		return 1
	}))
	// hostpcall(f): protected call of f from Go; returns true/false and the first result or the message
	L.SetGlobal("hostpcall", L.NewFunction(func(L *lua.LState) int {
		fn := L.Get(1)
		L.Push(fn)
		if err := L.PCall(0, 1, nil); err != nil {
			L.Push(lua.LFalse)
			if ae, ok := err.(*lua.ApiError); ok {
				L.Push(ae.Object)
			} else {
				L.Push(lua.LString(err.Error()))
			}
			return 2
		}
		v := L.Get(-1)
		L.Pop(1)
		L.Push(lua.LTrue)
		L.Push(v)
		return 2
	}))
	// hostcall(f): unprotected call of f from Go
	L.SetGlobal("hostcall", L.NewFunction(func(L *lua.LState) int {
		L.Push(L.Get(1))
		L.Call(0, 1)
		return 1
	}))
	if wrapped {
		L.SetGlobal("__c12_hit", L.NewFunction(func(L *lua.LState) int { res.Caught = true; return 0 }))
		if err := L.DoString(c12CatchWrap); err != nil {
			res.Err = "wrapper chunk failed: " + err.Error()
			return res
		}
	}
	var err error
	res.GoPanic = c12Protect(func() {
		if p.File != "" {
			err = L.DoFile(p.File)
		} else {
			err = L.DoString(p.Src)
		}
	})
	if err != nil {
		if ae, ok := err.(*lua.ApiError); ok {
			res.Err = c12AddrRe.ReplaceAllString(ae.Object.String(), "0xADDR")
		} else {
			res.Err = err.Error()
		}
		if c12IsLimitMsg(res.Err) {
			res.Hit = true
		}
	}
	if res.GoPanic != "" && c12IsLimitMsg(res.GoPanic) {
		res.Hit = true
	}
	res.Trace = sb.String()
	return res
}

// ---- judging one program -------------------------------------------------------------------------

type c12NeutralReplay struct {
	Prog    c12Prog   `json:"program"`
	Configs []c12Opts `json:"configs"`
}

// c12JudgeProg runs the program under every configuration and compares the outcomes of those that did
// not hit a limit. It returns the violations, the number of runs and the number of removed configurations.
func c12JudgeProg(p c12Prog, cfgs []c12Opts) (vs []c12Viol, runs, removed, compared int) {
	type rr struct {
		o   c12Opts
		run *c12ProgRun
		out string
	}
	var rs []rr
	for _, o := range cfgs {
		run := c12RunProg(p, o, false)
		runs++
		rs = append(rs, rr{o, run, run.outcome()})
	}
	group := func(list []rr) map[string][]rr {
		g := map[string][]rr{}
		for _, x := range list {
			g[x.out] = append(g[x.out], x)
		}
		return g
	}
	var keep []rr
	for _, x := range rs {
		if x.run.Hit {
			removed++
			continue
		}
		keep = append(keep, x)
	}
	if len(group(keep)) > 1 {
		// does a configuration swallow a limit error (pcall/xpcall/resume discarding the message)?
		var keep2 []rr
		for _, x := range keep {
			w := c12RunProg(p, x.o, true)
			runs++
			if w.Caught || w.Hit {
				removed++
				continue
			}
			keep2 = append(keep2, x)
		}
		keep = keep2
	}
	compared = len(keep)
	g := group(keep)
	if len(g) <= 1 {
		return nil, runs, removed, compared
	}
	// which option dimension separates the outcomes?
	dims := []struct {
		name string
		get  func(o c12Opts) string
	}{
		{"CallStackSize", func(o c12Opts) string { return fmt.Sprint(o.CSS) }},
		{"MinimizeStackMemory", func(o c12Opts) string { return fmt.Sprint(o.Min) }},
		{"RegistrySize", func(o c12Opts) string { return fmt.Sprint(o.RS) }},
		{"RegistryMaxSize", func(o c12Opts) string { return fmt.Sprint(o.RMax) }},
		{"RegistryGrowStep", func(o c12Opts) string { return fmt.Sprint(o.RStep) }},
		{"context", func(o c12Opts) string { return fmt.Sprint(o.Ctx) }},
	}
	var sep []string
	for _, d := range dims {
		byVal := map[string]string{}
		ok := true
		for _, x := range keep {
			v := d.get(x.o)
			if prev, seen := byVal[v]; seen && prev != x.out {
				ok = false
				break
			}
			byVal[v] = x.out
		}
		if ok {
			sep = append(sep, d.name)
		}
	}
	dim := "mixed"
	if len(sep) == 1 {
		dim = sep[0]
	}
	// describe: the largest group against one member of every other group
	var outs []string
	for o := range g {
		outs = append(outs, o)
	}
	sort.Slice(outs, func(i, j int) bool {
		if len(g[outs[i]]) != len(g[outs[j]]) {
			return len(g[outs[i]]) > len(g[outs[j]])
		}
		return outs[i] < outs[j]
	})
	var sb strings.Builder
	fmt.Fprintf(&sb, "program %s behaves differently under different Options although no configuration hit a limit (%d configurations compared, %d removed):\n", p.Name, len(keep), removed)
	for _, o := range outs {
		x := g[o][0]
		tr := x.run.Trace
		if len(tr) > 300 {
			tr = tr[:300] + "…"
		}
		fmt.Fprintf(&sb, "  %d configuration(s), e.g. %s: %s\n    trace: %s\n", len(g[o]), x.o, o, strings.ReplaceAll(strings.TrimSpace(tr), "\n", " | "))
	}
	if p.Src != "" {
		fmt.Fprintf(&sb, "source:\n%s", p.Src)
	}
	vs = append(vs, c12Viol{"p3/" + p.Family + "/" + dim, sb.String(), false})
	return vs, runs, removed, compared
}

func c12ReplayNeutral(raw json.RawMessage) (bool, string) {
	var rp c12NeutralReplay
	if err := json.Unmarshal(raw, &rp); err != nil {
		return true, "cannot decode neutral replay: " + err.Error()
	}
	vs, runs, removed, compared := c12JudgeProg(rp.Prog, rp.Configs)
	if len(vs) == 0 {
		return true, fmt.Sprintf("program %s: %d runs, %d configurations compared (%d removed for hitting a limit): identical", rp.Prog.Name, runs, compared, removed)
	}
	return false, vs[0].sig + ": " + vs[0].what
}

// ---- driver --------------------------------------------------------------------------------------

func c12RepoDir() string {
	if d := os.Getenv("VERIF_REPO"); d != "" {
		return d
	}
	return "/repo"
}

func c12Neutral(c *c12Ctx) {
	thorough := c.r.Thorough()
	cfgs := c12NeutralConfigs(thorough)
	progs := c12Corpus()
	ngen := len(progs)
	// repository scripts that run stand-alone, touch no files and print nothing time-dependent
	scripts := []string{
		"_glua-tests/base.lua", "_glua-tests/coroutine.lua", "_glua-tests/db.lua", "_glua-tests/goto.lua", "_glua-tests/math.lua",
		"_glua-tests/strings.lua", "_glua-tests/table.lua", "_glua-tests/vm.lua",
		"_lua5.1-tests/calls.lua", "_lua5.1-tests/closure.lua", "_lua5.1-tests/events.lua", "_lua5.1-tests/literals.lua", "_lua5.1-tests/locals.lua",
		"_lua5.1-tests/strings.lua", "_lua5.1-tests/vararg.lua", "_lua5.1-tests/pm.lua", "_lua5.1-tests/code.lua", "_lua5.1-tests/checktable.lua", "_lua5.1-tests/nextvar.lua",
	}
	if thorough {
		scripts = append(scripts, "_lua5.1-tests/constructs.lua")
	}
	var skipped []string
	for _, s := range scripts {
		path := filepath.Join(c12RepoDir(), s)
		if _, err := os.Stat(path); err != nil {
			skipped = append(skipped, s+" (missing)")
			continue
		}
		progs = append(progs, c12Prog{Name: "script/" + s, Family: "script:" + filepath.Base(s), File: path})
	}
	// heavy programs first
	order := make([]int, len(progs))
	for i := range order {
		order[i] = i
	}
	sort.SliceStable(order, func(a, b int) bool { return (progs[order[a]].File != "") && (progs[order[b]].File == "") })
	var runs, removed, compared, removedProgs, nondet int64
	var mu sync.Mutex
	removedBy := map[string]int{}
	harness.ParallelShards(len(order), func(worker, shard int) {
		if c.r.Expired() {
			c.r.NotExhaustive("deadline during part 3")
			return
		}
		p := progs[order[shard]]
		if p.File != "" {
			// determinism self-check of a script the harness does not own
			a := c12RunProg(p, c12Opts{CSS: 256, RS: 5120}, false)
			b := c12RunProg(p, c12Opts{CSS: 256, RS: 5120}, false)
			if a.outcome() != b.outcome() {
				atomic.AddInt64(&nondet, 1)
				mu.Lock()
				skipped = append(skipped, p.Name+" (two runs under one configuration differ)")
				mu.Unlock()
				return
			}
		}
		vs, n, rem, cmp := c12JudgeProg(p, cfgs)
		atomic.AddInt64(&runs, int64(n))
		atomic.AddInt64(&c.validated, int64(n))
		atomic.AddInt64(&removed, int64(rem))
		atomic.AddInt64(&compared, int64(cmp))
		if rem > 0 {
			atomic.AddInt64(&removedProgs, 1)
			mu.Lock()
			removedBy[p.Family] += rem
			mu.Unlock()
		}
		for _, v := range vs {
			c.viol(v.sig, v.what, c12MkReplay("neutral", c12NeutralReplay{p, cfgs}))
		}
		c.r.EvalN(int64(n))
		if cmp >= 2 {
			c.r.Nontrivial("p3/" + p.Name)
		}
		if shard < 3 || shard%97 == 0 {
			c.r.AddSample(map[string]interface{}{"part": 3, "program": p.Name, "configurations_compared": cmp, "configurations_removed_for_hitting_a_limit": rem})
		}
	})
	c.r.Count("p3_program_runs", runs)
	c.r.Count("p3_configurations_removed_limit_hit", removed)
	c.r.Count("p3_programs_with_removed_configurations", removedProgs)
	c.r.Count("p3_program_configuration_pairs_compared", compared)
	c.r.Extra["p3_generated_programs"] = ngen
	c.r.Extra["p3_repository_scripts"] = len(progs) - ngen
	c.r.Extra["p3_configurations"] = len(cfgs)
	sort.Strings(skipped)
	c.r.Extra["p3_scripts_skipped"] = skipped
	c.r.Extra["p3_removed_configurations_by_family"] = removedBy
}
