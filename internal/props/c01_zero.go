package props

// C01, the sign of zero: "an expression means the same whether the compiler folds it, keeps it in a
// constant, a register, an upvalue …". −0 is the one number whose identity is not visible through
// ==, only through 1/x, and it is where a folded and a computed result can part ways unnoticed.
// Complete product of operands {0, 1, -1, 2, 0.5, 1e308} x {0, 1, -1, 2, 0.5} x operators
// {+ - * / % ^} x an optional unary minus on the result, each written four ways - both operands
// literal (folded), both in locals, one of each - and observed as 1/result and result itself.
// Differential: the four forms must agree bit for bit (all NaNs count as one value); no expected
// value is written by hand, so the constant-table conventions of PUC-Lua do not enter.

import (
	"fmt"
	"math"

	lua "github.com/yuin/gopher-lua"

	"verif/internal/harness"
)

func c01SignedZero(r *harness.Run) {
	// (negative literals are parenthesised: -1 ^ 0 is -(1 ^ 0))
	as := []string{"0", "1", "(-1)", "2", "0.5", "1e308"}
	bs := []string{"0", "1", "(-1)", "2", "0.5"}
	ops := []string{"+", "-", "*", "/", "%", "^"}
	L := lua.NewState()
	defer L.Close()
	eval := func(src string) string {
		if err := L.DoString(src); err != nil {
			L.SetTop(0)
			return "error: " + firstLine(err.Error())
		}
		out := ""
		for i := 1; i <= L.GetTop(); i++ {
			n, ok := L.Get(i).(lua.LNumber)
			switch {
			case !ok:
				out += L.Get(i).Type().String() + " "
			case math.IsNaN(float64(n)):
				out += "nan "
			default:
				out += fmt.Sprintf("%016x ", math.Float64bits(float64(n)))
			}
		}
		L.SetTop(0)
		return out
	}
	for _, a := range as {
		for _, b := range bs {
			for _, op := range ops {
				for _, neg := range []string{"", "-"} {
					forms := []struct{ name, src string }{
						{"folded", fmt.Sprintf("local r = %s(%s %s %s) return r, 1 / r", neg, a, op, b)},
						{"locals", fmt.Sprintf("local a, b = %s, %s local r = %s(a %s b) return r, 1 / r", a, b, neg, op)},
						{"left-local", fmt.Sprintf("local a = %s local r = %s(a %s %s) return r, 1 / r", a, neg, op, b)},
						{"right-local", fmt.Sprintf("local b = %s local r = %s(%s %s b) return r, 1 / r", b, neg, a, op)},
						{"upvalues", fmt.Sprintf("local a, b = %s, %s local function f() return %s(a %s b) end local r = f() return r, 1 / r", a, b, neg, op)},
						{"fields", fmt.Sprintf("local t = {a = %s, b = %s} local r = %s(t.a %s t.b) return r, 1 / r", a, b, neg, op)},
						{"direct", fmt.Sprintf("local a, b = %s, %s return %s(a %s b), 1 / (%s(a %s b))", a, b, neg, op, neg, op)},
					}
					ref := eval(forms[0].src)
					for _, f := range forms[1:] {
						got := eval(f.src)
						key := fmt.Sprintf("signed-zero/%s/%s%s/%s", f.name, neg, op, map[bool]string{true: "zero-operand", false: "nonzero-operands"}[a == "0" || b == "0"])
						r.Eval(fmt.Sprintf("%s/%s,%s", key, a, b), true, func() interface{} {
							return map[string]interface{}{"case": "folded versus computed", "folded": forms[0].src, "other": f.src, "bits": got}
						})
						if got != ref {
							r.Violation(key, fmt.Sprintf("the same expression gives different values when folded and when computed (result, 1/result as float64 bits):\n  %-60s -> %s\n  %-60s -> %s", forms[0].src, ref, f.src, got),
								map[string]interface{}{"folded": forms[0].src, "other": f.src, "folded_bits": ref, "other_bits": got})
						}
					}
				}
			}
		}
	}
}
