package props

// Optional arguments: omitted = explicit nil = the documented default.
//
// Lua 5.1's libraries read optional parameters with luaL_opt*/lua_isnoneornil, so for every
// optional trailing parameter the three spellings f(a), f(a, nil) and f(a, <default>) are the same
// call. The enumerations of the individual checks mostly use the first or the third spelling; this
// table lists, per property, every library function with optional parameters the property covers
// and runs all spellings (all combinations for two optional parameters). Differential oracle: the
// rendered results of every spelling must equal those of the first one (whose behaviour the
// property's main enumeration judges). Functions for which 5.1 distinguishes "no argument" from
// nil (math.random, f:read, io.close, table.insert, tostring, select ...) are not listed.
//
// Each spelling runs on a fresh state inside pcall, so "raises" is a result like any other.

import (
	"fmt"
	"os"
	"path/filepath"
	"strings"

	lua "github.com/yuin/gopher-lua"

	"verif/internal/harness"
)

type nilArgCase struct {
	prop, name, setup string
	spellings         []string
}

var nilArgCases = []nilArgCase{
	// C14
	{"C14", "gsub-max_n", `local s = "abcabc"`, []string{`s:gsub("b", "X")`, `s:gsub("b", "X", nil)`, `s:gsub("b", "X", #s + 1)`}},
	{"C14", "gsub-max_n-function", `local s = "abcabc" local function up(c) return c:upper() end`, []string{`s:gsub("%a", up)`, `s:gsub("%a", up, nil)`, `string.gsub(s, "%a", up, nil)`, `s:gsub("%a", up, 7)`}},
	{"C14", "gsub-max_n-table", `local s = "abcabc" local t = {a = "1", c = false}`, []string{`s:gsub("%a", t)`, `s:gsub("%a", t, nil)`, `s:gsub("%a", t, 100)`}},
	{"C14", "find-init-plain", `local s = "ab.cab.c"`, []string{`s:find("b.")`, `s:find("b.", nil)`, `s:find("b.", 1)`, `s:find("b.", nil, nil)`, `s:find("b.", 1, nil)`, `s:find("b.", nil, false)`, `s:find("b.", 1, false)`}},
	{"C14", "find-plain-after-nil-init", `local s = "abxcab.c"`, []string{`s:find("b.", 1, true)`, `s:find("b.", nil, true)`}},
	{"C14", "find-captures", `local s = "key=val"`, []string{`s:find("(%w+)=(%w+)")`, `s:find("(%w+)=(%w+)", nil)`, `s:find("(%w+)=(%w+)", 1, nil)`}},
	{"C14", "match-init", `local s = "abcabc"`, []string{`s:match("(b)(c)")`, `s:match("(b)(c)", nil)`, `s:match("(b)(c)", 1)`, `string.match(s, "(b)(c)", nil)`}},
	{"C14", "match-empty-at-init", `local s = "abc"`, []string{`s:match("()")`, `s:match("()", nil)`, `s:match("()", 1)`}},
	// C15
	{"C15", "sub-j", `local s = "hello"`, []string{`s:sub(2)`, `s:sub(2, nil)`, `s:sub(2, -1)`, `string.sub(s, 2, nil)`}},
	{"C15", "byte-i-j", `local s = "hello"`, []string{`s:byte()`, `s:byte(nil)`, `s:byte(1)`, `s:byte(nil, nil)`, `s:byte(1, nil)`, `s:byte(1, 1)`, `s:byte(nil, 1)`}},
	{"C15", "byte-j-defaults-to-i", `local s = "hello"`, []string{`s:byte(3)`, `s:byte(3, nil)`, `s:byte(3, 3)`}},
	{"C15", "rep-and-format-take-no-optionals", `local s = "ab"`, []string{`s:rep(2) .. ("%d"):format(3)`, `string.rep(s, 2) .. string.format("%d", 3)`}},
	// C16
	{"C16", "tonumber-base", ``, []string{`tonumber("10"), tonumber("0x10"), tonumber("1e1"), tonumber(" 12 "), tonumber("z")`, `tonumber("10", nil), tonumber("0x10", nil), tonumber("1e1", nil), tonumber(" 12 ", nil), tonumber("z", nil)`, `tonumber("10", 10), tonumber("0x10", 10), tonumber("1e1", 10), tonumber(" 12 ", 10), tonumber("z", 10)`}},
	{"C16", "difftime-t1", ``, []string{`os.difftime(5)`, `os.difftime(5, nil)`, `os.difftime(5, 0)`}},
	{"C16", "date-format", ``, []string{`os.date(nil, 0) == os.date("%c", 0)`, `os.date("%c", 0) == os.date("%c", 0)`}},
	// C05 / C17
	{"C05", "error-level", ``, []string{`pcall(function() error("m") end)`, `pcall(function() error("m", nil) end)`, `pcall(function() error("m", 1) end)`}},
	{"C17", "error-level", ``, []string{`pcall(function() error("m") end)`, `pcall(function() error("m", nil) end)`, `pcall(function() error("m", 1) end)`}},
	{"C17", "traceback-message-level", `local function tb(...) return (debug.traceback(...):gsub("\n.*", "")) end local function tb2(...) local s = debug.traceback(...) return select(2, s:gsub("\n", "\n")) end`, []string{`tb("m"), tb2("m")`, `tb("m", nil), tb2("m", nil)`, `tb("m", 1), tb2("m", 1)`}},
	{"C17", "traceback-no-message", `local function tb(...) return (debug.traceback(...):gsub("\n.*", "")) end`, []string{`tb()`, `tb(nil)`, `tb(nil, nil)`, `tb(nil, 1)`}},
	{"C17", "getinfo-what", `local function pick(t) return t.currentline, t.short_src, t.what, t.nups, t.linedefined, t.func ~= nil end`, []string{`pick(debug.getinfo(1))`, `pick(debug.getinfo(1, nil))`, `pick(debug.getinfo(1, "flnSu"))`}},
	// C03
	{"C03", "getfenv-level", `local env = setmetatable({}, {__index = _G}) local function g(how) setfenv(1, env) if how == 1 then return getfenv() == env elseif how == 2 then return getfenv(nil) == env else return getfenv(1) == env end end`, []string{`g(1)`, `g(2)`, `g(3)`}},
	// C08
	{"C08", "loadstring-chunkname", ``, []string{`loadstring("return 1")(), select(2, loadstring("x x"))`, `loadstring("return 1", nil)(), select(2, loadstring("x x", nil))`}},
	{"C08", "load-chunkname", `local function rd(s) local done return function() if done then return nil end done = true return s end end`, []string{`load(rd("return 1"))(), select(2, load(rd("x x")))`, `load(rd("return 1"), nil)(), select(2, load(rd("x x"), nil))`}},
	// C09
	{"C09", "next-key", `local t = {10}`, []string{`next(t)`, `next(t, nil)`}},
	{"C09", "next-empty", `local t = {}`, []string{`next(t)`, `next(t, nil)`}},
	// C02
	{"C02", "unpack-i-j", `local t = {1, 2, 3}`, []string{`unpack(t)`, `unpack(t, nil)`, `unpack(t, 1)`, `unpack(t, nil, nil)`, `unpack(t, 1, nil)`, `unpack(t, nil, 3)`, `unpack(t, 1, 3)`}},
	// C19 ($F: a scratch file holding "l1\nl2\nl3")
	{"C19", "seek-whence-offset", `local f = io.open("$F") f:read(2)`, []string{`f:seek()`, `f:seek(nil)`, `f:seek("cur")`, `f:seek(nil, nil)`, `f:seek("cur", nil)`, `f:seek(nil, 0)`, `f:seek("cur", 0)`}},
	{"C19", "seek-set-offset", `local f = io.open("$F") f:read(2)`, []string{`f:seek("set"), f:read(1)`, `f:seek("set", nil), f:read(1)`, `f:seek("set", 0), f:read(1)`}},
	{"C19", "seek-end-offset", `local f = io.open("$F") f:read(2)`, []string{`f:seek("end"), f:read(1)`, `f:seek("end", nil), f:read(1)`, `f:seek("end", 0), f:read(1)`}},
	{"C19", "open-mode", ``, []string{`io.open("$F"):read("*a")`, `io.open("$F", nil):read("*a")`, `io.open("$F", "r"):read("*a")`}},
	{"C19", "open-mode-is-read-only", ``, []string{`io.open("$F"):write("x") == nil`, `io.open("$F", nil):write("x") == nil`, `io.open("$F", "r"):write("x") == nil`}},
	{"C19", "lines-default-input", `io.input("$F")`, []string{`io.lines()()`, `io.lines(nil)()`}},
	{"C19", "input-output-query", `io.input("$F")`, []string{`io.input() == io.input(), io.output() == io.stdout, io.input():read("*l")`, `io.input(nil) == io.input(), io.output(nil) == io.stdout, io.input(nil):read("*l")`}},
	{"C19", "setvbuf-size", `local f = io.open("$F", "a")`, []string{`f:setvbuf("full"), f:write("x"), f:close(), io.open("$F"):read("*a")`, `f:setvbuf("full", nil), f:write("x"), f:close(), io.open("$F"):read("*a")`}},
	{"C19", "read-without-format-is-a-line", `local f = io.open("$F")`, []string{`f:read()`, `f:read("*l")`}},
	// surplus arguments are ignored (lua_settop / arguments never read)
	{"C02", "xpcall-ignores-surplus-arguments", `local function f(...) return "r", select("#", ...) end local function h(m) return m end`, []string{`xpcall(f, h)`, `xpcall(f, h, "x1")`, `xpcall(f, h, "x1", "x2")`}},
	{"C02", "xpcall-failure-ignores-surplus-arguments", `local function f(...) error("e" .. select("#", ...), 0) end local function h(m) return "H" .. m end`, []string{`xpcall(f, h)`, `xpcall(f, h, "x1")`}},
	{"C02", "unpack-select-surplus", `local t = {1, 2, 3}`, []string{`unpack(t, 1, 3)`, `unpack(t, 1, 3, "x")`}},
	{"C09", "raw-access-surplus", `local t = {10, a = 1}`, []string{`rawget(t, 1), rawget(t, "a"), rawequal(t, t), next(t, nil) ~= nil, #rawset(t, 2, 20)`, `rawget(t, 1, "x"), rawget(t, "a", "x"), rawequal(t, t, "x"), next(t, nil, "x") ~= nil, #rawset(t, 2, 20, "x")`}},
	{"C04", "metatable-functions-surplus", `local mt = {} local t = setmetatable({}, mt)`, []string{`getmetatable(t) == mt, setmetatable(t, nil) == t, tostring(1)`, `getmetatable(t, "x") == mt, setmetatable(t, nil, "x") == t, tostring(1, "x")`}},
	{"C15", "string-functions-surplus", `local s = "hello"`, []string{`s:len(), s:sub(2, 3), s:upper(), s:lower(), s:rep(2), s:reverse(), s:byte(1, 2)`, `s:len("x"), s:sub(2, 3, "x"), s:upper("x"), s:lower("x"), s:rep(2, "x"), s:reverse("x"), s:byte(1, 2, "x")`}},
	{"C15", "math-functions-surplus", ``, []string{`math.floor(1.5), math.abs(-2), math.sqrt(4), math.fmod(7, 3), math.pow(2, 3), math.ldexp(1, 2)`, `math.floor(1.5, 9), math.abs(-2, 9), math.sqrt(4, 9), math.fmod(7, 3, 9), math.pow(2, 3, 9), math.ldexp(1, 2, 9)`}},
	{"C14", "pattern-functions-surplus", `local s = "abcabc"`, []string{`s:find("b", 1, false), s:match("(b)", 1), s:gsub("b", "X", 1)`, `s:find("b", 1, false, "x"), s:match("(b)", 1, "x"), s:gsub("b", "X", 1, "x")`}},
	{"C06", "coroutine-functions-surplus", `local co = coroutine.create(function() end)`, []string{`coroutine.status(co), type(coroutine.wrap(function() end)), coroutine.running()`, `coroutine.status(co, "x"), type(coroutine.wrap(function() end, "x")), coroutine.running("x")`}},
	{"C16", "tonumber-tostring-surplus", ``, []string{`tonumber("10", 16), tostring(12), os.time({year = 2000, month = 1, day = 1, hour = 0}) == os.time({year = 2000, month = 1, day = 1, hour = 0})`, `tonumber("10", 16, "x"), tostring(12, "x"), os.time({year = 2000, month = 1, day = 1, hour = 0}, "x") == os.time({year = 2000, month = 1, day = 1, hour = 0})`}},
	{"C18", "table-functions-surplus", `local function run(x) local t = {"a", "b", "c"} return table.concat(t, ",", 1, 3, x), table.remove(t, 1, x), table.maxn(t, x), #t end`, []string{`run()`, `run("x")`}},
	{"C19", "io-functions-surplus", `local f = io.open("$F")`, []string{`f:seek("set", 1), f:read(1), io.type(f), f:close()`, `f:seek("set", 1, "x"), f:read(1), io.type(f, "x"), f:close("x")`}},
	{"C05", "error-pcall-surplus", ``, []string{`pcall(function() error("m", 1) end)`, `pcall(function() error("m", 1, "x") end)`}},
	// C18 (the BFS part has its own explicit-nil cases; these are the function forms)
	{"C18", "concat-sep-i-j", `local t = {"a", "b", "c"}`, []string{`table.concat(t)`, `table.concat(t, nil)`, `table.concat(t, "")`, `table.concat(t, nil, nil)`, `table.concat(t, "", 1)`, `table.concat(t, nil, nil, nil)`, `table.concat(t, "", 1, 3)`, `table.concat(t, nil, 1, nil)`}},
	{"C18", "remove-pos", `local function run(f) local t = {1, 2, 3} local r = f(t) return r, #t, t[1], t[3] end`, []string{`run(function(t) return table.remove(t) end)`, `run(function(t) return table.remove(t, nil) end)`, `run(function(t) return table.remove(t, 3) end)`}},
	{"C18", "sort-comp", `local function run(f) local t = {3, 1, 2} f(t) return t[1], t[2], t[3] end`, []string{`run(function(t) table.sort(t) end)`, `run(function(t) table.sort(t, nil) end)`}},
}

func nilArgsFamily(r *harness.Run, prop string) {
	dir := ""
	n := 0
	for _, c := range nilArgCases {
		if c.prop != prop {
			continue
		}
		if dir == "" {
			dir = harness.WorkDir("nilargs-" + prop)
			defer os.RemoveAll(dir)
		}
		first := ""
		for i, sp := range c.spellings {
			n++
			file := filepath.Join(dir, "f.txt")
			os.WriteFile(file, []byte("l1\nl2\nl3"), 0o644)
			src := strings.ReplaceAll(c.setup+"\nreturn pcall(function() return "+sp+" end)", "$F", file)
			L := lua.NewState()
			got := ""
			func() {
				defer func() {
					if rec := recover(); rec != nil {
						got = fmt.Sprintf("GO PANIC: %v", rec)
					}
				}()
				if err := L.DoString(src); err != nil {
					got = "CHUNK ERROR: " + firstLine(err.Error())
					return
				}
				var parts []string
				for k := 1; k <= L.GetTop(); k++ {
					v := L.Get(k)
					s := v.Type().String() + ":" + v.String()
					switch v.Type() {
					case lua.LTFunction, lua.LTUserData, lua.LTTable, lua.LTThread:
						s = v.Type().String()
					}
					parts = append(parts, s)
				}
				got = strings.Join(parts, " | ")
			}()
			L.Close()
			r.Eval("nilargs/"+c.name+"/"+sp, true, func() interface{} {
				return map[string]interface{}{"case": "optional arguments", "name": c.name, "spelling": sp, "same_as": c.spellings[0]}
			})
			if i == 0 {
				first = got
				if strings.HasPrefix(got, "CHUNK ERROR") || strings.HasPrefix(got, "GO PANIC") {
					r.Violation("nilargs/"+c.name+"/base", fmt.Sprintf("optional-argument case %s: the base spelling %s did not run: %s", c.name, sp, got), map[string]interface{}{"source": src})
					break
				}
				continue
			}
			if got != first {
				r.Violation(fmt.Sprintf("nilargs/%s/%d", c.name, i), fmt.Sprintf("optional-argument case %s: %s gives\n  %s\nbut %s gives\n  %s\n(an omitted optional argument, an explicit nil and the documented default are the same call)\nsetup: %s", c.name, sp, got, c.spellings[0], first, c.setup),
					map[string]interface{}{"setup": c.setup, "spelling": sp, "base": c.spellings[0], "got": got, "base_result": first})
			}
		}
	}
	if n > 0 {
		r.Count("optional_argument_spellings", int64(n))
	}
}
