package props

// C12 part 4: the call-shape, closure and coroutine program families of C02/C03/C05/C06 run under
// Options that make the registry reallocate on (almost) every frame entry and that use the
// segmented call stack near a small limit; the traces must equal the reference interpreter's
// (i.e. what the default configuration produces).

import (
	"context"
	"fmt"
	"strings"
	"time"

	lua "github.com/yuin/gopher-lua"

	"verif/internal/glrun"
	"verif/internal/harness"
	. "verif/internal/luaref"
)

// genGrowCross: recursion that re-enters Lua through pcall, a host call-back, a __index metamethod
// or an iterator, always leaving trailing parameters out, with 0-7 extra locals per frame and
// depths chosen so that the registers in use cross the initial capacity of the registry at many
// alignments.
func genGrowCross(thorough bool) Gen {
	return func(yield func(*Prog)) {
		depths := []int{3, 6, 9, 12, 15, 18, 21, 24, 27, 30}
		if thorough {
			depths = nil
			for d := 1; d <= 40; d++ {
				depths = append(depths, d)
			}
		}
		for _, via := range []string{"pcall", "hcall", "index", "iter", "direct"} {
			for _, nloc := range []int{0, 3, 7} {
				for _, d := range depths {
					if via != "direct" && d > 28 {
						continue // two frames per level: stay below the smallest CallStackSize of the configurations (64)
					}
					via, nloc, d := via, nloc, d
					yield(&Prog{Family: "F-growcross", Shape: fmt.Sprintf("%s/locals=%d/depth=%d", via, nloc, d), Mk: func() *Block {
						var locs []string
						var vals []Expr
						for i := 0; i < nloc; i++ {
							locs = append(locs, fmt.Sprintf("l%d", i))
							vals = append(vals, Num(float64(i+1)))
						}
						body := []Stat{}
						if nloc > 0 {
							body = append(body, &LocalStat{Names: locs, Exprs: vals})
						}
						// walk(depth, label, acc, sep): acc and sep are always left out by the callers
						body = append(body, If(Bin("~=", Name("acc"), Nil()), Emit(Str("acc-not-nil"), Name("acc"))), If(Bin("~=", Name("sep"), Nil()), Emit(Str("sep-not-nil"), Name("sep"))),
							If(Bin("==", Name("depth"), Num(0)), Return(Name("label"))))
						var rec Stat
						switch via {
						case "pcall":
							rec = Local(names("ok", "r"), CallN("pcall", Name("walk"), Bin("-", Name("depth"), Num(1)), Name("label")))
						case "hcall":
							rec = Local1("r", CallN("hcall", Name("walk"), Bin("-", Name("depth"), Num(1)), Name("label")))
						case "index":
							rec = Local1("r", Index(Name("proxy"), Bin("-", Name("depth"), Num(1))))
						case "iter":
							rec = Local1("r", Nil())
						case "direct":
							rec = Local1("r", CallN("walk", Bin("-", Name("depth"), Num(1)), Name("label")))
						}
						body = append(body, rec)
						if via == "iter" {
							body = append(body, GenFor(names("v"), []Expr{Name("walkiter"), Bin("-", Name("depth"), Num(1))}, Assign1(Name("r"), Name("v")), Break()))
						}
						sum := Expr(Num(0))
						if nloc > 0 {
							sum = Bin("+", Name("l0"), Name(fmt.Sprintf("l%d", nloc-1)))
						}
						body = append(body, Return(Bin("..", Bin("..", Name("r"), Str(".")), sum)))
						st := []Stat{Local(names("walk", "proxy", "walkiter"))}
						st = append(st, Assign1(Name("walk"), Func(names("depth", "label", "acc", "sep"), false, body...)))
						st = append(st, Assign1(Name("proxy"), CallN("setmetatable", TableE(), TableE(NamedField("__index", Func(names("t", "k", "missing"), false, If(Bin("~=", Name("missing"), Nil()), Emit(Str("missing-not-nil"))), Return(CallN("walk", Name("k"), Str("w")))))))))
						// iterator: first call returns walk(state), second ends the loop; called with (state, control) only
						st = append(st, Assign1(Name("walkiter"), Func(names("s", "c", "extra"), false, If(Bin("~=", Name("extra"), Nil()), Emit(Str("extra-not-nil"))), If(Bin("~=", Name("c"), Nil()), Return(Nil())), Return(CallN("walk", Name("s"), Str("w"))))))
						st = append(st, Emit(Str("result"), CallN("walk", Num(float64(d)), Str("w"))))
						return Blk(st...)
					}})
				}
			}
		}
	}
}

// c12LiveContext: "with or without an (undone) context attached" - the context-aware main loop is a
// hand-maintained copy of the plain one. The call, coroutine, yield-boundary, closure and loop
// families run on states with a context that is never cancelled; the traces must be the reference
// interpreter's (what the state without a context produces).
func c12LiveContext(r *harness.Run) {
	ctx, cancel := context.WithCancel(context.Background())
	defer cancel()
	pc := c03Runner(r)
	pc.prop = "C12"
	pc.sigPrefix = "p4/livectx/"
	inner := pc.extraI
	pc.extraI = func(m *glrun.Impl) {
		inner(m)
		m.L.SetContext(ctx)
	}
	th := r.Thorough()
	pc.runGens(map[string]Gen{"F-yieldacross": genYieldAcross(), "F-hostbody": genHostBody(), "F-cochain": genCoChain(), "F-callmeta": genMetaCall(th), "F-genfor": genGenFor(th), "F-errval": genErrVal(th), "F-select": genSelectUnpack(th), "F-opgrow": genOpGrow(false)},
		[]string{"F-yieldacross", "F-hostbody", "F-cochain", "F-callmeta", "F-genfor", "F-errval", "F-select", "F-opgrow"})
}

func c12ProgramFamilies(r *harness.Run) {
	c12CoroutineNesting(r)
	c12LiveContext(r)
	th := r.Thorough()
	configs := []struct {
		name string
		opts lua.Options
	}{
		// NewState replaces a RegistrySize below 128 by the default, so 128 is the smallest start that
		// can be configured; the runner cuts the registry back to that size before every program
		// (glrun.ShrinkRegistry), and the families run below a few padding frames (deepFrame) so
		// that their own frames cross the capacity at different alignments
		{"grow1-from128", lua.Options{RegistrySize: 128, RegistryMaxSize: 1 << 20, RegistryGrowStep: 1}},
		{"grow2-from128+minstack", lua.Options{RegistrySize: 128, RegistryMaxSize: 1 << 20, RegistryGrowStep: 2, MinimizeStackMemory: true, CallStackSize: 64}},
		{"grow7-from130", lua.Options{RegistrySize: 130, RegistryMaxSize: 1 << 20, RegistryGrowStep: 7}},
		{"grow32-from160", lua.Options{RegistrySize: 160, RegistryMaxSize: 1 << 20, RegistryGrowStep: 32}},
	}
	// value-stack exhaustion inside coroutines under the default (fixed) registry: a catchable error,
	// the coroutine dead, everything else intact. (Not under the growing registries above: there
	// 10 000 values fit and nothing is exhausted.)
	{
		pd := c03Runner(r)
		pd.prop = "C12"
		pd.sigPrefix = "p4/default/"
		pd.runGens(map[string]Gen{"F-cooverflow": genCoOverflow()}, []string{"F-cooverflow"})
	}
	for _, cfg := range configs {
		if r.Expired() {
			r.NotExhaustive("deadline before part 4 configuration " + cfg.name)
			return
		}
		pr := &progRunner{r: r, prop: "C12", opts: cfg.opts, sigPrefix: "p4/" + cfg.name + "/"}
		gens := map[string]Gen{"F-growcross": genGrowCross(th), "F-callalign": genCallAlign(), "F-opgrow": genOpGrow(th)}
		order := []string{"F-growcross", "F-callalign", "F-opgrow"}
		depths := []int{5, 6}
		if th {
			depths = []int{4, 5, 6, 7}
		}
		for _, d := range depths {
			pre := fmt.Sprintf("D%d/", d)
			for n, g := range map[string]Gen{"F-select": genSelectUnpack(th), "F-closure": genClosure(th), "F-genfor": genGenFor(th), "F-errval": genErrVal(th), "F-callmeta": genMetaCall(th), "F-index": genMetaIndex(th), "F-hostbody": genHostBody(), "F-cochain": genCoChain()} {
				gens[pre+n] = mapGen(g, pre, deepFrame(d))
			}
			order = append(order, pre+"F-select", pre+"F-closure", pre+"F-genfor", pre+"F-errval", pre+"F-callmeta", pre+"F-index", pre+"F-hostbody", pre+"F-cochain")
		}
		gens["D6/F-call"] = mapGen(genCall(th), "D6/", deepFrame(6))
		order = append(order, "D6/F-call")
		pr.runGens(gens, order)
	}
}

// c12CoroutineNesting: recursion *through coroutines* is a recursion like any other - a function that
// resumes a new coroutine of itself without end must end in a catchable error, not in the death of
// the process (Lua 5.1: "C stack overflow" at 200 nested resumes). Canaries in child processes
// first (unbounded nesting allocates a thread per level; the child has a heap watchdog); then, in
// process, every nesting depth 1..260 through resume, through wrap, and alternating: below the
// limit the innermost value comes back, beyond it the error is caught at the top, and in both
// cases the state computes correctly afterwards and a second run gives the same answer.
func c12CoroutineNesting(r *harness.Run) {
	canaries := []struct{ name, src string }{
		{"wrap-recursion", `local function cw() return coroutine.wrap(cw)() end local ok, msg = pcall(cw) assert(ok == false and type(msg) == "string", tostring(msg)) local co = coroutine.wrap(function() return 7 end) assert(co() == 7)`},
		{"resume-recursion", `local function cr() return coroutine.resume(coroutine.create(cr)) end local ok = cr() assert(ok == true or ok == false) assert(select(2, coroutine.resume(coroutine.create(function() return 7 end))) == 7)`},
	}
	for _, cn := range canaries {
		crashed, detail := canaryRun(cn.src, 60*time.Second)
		r.Eval("canary/"+cn.name, true, func() interface{} { return map[string]interface{}{"case": "canary", "program": cn.src} })
		if crashed || strings.HasPrefix(detail, "memory-exhaustion") {
			r.Violation("nesting/canary/"+cn.name+"/process-death", "unbounded recursion through coroutines must end in a catchable error; the interpreter process "+detail+"\nprogram: "+cn.src, map[string]interface{}{"program": cn.src})
			return // the in-process sweep would meet the same fate
		} else if detail != "ok" {
			r.Violation("nesting/canary/"+cn.name+"/wrong-result", detail+"\nprogram: "+cn.src, map[string]interface{}{"program": cn.src})
		}
	}
	const src = `
local how, depth = ...
local function nest(n)
  if n == 0 then return "bottom" end
  local via = how
  if how == "alternate" then via = (n % 2 == 0) and "resume" or "wrap" end
  if via == "wrap" then
    return coroutine.wrap(nest)(n - 1)
  end
  local ok, v = coroutine.resume(coroutine.create(nest), n - 1)
  if not ok then error(v, 0) end
  return v
end
local ok, v = pcall(nest, depth)
local after = select(2, coroutine.resume(coroutine.create(function(a) return a + 1 end), 41))
return ok, ok and v or "error", after
`
	L := lua.NewState()
	defer L.Close()
	fn, err := L.LoadString(src)
	if err != nil {
		harness.Fatal("c12 nesting: %v", err)
	}
	n := 0
	for _, how := range []string{"resume", "wrap", "alternate"} {
		limit := -1
		for depth := 1; depth <= 260; depth++ {
			var outs [2]string
			for round := 0; round < 2; round++ {
				n++
				top := L.GetTop()
				L.Push(fn)
				L.Push(lua.LString(how))
				L.Push(lua.LNumber(depth))
				if err := L.PCall(2, 3, nil); err != nil {
					outs[round] = "escaped: " + firstLine(err.Error())
				} else {
					outs[round] = L.Get(-3).String() + "|" + L.Get(-2).String() + "|" + L.Get(-1).String()
				}
				L.SetTop(top)
			}
			sig := fmt.Sprintf("nesting/%s", how)
			switch {
			case outs[0] != outs[1]:
				r.Violation(sig+"/not-repeatable", fmt.Sprintf("%d coroutines nested through %s: first run %q, second run on the same state %q", depth, how, outs[0], outs[1]), map[string]interface{}{"how": how, "depth": depth, "script": src})
			case outs[0] == "true|bottom|42":
				if limit >= 0 {
					r.Violation(sig+"/limit-not-monotonic", fmt.Sprintf("nesting %d coroutines through %s succeeds although %d failed", depth, how, limit), map[string]interface{}{"how": how, "depth": depth, "script": src})
				}
			case outs[0] == "false|error|42":
				if limit < 0 {
					limit = depth
				}
			default:
				r.Violation(sig+"/wrong-outcome", fmt.Sprintf("%d coroutines nested through %s: %q (expected the innermost value, or a caught error, and a working state afterwards)", depth, how, outs[0]), map[string]interface{}{"how": how, "depth": depth, "script": src})
			}
		}
		r.Eval("nesting/"+how, true, func() interface{} {
			return map[string]interface{}{"case": "coroutine nesting sweep", "how": how, "first_refused_depth": limit}
		})
		// (no limit inside the sweep is not an alarm: where the limit lies is the implementation's
		// choice; that there is one is what the canaries decide)
		r.Extra["coroutine_nesting_first_refused_depth_"+how] = limit
	}
	r.Count("coroutine_nesting_runs", int64(n))
}
