package props

// C12 part 4: the call-shape, closure and coroutine program families of C02/C03/C05/C06 run under
// Options that make the registry reallocate on (almost) every frame entry and that use the
// segmented call stack near a small limit; the traces must equal the reference interpreter's
// (i.e. what the default configuration produces).

import (
	"fmt"

	lua "github.com/yuin/gopher-lua"

	"verif/internal/harness"
	. "verif/internal/luaref"
)

// genGrowCross: recursion that re-enters Lua through pcall, a host call-back, a __index metamethod
// or an iterator, always leaving trailing parameters out, with 0-7 extra locals per frame and
// depths chosen so that the registers in use cross the initial capacity of the registry at many
// alignments.
func genGrowCross(thorough bool) Gen {
	return func(yield func(*Prog)) {
		depths := []int{3, 6, 9, 12, 15, 18, 21, 24, 27, 30}
		if thorough {
			depths = nil
			for d := 1; d <= 40; d++ {
				depths = append(depths, d)
			}
		}
		for _, via := range []string{"pcall", "hcall", "index", "iter", "direct"} {
			for _, nloc := range []int{0, 3, 7} {
				for _, d := range depths {
					if via != "direct" && d > 28 {
						continue // two frames per level: stay below the smallest CallStackSize of the configurations (64)
					}
					via, nloc, d := via, nloc, d
					yield(&Prog{Family: "F-growcross", Shape: fmt.Sprintf("%s/locals=%d/depth=%d", via, nloc, d), Mk: func() *Block {
						var locs []string
						var vals []Expr
						for i := 0; i < nloc; i++ {
							locs = append(locs, fmt.Sprintf("l%d", i))
							vals = append(vals, Num(float64(i+1)))
						}
						body := []Stat{}
						if nloc > 0 {
							body = append(body, &LocalStat{Names: locs, Exprs: vals})
						}
						// walk(depth, label, acc, sep): acc and sep are always left out by the callers
						body = append(body, If(Bin("~=", Name("acc"), Nil()), Emit(Str("acc-not-nil"), Name("acc"))), If(Bin("~=", Name("sep"), Nil()), Emit(Str("sep-not-nil"), Name("sep"))),
							If(Bin("==", Name("depth"), Num(0)), Return(Name("label"))))
						var rec Stat
						switch via {
						case "pcall":
							rec = Local(names("ok", "r"), CallN("pcall", Name("walk"), Bin("-", Name("depth"), Num(1)), Name("label")))
						case "hcall":
							rec = Local1("r", CallN("hcall", Name("walk"), Bin("-", Name("depth"), Num(1)), Name("label")))
						case "index":
							rec = Local1("r", Index(Name("proxy"), Bin("-", Name("depth"), Num(1))))
						case "iter":
							rec = Local1("r", Nil())
						case "direct":
							rec = Local1("r", CallN("walk", Bin("-", Name("depth"), Num(1)), Name("label")))
						}
						body = append(body, rec)
						if via == "iter" {
							body = append(body, GenFor(names("v"), []Expr{Name("walkiter"), Bin("-", Name("depth"), Num(1))}, Assign1(Name("r"), Name("v")), Break()))
						}
						sum := Expr(Num(0))
						if nloc > 0 {
							sum = Bin("+", Name("l0"), Name(fmt.Sprintf("l%d", nloc-1)))
						}
						body = append(body, Return(Bin("..", Bin("..", Name("r"), Str(".")), sum)))
						st := []Stat{Local(names("walk", "proxy", "walkiter"))}
						st = append(st, Assign1(Name("walk"), Func(names("depth", "label", "acc", "sep"), false, body...)))
						st = append(st, Assign1(Name("proxy"), CallN("setmetatable", TableE(), TableE(NamedField("__index", Func(names("t", "k", "missing"), false, If(Bin("~=", Name("missing"), Nil()), Emit(Str("missing-not-nil"))), Return(CallN("walk", Name("k"), Str("w")))))))))
						// iterator: first call returns walk(state), second ends the loop; called with (state, control) only
						st = append(st, Assign1(Name("walkiter"), Func(names("s", "c", "extra"), false, If(Bin("~=", Name("extra"), Nil()), Emit(Str("extra-not-nil"))), If(Bin("~=", Name("c"), Nil()), Return(Nil())), Return(CallN("walk", Name("s"), Str("w"))))))
						st = append(st, Emit(Str("result"), CallN("walk", Num(float64(d)), Str("w"))))
						return Blk(st...)
					}})
				}
			}
		}
	}
}

func c12ProgramFamilies(r *harness.Run) {
	th := r.Thorough()
	configs := []struct {
		name string
		opts lua.Options
	}{
		// NewState replaces a RegistrySize below 128 by the default, so 128 is the smallest start that
		// can be configured; the runner cuts the registry back to that size before every program
		// (glrun.ShrinkRegistry), and the families run below a few padding frames (deepFrame) so
		// that their own frames cross the capacity at different alignments
		{"grow1-from128", lua.Options{RegistrySize: 128, RegistryMaxSize: 1 << 20, RegistryGrowStep: 1}},
		{"grow2-from128+minstack", lua.Options{RegistrySize: 128, RegistryMaxSize: 1 << 20, RegistryGrowStep: 2, MinimizeStackMemory: true, CallStackSize: 64}},
		{"grow7-from130", lua.Options{RegistrySize: 130, RegistryMaxSize: 1 << 20, RegistryGrowStep: 7}},
		{"grow32-from160", lua.Options{RegistrySize: 160, RegistryMaxSize: 1 << 20, RegistryGrowStep: 32}},
	}
	// value-stack exhaustion inside coroutines under the default (fixed) registry: a catchable error,
	// the coroutine dead, everything else intact. (Not under the growing registries above: there
	// 10 000 values fit and nothing is exhausted.)
	{
		pd := c03Runner(r)
		pd.prop = "C12"
		pd.sigPrefix = "p4/default/"
		pd.runGens(map[string]Gen{"F-cooverflow": genCoOverflow()}, []string{"F-cooverflow"})
	}
	for _, cfg := range configs {
		if r.Expired() {
			r.NotExhaustive("deadline before part 4 configuration " + cfg.name)
			return
		}
		pr := &progRunner{r: r, prop: "C12", opts: cfg.opts, sigPrefix: "p4/" + cfg.name + "/"}
		gens := map[string]Gen{"F-growcross": genGrowCross(th), "F-callalign": genCallAlign(), "F-opgrow": genOpGrow(th)}
		order := []string{"F-growcross", "F-callalign", "F-opgrow"}
		depths := []int{5, 6}
		if th {
			depths = []int{4, 5, 6, 7}
		}
		for _, d := range depths {
			pre := fmt.Sprintf("D%d/", d)
			for n, g := range map[string]Gen{"F-select": genSelectUnpack(th), "F-closure": genClosure(th), "F-genfor": genGenFor(th), "F-errval": genErrVal(th), "F-callmeta": genMetaCall(th), "F-index": genMetaIndex(th), "F-hostbody": genHostBody(), "F-cochain": genCoChain()} {
				gens[pre+n] = mapGen(g, pre, deepFrame(d))
			}
			order = append(order, pre+"F-select", pre+"F-closure", pre+"F-genfor", pre+"F-errval", pre+"F-callmeta", pre+"F-index", pre+"F-hostbody", pre+"F-cochain")
		}
		gens["D6/F-call"] = mapGen(genCall(th), "D6/", deepFrame(6))
		order = append(order, "D6/F-call")
		pr.runGens(gens, order)
	}
}
