package props

// C12 part 4: the call-shape, closure and coroutine program families of C02/C03/C05/C06 run under
// Options that make the registry reallocate on (almost) every frame entry and that use the
// segmented call stack near a small limit; the traces must equal the reference interpreter's
// (i.e. what the default configuration produces).

import (
	lua "github.com/yuin/gopher-lua"

	"verif/internal/harness"
)

func c12ProgramFamilies(r *harness.Run) {
	th := r.Thorough()
	configs := []struct {
		name string
		opts lua.Options
	}{
		{"grow1", lua.Options{RegistrySize: 64, RegistryMaxSize: 1 << 20, RegistryGrowStep: 1}},
		{"grow3+minstack", lua.Options{RegistrySize: 96, RegistryMaxSize: 1 << 20, RegistryGrowStep: 3, MinimizeStackMemory: true, CallStackSize: 64}},
	}
	for _, cfg := range configs {
		if r.Expired() {
			r.NotExhaustive("deadline before part 4 configuration " + cfg.name)
			return
		}
		pr := &progRunner{r: r, prop: "C12", opts: cfg.opts, sigPrefix: "p4/" + cfg.name + "/"}
		gens := map[string]Gen{"F-call": genCall(th), "F-select": genSelectUnpack(th), "F-closure": genClosure(th), "F-genfor": genGenFor(th), "F-errval": genErrVal(th), "F-callmeta": genMetaCall(th), "F-index": genMetaIndex(th)}
		pr.runGens(gens, []string{"F-select", "F-closure", "F-genfor", "F-errval", "F-callmeta", "F-index", "F-call"})
	}
}
