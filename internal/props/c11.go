package props

// C11 — cancelling the context stops any running script promptly with an error.
// Deviation-bounded enumeration: for every script and every instruction index k up to a horizon the
// script is run with the context cancelled at exactly instruction k (through the per-instruction
// step hook calling the real cancel function; independently through a poll-counting Context).

import (
	"context"
	"fmt"
	"runtime"
	"strconv"
	"strings"
	"sync/atomic"
	"time"

	lua "github.com/yuin/gopher-lua"
	rshim "github.com/yuin/gopher-lua/verifshim/rshim"

	"verif/internal/glrun"
	"verif/internal/harness"
)

func init() { harness.Register("C11", "fault_enumeration", runC11) }

type c11Script struct {
	name     string
	src      string
	coro     bool // creates coroutines (second seam not applicable)
	maxDepth int  // nesting of Lua->Go->Lua re-entry + protected calls the script can reach (for the bound)
}

// c11Pre: a prelude that runs on the same state before every run of the script of that name, while
// NO context is attached: what it creates (parked in a library table, globals are reset between
// runs) predates SetContext.
var c11Pre = map[string]string{
	"co-made-before-setcontext-spins":                          `string.verif_co = coroutine.create(function() local n = 0 while true do n = n + 1 if n % 7 == 0 then emit("in", n) end end end)`,
	"co-made-before-setcontext-creates-the-spinner":            `string.verif_maker = coroutine.wrap(function() while true do coroutine.yield(coroutine.wrap(function() local n = 0 while true do n = n + 1 if n % 7 == 0 then emit("in", n) end end end)) end end)`,
	"co-suspended-before-setcontext-resumed-after":             `string.verif_gen = coroutine.create(function() local n = 0 while true do n = n + 1 coroutine.yield(n) end end) coroutine.resume(string.verif_gen)`,
	"co-suspended-before-setcontext-spins-after":               `string.verif_sus = coroutine.create(function() coroutine.yield("started") local n = 0 while true do n = n + 1 if n % 7 == 0 then emit("sp", n) end end end) coroutine.resume(string.verif_sus)`,
	"co-suspended-before-setcontext-creates-the-spinner-after": `string.verif_sus2 = coroutine.wrap(function() coroutine.yield("started") local c = coroutine.wrap(function() local n = 0 while true do n = n + 1 if n % 7 == 0 then emit("in", n) end end end) emit("made") c() end) string.verif_sus2()`,
}

var c11Scripts = []c11Script{
	{"while-true", `local i = 0 while true do i = i + 1 if i % 7 == 0 then emit("w", i) end end`, false, 1},
	{"numfor-long", `local s = 0 for i = 1, 1e9 do s = s + i if i % 9 == 0 then emit("f", i) end end`, false, 1},
	{"recursion", `local function r(n) emit("r", n) return 1 + r(n + 1) end r(1)`, false, 1},
	{"tailrec", `local function t(n) if n % 5 == 0 then emit("t", n) end return t(n + 1) end t(1)`, false, 1},
	{"goto-loop", `local n = 0 ::top:: n = n + 1 if n % 6 == 0 then emit("g", n) end goto top`, false, 1},
	{"pcall-retry", `local n = 0 local function f() n = n + 1 emit("p", n) error("again") end repeat pcall(f) until false`, false, 2},
	{"pcall-retry-ok", `local n = 0 local function f() n = n + 1 if n % 3 == 0 then emit("p", n) end return n end repeat local ok = pcall(f) until not ok`, false, 2},
	{"xpcall-handler-loop", `local function h(e) local k = 0 while true do k = k + 1 if k % 11 == 0 then emit("h", k) end end end repeat xpcall(function() error("x") end, h) until false`, false, 3},
	{"xpcall-retry", `local n = 0 repeat n = n + 1 xpcall(function() emit("x", n) error("x") end, function(e) emit("h", n) return e end) until false`, false, 3},
	{"nested-pcall", `local function deep(d) if d == 0 then while true do emit("d", d) end end return pcall(deep, d - 1) end deep(4)`, false, 6},
	{"meta-index-rec", `local mt = {} mt.__index = function(t, k) emit("i", k) return t[k + 1] end local o = setmetatable({}, mt) local x = o[1]`, false, 40},
	{"meta-add-loop", `local mt = {} mt.__add = function(a, b) local c = 0 while true do c = c + 1 if c % 13 == 0 then emit("a", c) end end end local o = setmetatable({}, mt) local x = o + 1`, false, 2},
	{"gsub-callback", `local n = 0 while true do local _ = ("abc"):gsub(".", function(c) n = n + 1 if n % 4 == 0 then emit("s", n) end return c end) end`, false, 2},
	{"sort-comparator", `local n = 0 while true do local t = {5, 3, 4, 1, 2} table.sort(t, function(a, b) n = n + 1 if n % 8 == 0 then emit("c", n) end return a < b end) end`, false, 2},
	{"iterator", `local function it(s, c) emit("it", c) return c + 1 end for i in it, nil, 0 do end`, false, 2},
	{"closure-churn", `local fs = {} local i = 0 while true do i = i + 1 local v = i fs[i % 4] = function() return v end if i % 5 == 0 then emit("c", fs[0] and fs[0]()) end end`, false, 1},
	{"string-build", `local s = "" while true do s = s .. "x" if #s % 10 == 0 then emit("s", #s) s = "" end end`, false, 1},
	{"co-pingpong", `local co = coroutine.create(function() local n = 0 while true do n = n + 1 coroutine.yield(n) end end) while true do local ok, v = coroutine.resume(co) if v % 3 == 0 then emit("y", v) end end`, true, 3},
	{"co-wrap-pingpong", `local gen = coroutine.wrap(function() local n = 0 while true do n = n + 1 coroutine.yield(n) end end) while true do local v = gen() if v % 3 == 0 then emit("y", v) end end`, true, 3},
	{"co-inner-loop", `local co = coroutine.create(function() local n = 0 while true do n = n + 1 if n % 7 == 0 then emit("in", n) end end end) emit("res", coroutine.resume(co)) emit("after") while true do end`, true, 3},
	{"co-create-loop", `while true do local co = coroutine.wrap(function(a) emit("c", a) return a end) co(1) end`, true, 3},
	{"co-nested", `local inner = coroutine.wrap(function() while true do coroutine.yield(1) end end) local outer = coroutine.wrap(function() while true do coroutine.yield(inner()) end end) local n = 0 while true do n = n + outer() if n % 5 == 0 then emit("n", n) end end`, true, 4},
	{"pcall-in-co", `local co = coroutine.wrap(function() repeat pcall(function() emit("e") error("x") end) until false end) co()`, true, 4},
	{"hostcall-loop", `while true do hcall(function() emit("hc") return 1 end) end`, false, 2},
	// coroutines that exist before the context is attached
	{"co-made-before-setcontext-spins", `emit("res", coroutine.resume(string.verif_co)) emit("after") while true do end`, true, 3},
	{"co-made-before-setcontext-creates-the-spinner", `local inner = string.verif_maker() emit("got") inner()`, true, 4},
	{"co-suspended-before-setcontext-resumed-after", `while true do local ok, v = coroutine.resume(string.verif_gen) if v % 3 == 0 then emit("y", v) end end`, true, 3},
	{"co-suspended-before-setcontext-spins-after", `emit("res", coroutine.resume(string.verif_sus)) emit("after") while true do end`, true, 3},
	{"co-suspended-before-setcontext-creates-the-spinner-after", `string.verif_sus2() emit("after") while true do end`, true, 4},
	// terminating programs: cancellation beyond their end must change nothing
	{"term-arith", `local s = 0 for i = 1, 20 do s = s + i * i end emit("sum", s) return s`, false, 1},
	{"term-pcall", `local ok, e = pcall(error, {}) emit("pc", ok, type(e)) local t = {} for i = 1, 5 do t[i] = tostring(i) end emit(table.concat(t)) return #t`, false, 2},
	{"term-co-outlives-creator", `local inner local outer = coroutine.wrap(function() inner = coroutine.wrap(function(a) local b = coroutine.yield(a) return b + 1 end) return inner(1) end) emit("outer", outer()) emit("inner", inner(5)) local c2 = coroutine.create(function() local c3 = coroutine.create(function() coroutine.yield("c3") return "c3-end" end) coroutine.resume(c3) return c3 end) local ok, c3 = coroutine.resume(c2) emit(coroutine.status(c2), coroutine.resume(c3)) return "done"`, true, 4},
	{"term-co", `local co = coroutine.wrap(function(a) local b = coroutine.yield(a + 1) return b * 2 end) emit(co(1)) emit(co(10)) return "done"`, true, 3},
}

// pollCtx: a Context that reports done from its k-th Done() poll on.
type pollCtx struct {
	polls  int64
	fireAt int64
	closed chan struct{}
	open   chan struct{}
}

func newPollCtx(k int64) *pollCtx {
	c := &pollCtx{fireAt: k, closed: make(chan struct{}), open: make(chan struct{})}
	close(c.closed)
	return c
}
func (c *pollCtx) Deadline() (time.Time, bool) { return time.Time{}, false }
func (c *pollCtx) Done() <-chan struct{} {
	n := atomic.AddInt64(&c.polls, 1)
	if c.fireAt > 0 && n >= c.fireAt {
		return c.closed
	}
	return c.open
}
func (c *pollCtx) Err() error {
	if c.fireAt > 0 && atomic.LoadInt64(&c.polls) >= c.fireAt {
		return context.Canceled
	}
	return nil
}
func (c *pollCtx) Value(key interface{}) interface{} { return nil }

func runC11(r *harness.Run) {
	H := int64(1500)
	if r.Thorough() {
		H = 12000
	}
	r.Rule = fmt.Sprintf("%d scripts (tight loops, recursion, tail calls, goto loops, pcall/xpcall retry loops, looping error handlers, metamethod recursion, gsub/sort callbacks, iterators, coroutine ping-pong plain/wrapped/nested, host call-backs, and terminating programs) x cancellation at every instruction index k = 1..%d: the step hook calls the real cancel() of context.WithCancel at instruction k; for scripts without coroutines an independent poll-counting Context closes from poll k on and must give the same trace. "+
		"Oracle: the run returns an error carrying the context's reason; at most a bounded number of instructions complete after k; no host call completes after k; the trace is the prefix of the same script run with no context; an attached, never cancelled context changes nothing. Blocking channel operations (receive, send, select) are cancelled while parked in the operation.", len(c11Scripts), H)
	r.Assumptions = []string{"cancellation of child contexts created by NewThread is synchronous (standard context.WithCancel over a cancelCtx parent)",
		"the blocking-operation clause uses a wall-clock watchdog only to detect a hang (20 s); no verdict depends on timing otherwise"}

	type job struct {
		si int
	}
	harness.ParallelShards(len(c11Scripts), func(wi, si int) {
		sc := c11Scripts[si]
		m := glrun.NewImpl(lua.Options{}, nil)
		m.NoAutoFresh = true // the context is attached to m.L by this check
		defer m.Close()
		viol := func(class, what string, k int64, seam string) {
			r.Violation("cancel/"+sc.name+"/"+seam+"/"+class, fmt.Sprintf("%s\ncancellation at instruction %d (%s)\nscript: %s", what, k, seam, sc.src),
				map[string]interface{}{"script": sc.name, "source": sc.src, "cancel_at": k, "seam": seam})
		}
		prep := func() {
			if pre := c11Pre[sc.name]; pre != "" {
				if o := m.Run(pre, 100000); o.Failed {
					harness.Fatal("c11: prelude of %s failed: %s", sc.name, o.ErrText)
				}
			}
		}
		// base: no context, bounded by the instruction budget
		prep()
		base := m.Run(sc.src, H+400)
		terminates := !base.Failed
		horizon := H
		if base.Failed && base.ErrKind != "budget" {
			if !strings.Contains(base.ErrText, "stack overflow") {
				viol("base-failed", "run without context failed: "+base.ErrText, 0, "none")
				return
			}
			// unbounded recursion ends in a stack overflow error: cancel only before that point
			horizon = base.Steps - 10
		}
		// attached but never cancelled: identical behaviour
		{
			prep()
			ctx, cancel := context.WithCancel(context.Background())
			m.L.SetContext(ctx)
			o := m.Run(sc.src, H+400)
			m.L.RemoveContext()
			cancel()
			if o.Failed != base.Failed || fmt.Sprint(evArgs(o.Events)) != fmt.Sprint(evArgs(base.Events)) || fmt.Sprint(o.Results) != fmt.Sprint(base.Results) || o.Steps != base.Steps {
				viol("context-changes-behaviour", fmt.Sprintf("attaching a context that is never done changed the run: %d events/%d steps vs %d events/%d steps", len(o.Events), o.Steps, len(base.Events), base.Steps), 0, "attached")
				return
			}
			r.Eval(sc.name+"/attached", true, func() interface{} {
				return map[string]interface{}{"script": sc.name, "mode": "attached-never-cancelled"}
			})
		}
		bound := int64(2*sc.maxDepth + 2)
		for k := int64(1); k <= horizon; k++ {
			if k%64 == 0 && r.Expired() {
				r.NotExhaustive("deadline reached")
				return
			}
			for _, seam := range []string{"hook", "poll"} {
				if seam == "poll" && sc.coro {
					continue
				}
				var o glrun.Outcome
				prep()
				if seam == "hook" {
					ctx, cancel := context.WithCancel(context.Background())
					m.L.SetContext(ctx)
					fired := false
					m.B.Fault = func(L *lua.LState, n int64) {
						if n == k && !fired {
							fired = true
							cancel()
						}
					}
					o = m.Run(sc.src, H+400)
					m.B.Fault = nil
					m.L.RemoveContext()
					cancel()
				} else {
					// poll k+1 is the check in front of instruction k+1: same effect as cancelling
					// during instruction k
					pc := newPollCtx(k + 1)
					m.L.SetContext(pc)
					o = m.Run(sc.src, H+400)
					m.L.RemoveContext()
				}
				r.Eval(fmt.Sprintf("%s@%d/%s", sc.name, k, seam), true, func() interface{} {
					return map[string]interface{}{"script": sc.name, "cancel_at_instruction": k, "seam": seam}
				})
				if terminates && k >= base.Steps {
					// the script ends before (or at) the cancellation point
					if o.Failed || fmt.Sprint(evArgs(o.Events)) != fmt.Sprint(evArgs(base.Events)) {
						viol("late-cancel-changes-run", fmt.Sprintf("cancellation after the script's last instruction changed the run: failed=%v %s", o.Failed, o.ErrText), k, seam)
					}
					continue
				}
				if !o.Failed {
					viol("not-stopped", "the script was not stopped: run returned normally", k, seam)
					continue
				}
				if o.ErrKind == "budget" {
					viol("keeps-running", fmt.Sprintf("the script kept running after cancellation (%d instructions executed, budget exhausted)", o.Steps), k, seam)
					continue
				}
				if o.ErrKind != "run" || !strings.Contains(o.ErrText, context.Canceled.Error()) {
					viol("wrong-error", fmt.Sprintf("run failed with %s: %s (expected an error carrying %q)", o.ErrKind, firstLine(o.ErrText), context.Canceled.Error()), k, seam)
					continue
				}
				if o.Steps-k > bound {
					viol("too-many-instructions-after-cancel", fmt.Sprintf("%d instructions completed after the cancellation point (bound %d)", o.Steps-k, bound), k, seam)
					continue
				}
				late := false
				for _, e := range o.Events {
					if e.At > k {
						late = true
					}
				}
				if late {
					viol("host-call-after-cancel", "a host function call completed after the cancellation point", k, seam)
					continue
				}
				// prefix of the context-free run
				if len(o.Events) > len(base.Events) || fmt.Sprint(evArgs(o.Events)) != fmt.Sprint(evArgs(base.Events[:len(o.Events)])) {
					viol("trace-not-prefix", "the trace before cancellation is not a prefix of the trace without context", k, seam)
					continue
				}
				// the trace must contain every event of the base run that happened before k
				nb := 0
				for _, e := range base.Events {
					if e.At <= k {
						nb++
					}
				}
				if len(o.Events) != nb {
					viol("trace-truncated", fmt.Sprintf("trace has %d host calls, the context-free run has %d before instruction %d", len(o.Events), nb, k), k, seam)
				}
			}
		}
	})
	c11Blocking(r)
	c11ThreadAfterCancel(r)
	c11LiveContextFamilies(r)
	c11MidRun(r)
}

// c11LiveContextFamilies — "until the context is done, attaching it does not change the script's
// behaviour": the coroutine-centred program families (coroutines created by coroutines to depth 4
// and used after their creators died, Go functions as bodies, yields below call boundaries,
// closures x exit routes incl. coroutine exits, generic for) run on states that carry a live,
// never cancelled context and must give the reference interpreter's trace.
func c11LiveContextFamilies(r *harness.Run) {
	ctx, cancel := context.WithCancel(context.Background())
	defer cancel()
	pc := c03Runner(r)
	pc.prop = "C11"
	pc.sigPrefix = "livectx/"
	inner := pc.extraI
	pc.extraI = func(m *glrun.Impl) {
		inner(m)
		m.L.SetContext(ctx)
	}
	pc.runGens(map[string]Gen{"F-cochain": genCoChain(), "F-hostbody": genHostBody(), "F-yieldacross": genYieldAcross(), "F-closure": genClosure(false), "F-genfor": genGenFor(false)},
		[]string{"F-cochain", "F-hostbody", "F-yieldacross", "F-closure", "F-genfor"})
}

func evArgs(es []glrun.Event) [][]string {
	out := make([][]string, len(es))
	for i, e := range es {
		out[i] = append([]string{e.Kind}, e.Args...)
	}
	return out
}

// c11ThreadAfterCancel: a coroutine created after SetContext refuses to run once the context is done.
func c11ThreadAfterCancel(r *harness.Run) {
	for _, how := range []string{"create-before-cancel", "create-after-cancel", "gothread"} {
		L := lua.NewState()
		ctx, cancel := context.WithCancel(context.Background())
		L.SetContext(ctx)
		ran := false
		L.SetGlobal("mark", L.NewFunction(func(L *lua.LState) int { ran = true; return 0 }))
		var err error
		switch how {
		case "create-before-cancel":
			// created and started (suspended in a yield) before the cancellation
			err = L.DoString(`co = coroutine.create(function() coroutine.yield(1) mark() end) coroutine.resume(co)`)
			cancel()
			if err == nil {
				// resuming from Go: the main state itself may not execute Lua any more, so drive through the API
				co := L.GetGlobal("co").(*lua.LState)
				st, rerr, _ := L.Resume(co, nil)
				if st != lua.ResumeError || rerr == nil || !strings.Contains(rerr.Error(), "context canceled") {
					r.Violation("thread-after-cancel/"+how, fmt.Sprintf("coroutine created after SetContext ran after cancellation: state=%v err=%v ran=%v", st, rerr, ran), map[string]interface{}{"how": how})
				}
			}
		case "create-after-cancel":
			cancel()
			err = L.DoString(`co = coroutine.create(function() mark() end) coroutine.resume(co)`)
			if err == nil || !strings.Contains(err.Error(), "context canceled") {
				r.Violation("thread-after-cancel/"+how, fmt.Sprintf("a script started after cancellation ran: err=%v", err), map[string]interface{}{"how": how})
			}
		case "gothread":
			co, cocancel := L.NewThread()
			fn, _ := L.LoadString(`mark() return 1`)
			cancel()
			st, rerr, _ := L.Resume(co, fn)
			if st != lua.ResumeError || rerr == nil || !strings.Contains(rerr.Error(), "context canceled") {
				r.Violation("thread-after-cancel/"+how, fmt.Sprintf("NewThread coroutine ran after cancellation of the parent context: state=%v err=%v", st, rerr), map[string]interface{}{"how": how})
			}
			if cocancel != nil {
				cocancel()
			}
		}
		if ran {
			r.Violation("thread-after-cancel/"+how+"/ran", "Lua code of a coroutine ran after the context was done", map[string]interface{}{"how": how})
		}
		r.Eval("thread-after-cancel/"+how, true, func() interface{} { return map[string]interface{}{"case": "thread-after-cancel", "how": how} })
		cancel()
		L.Close()
	}
}

// ---- blocking channel operations ------------------------------------------------------------------------

type c11Sched struct {
	onBlock func(op *rshim.Op)
}

func (s *c11Sched) BeforeOp(op *rshim.Op) int {
	if s.onBlock != nil {
		s.onBlock(op)
	}
	return -1
}
func (s *c11Sched) AfterOp(op *rshim.Op, res *rshim.Result) {}

// c11TwoSenders: a send must stay cancellable when another sender takes the last free slot between
// the moment this one looks at the channel and the moment it sends. One forced interleaving: state
// A is held at its first channel operation (whatever it is) until state B has filled the
// one-slot buffer; the context is cancelled when A reaches its next operation - or, if A has no
// further hook, right after its release; A must come back with the context's error.
func c11TwoSenders(r *harness.Run) {
	ch := make(chan lua.LValue, 1)
	A, B := lua.NewState(), lua.NewState()
	ctx, cancel := context.WithCancel(context.Background())
	defer cancel()
	A.SetContext(ctx)
	A.SetGlobal("ch", lua.LChannel(ch))
	B.SetGlobal("ch", lua.LChannel(ch))
	hold, firstSeen := make(chan struct{}), make(chan struct{})
	var nA int32
	var aGid int64
	sched := &c11Sched{onBlock: func(op *rshim.Op) {
		if curGoroutine() != atomic.LoadInt64(&aGid) {
			return // B's operations pass
		}
		switch atomic.AddInt32(&nA, 1) {
		case 1:
			close(firstSeen)
			<-hold // until B has filled the buffer
		case 2:
			cancel() // A is about to send for real
		}
	}}
	rshim.Sched = sched
	done := make(chan error, 1)
	go func() {
		atomic.StoreInt64(&aGid, curGoroutine())
		done <- A.DoString(`ch:send("a")`)
	}()
	hung := false
	select {
	case <-firstSeen:
	case <-time.After(20 * time.Second):
		hung = true
	}
	var err error
	if !hung {
		if berr := B.DoString(`ch:send("b")`); berr != nil {
			harness.Fatal("c11 two senders: B failed: %v", berr)
		}
		close(hold)
		// if A's first operation was already the (cancellable) send itself, no second hook fires
		go func() { time.Sleep(200 * time.Millisecond); cancel() }()
		select {
		case err = <-done:
		case <-time.After(20 * time.Second):
			hung = true
		}
	}
	rshim.Sched = nil
	r.Eval("blocking/two-senders", true, func() interface{} {
		return map[string]interface{}{"case": "blocking-operation", "script": "two states send on a one-slot channel; the other one fills it between this one's look and its send"}
	})
	switch {
	case hung:
		r.Violation("blocking/two-senders/hang", "a send that lost the last free slot to another sender did not return after the context was cancelled (watchdog 20 s)", nil)
	case err == nil || !strings.Contains(err.Error(), "context canceled"):
		r.Violation("blocking/two-senders/wrong-result", fmt.Sprintf("the send ended with %v after cancellation (expected the context error)", err), nil)
	}
	if !hung {
		A.Close()
	}
	B.Close()
}

func curGoroutine() int64 {
	var buf [64]byte
	n := runtime.Stack(buf[:], false)
	f := strings.Fields(string(buf[:n]))
	if len(f) < 2 {
		return -1
	}
	id, _ := strconv.ParseInt(f[1], 10, 64)
	return id
}

func c11Blocking(r *harness.Run) {
	c11TwoSenders(r)
	scripts := []struct{ name, src string }{
		{"receive-unbuffered", `local ch = channel.make() local ok, v = ch:receive() emit("after", ok, v)`},
		{"receive-buffered-empty", `local ch = channel.make(2) local ok, v = ch:receive() emit("after", ok, v)`},
		{"select-recv-only", `local a, b = channel.make(), channel.make(1) local i, v, ok = channel.select({"|<-", a}, {"|<-", b}) emit("after", i)`},
		{"select-send-full", `local a = channel.make(1) a:send(1) local i = channel.select({"<-|", a, 2}, {"|<-", channel.make()}) emit("after", i)`},
		{"send-unbuffered", `local ch = channel.make() ch:send(1) emit("after")`},
		{"send-full", `local ch = channel.make(1) ch:send(1) ch:send(2) emit("after")`},
		{"receive-in-pcall-loop", `local ch = channel.make() repeat pcall(function() ch:receive() end) until false`},
		{"receive-in-coroutine", `local ch = channel.make() local co = coroutine.wrap(function() ch:receive() emit("in-co") end) co() emit("after")`},
	}
	for _, sc := range scripts {
		L := lua.NewState()
		ctx, cancel := context.WithCancel(context.Background())
		L.SetContext(ctx)
		var after int32
		L.SetGlobal("emit", L.NewFunction(func(L *lua.LState) int { atomic.AddInt32(&after, 1); return 0 }))
		// cancel when the script parks in its last (blocking) channel operation: count operations first
		nops := map[string]int{"select-send-full": 2, "send-full": 2}[sc.name]
		if nops == 0 {
			nops = 1
		}
		seen := 0
		sched := &c11Sched{onBlock: func(op *rshim.Op) {
			seen++
			if seen == nops {
				cancel()
			}
		}}
		rshim.Sched = sched
		done := make(chan error, 1)
		go func() { done <- L.DoString(sc.src) }()
		var err error
		hung := false
		select {
		case err = <-done:
		case <-time.After(20 * time.Second):
			hung = true
		}
		rshim.Sched = nil
		r.Eval("blocking/"+sc.name, true, func() interface{} {
			return map[string]interface{}{"case": "blocking-operation", "script": sc.name, "source": sc.src}
		})
		switch {
		case hung:
			r.Violation("blocking/"+sc.name+"/hang", "the blocked channel operation did not return after the context was cancelled (watchdog 20 s)\nscript: "+sc.src, map[string]interface{}{"script": sc.name, "source": sc.src})
		case err == nil || !strings.Contains(err.Error(), "context canceled"):
			r.Violation("blocking/"+sc.name+"/wrong-result", fmt.Sprintf("script blocked in a channel operation ended with %v after cancellation (expected the context error)\nscript: %s", err, sc.src), map[string]interface{}{"script": sc.name, "source": sc.src})
		case atomic.LoadInt32(&after) > 0:
			r.Violation("blocking/"+sc.name+"/ran-on", "Lua code ran after the cancelled blocking operation returned\nscript: "+sc.src, map[string]interface{}{"script": sc.name, "source": sc.src})
		}
		cancel()
		if !hung {
			L.Close()
		}
	}
}
