package props

// C15, string.format: generated directives x argument values, byte-exact against libc snprintf.
// The oracle is ref/cref.c (compiled into bin/cref), run once per tier with every distinct
// (directive, conversion kind, argument) piped in.

import (
	"bytes"
	"encoding/hex"
	"fmt"
	"math"
	"os"
	"os/exec"
	"path/filepath"
	"sort"
	"strconv"
	"strings"
	"sync"

	"verif/internal/harness"
)

// ---- the libc helper ---------------------------------------------------------------------------------

var c15CrefOnce sync.Once
var c15CrefPath string

// c15Cref returns the path of bin/cref, (re)compiling it from ref/cref.c when it is missing or older
// than its source.
func c15Cref() string {
	c15CrefOnce.Do(func() {
		src := filepath.Join(harness.Root, "ref", "cref.c")
		bin := filepath.Join(harness.Root, "bin", "cref")
		si, err := os.Stat(src)
		if err != nil {
			harness.Fatal("c15: %v", err)
		}
		if bi, err := os.Stat(bin); err == nil && !bi.ModTime().Before(si.ModTime()) {
			c15CrefPath = bin
			return
		}
		os.MkdirAll(filepath.Dir(bin), 0o755)
		tmp := fmt.Sprintf("%s.%d.tmp", bin, os.Getpid())
		out, err := exec.Command("gcc", "-O1", "-o", tmp, src, "-lm").CombinedOutput()
		if err != nil {
			harness.Fatal("c15: compiling ref/cref.c failed: %v\n%s", err, out)
		}
		if err := os.Rename(tmp, bin); err != nil {
			harness.Fatal("c15: %v", err)
		}
		c15CrefPath = bin
	})
	return c15CrefPath
}

type c15FmtKey struct {
	dir  string
	kind byte
	arg  string // 16 hex digits (number), hex bytes (string), "-" (none)
}

func (k c15FmtKey) line() string { return k.dir + "\t" + string(k.kind) + "\t" + k.arg }

// c15CrefEval evaluates all keys with one run of the helper.
func c15CrefEval(keys []c15FmtKey) map[c15FmtKey]string {
	var in bytes.Buffer
	for _, k := range keys {
		in.WriteString(k.line())
		in.WriteByte('\n')
	}
	cmd := exec.Command(c15Cref(), "printf")
	cmd.Stdin = &in
	cmd.Env = []string{"LC_ALL=C", "LANG=C"}
	var stderr bytes.Buffer
	cmd.Stderr = &stderr
	out, err := cmd.Output()
	if err != nil {
		harness.Fatal("c15: cref failed: %v %s", err, stderr.String())
	}
	lines := strings.Split(strings.TrimRight(string(out), "\n"), "\n")
	if len(keys) == 0 {
		lines = nil
	}
	if len(lines) != len(keys) {
		harness.Fatal("c15: cref returned %d lines for %d cases", len(lines), len(keys))
	}
	res := make(map[c15FmtKey]string, len(keys))
	for i, l := range lines {
		if strings.HasPrefix(l, "!") {
			harness.Fatal("c15: cref rejected %q: %s", keys[i].line(), l)
		}
		b, err := hex.DecodeString(l)
		if err != nil {
			harness.Fatal("c15: cref output %q: %v", l, err)
		}
		res[keys[i]] = string(b)
	}
	return res
}

// ---- parsing a format string (the check's own reading of the manual / lstrlib's scanformat) -----------

type c15Directive struct {
	text  string // "%-05.3d"
	flags string
	width string
	prec  string // "" or ".N"
	conv  byte
}

type c15FmtPiece struct {
	lit string        // literal bytes (when dir == nil)
	dir *c15Directive // a conversion that consumes one argument
}

// c15ParseFormat splits a format string into literal pieces and directives. ok=false when the
// string is outside what the check generates.
func c15ParseFormat(f string) (pieces []c15FmtPiece, ok bool) {
	i := 0
	lit := []byte{}
	flush := func() {
		if len(lit) > 0 {
			pieces = append(pieces, c15FmtPiece{lit: string(lit)})
			lit = []byte{}
		}
	}
	for i < len(f) {
		if f[i] != '%' {
			lit = append(lit, f[i])
			i++
			continue
		}
		if i+1 < len(f) && f[i+1] == '%' {
			lit = append(lit, '%')
			i += 2
			continue
		}
		st := i
		i++
		d := &c15Directive{}
		for i < len(f) && strings.IndexByte("-+ #0", f[i]) >= 0 {
			d.flags += string(f[i])
			i++
		}
		for i < len(f) && f[i] >= '0' && f[i] <= '9' {
			d.width += string(f[i])
			i++
		}
		if i < len(f) && f[i] == '.' {
			d.prec = "."
			i++
			for i < len(f) && f[i] >= '0' && f[i] <= '9' {
				d.prec += string(f[i])
				i++
			}
		}
		if i >= len(f) || strings.IndexByte("dicxXoeEfs", f[i]) < 0 || len(d.flags) > 5 || len(d.width) > 2 || len(d.prec) > 3 {
			return nil, false
		}
		d.conv = f[i]
		i++
		d.text = f[st:i]
		flush()
		pieces = append(pieces, c15FmtPiece{dir: d})
	}
	flush()
	return pieces, true
}

// c15FmtKind: how lstrlib converts the argument for a conversion.
func c15FmtKind(conv byte) byte {
	switch conv {
	case 'd', 'i':
		return 'd'
	case 'o', 'x', 'X':
		return 'u'
	case 'c':
		return 'c'
	case 'e', 'E', 'f':
		return 'f'
	}
	return 's'
}

// c15ToNumber: the value luaL_checknumber yields for the arguments the check uses (numbers, and
// decimal numeric strings).
func c15ToNumber(v c15Val) (float64, bool) {
	switch v.K {
	case 'n':
		return v.N, true
	case 's':
		f, err := strconv.ParseFloat(strings.TrimSpace(v.S), 64)
		return f, err == nil
	}
	return 0, false
}

// c15FmtInDomain: is (directive, argument) inside the judged domain? (see the assumptions)
func c15FmtInDomain(d *c15Directive, a c15Val) bool {
	kind := c15FmtKind(d.conv)
	// flags whose effect ISO C defines for the conversion
	allowed := map[byte]string{'d': "-0+ ", 'u': "-0#+ ", 'f': "-0+ #", 'c': "-", 's': "-"}[kind]
	for i := 0; i < len(d.flags); i++ {
		if strings.IndexByte(allowed, d.flags[i]) < 0 || strings.IndexByte(d.flags[:i], d.flags[i]) >= 0 {
			return false
		}
	}
	if kind == 'c' && d.prec != "" {
		return false
	}
	switch kind {
	case 'd', 'u':
		f, ok := c15ToNumber(a)
		return ok && !math.IsNaN(f) && math.Abs(f) < 9.2e18
	case 'c':
		f, ok := c15ToNumber(a)
		if !ok || math.IsNaN(f) || math.Abs(f) >= 2147483647 {
			return false
		}
		return byte(int(f)) != 0
	case 'f':
		f, ok := c15ToNumber(a)
		return ok && !math.IsNaN(f) && !math.IsInf(f, 0)
	case 's':
		return a.K == 's' && strings.IndexByte(a.S, 0) < 0
	}
	return false
}

func c15FmtKeyFor(d *c15Directive, a c15Val) c15FmtKey {
	kind := c15FmtKind(d.conv)
	if kind == 's' {
		return c15FmtKey{d.text, 's', hex.EncodeToString([]byte(a.S))}
	}
	f, _ := c15ToNumber(a)
	return c15FmtKey{d.text, kind, fmt.Sprintf("%016x", math.Float64bits(f))}
}

// c15FmtExpect composes the expected output of string.format(f, args...) from the helper's answers.
// lstrlib: a %s argument of 100 bytes or more with no precision is appended whole (no width applied).
func c15FmtExpect(pieces []c15FmtPiece, args []c15Val, ans map[c15FmtKey]string) (string, bool) {
	var b strings.Builder
	ai := 0
	for _, p := range pieces {
		if p.dir == nil {
			b.WriteString(p.lit)
			continue
		}
		if ai >= len(args) || !c15FmtInDomain(p.dir, args[ai]) {
			return "", false
		}
		a := args[ai]
		ai++
		if p.dir.conv == 's' && p.dir.prec == "" && len(a.S) >= 100 {
			b.WriteString(a.S)
			continue
		}
		e, ok := ans[c15FmtKeyFor(p.dir, a)]
		if !ok {
			return "", false
		}
		b.WriteString(e)
	}
	return b.String(), true // surplus arguments are ignored by string.format
}

// ---- enumeration ---------------------------------------------------------------------------------------

type c15FmtCase struct {
	c          c15Case
	pieces     []c15FmtPiece
	sig        string
	nontrivial bool
}

// c15GoFmtModel: what Go's fmt package prints for the same directive on the argument converted the
// obvious way (int64 / float64 / string). Used only to *name* a deviation ("the output is exactly
// Go's fmt rendering, which differs from C's here"), never as the oracle.
func c15GoFmtModel(d *c15Directive, a c15Val) (string, bool) {
	if a.K != 'n' && !(a.K == 's' && d.conv == 's') {
		return "", false
	}
	verb := d.conv
	if verb == 'i' {
		verb = 'd'
	}
	f := "%" + d.flags + d.width + d.prec + string(verb)
	switch c15FmtKind(d.conv) {
	case 'd', 'u', 'c':
		return fmt.Sprintf(f, int64(a.N)), true
	case 'f':
		return fmt.Sprintf(f, a.N), true
	}
	return fmt.Sprintf(f, a.S), true
}

// c15FmtFeature names the feature of a single-directive case that C and Go's fmt treat differently
// (first applicable one; descriptive part of the signature).
func c15FmtFeature(d *c15Directive, a c15Val) string {
	has := func(c byte) bool { return strings.IndexByte(d.flags, c) >= 0 }
	f, _ := c15ToNumber(a)
	switch c15FmtKind(d.conv) {
	case 'u':
		switch {
		case f <= -1:
			return "negative-argument"
		case has('+') || has(' '):
			return "plus-or-space-flag"
		case has('#'):
			return "alternate-form"
		}
	case 'd':
		if math.Trunc(f) == 0 && (d.prec == ".0" || d.prec == ".") && (has('+') || has(' ')) {
			return "zero-with-precision-0-and-sign-flag"
		}
	case 'c':
		if f < 0 || f >= 128 {
			return "argument-outside-0..127"
		}
	case 's':
		if c15HighBytes(a.S) && (d.width != "" || d.prec != "") {
			return "width-or-precision-on-non-ascii"
		}
	}
	return "other"
}

func c15Subsets(flags string) []string {
	out := []string{}
	for m := 0; m < 1<<len(flags); m++ {
		s := ""
		for i := 0; i < len(flags); i++ {
			if m&(1<<i) != 0 {
				s += string(flags[i])
			}
		}
		out = append(out, s)
	}
	return out
}

func c15FlagName(flags string) string {
	if flags == "" {
		return "none"
	}
	return strings.ReplaceAll(flags, " ", "_")
}

func c15FmtArgClass(kind byte, a c15Val) string {
	if kind == 's' {
		s := a.S
		switch {
		case s == "":
			return "empty"
		case len(s) >= 100:
			return "len>=100"
		case !c15HighBytes(s):
			return "ascii"
		case strings.ToValidUTF8(s, "") == s:
			return "utf8"
		}
		return "non-utf8"
	}
	cls := ""
	if a.K == 's' {
		cls = "numstr:"
	}
	f, _ := c15ToNumber(a)
	if kind == 'c' {
		if f >= 1 && f < 128 {
			return cls + "ascii"
		}
		return cls + "byte>=128"
	}
	switch {
	case f == 0:
		return cls + "0"
	case f == math.Trunc(f) && f > 0:
		return cls + "+int"
	case f == math.Trunc(f):
		return cls + "-int"
	case f > 0:
		return cls + "+frac"
	}
	return cls + "-frac"
}

func c15FmtSig(d *c15Directive, a c15Val) string {
	p := "none"
	if d.prec == ".0" || d.prec == "." {
		p = "0"
	} else if d.prec != "" {
		p = "n"
	}
	w := "n"
	if d.width != "" {
		w = "y"
	}
	return fmt.Sprintf("fmt/%%%c/arg=%s/flags=%s/w=%s/p=%s", d.conv, c15FmtArgClass(c15FmtKind(d.conv), a), c15FlagName(d.flags), w, p)
}

func (x *c15Ctx) runFormat() {
	r := x.r
	widths := []string{"", "1", "5", "12"}
	precs := []string{"", ".0", ".1", ".3", ".10"}
	p31, p53 := math.Ldexp(1, 31), math.Ldexp(1, 53)
	nums := []c15Val{c15N(0), c15N(1), c15N(-1), c15N(7), c15N(255), c15N(256), c15N(-255), c15N(p31), c15N(p53), c15N(0.5), c15N(-0.5), c15N(1.5), c15N(2.5),
		c15N(3.14159), c15N(1e10), c15N(1e-5), c15N(1e100), c15S("10")}
	chars := []c15Val{c15N(1), c15N(7), c15N(65), c15N(97), c15N(127), c15N(128), c15N(200), c15N(255), c15N(-1), c15N(-255), c15N(65.5), c15S("66")}
	long := strings.Repeat("0123456789", 12)
	strs := []c15Val{c15S(""), c15S("ab"), c15S("hello world!!"), c15S("h\xc3\xa9"), c15S("\xe9\xff"), c15S(long)}
	if r.Thorough() {
		widths = []string{"", "0", "1", "2", "5", "12", "20", "99"}
		precs = []string{"", ".", ".0", ".1", ".2", ".3", ".6", ".10", ".17", ".40"}
		nums = append(nums, c15N(-7), c15N(10), c15N(100), c15N(123456789), c15N(-p31), c15N(-p53), c15N(math.Ldexp(1, 62)), c15N(-math.Ldexp(1, 63)), c15N(4294967295), c15N(0.1), c15N(-1.5), c15N(-2.5), c15N(3.5),
			c15N(0.05), c15N(0.15), c15N(0.25), c15N(1e15), c15N(1e16), c15N(1e-10), c15N(1e300), c15N(5e-324), c15N(-1e10), c15N(9.999999), c15N(99.5), c15N(math.Copysign(0, -1)), c15N(123456.789), c15S("-3"), c15S("0x10"), c15S("2.5"), c15S(" 7 "))
		for b := 1; b < 256; b++ {
			chars = append(chars, c15N(float64(b)))
		}
		chars = append(chars, c15N(-128), c15N(511), c15N(-1.5))
		strs = append(strs, c15S("x"), c15S("\xff"), c15S("\xce\xb1\xce\xb2\xce\xb3"), c15S(strings.Repeat("z", 99)), c15S(strings.Repeat("z", 100)), c15S(strings.Repeat("\xc3\xa9", 60)))
	}

	var cases []c15FmtCase
	add := func(f string, args []c15Val, sig string, nontrivial bool) {
		pieces, ok := c15ParseFormat(f)
		if !ok {
			harness.Fatal("c15: generated format %q does not parse", f)
		}
		ai := 0
		for _, p := range pieces {
			if p.dir != nil {
				if ai >= len(args) || !c15FmtInDomain(p.dir, args[ai]) {
					r.Count("format_cases_outside_domain_skipped", 1)
					return
				}
				ai++
			}
		}
		c := c15Case{Lib: "string", Fn: "format", Args: append([]c15Val{c15S(f)}, args...)}
		cases = append(cases, c15FmtCase{c: c, pieces: pieces, sig: sig, nontrivial: nontrivial})
	}

	// family 1: one directive, one argument
	type convSpec struct {
		conv  byte
		flags string
		args  []c15Val
		prec  bool
	}
	specs := []convSpec{
		{'d', "-0+ ", nums, true}, {'i', "-0+ ", nums, true},
		{'x', "-0#+ ", nums, true}, {'X', "-0#+ ", nums, true}, {'o', "-0#+ ", nums, true},
		{'e', "-0+ #", nums, true}, {'E', "-0+ #", nums, true}, {'f', "-0+ #", nums, true},
		{'c', "-", chars, false}, {'s', "-", strs, true},
	}
	ndirs := 0
	for _, sp := range specs {
		ps := precs
		if !sp.prec {
			ps = []string{""}
		}
		for _, fl := range c15Subsets(sp.flags) {
			for _, w := range widths {
				if w == "0" && fl != "" {
					continue // "%-0d": the 0 would read as a flag
				}
				if w == "0" {
					continue
				}
				for _, p := range ps {
					dir := "%" + fl + w + p + string(sp.conv)
					d, ok := c15ParseFormat(dir)
					if !ok || len(d) != 1 || d[0].dir == nil || d[0].dir.flags != fl || d[0].dir.width != w {
						harness.Fatal("c15: directive %q does not parse back", dir)
					}
					ndirs++
					for _, a := range sp.args {
						add(dir, []c15Val{a}, c15FmtSig(d[0].dir, a), fl != "" || w != "" || p != "" || a.K == 's' && sp.conv != 's' || a.K == 'n' && a.N != math.Trunc(a.N))
					}
				}
			}
		}
	}
	// family 2: flag order permutations of two flags (C and Lua accept any order)
	for _, sp := range specs {
		for i := 0; i < len(sp.flags); i++ {
			for j := 0; j < len(sp.flags); j++ {
				if i == j || i < j {
					continue // i>j: the reverse of the canonical order used above
				}
				dir := "%" + string(sp.flags[i]) + string(sp.flags[j]) + "8" + string(sp.conv)
				d, _ := c15ParseFormat(dir)
				for _, a := range sp.args {
					add(dir, []c15Val{a}, c15FmtSig(d[0].dir, a)+"/reversed-flag-order", true)
				}
			}
		}
	}
	// family 3: directives in context — literal text, %%, several directives, surplus arguments
	ctxArgs := map[byte][]c15Val{'d': {c15N(42), c15N(-7)}, 'i': {c15N(42)}, 'x': {c15N(255)}, 'X': {c15N(255)}, 'o': {c15N(8)}, 'e': {c15N(1.5)}, 'E': {c15N(1.5)}, 'f': {c15N(-2.25)}, 'c': {c15N(65)}, 's': {c15S("str")}}
	for _, conv := range []byte("dixXoeEfcs") {
		dir := "%" + string(conv)
		dir5 := "%5" + string(conv)
		for _, a := range ctxArgs[conv] {
			for _, f := range []string{"ab" + dir + "cd", "%%" + dir, dir + "%%", "%%" + dir + "%%", "a%%" + dir5 + "%%b", dir + "\n" + "\x00\xff" + dir5} {
				pieces, _ := c15ParseFormat(f)
				nd := 0
				for _, p := range pieces {
					if p.dir != nil {
						nd++
					}
				}
				args := []c15Val{}
				for k := 0; k < nd; k++ {
					args = append(args, a)
				}
				add(f, args, fmt.Sprintf("fmt/context/%%%c", conv), true)
			}
			// surplus arguments are ignored
			add(dir, []c15Val{a, c15N(1)}, "fmt/surplus-args/format-without-%%", true)
			add(dir+"%%", []c15Val{a, c15N(1)}, "fmt/surplus-args/format-with-%%", true)
			for _, conv2 := range []byte("dxfs") {
				a2 := ctxArgs[conv2][0]
				add(dir+"|%3"+string(conv2), []c15Val{a, a2}, fmt.Sprintf("fmt/two-directives/%%%c%%%c", conv, conv2), true)
			}
		}
	}
	for _, f := range []string{"", "plain text", "%%", "%%%%", "a%%b", "100%%\n", "\x00%%\xff"} {
		add(f, nil, "fmt/no-directive", strings.Contains(f, "%"))
		ss := "fmt/surplus-args/format-without-%%"
		if strings.Contains(f, "%%") {
			ss = "fmt/surplus-args/format-with-%%"
		}
		add(f, []c15Val{c15N(1)}, ss, true)
		add(f, []c15Val{c15S("x"), c15N(2)}, ss, true)
	}

	// every byte through %c and %s (single-byte strings; byte 0 is outside the domain)
	for b := 1; b < 256; b++ {
		d, _ := c15ParseFormat("%c")
		add("%c", []c15Val{c15N(float64(b))}, c15FmtSig(d[0].dir, c15N(float64(b)))+"/every-byte", b >= 128)
		s := c15S(string([]byte{byte(b)}))
		d, _ = c15ParseFormat("%s")
		add("%s", []c15Val{s}, c15FmtSig(d[0].dir, s)+"/every-byte", b >= 128)
		d, _ = c15ParseFormat("%3s")
		add("%3s", []c15Val{s}, c15FmtSig(d[0].dir, s)+"/every-byte", true)
	}

	// one run of the libc helper for all distinct (directive, kind, argument)
	keySet := map[c15FmtKey]struct{}{}
	for _, fc := range cases {
		ai := 1
		for _, p := range fc.pieces {
			if p.dir != nil {
				keySet[c15FmtKeyFor(p.dir, fc.c.Args[ai])] = struct{}{}
				ai++
			}
		}
	}
	keys := make([]c15FmtKey, 0, len(keySet))
	for k := range keySet {
		keys = append(keys, k)
	}
	sort.Slice(keys, func(i, j int) bool { return keys[i].line() < keys[j].line() })
	ans := c15CrefEval(keys)
	r.Extra["format_directives"] = ndirs
	r.Extra["format_cases"] = len(cases)
	r.Extra["format_libc_evaluations"] = len(keys)

	for _, k := range []int{0, len(cases) / 5, 2 * len(cases) / 5, 3 * len(cases) / 5, 4 * len(cases) / 5, len(cases) - 1} {
		if k >= 0 && k < len(cases) {
			exp, _ := c15FmtExpect(cases[k].pieces, cases[k].c.Args[1:], ans)
			r.AddSample(cases[k].c.String() + " = " + strconv.Quote(exp) + " (libc)")
		}
	}
	const chunk = 512
	nch := (len(cases) + chunk - 1) / chunk
	var expired sync.Once
	harness.ParallelShards(nch, func(wi, shard int) {
		if r.Expired() {
			expired.Do(func() { r.NotExhaustive("deadline reached inside the format family") })
			return
		}
		w := x.workers[wi]
		for k := shard * chunk; k < (shard+1)*chunk && k < len(cases); k++ {
			fc := &cases[k]
			exp, ok := c15FmtExpect(fc.pieces, fc.c.Args[1:], ans)
			if !ok {
				harness.Fatal("c15: no libc answer for %s", fc.c.String())
			}
			x.judgeFormat(w, fc.sig, fc.c, fc.pieces, exp)
			r.Eval(fc.c.key(), fc.nontrivial, func() interface{} { return fc.c.String() + " = " + strconv.Quote(exp) })
		}
	})
}

func (x *c15Ctx) judgeFormat(w *c15Worker, sig string, c c15Case, pieces []c15FmtPiece, exp string) {
	got, err, mutated := w.exec(c)
	if mutated {
		x.viol(sig+"/argument-modified", c, "argument strings unchanged by the call", "a string argument has different bytes after the call", "")
	}
	if err == nil && len(got) == 1 && got[0].K == 's' && got[0].S == exp {
		return
	}
	// a single directive with a single argument: name two classes of deviation precisely
	if err == nil && len(got) == 1 && got[0].K == 's' && len(pieces) == 1 && pieces[0].dir != nil && len(c.Args) == 2 {
		d, a := pieces[0].dir, c.Args[1]
		if a.K == 's' && d.conv != 's' {
			cls := "other-output"
			if strings.Contains(got[0].S, "%!") {
				cls = "go-fmt-error-text"
			}
			x.viol(fmt.Sprintf("fmt/numeric-string-argument/%%%c/%s", d.conv, cls), c, strconv.Quote(exp), c15List(got), "the argument is a string convertible to a number (luaL_checknumber converts it)")
			return
		}
		if m, ok := c15GoFmtModel(d, a); ok && m == got[0].S {
			x.viol(fmt.Sprintf("fmt/go-fmt-semantics/%%%c/%s", d.conv, c15FmtFeature(d, a)), c, strconv.Quote(exp), c15List(got), "the output is exactly what Go's fmt package prints for this directive; C printf differs")
			return
		}
	}
	class := "wrong-result"
	g := c15List(got)
	switch {
	case err != nil:
		class = c15GotClass(nil, nil, err)
		g = "error: " + err.Error()
	case len(got) == 1 && got[0].K == 's':
		s := got[0].S
		switch {
		case strings.Contains(s, "%!"):
			class = "go-fmt-error-text"
		case len(s) > len(exp):
			class = "longer"
		case len(s) < len(exp):
			class = "shorter"
		default:
			class = "same-length"
		}
	}
	x.viol(sig+"/"+class, c, strconv.Quote(exp), g, "expected = libc snprintf on the argument converted as lstrlib.c does")
}

// c15ReplayFormat recomputes the expectation of one stored format case (runs the helper for it).
func c15ReplayFormat(c c15Case, got []c15Val, err error) (string, bool, bool) {
	pieces, ok := c15ParseFormat(c.Args[0].S)
	if !ok {
		return "", false, true
	}
	var keys []c15FmtKey
	ai := 1
	for _, p := range pieces {
		if p.dir != nil {
			if ai >= len(c.Args) || !c15FmtInDomain(p.dir, c.Args[ai]) {
				return "", false, true
			}
			keys = append(keys, c15FmtKeyFor(p.dir, c.Args[ai]))
			ai++
		}
	}
	ans := c15CrefEval(keys)
	exp, ok := c15FmtExpect(pieces, c.Args[1:], ans)
	if !ok {
		return "", false, true
	}
	return strconv.Quote(exp), true, err == nil && len(got) == 1 && got[0].K == 's' && got[0].S == exp
}
