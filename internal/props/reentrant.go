package props

// Re-entrancy product (shared by C04, C05, C06, C08, C14, C18, C19).
//
// Every library function and VM operation that runs a caller-supplied function in the middle of
// its own work (gsub with a function or an indexed table, gmatch loops, the sort comparator,
// pcall/xpcall bodies and handlers, metamethod handlers, coroutine generators, load with a reader
// function, io.lines loops) is wrapped as a *combinator* C_k: it takes a string function w and
// returns a string function that splits its argument, calls w on the pieces from inside the
// callbacks and assembles a result. The family enumerates every term C_a(C_b(...(W0))) up to a
// nesting depth, so each operation is re-entered from inside each other one (and from inside
// itself) on other data.
//
// Oracle (differential, no expected values): for the term outer(inner)
//   1. run outer(rec(inner))(x): rec logs every (argument, result) of inner as it is called inside
//      outer's callbacks (and demands equal results for equal arguments);
//   2. call inner again on every logged argument at top level: same results (what a function
//      computes must not depend on whose callback it runs in);
//   3. run outer(lookup-in-log)(x): same final result (outer's own work must not be disturbed by
//      work done in its callbacks).
// All three run on one reused state, so scratch data parked in the state by one call and picked up
// by a later one shows as well.

import (
	"fmt"
	"os"
	"strings"
	"sync/atomic"

	lua "github.com/yuin/gopher-lua"

	"verif/internal/harness"
)

const reentrantLua = `
local TMP = ...
local fileno = 0
local function words(x) local t = {} for p in x:gmatch("%w+") do t[#t + 1] = p end return t end
-- a piece handed to the nested function is widened to three words again, so that the nested
-- operation has real work to do (several matches, a sort with comparisons, several lines)
local function ex(p) return p .. " " .. p:reverse() .. " z" .. #p end
local C = {}
C["gsub-fn"] = function(w) return function(x) return (x:gsub("%w+", function(p) return w(ex(p)) end)) end end
C["gsub-tbl"] = function(w) return function(x) return (x:gsub("%w+", setmetatable({}, {__index = function(_, p) return w(ex(p)) end}))) end end
C["gsub-capt"] = function(w) return function(x) return (x:gsub("(%w)(%w*)", function(a, b) return w(ex(a .. b)) .. "." .. b end, 3)) end end
C["gmatch"] = function(w) return function(x) local out = {} for p in x:gmatch("%w+") do out[#out + 1] = w(ex(p)) end return table.concat(out, ",") end end
C["sort"] = function(w) return function(x) local t = words(x) table.sort(t, function(a, b) return w(ex(a)) < w(ex(b)) end) return table.concat(t, " ") end end
C["tostring"] = function(w) return function(x) return tostring(setmetatable({}, {__tostring = function() return w(x) end})) end end
C["concat-meta"] = function(w) return function(x)
  local mt = {}
  mt.__concat = function(a, b) return w(ex(type(a) == "table" and a.v or a)) .. "+" .. w(ex(type(b) == "table" and b.v or b)) end
  local t = words(x)
  return setmetatable({v = t[1] or ""}, mt) .. setmetatable({v = t[#t] or ""}, mt)
end end
C["index-meta"] = function(w) return function(x) return setmetatable({}, {__index = function(_, k) return w(k) end})[x] end end
C["newindex-meta"] = function(w) return function(x)
  local got = {}
  local t = setmetatable({}, {__newindex = function(_, k, v) got[#got + 1] = w(ex(k)) .. "=" .. v end})
  for i, p in ipairs(words(x)) do t[p] = i end
  return table.concat(got, ";")
end end
C["call-meta"] = function(w) return function(x) return setmetatable({}, {__call = function(self, a, b) return w(a) .. "/" .. b end})(x, #x) end end
C["lt-meta"] = function(w) return function(x)
  local mt = {}
  mt.__lt = function(a, b) return w(ex(a.v)) < w(ex(b.v)) end
  local t = words(x)
  local a, b = setmetatable({v = t[1] or ""}, mt), setmetatable({v = t[#t] or ""}, mt)
  return tostring(a < b) .. " " .. tostring(b < a) .. " " .. tostring(a > b)
end end
C["add-meta"] = function(w) return function(x)
  local mt = {}
  mt.__add = function(a, b) return w(ex(type(a) == "table" and a.v or tostring(a))) .. "&" .. w(ex(type(b) == "table" and b.v or tostring(b))) end
  local t = words(x)
  return (setmetatable({v = t[1] or ""}, mt) + 1) .. " " .. (2 + setmetatable({v = t[#t] or ""}, mt))
end end
C["pcall-error"] = function(w) return function(x) local ok, e = pcall(function() error(w(x), 0) end) return tostring(ok) .. " " .. tostring(e) end end
C["xpcall-handler"] = function(w) return function(x) local ok, e = xpcall(function() error(x, 0) end, function(m) return w(m) end) return tostring(ok) .. " " .. tostring(e) end end
C["wrap-gen"] = function(w) return function(x)
  local out = {}
  for v in coroutine.wrap(function() for q in x:gmatch("%w+") do coroutine.yield(w(ex(q))) end end) do out[#out + 1] = v end
  return table.concat(out, "|")
end end
C["load-reader"] = function(w) return function(x)
  local i = 0
  local f = assert(load(function() i = i + 1 if i == 1 then return "return " elseif i == 2 then return string.format("%q", w(x)) end return nil end))
  return f()
end end
C["iolines"] = function(w) return function(x)
  fileno = fileno + 1
  local path = TMP .. "/f" .. fileno
  local f = assert(io.open(path, "w")) f:write((x:gsub("%s+", "\n"))) f:close()
  local out = {}
  for l in io.lines(path) do out[#out + 1] = w(ex(l)) end
  os.remove(path)
  return table.concat(out, "~")
end end
local function W0(p) return p:upper() .. " " .. #p end

-- check(x, k1, k2, ...): the term C[k1](C[k2](...(W0))); returns "" or a description of the first difference
return function(x, ...)
  local names = {...}
  local inner = W0
  for i = #names, 2, -1 do inner = C[names[i]](inner) end
  local log, order, problem = {}, {}, nil
  local function rec(a)
    local r = inner(a)
    if type(r) ~= "string" then problem = problem or ("inner returned a " .. type(r) .. " for " .. string.format("%q", tostring(a))) r = tostring(r) end
    if log[a] ~= nil and log[a] ~= r then problem = problem or ("inner gave two results for " .. string.format("%q", a) .. " inside the callbacks: " .. string.format("%q and %q", log[a], r)) end
    if log[a] == nil then order[#order + 1] = a end
    log[a] = r
    return r
  end
  local outer = C[names[1]]
  local r1 = outer(rec)(x)
  if problem then return problem end
  for _, a in ipairs(order) do
    local r = inner(a)
    if r ~= log[a] then return "inner(" .. string.format("%q", a) .. ") gave " .. string.format("%q", log[a]) .. " inside the callback of " .. names[1] .. " and " .. string.format("%q", tostring(r)) .. " at top level" end
  end
  local missing
  local r3 = outer(function(a) local v = log[a] if v == nil then missing = missing or a v = "" end return v end)(x)
  if missing then return "the callback of " .. names[1] .. " was called with " .. string.format("%q", missing) .. " only when it does no work" end
  if r1 ~= r3 then return names[1] .. " returned " .. string.format("%q", tostring(r1)) .. " with working callbacks and " .. string.format("%q", tostring(r3)) .. " with callbacks that only look the same values up" end
  return ""
end
`

var reentrantAll = []string{"gsub-fn", "gsub-tbl", "gsub-capt", "gmatch", "sort", "tostring", "concat-meta", "index-meta", "newindex-meta", "call-meta", "lt-meta", "add-meta",
	"pcall-error", "xpcall-handler", "wrap-gen", "load-reader", "iolines"}

var reentrantOwn = map[string][]string{
	"C14": {"gsub-fn", "gsub-tbl", "gsub-capt", "gmatch"},
	"C18": {"sort"},
	"C04": {"tostring", "concat-meta", "index-meta", "newindex-meta", "call-meta", "lt-meta", "add-meta"},
	"C05": {"pcall-error", "xpcall-handler"},
	"C06": {"wrap-gen"},
	"C08": {"load-reader"},
	"C19": {"iolines"},
}

// reentrantFamily runs every term up to the depth that contains at least one of the property's own
// combinators, on each input.
func reentrantFamily(r *harness.Run, prop string) {
	own := map[string]bool{}
	for _, k := range reentrantOwn[prop] {
		own[k] = true
	}
	depth := 3
	if r.Thorough() {
		depth = 4
	}
	if d := envInt("VERIF_REENTRANT_DEPTH"); d > 0 {
		depth = d
	}
	inputs := []string{"b3 a1 c2", "dd a dd bb", ""}
	var terms [][]string
	var walk func(t []string, has bool)
	walk = func(t []string, has bool) {
		if len(t) >= 2 && has {
			terms = append(terms, append([]string{}, t...))
		}
		if len(t) == depth {
			return
		}
		for _, k := range reentrantAll {
			walk(append(t, k), has || own[k])
		}
	}
	walk(nil, false)
	dir := harness.WorkDir("reentrant-" + prop)
	defer os.RemoveAll(dir)
	nw := harness.Workers()
	type worker struct {
		L  *lua.LState
		fn lua.LValue
	}
	ws := make([]*worker, nw)
	mk := func(wi int) *worker {
		L := lua.NewState()
		f, err := L.LoadString(reentrantLua)
		if err != nil {
			// the script is valid Lua 5.1 (it loads on every tree the property holds on): a loader that
			// refuses it is the defect
			r.Violation("reentrant/valid-script-rejected", "the loader refuses the (valid) script of the re-entrancy product: "+firstLine(err.Error()), map[string]interface{}{"script": reentrantLua})
			L.Close()
			return nil
		}
		wd := fmt.Sprintf("%s/w%d", dir, wi)
		os.MkdirAll(wd, 0o755)
		L.Push(f)
		L.Push(lua.LString(wd))
		L.Call(1, 1)
		w := &worker{L: L, fn: L.Get(-1)}
		L.Pop(1)
		return w
	}
	runTerm := func(w *worker, t []string, x string) string {
		L := w.L
		top := L.GetTop()
		defer L.SetTop(top)
		args := []lua.LValue{lua.LString(x)}
		for _, k := range t {
			args = append(args, lua.LString(k))
		}
		if err := L.CallByParam(lua.P{Fn: w.fn, NRet: 1, Protect: true}, args...); err != nil {
			return "raised: " + firstLine(err.Error())
		}
		return L.Get(-1).String()
	}
	var runs int64
	harness.ParallelShards(len(terms), func(wi, ti int) {
		if r.Expired() {
			r.NotExhaustive("deadline reached in the re-entrancy product")
			return
		}
		if ws[wi] == nil {
			if ws[wi] = mk(wi); ws[wi] == nil {
				return
			}
		}
		t := terms[ti]
		for _, x := range inputs {
			atomic.AddInt64(&runs, 1)
			msg := runTerm(ws[wi], t, x)
			r.Eval("reentrant/"+strings.Join(t[:2], "("), true, func() interface{} {
				return map[string]interface{}{"case": "re-entrancy term", "term": strings.Join(t, "(") + "(W0" + strings.Repeat(")", len(t)), "input": x}
			})
			if msg == "" {
				continue
			}
			// does it need the history of the reused state?
			alone := "(no fresh state)"
			if fresh := mk(nw + wi); fresh != nil {
				alone = runTerm(fresh, t, x)
				fresh.L.Close()
			}
			r.Violation("reentrant/"+strings.Join(t, "/"), fmt.Sprintf("term %s(W0%s on input %q: %s\n(on a fresh state: %q)", strings.Join(t, "("), strings.Repeat(")", len(t)), x, msg, alone),
				map[string]interface{}{"term": t, "input": x, "script": reentrantLua, "fresh_state_result": alone})
			// the state may hold damaged scratch data now: replace it
			ws[wi].L.Close()
			if ws[wi] = mk(wi); ws[wi] == nil {
				return
			}
		}
	})
	for _, w := range ws {
		if w != nil {
			w.L.Close()
		}
	}
	r.Count("reentrant_terms", int64(len(terms)))
	r.Count("reentrant_runs", runs)
	r.Extra["reentrant_depth"] = depth
}
