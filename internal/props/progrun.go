package props

// Shared driver for the program-enumeration checks (C01–C06, C17): every generated program is
// rendered to text, run on gopher-lua and on the reference interpreter, and the traces compared.

import (
	"fmt"
	"os"
	"strings"

	lua "github.com/yuin/gopher-lua"

	"verif/internal/glrun"
	"verif/internal/harness"
	"verif/internal/luaref"
)

// Prog is one generated program.
type Prog struct {
	Family string        // generator family (part of the violation signature)
	Shape  string        // specific shape class inside the family (part of the violation signature)
	Chunk  *luaref.Block // the term (built lazily by Mk when nil)
	Mk     func() *luaref.Block
	Layout luaref.Layout
	Fresh  bool // must run on a fresh state (changes process-wide interpreter state)
	// Trivial marks programs whose reference trace is trivial by the family's rule
	Trivial bool
	// ExpectReject (non-empty: the class of the defect in the program) marks a program the loader
	// must refuse with a syntax error; the model is not run
	ExpectReject string
}

// Gen enumerates programs deterministically, simplest first.
type Gen func(yield func(p *Prog))

type progRunner struct {
	r         *harness.Run
	prop      string
	setupM    func(in *luaref.Interp)
	extraI    func(m *glrun.Impl)
	opts      lua.Options
	sigPrefix string                                                                       // prepended to violation signatures (families run under several configurations)
	perProg   func(w *progWorker, p *Prog, src string, mo glrun.MOutcome, o glrun.Outcome) // extra oracle, optional
}

type progWorker struct {
	impl *glrun.Impl
}

func programText(p *Prog) string { return luaref.Print(p.Chunk, p.Layout) }

// runGens runs all generators, sharded over the workers.
func (pr *progRunner) runGens(gens map[string]Gen, order []string) {
	r := pr.r
	nw := harness.Workers()
	harness.ParallelShards(nw, func(worker, shard int) {
		w := &progWorker{impl: glrun.NewImpl(pr.opts, pr.extraI)}
		w.impl.ShrinkRegistry = pr.opts.RegistryMaxSize > pr.opts.RegistrySize
		defer w.impl.Close()
		for _, name := range order {
			if f := os.Getenv("VERIF_FAMILIES"); f != "" && !strings.Contains(","+f+",", ","+name+",") {
				continue
			}
			gen := gens[name]
			i := 0
			stop := false
			gen(func(p *Prog) {
				if stop {
					return
				}
				i++
				if i%nw != shard {
					return
				}
				if i%256 == shard && r.Expired() {
					stop = true
					r.NotExhaustive("deadline reached inside family " + name)
					return
				}
				pr.one(w, p)
			})
		}
	})
}

func (pr *progRunner) one(w *progWorker, p *Prog) {
	r := pr.r
	if p.Chunk == nil {
		p.Chunk = p.Mk()
		if p.Chunk == nil {
			return // the generator decided (lazily) that this member is outside the family
		}
	}
	src := programText(p)
	if p.ExpectReject != "" {
		o := w.impl.Run(src, 100000)
		r.Eval(src, !p.Trivial, func() interface{} {
			return map[string]interface{}{"family": p.Family, "shape": p.Shape, "program": src, "must_be_rejected_because": p.ExpectReject}
		})
		r.Count("programs/"+p.Family, 1)
		r.Count("programs/"+p.Family+"/invalid", 1)
		switch {
		case !o.Failed || o.ErrKind == "run" || o.ErrKind == "budget":
			r.Violation(pr.sigPrefix+p.Family+"/"+p.Shape+"/invalid-program-accepted", "the program is invalid ("+p.ExpectReject+") but was loaded and run: failed="+fmt.Sprint(o.Failed)+" "+o.ErrText+"\nprogram:\n"+src, map[string]interface{}{"family": p.Family, "shape": p.Shape, "program": src})
		case o.ErrKind != "syntax":
			r.Violation(pr.sigPrefix+p.Family+"/"+p.Shape+"/load-failed-with-"+o.ErrKind, "the loader must refuse the invalid program ("+p.ExpectReject+") with a syntax error, got "+o.ErrKind+": "+o.ErrText+"\nprogram:\n"+src, map[string]interface{}{"family": p.Family, "shape": p.Shape, "program": src})
		}
		return
	}
	mo := glrun.RunModel(p.Chunk, pr.setupM)
	if mo.Indeterminate != "" {
		r.Count("indeterminate", 1)
		r.Count("indeterminate/"+firstWords(mo.Indeterminate, 2), 1)
		return
	}
	if p.Fresh {
		w.impl.Fresh()
	}
	budget := int64(mo.Steps)*100 + 20000
	o := w.impl.Run(src, budget)
	class, diff := glrun.Compare(mo, o)
	nontrivial := !p.Trivial && (len(mo.Events) > 0 || len(mo.Results) > 0 || mo.Failed)
	r.Eval(src, nontrivial, func() interface{} {
		return map[string]interface{}{"family": p.Family, "shape": p.Shape, "program": src}
	})
	r.Count("programs/"+p.Family, 1)
	if class != "" {
		// confirm on a fresh state, twice
		f1 := glrun.NewImpl(pr.opts, pr.extraI)
		o1 := f1.Run(src, budget)
		f1.Close()
		f2 := glrun.NewImpl(pr.opts, pr.extraI)
		o2 := f2.Run(src, budget)
		f2.Close()
		c1, d1 := glrun.Compare(mo, o1)
		c2, _ := glrun.Compare(mo, o2)
		switch {
		case c1 != "" && c1 == c2:
			r.Violation(pr.sigPrefix+p.Family+"/"+p.Shape+"/"+c1, d1+"\nprogram:\n"+src, map[string]interface{}{"family": p.Family, "shape": p.Shape, "program": src, "difference": d1})
		case c1 == "" && c2 == "":
			r.Violation(pr.sigPrefix+p.Family+"/"+p.Shape+"/history-dependent/"+class, "differs only on a reused interpreter state (after earlier programs): "+diff+"\nprogram:\n"+src, map[string]interface{}{"family": p.Family, "shape": p.Shape, "program": src, "difference": diff, "note": "reproduces only after earlier programs ran on the same LState"})
		default:
			harness.Fatal("nondeterministic outcome for program:\n%s\nfirst: %s %s\nfresh1: %s\nfresh2: %s", src, class, diff, c1, c2)
		}
		return
	}
	if pr.perProg != nil {
		pr.perProg(w, p, src, mo, o)
	}
}

func firstWords(s string, n int) string {
	f := strings.Fields(s)
	if len(f) > n {
		f = f[:n]
	}
	return strings.Join(f, " ")
}

// replayProgram re-runs a stored program text against a stored expectation is not possible without
// the term; replays of program checks therefore re-run the program text on a fresh state and print
// its trace next to the recorded difference.
func replayProgramText(src string) string {
	m := glrun.NewImpl(lua.Options{}, nil)
	defer m.Close()
	o := m.Run(src, 0)
	var b strings.Builder
	for _, e := range o.Events {
		fmt.Fprintf(&b, "%s(%s)\n", e.Kind, strings.Join(e.Args, ", "))
	}
	fmt.Fprintf(&b, "failed=%v kind=%s err=%s results=(%s)\n", o.Failed, o.ErrKind, o.ErrText, strings.Join(o.Results, ", "))
	return b.String()
}

func getenv(k string) string { return os.Getenv(k) }
