package props

// C16, family 3: numeral spellings through the number readers.
//
// Reference (written from the Lua 5.1 manual §2.1/§5.1 and lobject.c luaO_str2d = strtod, then
// strtoul(…,16) when strtod stops at 'x', trailing isspace allowed; lbaselib.c luaB_tonumber;
// llex.c read_numeral), restricted to what the property statement fixes:
//   numeral  := blanks* body blanks*                        blanks = SP TAB LF
//   body     := decimal | hex
//   decimal  := (D+ ['.' D*] | '.' D+) [ (e|E) [+|-] D+ ]
//   hex      := 0 (x|X) H+
// String readers (tonumber, arithmetic coercion) additionally accept '-' decimal. Everything else
// is rejected, except the spellings listed under "unjudged" in c16NumRefOf, where ISO C and the
// statement disagree or say nothing.

import (
	"fmt"
	"math"
	"sort"
	"strconv"
	"strings"
	"sync"

	lua "github.com/yuin/gopher-lua"

	"verif/internal/harness"
)

var c16NumAlpha = []byte("019.eExXaf+-_ \t\n")

const (
	c16Reject   = 0
	c16Accept   = 1
	c16Unjudged = 2
)

type c16Exp struct {
	cls int
	v   float64
	why string // unjudged: reason
}

const (
	c16BodyOther = iota
	c16BodyDec
	c16BodyHex
	c16BodyHexFloat
	c16BodyInfNan
)

type c16NumRef struct {
	whole  string
	core   string
	sign   byte
	body   string
	kind   int
	val    float64 // value of body (unsigned) for Dec / Hex
	str    c16Exp  // tonumber(s), tonumber(s,10), s+0, 0+s, -s
	lexTok bool    // PUC's lexer would take core as exactly one numeral token
	lex    c16Exp
}

func c16IsD(c byte) bool { return c >= '0' && c <= '9' }
func c16IsH(c byte) bool {
	return c >= '0' && c <= '9' || c >= 'a' && c <= 'f' || c >= 'A' && c <= 'F'
}
func c16IsAlnum(c byte) bool {
	return c >= '0' && c <= '9' || c >= 'a' && c <= 'z' || c >= 'A' && c <= 'Z'
}

// c16IsDec: the decimal subject sequence of ISO C strtod, whole string.
func c16IsDec(b string) bool {
	i, n, nd := 0, len(b), 0
	for i < n && c16IsD(b[i]) {
		i++
		nd++
	}
	if i < n && b[i] == '.' {
		i++
		for i < n && c16IsD(b[i]) {
			i++
			nd++
		}
	}
	if nd == 0 {
		return false
	}
	if i < n && (b[i] == 'e' || b[i] == 'E') {
		i++
		if i < n && (b[i] == '+' || b[i] == '-') {
			i++
		}
		ne := 0
		for i < n && c16IsD(b[i]) {
			i++
			ne++
		}
		if ne == 0 {
			return false
		}
	}
	return i == n
}

func c16IsHex(b string) bool {
	if len(b) < 3 || b[0] != '0' || (b[1] != 'x' && b[1] != 'X') {
		return false
	}
	for i := 2; i < len(b); i++ {
		if !c16IsH(b[i]) {
			return false
		}
	}
	return true
}

// c16IsHexFloat: C99 strtod hexadecimal form (0x, hex digits with optional radix point, optional
// binary exponent), whole string; plain hex integers also match.
func c16IsHexFloat(b string) bool {
	if len(b) < 3 || b[0] != '0' || (b[1] != 'x' && b[1] != 'X') {
		return false
	}
	i, n, nd := 2, len(b), 0
	for i < n && c16IsH(b[i]) {
		i++
		nd++
	}
	if i < n && b[i] == '.' {
		i++
		for i < n && c16IsH(b[i]) {
			i++
			nd++
		}
	}
	if nd == 0 {
		return false
	}
	if i < n && (b[i] == 'p' || b[i] == 'P') {
		i++
		if i < n && (b[i] == '+' || b[i] == '-') {
			i++
		}
		ne := 0
		for i < n && c16IsD(b[i]) {
			i++
			ne++
		}
		if ne == 0 {
			return false
		}
	}
	return i == n
}

func c16IsInfNan(b string) bool {
	l := strings.ToLower(b)
	if l == "inf" || l == "infinity" || l == "nan" {
		return true
	}
	if strings.HasPrefix(l, "nan(") && strings.HasSuffix(l, ")") {
		for i := 4; i < len(l)-1; i++ {
			if !c16IsAlnum(l[i]) && l[i] != '_' {
				return false
			}
		}
		return true
	}
	return false
}

// c16HexValue: the float64 nearest to the unsigned hexadecimal integer (exact below 2^53).
func c16HexValue(digits string) (float64, bool) {
	var hi uint64
	n := 0
	for i := 0; i < len(digits); i++ {
		c := digits[i]
		var d uint64
		switch {
		case c >= '0' && c <= '9':
			d = uint64(c - '0')
		case c >= 'a' && c <= 'f':
			d = uint64(c-'a') + 10
		default:
			d = uint64(c-'A') + 10
		}
		if hi == 0 && d == 0 {
			continue
		}
		n++
		if n > 16 {
			return 0, false // beyond unsigned long: strtoul saturates; not judged
		}
		hi = hi<<4 | d
	}
	return float64(hi), true // uint64 -> float64 conversion rounds to nearest even
}

// c16PUCSingleToken: llex.c — a numeral starts at a digit, or at '.' followed by a digit;
// read_numeral then takes digits and dots, an optional E/e with optional sign, and any alnum or '_'.
func c16PUCSingleToken(core string) bool {
	n := len(core)
	if n == 0 {
		return false
	}
	if !(c16IsD(core[0]) || core[0] == '.' && n > 1 && c16IsD(core[1])) {
		return false
	}
	i := 1
	for i < n && (c16IsD(core[i]) || core[i] == '.') {
		i++
	}
	if i < n && (core[i] == 'E' || core[i] == 'e') {
		i++
		if i < n && (core[i] == '+' || core[i] == '-') {
			i++
		}
	}
	for i < n && (c16IsAlnum(core[i]) || core[i] == '_') {
		i++
	}
	return i == n
}

func c16NumRefOf(s string) c16NumRef {
	var ref c16NumRef
	core := strings.Trim(s, " \t\n")
	ref.core, ref.whole = core, s
	if core == "" {
		return ref // reject everywhere
	}
	if strings.IndexByte(s, 0) >= 0 {
		ref.str = c16Exp{cls: c16Unjudged, why: "embedded-NUL"}
		return ref
	}
	if c := core[0]; c == '\r' || c == '\v' || c == '\f' {
		ref.str = c16Exp{cls: c16Unjudged, why: "c-isspace-blank"}
		return ref
	}
	if c := core[len(core)-1]; c == '\r' || c == '\v' || c == '\f' {
		ref.str = c16Exp{cls: c16Unjudged, why: "c-isspace-blank"}
		return ref
	}
	body := core
	if core[0] == '+' || core[0] == '-' {
		ref.sign = core[0]
		body = core[1:]
	}
	ref.body = body
	switch {
	case c16IsDec(body):
		ref.kind = c16BodyDec
		v, err := strconv.ParseFloat(body, 64)
		if err != nil && !math.IsInf(v, 0) {
			harness.Fatal("c16: reference ParseFloat(%q): %v", body, err)
		}
		ref.val = v
	case c16IsHex(body):
		v, ok := c16HexValue(body[2:])
		if ok {
			ref.kind, ref.val = c16BodyHex, v
		} else {
			ref.kind = c16BodyHexFloat // treated as unjudged (beyond unsigned long)
		}
	case c16IsHexFloat(body):
		ref.kind = c16BodyHexFloat
	case c16IsInfNan(body):
		ref.kind = c16BodyInfNan
	}
	switch ref.kind {
	case c16BodyDec:
		switch ref.sign {
		case 0:
			ref.str = c16Exp{cls: c16Accept, v: ref.val}
		case '-':
			ref.str = c16Exp{cls: c16Accept, v: -ref.val}
		default:
			ref.str = c16Exp{cls: c16Unjudged, why: "leading-plus"}
		}
	case c16BodyHex:
		if ref.sign == 0 {
			ref.str = c16Exp{cls: c16Accept, v: ref.val}
		} else {
			ref.str = c16Exp{cls: c16Unjudged, why: "signed-hex"}
		}
	case c16BodyHexFloat:
		ref.str = c16Exp{cls: c16Unjudged, why: "c99-hex-float-or-beyond-ulong"}
	case c16BodyInfNan:
		ref.str = c16Exp{cls: c16Unjudged, why: "inf-nan"}
	}
	if c16PUCSingleToken(core) {
		ref.lexTok = true
		ref.lex = ref.str // unsigned by construction (a token starts with a digit or '.')
		if strings.Contains(core, "..") {
			// PUC's read_numeral swallows "1..2" whole ("malformed number"); the manual does not fix
			// that, and a reading as the concatenation "1. .. .2" is conceivable: not judged
			ref.lex = c16Exp{cls: c16Unjudged, why: "dots-could-lex-as-concat"}
		}
	}
	return ref
}

// c16BaseRef: tonumber(s, b) for b != 10 — manual: "only unsigned integers are accepted".
func c16BaseRef(core string, base int) c16Exp {
	if core == "" {
		return c16Exp{}
	}
	if strings.IndexByte(core, 0) >= 0 {
		return c16Exp{cls: c16Unjudged, why: "embedded-NUL"}
	}
	if c := core[0]; c == '\r' || c == '\v' || c == '\f' {
		return c16Exp{cls: c16Unjudged, why: "c-isspace-blank"}
	}
	if c := core[len(core)-1]; c == '\r' || c == '\v' || c == '\f' {
		return c16Exp{cls: c16Unjudged, why: "c-isspace-blank"}
	}
	digits := func(t string) (float64, bool, bool) { // value, valid, overflow
		if t == "" {
			return 0, false, false
		}
		var acc uint64
		over := false
		for i := 0; i < len(t); i++ {
			c := t[i]
			d := 99
			switch {
			case c >= '0' && c <= '9':
				d = int(c - '0')
			case c >= 'a' && c <= 'z':
				d = int(c-'a') + 10
			case c >= 'A' && c <= 'Z':
				d = int(c-'A') + 10
			}
			if d >= base {
				return 0, false, false
			}
			if acc > (math.MaxUint64-uint64(d))/uint64(base) {
				over = true
			}
			acc = acc*uint64(base) + uint64(d)
		}
		return float64(acc), true, over
	}
	if v, ok, over := digits(core); ok {
		if over {
			return c16Exp{cls: c16Unjudged, why: "beyond-ulong"}
		}
		return c16Exp{cls: c16Accept, v: v}
	}
	t := core
	if t[0] == '+' || t[0] == '-' {
		t = t[1:]
		if _, ok, _ := digits(t); ok {
			return c16Exp{cls: c16Unjudged, why: "signed-with-base"}
		}
	}
	if base == 16 && len(t) > 2 && t[0] == '0' && (t[1] == 'x' || t[1] == 'X') {
		if _, ok, _ := digits(t[2:]); ok {
			return c16Exp{cls: c16Unjudged, why: "0x-prefix-with-base-16"}
		}
	}
	return c16Exp{}
}

// ---- observed outcome ------------------------------------------------------------------------------

type c16Got struct {
	kind int // 0 rejected, 1 number, 2 some other value
	v    float64
	how  string // nil | error | syntax | runtime | <type>
}

func (g c16Got) String() string {
	switch g.kind {
	case 0:
		return "rejected (" + g.how + ")"
	case 1:
		return fmt.Sprintf("%v", g.v)
	}
	return "a " + g.how
}

func c16GotValue(v lua.LValue) c16Got {
	switch x := v.(type) {
	case lua.LNumber:
		return c16Got{kind: 1, v: float64(x)}
	case *lua.LNilType:
		return c16Got{kind: 0, how: "nil"}
	}
	return c16Got{kind: 2, how: v.Type().String()}
}

func c16GotPcall(ok, v lua.LValue, negate bool) c16Got {
	if ok != lua.LTrue {
		return c16Got{kind: 0, how: "error"}
	}
	g := c16GotValue(v)
	if g.kind == 1 && negate {
		g.v = -g.v
	}
	if g.kind == 0 {
		g = c16Got{kind: 2, how: "nil"} // arithmetic returned nil without raising
	}
	return g
}

func c16GotChunk(w *c16Worker, src string) c16Got {
	v, phase, _ := w.chunk(src)
	if phase != "" {
		return c16Got{kind: 0, how: phase}
	}
	g := c16GotValue(v)
	if g.kind == 0 {
		g = c16Got{kind: 2, how: "nil"}
	}
	return g
}

// c16Shape: character-class skeleton with runs collapsed, used in signatures of undiagnosed cases.
func c16Shape(s string) string {
	var sb strings.Builder
	var last byte
	for i := 0; i < len(s); i++ {
		var c byte
		switch b := s[i]; {
		case b >= '0' && b <= '9':
			c = 'd'
		case b == 'e' || b == 'E':
			c = 'e'
		case b == 'x' || b == 'X':
			c = 'x'
		case b >= 'a' && b <= 'f' || b >= 'A' && b <= 'F':
			c = 'h'
		case b >= 'a' && b <= 'z' || b >= 'A' && b <= 'Z':
			c = 'l'
		case b == '+' || b == '-':
			c = 's'
		case b == '.' || b == '_':
			c = b
		case b == ' ' || b == '\t' || b == '\n':
			c = '~'
		default:
			c = '?'
		}
		if c != last {
			sb.WriteByte(c)
		}
		last = c
	}
	return sb.String()
}

func c16OctalValue(digits string) (float64, bool) {
	var acc float64
	for i := 0; i < len(digits); i++ {
		if digits[i] < '0' || digits[i] > '7' {
			return 0, false
		}
		acc = acc*8 + float64(digits[i]-'0')
	}
	return acc, true
}

func c16AllDigits(s string) bool {
	if s == "" {
		return false
	}
	for i := 0; i < len(s); i++ {
		if !c16IsD(s[i]) {
			return false
		}
	}
	return true
}

// c16NumTag diagnoses a mismatch: a tag names one narrowly described deviation (input shape AND
// observed outcome both fit it); anything undiagnosed gets the character-class shape of the input.
func c16NumTag(reader string, ref *c16NumRef, exp c16Exp, got c16Got) (gotKind, tag string) {
	body := ref.body
	isLexer := strings.HasPrefix(reader, "lexer")
	isToNumber := strings.HasPrefix(reader, "tonumber")
	isBase := strings.HasPrefix(reader, "tonumber-base") && reader != "tonumber-base10"
	switch {
	case exp.cls == c16Reject && got.kind == 1:
		gotKind = "value"
		if math.IsNaN(got.v) {
			gotKind = "nan"
		}
		switch {
		case isLexer && math.IsNaN(got.v):
			return gotKind, "malformed-numeral-compiles-to-NaN"
		case strings.Contains(body, "_"):
			return gotKind, "go-underscore-separator"
		case len(body) >= 2 && body[0] == '0' && strings.IndexByte("bBoO", body[1]) >= 0:
			return gotKind, "go-0b-0o-prefix"
		case isToNumber && !isBase && len(body) > 3 && body[0] == '0' && (body[1] == 'x' || body[1] == 'X') &&
			(body[2] == '+' || body[2] == '-') && c16IsHex("0x"+body[3:]):
			return gotKind, "sign-after-0x"
		case isBase && strings.Contains(ref.core, "."):
			return gotKind, "base-ignored-when-dot-present"
		}
	case exp.cls == c16Reject && got.kind == 2:
		gotKind = "other-" + got.how
	case exp.cls == c16Accept && got.kind == 0:
		gotKind = got.how
		switch {
		case ref.kind == c16BodyDec && math.IsInf(ref.val, 0) && !isBase:
			return gotKind, "decimal-overflow-rejected"
		case isToNumber && !isBase && ref.kind == c16BodyDec && !strings.Contains(body, ".") && strings.ContainsAny(body, "eE"):
			return gotKind, "exponent-without-dot"
		case reader == "tonumber-base10" && ref.kind == c16BodyHex:
			return gotKind, "base10-rejects-hex"
		case isToNumber && !isBase && ref.kind == c16BodyDec && c16AllDigits(body) && ref.val >= 1<<63:
			return gotKind, "integer-beyond-int64"
		case ref.kind == c16BodyHex && ref.val >= 1<<63 && !isBase:
			return gotKind, "hex-beyond-int64"
		case isBase && exp.v >= 1<<63:
			return gotKind, "base-integer-beyond-int64"
		}
	case exp.cls == c16Accept && got.kind == 1:
		gotKind = "wrongvalue"
		if math.IsNaN(got.v) {
			gotKind = "nan"
		}
		switch {
		case isLexer && math.IsNaN(got.v) && ref.kind == c16BodyDec && math.IsInf(ref.val, 0):
			return gotKind, "decimal-overflow-compiles-to-NaN"
		case isLexer && math.IsNaN(got.v) && ref.kind == c16BodyHex && ref.val >= 1<<63:
			return gotKind, "hex-beyond-int64"
		case ref.kind == c16BodyDec && c16AllDigits(body) && len(body) > 1 && body[0] == '0':
			if ov, ok := c16OctalValue(body); ok {
				if ref.sign == '-' {
					ov = -ov
				}
				if ov == got.v {
					return gotKind, "leading-zero-octal"
				}
			}
		}
	case exp.cls == c16Accept && got.kind == 2:
		gotKind = "other-" + got.how
	}
	if exp.cls == c16Accept {
		// an accepted spelling is described by its grammatical form rather than its exact skeleton
		form := "int"
		switch {
		case isBase:
			form = "digits"
		case ref.kind == c16BodyHex:
			form = "hex"
			if strings.Contains(body, "X") {
				form = "heX"
			}
		case strings.ContainsAny(body, "eE"):
			form = "exp"
		case strings.Contains(body, "."):
			form = "frac"
		}
		if ref.sign == '-' {
			form = "neg-" + form
		}
		if len(ref.whole) != len(ref.core) {
			form += ",blanks:" // which kinds of blank surround it
			for _, b := range []struct {
				c byte
				n string
			}{{' ', "SP"}, {'\t', "TAB"}, {'\n', "LF"}} {
				if strings.IndexByte(ref.whole, b.c) >= 0 {
					form += b.n
				}
			}
		}
		return gotKind, "form:" + form
	}
	return gotKind, "shape:" + c16Shape(ref.whole)
}

var c16NumReaders = []string{"tonumber", "coerce-add", "coerce-radd", "coerce-unm", "tonumber-base2", "tonumber-base8", "tonumber-base10", "tonumber-base16", "tonumber-base36", "lexer", "lexer-fold"}

type c16NumStats struct {
	strings, checks, unjudged, lexChunks, numerals, skipped int64
	unjudgedWhy                                             map[string]int64
	nontrivial                                              []string
}

// mismatches are aggregated per signature without formatting anything in the inner loop
type c16NumKey struct {
	reader  int
	accept  bool
	gotKind string
	tag     string
}

func (k c16NumKey) sig() string {
	e := "reject"
	if k.accept {
		e = "accept"
	}
	return "num/" + c16NumReaders[k.reader] + "/" + e + "/" + k.gotKind + "/" + k.tag
}

type c16NumMin struct {
	count int64
	s     string
	exp   c16Exp
	got   c16Got
}

func (m *c16NumMin) what(k c16NumKey) string {
	want := "rejection (nil / error / syntax error)"
	if k.accept {
		want = fmt.Sprintf("%v", m.exp.v)
	}
	return fmt.Sprintf("s=%q reader=%s: expected %s, got %s", m.s, c16NumReaders[k.reader], want, m.got)
}

type c16NumLocal struct {
	m map[c16NumKey]*c16NumMin
}

func (l *c16NumLocal) add(k c16NumKey, s string, exp c16Exp, got c16Got) {
	if l.m == nil {
		l.m = map[c16NumKey]*c16NumMin{}
	}
	e := l.m[k]
	if e == nil {
		l.m[k] = &c16NumMin{1, s, exp, got}
		return
	}
	e.count++
	if len(s) < len(e.s) || len(s) == len(e.s) && s < e.s {
		e.s, e.exp, e.got = s, exp, got
	}
}

func (l *c16NumLocal) mergeInto(agg *c16Agg) {
	for k, m := range l.m {
		agg.add(k.sig(), m.s, m.what(k), map[string]interface{}{"family": "numeral", "s_hex": c16Hex([]byte(m.s))}, m.count)
	}
}

// c16EvalNumeral runs every reader on s and records the mismatches in loc. st may be nil.
// lite: the two extra coercion operators (0+s, -s) are only run when s+0 succeeded or the
// reference accepts s (a failing pcall costs ~5 µs; see the assumptions in the evidence).
func c16EvalNumeral(w *c16Worker, s string, st *c16NumStats, loc *c16NumLocal, lite bool) {
	ref := c16NumRefOf(s)
	ls := lua.LString(s)
	ret, err := w.call(w.fnNum, 8, ls)
	if err != nil {
		loc.add(c16NumKey{reader: 0, gotKind: "batch-raises", tag: "shape:" + c16Shape(s)}, s, c16Exp{}, c16Got{kind: 2, how: "error from the reader batch: " + err.Error()})
		return
	}
	var gots [11]c16Got
	var exps [11]c16Exp
	var skip [11]bool
	gots[0] = c16GotValue(ret[0])
	gots[1] = c16GotPcall(ret[1], ret[2], false)
	gots[4], gots[5], gots[6], gots[7], gots[8] = c16GotValue(ret[3]), c16GotValue(ret[4]), c16GotValue(ret[5]), c16GotValue(ret[6]), c16GotValue(ret[7])
	if !lite || gots[1].kind != 0 || ref.str.cls == c16Accept {
		ret2, err := w.call(w.fnNum2, 4, ls)
		if err != nil {
			loc.add(c16NumKey{reader: 2, gotKind: "batch-raises", tag: "shape:" + c16Shape(s)}, s, c16Exp{}, c16Got{kind: 2, how: "error from the reader batch: " + err.Error()})
			return
		}
		gots[2] = c16GotPcall(ret2[0], ret2[1], false)
		gots[3] = c16GotPcall(ret2[2], ret2[3], true)
	} else {
		skip[2], skip[3] = true, true
		if st != nil {
			st.skipped += 2
		}
	}
	exps[0], exps[1], exps[2], exps[3], exps[6] = ref.str, ref.str, ref.str, ref.str, ref.str
	exps[4] = c16BaseRef(ref.core, 2)
	exps[5] = c16BaseRef(ref.core, 8)
	exps[7] = c16BaseRef(ref.core, 16)
	exps[8] = c16BaseRef(ref.core, 36)
	nreaders := 9
	if ref.lexTok {
		nreaders = 11
		exps[9], exps[10] = ref.lex, ref.lex
		gots[9] = c16GotChunk(w, "return "+s)
		gots[10] = c16GotChunk(w, "return "+s+" + 0")
		if st != nil {
			st.lexChunks += 2
		}
	}
	if st != nil {
		st.strings++
		if ref.str.cls == c16Accept || ref.lexTok {
			st.numerals++
			st.nontrivial = append(st.nontrivial, s)
		}
	}
	for i := 0; i < nreaders; i++ {
		if skip[i] {
			continue
		}
		exp, got := exps[i], gots[i]
		if exp.cls == c16Unjudged {
			if st != nil {
				st.unjudged++
				st.unjudgedWhy[exp.why]++
			}
			continue
		}
		if st != nil {
			st.checks++
		}
		ok := false
		if exp.cls == c16Accept {
			ok = got.kind == 1 && got.v == exp.v
		} else {
			ok = got.kind == 0
		}
		if ok {
			continue
		}
		gotKind, tag := c16NumTag(c16NumReaders[i], &ref, exp, got)
		loc.add(c16NumKey{reader: i, accept: exp.cls == c16Accept, gotKind: gotKind, tag: tag}, s, exp, got)
	}
}

// ---- aggregation: one report per signature, smallest input first -----------------------------------

type c16Agg struct {
	mu sync.Mutex
	m  map[string]*c16AggEntry
}

type c16AggEntry struct {
	count int64
	key   string // ordering key of the smallest case
	what  string
	rep   map[string]interface{}
}

func (a *c16Agg) add(sig, key, what string, rep map[string]interface{}, n int64) {
	a.mu.Lock()
	defer a.mu.Unlock()
	if a.m == nil {
		a.m = map[string]*c16AggEntry{}
	}
	e := a.m[sig]
	if e == nil {
		a.m[sig] = &c16AggEntry{count: n, key: key, what: what, rep: rep}
		return
	}
	e.count += n
	if len(key) < len(e.key) || len(key) == len(e.key) && key < e.key {
		e.key, e.what, e.rep = key, what, rep
	}
}

func (a *c16Agg) flush(r *harness.Run) {
	sigs := make([]string, 0, len(a.m))
	for s := range a.m {
		sigs = append(sigs, s)
	}
	sort.Strings(sigs)
	for _, s := range sigs {
		e := a.m[s]
		r.Count("cases:"+s, e.count)
		if e.rep != nil {
			e.rep["signature"] = s
		}
		r.Violation(s, fmt.Sprintf("%s\n(%d cases with this signature in this run; the smallest is shown)", e.what, e.count), e.rep)
	}
}

var c16NumSupplement = []string{
	"", " ", "\n", "0", "00", "000", "-0", "+0", "0.0", "-0.0", "007", "0010", "010", "08", "09", "019", "0777", "00000000001", "-010", "-0010",
	"0x0", "0x00", "0x0010", "0x10", "0xff", "0XFF", "0xAbCdEf", "0xFFFFFFFF", "0x100000000", "0xfffffffffffff", "0x1fffffffffffff",
	"0x7fffffffffffffff", "0x8000000000000000", "0xffffffffffffffff", "0x10000000000000000",
	"-0x10", "+0x10", "0x-10", "0x+10", "0x 10", "0 x10", "0x", "0X", "x10", "0xg", "0x1g",
	"0b1", "0B1", "0o7", "0O7", "0b", "0o", "0b2", "0o8", "0b1_0", "0o1_7", "-0b1", "0b1.0",
	"inf", "-inf", "+inf", "Inf", "INF", "infinity", "nan", "NaN", "-nan", "nan(1)",
	"0x1p4", "0x1P4", "0x.8", "0x1.8", "0x1.8p1", "0x1p-1", "0X1P+1", "0x1p", "0x.p1",
	"1\r", "\r1", "\v1", "1\v", "\f1", "1\f", "1\r\n", "1\x00", "1\x002", "\x001",
	"1e999", "-1e999", "9e999", "2e308", "1e308", "1e-400", "4.9e-324", "1.7976931348623157e308",
	"0.1", ".1e1", "1.e1", "1E1", "1e+1", "1e-1", "1e01", "1e+01", "1e1 ", " 1e1", "\n1e1\t", "-1e1", "-1.5e-3", "12345.6789e-3",
	"1 e1", "1e 1", "1 .0", "- 1", "-\t1", "--1", "-+1", "+-1", "++1", "-", "+", ".", "e", "e1", ".e1", "-.", "-e1",
	"1f", "1d", "1.0f", "1l", "1L", "1u", "0x1L", "1i", "1e1e1", "1.1.1", "1..1", "1,0", "1'0", "1g", "1z",
	"1_0", "1__0", "_1", "1_", "0_1", "0x_1", "0x1_0", "1_0.0", "1.0_0", "1e1_0", "1_000_000",
	"9007199254740993", "9223372036854775807", "9223372036854775808", "18446744073709551615", "18446744073709551616",
	"123456789012345678901234567890", "-9223372036854775808", "-9223372036854775809",
	"z", "Z", "zz", "g", "G", "7", "8", "2", "10", "11", "777", "ff", "FF", "Ff", "a.b", "1.5", "1.0", "10.", ".1", "1e1", "e", "1a", "z9",
	"  42  ", "\t42\n", "4 2", "42 x", "x 42",
	// white space that is not C-locale isspace: UTF-8 encoded Unicode spaces and their lone bytes
	"\xc2\xa01", "1\xc2\xa0", "\xc2\xa01\xc2\xa0", "\xc2\x851", "1\xc2\x85", "\xe2\x80\x831", "1\xe2\x80\x83", "1\xe2\x80\xa8", "\xe2\x80\xa91", "\xe3\x80\x801", "1\xe3\x80\x80",
	"\xe1\x9a\x801", "\xef\xbb\xbf1", "1\xef\xbb\xbf", "\xa01", "1\xa0", "\x851", "1\x85", " \xc2\xa0 1", "0x10\xc2\xa0", "1e1\xe2\x80\x83",
}

func c16RunNumerals(r *harness.Run, pool *c16Pool, maxLen int) {
	na := len(c16NumAlpha)
	agg := &c16Agg{}
	var mu sync.Mutex
	total := c16NumStats{unjudgedWhy: map[string]int64{}}
	merge := func(st *c16NumStats, loc *c16NumLocal) {
		mu.Lock()
		total.strings += st.strings
		total.checks += st.checks
		total.unjudged += st.unjudged
		total.lexChunks += st.lexChunks
		total.numerals += st.numerals
		total.skipped += st.skipped
		for k, v := range st.unjudgedWhy {
			total.unjudgedWhy[k] += v
		}
		mu.Unlock()
		loc.mergeInto(agg)
		r.EvalN(st.strings)
		for _, s := range st.nontrivial {
			r.Nontrivial("num|" + s)
		}
	}
	inAlphabet := func(s string) bool {
		for i := 0; i < len(s); i++ {
			if strings.IndexByte(string(c16NumAlpha), s[i]) < 0 {
				return false
			}
		}
		return true
	}
	// pass: every string with minLen <= length <= maxL, sharded by a prefix of length plen. Shard 0
	// additionally takes the strings shorter than the prefix and (first pass only) the
	// supplementary list, so those are done first.
	pass := func(minLen, maxL, plen int, lite, withSupplement bool) (complete bool) {
		nprefix := 1
		for i := 0; i < plen; i++ {
			nprefix *= na
		}
		var expired int64
		harness.ParallelShards(nprefix, func(worker, shard int) {
			if r.Expired() {
				mu.Lock()
				expired++
				mu.Unlock()
				return
			}
			w := pool.get(worker)
			st := &c16NumStats{unjudgedWhy: map[string]int64{}}
			loc := &c16NumLocal{}
			defer merge(st, loc)
			if shard == 0 {
				var rec func(cur []byte)
				rec = func(cur []byte) {
					if len(cur) >= plen || len(cur) > maxL {
						return
					}
					if len(cur) >= minLen {
						c16EvalNumeral(w, string(cur), st, loc, lite)
					}
					for _, a := range c16NumAlpha {
						rec(append(cur, a))
					}
				}
				rec(nil)
				if withSupplement {
					seen := map[string]bool{}
					for _, s := range c16NumSupplement {
						if seen[s] || (inAlphabet(s) && len(s) <= maxLen) {
							continue // duplicates; strings the enumeration covers anyway
						}
						seen[s] = true
						c16EvalNumeral(w, s, st, loc, false)
						r.Count("num_supplementary_strings", 1)
					}
				}
			}
			buf := make([]byte, 0, maxL+1)
			x := shard
			for i := 0; i < plen; i++ {
				buf = append(buf, c16NumAlpha[x%na])
				x /= na
			}
			var rec func(cur []byte)
			rec = func(cur []byte) {
				if len(cur) >= minLen {
					c16EvalNumeral(w, string(cur), st, loc, lite)
				}
				if len(cur) == maxL {
					return
				}
				for _, a := range c16NumAlpha {
					rec(append(cur, a))
				}
			}
			if plen <= maxL {
				rec(buf)
			}
		})
		if expired > 0 {
			r.NotExhaustive(fmt.Sprintf("deadline reached in the numeral family: %d of %d prefix shards of the pass over lengths %d..%d were not run", expired, nprefix, minLen, maxL))
			return false
		}
		return true
	}
	{
		plenTop := 2
		if maxLen >= 7 {
			plenTop = 3
		}
		if pass(0, maxLen-1, 2, false, true) {
			r.Extra["numeral_lengths_complete"] = fmt.Sprintf("0..%d (all readers on every string)", maxLen-1)
			if pass(maxLen, maxLen, plenTop, true, false) {
				r.Extra["numeral_lengths_complete"] = fmt.Sprintf("0..%d (all readers on every string); %d (0+s and -s only where s+0 succeeded or the reference accepts s; every other reader on every string)", maxLen-1, maxLen)
			}
		}
	}
	agg.flush(r)
	r.Count("num_strings", total.strings)
	r.Count("num_reader_checks_judged", total.checks)
	r.Count("num_reader_checks_unjudged", total.unjudged)
	r.Count("num_reader_checks_skipped_radd_unm", total.skipped)
	r.Count("num_lexer_chunks", total.lexChunks)
	r.Count("num_reference_numerals_or_lexer_tokens", total.numerals)
	for k, v := range total.unjudgedWhy {
		r.Count("num_unjudged:"+k, v)
	}
	// a few verbatim samples of what the readers return
	w := pool.get(0)
	for _, s := range []string{"0x1f", " 1e1\n", "-.5", "1e", "0010", "1_0", "0x", "1..1"} {
		ref := c16NumRefOf(s)
		ret, err := w.call(w.fnNum, 8, lua.LString(s))
		if err != nil {
			continue
		}
		smp := map[string]string{"family": "numeral", "s": fmt.Sprintf("%q", s), "reference_string_readers": c16ExpString(ref.str),
			"tonumber": c16GotValue(ret[0]).String(), "s+0": c16GotPcall(ret[1], ret[2], false).String(), "tonumber(s,16)": c16GotValue(ret[6]).String(), "reference_base16": c16ExpString(c16BaseRef(ref.core, 16))}
		if ref.lexTok {
			smp["lexer"] = c16GotChunk(w, "return "+s).String()
			smp["reference_lexer"] = c16ExpString(ref.lex)
		}
		r.AddSample(smp)
	}
}

func c16ExpString(e c16Exp) string {
	switch e.cls {
	case c16Accept:
		return fmt.Sprintf("accept %v", e.v)
	case c16Unjudged:
		return "unjudged (" + e.why + ")"
	}
	return "reject"
}
