package props

// C20, module names that are not string values: require's argument is read with luaL_checkstring,
// so a number names the module whose name is the number's string form ("7", "7.5", "-3"), and
// everything require consults - package.loaded, package.preload, the path templates, the argument
// handed to the loader - is consulted with that *string*. Complete product of
//   number x where the module comes from x which spelling is required first x the second spelling;
// nothing is written by hand: every observation of the (number-first) history must equal the
// observation of the same history with the string spelling throughout.

import (
	"fmt"
	"os"
	"path/filepath"
	"strings"

	lua "github.com/yuin/gopher-lua"

	"verif/internal/harness"
)

func c20NumericNames(r *harness.Run) {
	dir := harness.WorkDir("reqnames")
	defer os.RemoveAll(dir)
	type nm struct{ lit, str string }
	names := []nm{{"7", "7"}, {"-3", "-3"}, {"7.5", "7.5"}, {"1e2", "100"}, {"0x10", "16"}}
	sources := []string{"preload-lua", "preload-go", "file", "preload-lua+file", "preload-go+file", "loaded-entry"}
	for _, n := range names {
		for _, src := range sources {
			if strings.Contains(n.str, ".") && strings.Contains(src, "file") {
				continue // a dot in the name is a directory separator: covered by the module c.d of the BFS
			}
			for _, first := range []string{"num", "str"} {
				for _, second := range []string{"num", "str"} {
					run := func(firstArg, secondArg string) string {
						d := filepath.Join(dir, fmt.Sprintf("%s-%s-%s-%s", n.str, src, first, second))
						os.MkdirAll(d, 0o755)
						L := lua.NewState()
						defer L.Close()
						var log []string
						L.SetGlobal("emit", L.NewFunction(func(L *lua.LState) int {
							var p []string
							for i := 1; i <= L.GetTop(); i++ {
								p = append(p, L.Get(i).Type().String()+":"+L.Get(i).String())
							}
							log = append(log, strings.Join(p, ","))
							return 0
						}))
						pre := fmt.Sprintf("package.path = %q\n", filepath.Join(d, "?.lua"))
						if strings.Contains(src, "file") {
							os.WriteFile(filepath.Join(d, n.str+".lua"), []byte(`emit("file-loader", ...) return {from = "file"}`), 0o644)
						}
						if strings.Contains(src, "preload-lua") {
							pre += fmt.Sprintf("package.preload[%q] = function(...) emit(\"lua-preload\", ...) return {from = \"lua-preload\"} end\n", n.str)
						}
						if strings.Contains(src, "preload-go") {
							L.PreloadModule(n.str, func(L *lua.LState) int {
								log = append(log, "go-preload,"+L.Get(1).Type().String()+":"+L.Get(1).String())
								t := L.NewTable()
								t.RawSetString("from", lua.LString("go-preload"))
								L.Push(t)
								return 1
							})
						}
						if src == "loaded-entry" {
							pre += fmt.Sprintf("package.loaded[%q] = {from = \"loaded-entry\"}\n", n.str)
						}
						body := pre + fmt.Sprintf(`local function pack(...) return select("#", ...), ... end
local n1, ok1, a = pack(pcall(require, %s))
local n2, ok2, b = pack(pcall(require, %s))
emit("results", n1, ok1, type(a) == "table" and a.from or a, n2, ok2, type(b) == "table" and b.from or b, rawequal(a, b))
emit("loaded", rawequal(package.loaded[%q], a), package.loaded[%s] == nil)
`, firstArg, secondArg, n.str, n.lit)
						if err := L.DoString(body); err != nil {
							log = append(log, "chunk-error")
						}
						os.RemoveAll(d)
						return strings.Join(log, " ; ")
					}
					arg := func(which string) string {
						if which == "num" {
							return n.lit
						}
						return fmt.Sprintf("%q", n.str)
					}
					ref := run(fmt.Sprintf("%q", n.str), fmt.Sprintf("%q", n.str))
					if first == "str" && second == "str" {
						// the reference history itself: the module must load, once, and be cached under the string
						key := fmt.Sprintf("require-name/%s/%s/reference", n.lit, src)
						r.Eval(key, true, func() interface{} { return map[string]interface{}{"name": n.str, "source": src, "observation": ref} })
						loaders := 0
						for _, e := range strings.Split(ref, " ; ") {
							if strings.HasPrefix(e, "go-preload,") || strings.HasPrefix(e, "string:lua-preload,") || strings.HasPrefix(e, "string:file-loader,") {
								loaders++
								if !strings.HasSuffix(e, ",string:"+n.str) && !strings.Contains(e, ",string:"+n.str+",") {
									loaders = 99 // the loader's first argument is not the module name as a string
								}
							}
						}
						wantLoaders := 1
						if src == "loaded-entry" {
							wantLoaders = 0
						}
						if !strings.Contains(ref, "results,number:2,boolean:true,string:") || strings.Contains(ref, "boolean:false") || !strings.HasSuffix(ref, "loaded,boolean:true,boolean:true") || loaders != wantLoaders {
							r.Violation(key, fmt.Sprintf("module %q provided by %s, required twice by its string name: %s", n.str, src, ref), map[string]interface{}{"name": n.str, "source": src})
						}
						continue
					}
					got := run(arg(first), arg(second))
					key := fmt.Sprintf("require-name/%s/%s/%s-then-%s", n.lit, src, first, second)
					r.Eval(key, true, func() interface{} { return map[string]interface{}{"name": n.str, "source": src, "observation": got} })
					if got != ref {
						r.Violation(key, fmt.Sprintf("module %q provided by %s: require(%s) then require(%s) gives\n  %s\nthe same history with the string name throughout gives\n  %s\n(require reads its argument with luaL_checkstring: a number names the module of its string form)", n.str, src, arg(first), arg(second), got, ref),
							map[string]interface{}{"name": n.str, "source": src, "first": arg(first), "second": arg(second)})
					}
				}
			}
		}
	}
}
