package props

// F-goto — every placement of up to k goto/label statements, over two label names, in a fixed
// skeleton of nested and sibling blocks (so that the same name occurs in an enclosing block, in a
// nested block and in sibling blocks; gotos are pending while blocks open and close around them).
//
// The expected outcome is decided by a direct transcription of the label rules of the goto
// extension (Lua 5.2 lparser.c: a goto binds to the label of that name in the innermost enclosing
// block that declares one; a jump may not enter the scope of a local, a label at the end of a
// block — other than before `until` — counts as outside the block's locals; a name may be
// declared once per block): invalid programs must be *rejected by the loader with a syntax error*
// (never a Go panic: this is also C08's subject), valid ones must run like the reference
// interpreter, which resolves a goto dynamically by unwinding to the innermost enclosing block that
// holds the label.

import (
	"fmt"

	. "verif/internal/luaref"
)

type gNode struct {
	kind string // "emit" | "local" | "goto" | "gotoif" | "label" | "block"
	name string // tag, local name, label name, or block kind (do/while/numfor/repeat/if/func)
	body []*gNode
	id   int
}

// gotoRules returns "" when the function body is valid, else the class of the compile error;
// loops reports an unguarded goto bound to a label behind it (the program would never end).
func gotoRules(body []*gNode) (verdict string, loops bool) {
	type lab struct {
		name  string
		nact  int
		plain bool // unguarded goto
	}
	type blk struct {
		prev                  *blk
		firstLabel, firstGoto int
		nact                  int
		repeatBody            bool
	}
	var labels, gotos []lab
	nact := 0
	errc := ""
	fail := func(c string) {
		if errc == "" {
			errc = c
		}
	}
	closeGoto := func(g int, l lab) {
		if gotos[g].nact < l.nact {
			fail("jumps-into-scope")
		}
		gotos = append(gotos[:g], gotos[g+1:]...)
	}
	findLabel := func(b *blk, g int) bool {
		for i := b.firstLabel; i < len(labels); i++ {
			if labels[i].name == gotos[g].name {
				if gotos[g].plain {
					loops = true // bound to a label that is already declared: a backward jump
				}
				closeGoto(g, labels[i])
				return true
			}
		}
		return false
	}
	var block func(stats []*gNode, prev *blk, repeatBody bool)
	block = func(stats []*gNode, prev *blk, repeatBody bool) {
		b := &blk{prev: prev, firstLabel: len(labels), firstGoto: len(gotos), nact: nact, repeatBody: repeatBody}
		for si, st := range stats {
			if errc != "" {
				return
			}
			switch st.kind {
			case "local":
				nact++
			case "goto":
				gotos = append(gotos, lab{st.name, nact, true})
				findLabel(b, len(gotos)-1)
			case "gotoif":
				// if c then goto L end: the goto sits in a block of its own
				inner := &blk{prev: b, firstLabel: len(labels), firstGoto: len(gotos), nact: nact}
				gotos = append(gotos, lab{st.name, nact, false})
				// leave the inner block: move the goto out
				_ = inner
				findLabel(b, len(gotos)-1)
			case "label":
				for i := b.firstLabel; i < len(labels); i++ {
					if labels[i].name == st.name {
						fail("label-already-defined")
						return
					}
				}
				l := lab{st.name, nact, false}
				last := true
				for _, s2 := range stats[si+1:] {
					if s2.kind != "label" {
						last = false
					}
				}
				if last && !repeatBody {
					l.nact = b.nact
				}
				labels = append(labels, l)
				for g := b.firstGoto; g < len(gotos); {
					if gotos[g].name == st.name {
						closeGoto(g, l)
					} else {
						g++
					}
				}
			case "block":
				save := nact
				if st.name == "numfor" {
					nact += 4 // three hidden control variables and the declared one
				}
				block(st.body, b, st.name == "repeat")
				nact = save
			}
		}
		if errc != "" {
			return
		}
		// leave the block
		nact = b.nact
		labels = labels[:b.firstLabel]
		if prev == nil {
			if b.firstGoto < len(gotos) {
				fail("no-visible-label")
			}
			return
		}
		for g := b.firstGoto; g < len(gotos); {
			if gotos[g].nact > b.nact {
				gotos[g].nact = b.nact
			}
			if !findLabel(prev, g) {
				g++
			}
		}
	}
	block(body, nil, false)
	return errc, loops
}

func gotoAST(n *gNode) []Stat {
	switch n.kind {
	case "emit":
		return []Stat{Emit(Str(n.name), Name("c"))}
	case "local":
		return []Stat{Local1(n.name, Str(n.name))}
	case "label":
		return []Stat{Label(n.name)}
	case "goto":
		return []Stat{Assign1(Name("c"), Bin("+", Name("c"), Num(1))), Goto(n.name)}
	case "gotoif":
		// taken on odd visits only, and never after the twelfth, so that every program terminates
		return []Stat{Assign1(Name("c"), Bin("+", Name("c"), Num(1))),
			If(Bin("and", Bin("==", Bin("%", Name("c"), Num(2)), Num(1)), Bin("<", Name("c"), Num(12))), Emit(Str("jump"), Num(float64(n.id)), Name("c")), Goto(n.name))}
	case "block":
		var body []Stat
		for _, s := range n.body {
			body = append(body, gotoAST(s)...)
		}
		v := fmt.Sprintf("i%d", n.id)
		switch n.name {
		case "do":
			return []Stat{Do(body...)}
		case "if":
			return []Stat{If(Bin(">=", Name("c"), Num(0)), body...)}
		case "while":
			// runs twice; the counter lives outside
			return []Stat{Assign1(Index(Name("w"), Num(float64(n.id))), Num(0)), While(Bin("<", Index(Name("w"), Num(float64(n.id))), Num(2)),
				append([]Stat{Assign1(Index(Name("w"), Num(float64(n.id))), Bin("+", Index(Name("w"), Num(float64(n.id))), Num(1)))}, body...)...)}
		case "numfor":
			return []Stat{NumFor(v, Num(1), Num(2), nil, body...)}
		case "repeat":
			return []Stat{Assign1(Index(Name("w"), Num(float64(n.id))), Num(0)), Repeat(Bin(">=", Index(Name("w"), Num(float64(n.id))), Num(2)),
				append([]Stat{Assign1(Index(Name("w"), Num(float64(n.id))), Bin("+", Index(Name("w"), Num(float64(n.id))), Num(1)))}, body...)...)}
		}
	}
	panic("gotoAST: " + n.kind)
}

func genGoto(thorough bool) Gen {
	kindsA := []string{"numfor", "repeat", "do"}
	kindsB := []string{"numfor"}
	if thorough {
		kindsA = []string{"numfor", "repeat", "do", "while", "if"}
		kindsB = []string{"numfor", "do"}
	}
	// up to 3 filled slots: every filling, valid or not. 4 filled slots: quick tier only the valid
	// programs without the unguarded goto form, thorough tier everything. 5 filled slots (two gotos,
	// three labels — the smallest shape with a resolved goto, a pending one and a same-named label
	// in a later nested block): valid programs only, quick tier over one label name.
	type level struct {
		filled    int
		fills     []string
		validOnly bool
	}
	all := []string{"gotoif:L", "gotoif:M", "goto:L", "label:L", "label:M"}
	guarded := []string{"gotoif:L", "gotoif:M", "label:L", "label:M"}
	oneName := []string{"gotoif:L", "label:L"}
	levels := []level{{1, all, false}, {2, all, false}, {3, all, false}, {4, guarded, true}, {5, oneName, true}}
	if thorough {
		levels = []level{{1, all, false}, {2, all, false}, {3, all, false}, {4, all, false}, {5, guarded, true}}
	}
	const nslots = 13
	return func(yield func(*Prog)) {
		for _, ka := range kindsA {
			for _, kb := range kindsB {
				for _, withLocal := range []bool{true, false} {
					if !thorough && !withLocal {
						continue
					}
					ka, kb, withLocal := ka, kb, withLocal
					// build(fill) constructs the function body with the slot fillings
					build := func(fill map[int]string) []*gNode {
						slot := func(i int) []*gNode {
							f, ok := fill[i]
							if !ok {
								return nil
							}
							k, name := f[:len(f)-2], f[len(f)-1:]
							return []*gNode{{kind: k, name: name, id: i}}
						}
						em := func(t string) *gNode { return &gNode{kind: "emit", name: t} }
						cat := func(parts ...[]*gNode) []*gNode {
							var out []*gNode
							for _, p := range parts {
								out = append(out, p...)
							}
							return out
						}
						one := func(n *gNode) []*gNode { return []*gNode{n} }
						bBody := cat(slot(9), one(em("b")), slot(10))
						var loc []*gNode
						if withLocal {
							loc = one(&gNode{kind: "local", name: "x"})
						}
						aBody := cat(slot(5), loc, slot(6), one(&gNode{kind: "block", name: kb, body: bBody, id: 2}), slot(7), one(em("a")), slot(8))
						cBody := cat(slot(11), one(em("c")), slot(12))
						return cat(slot(0), one(em("t0")), slot(1), one(&gNode{kind: "block", name: ka, body: aBody, id: 1}), slot(2),
							one(&gNode{kind: "block", name: "numfor", body: cBody, id: 3}), slot(3), one(em("t-end")), slot(4))
					}
					for _, lv := range levels {
						lv := lv
						fill := map[int]string{}
						var rec func(from, filled, ngoto, nlabel int)
						rec = func(from, filled, ngoto, nlabel int) {
							if filled == lv.filled {
								if ngoto == 0 {
									return
								}
								f := map[int]string{}
								shape := fmt.Sprintf("%s>%s/local=%v/", ka, kb, withLocal)
								for i := 0; i < nslots; i++ {
									if v, ok := fill[i]; ok {
										f[i] = v
										shape += fmt.Sprintf("s%d=%s,", i, v)
									}
								}
								p := &Prog{Family: "F-goto", Shape: shape}
								// the verdict is computed lazily (by the worker that owns the program)
								p.Mk = func() *Block {
									nodes := build(f)
									verdict, loops := gotoRules(nodes)
									if loops || (lv.validOnly && verdict != "") {
										return nil
									}
									p.ExpectReject = verdict
									p.Shape += "/" + verdict
									var body []Stat
									for _, n := range nodes {
										body = append(body, gotoAST(n)...)
									}
									// (the function has a parameter and a local of its own in front of every slot)
									body = append([]Stat{Local1("q", Name("p"))}, body...)
									return Blk(Local(names("c", "w"), Num(0), TableE()), LocalFunc("test", Func(names("p"), false, append(body, Return(Str("ret"), Name("c"), Name("q")))...)), Emit(Str("done"), CallN("test", Str("P"))))
								}
								yield(p)
								return
							}
							for s := from; s < nslots; s++ {
								for _, fl := range lv.fills {
									isGoto := fl[0] == 'g'
									if isGoto && ngoto == 2 || !isGoto && nlabel == 3 {
										continue
									}
									fill[s] = fl
									if isGoto {
										rec(s+1, filled+1, ngoto+1, nlabel)
									} else {
										rec(s+1, filled+1, ngoto, nlabel+1)
									}
									delete(fill, s)
								}
							}
						}
						rec(0, 0, 0, 0)
					}
				}
			}
		}
	}
}

// genGotoInvalid: the invalid members of F-goto only (C08: the loader refuses them with a syntax
// error and never panics).
func genGotoInvalid(thorough bool) Gen {
	g := genGoto(thorough)
	return func(yield func(*Prog)) {
		g(func(p *Prog) {
			q := &Prog{Family: "F-goto-invalid", Shape: p.Shape}
			q.Mk = func() *Block {
				c := p.Mk()
				if c == nil || p.ExpectReject == "" {
					return nil
				}
				q.ExpectReject, q.Shape = p.ExpectReject, p.Shape
				return c
			}
			yield(q)
		})
	}
}

// F-constobj — stores through a constant or parenthesised non-table prefix: they must raise, and no
// local of the function may change (the prefix of a store is a register operand, never a constant).
func genConstObj(thorough bool) Gen {
	prefixes := []struct {
		name string
		mk   func() Expr
	}{
		{`("abc")`, func() Expr { return Paren(Str("abc")) }}, {`(5)`, func() Expr { return Paren(Num(5)) }}, {`(nil)`, func() Expr { return Paren(Nil()) }},
		{`(true)`, func() Expr { return Paren(True()) }}, {`(2 + 3)`, func() Expr { return Paren(Bin("+", Num(2), Num(3))) }}, {`("a" .. "b")`, func() Expr { return Paren(Bin("..", Str("a"), Str("b"))) }},
		{`(#"xyz")`, func() Expr { return Paren(Un("#", Str("xyz"))) }},
	}
	keys := []struct {
		name string
		mk   func(p Expr) Expr
	}{
		{".y", func(p Expr) Expr { return Dot(p, "y") }}, {"[1]", func(p Expr) Expr { return Index(p, Num(1)) }}, {"[k]", func(p Expr) Expr { return Index(p, Name("k")) }},
	}
	return func(yield func(*Prog)) {
		for _, pf := range prefixes {
			for _, ky := range keys {
				for nloc := 0; nloc <= 3; nloc++ {
					for _, form := range []string{"single", "multi", "read"} {
						pf, ky, nloc, form := pf, ky, nloc, form
						yield(&Prog{Family: "F-constobj", Shape: fmt.Sprintf("%s%s/locals=%d/%s", pf.name, ky.name, nloc, form), Mk: func() *Block {
							// tables live at chunk level; the failing function holds them in its own locals
							var body, ibody []Stat
							var obs []Expr
							for i := 0; i < 3; i++ {
								n := fmt.Sprintf("U%d", i)
								body = append(body, Local1(n, TableE()))
								obs = append(obs, Dot(Name(n), "y"), Index(Name(n), Num(1)))
							}
							for i := 0; i < nloc; i++ {
								ibody = append(ibody, Local1(fmt.Sprintf("u%d", i), Name(fmt.Sprintf("U%d", i))))
							}
							ibody = append(ibody, Local1("k", Num(1)))
							var st Stat
							switch form {
							case "single":
								st = Assign1(ky.mk(pf.mk()), Str("stored"))
							case "multi":
								st = Assign([]Expr{ky.mk(pf.mk()), Name("k")}, Str("stored"), Num(1))
							case "read":
								st = Local1("r", ky.mk(pf.mk()))
							}
							ibody = append(ibody, st, Return(Str("no-error")))
							body = append(body, Emit(Str("r"), Paren(CallN("pcall", Func(nil, false, ibody...)))))
							body = append(body, Emit(append([]Expr{Str("locals")}, obs...)...))
							return Blk(body...)
						}})
					}
				}
			}
		}
	}
}

// F-localscope — the scope of a local begins AFTER its declaration statement (so a function
// expression in the initialiser sees the enclosing/global variable of that name), except for
// `local function`, whose name is in scope inside the body.
func genLocalScope() Gen {
	type form struct {
		name string
		mk   func() []Stat // declares local `f` (and possibly others) in a scope where global/outer `f` exists
	}
	self := func() *FuncExpr { return Func(names("n"), false, Return(Name("f"), Name("n"))) }
	forms := []form{
		{"local f = function", func() []Stat { return []Stat{Local1("f", self())} }},
		{"local f = (function)", func() []Stat { return []Stat{Local1("f", Paren(self()))} }},
		{"local function f", func() []Stat { return []Stat{LocalFunc("f", self())} }},
		{"local f, g = function, 2", func() []Stat { return []Stat{Local(names("f", "g"), self(), Num(2))} }},
		{"local g, f = 1, function", func() []Stat { return []Stat{Local(names("g", "f"), Num(1), self())} }},
		{"local f; f = function", func() []Stat { return []Stat{Local(names("f")), Assign1(Name("f"), self())} }},
		{"local f = function or nil", func() []Stat { return []Stat{Local1("f", Bin("or", self(), Nil()))} }},
		{"local f = {function}[1]", func() []Stat { return []Stat{Local1("f", Index(TableE(Pos1(self())), Num(1)))} }},
		{"local f = f", func() []Stat { return []Stat{Local1("f", Name("f"))} }},
		{"local f = wrap(function)", func() []Stat { return []Stat{Local1("f", CallN("hid", self()))} }},
	}
	outers := []struct {
		name string
		mk   func(inner []Stat) []Stat
	}{
		{"global", func(in []Stat) []Stat { return append([]Stat{Assign1(Name("f"), Str("global-f"))}, in...) }},
		{"outer-local", func(in []Stat) []Stat {
			return []Stat{Local1("f", Str("outer-f")), Do(in...)}
		}},
		{"upvalue", func(in []Stat) []Stat {
			return []Stat{Local1("f", Str("up-f")), CallS(Paren(Func(nil, false, in...)))}
		}},
		{"loop", func(in []Stat) []Stat {
			return []Stat{Assign1(Name("f"), Str("global-f")), NumFor("i", Num(1), Num(2), nil, in...)}
		}},
	}
	return func(yield func(*Prog)) {
		for _, o := range outers {
			for _, fm := range forms {
				o, fm := o, fm
				yield(&Prog{Family: "F-localscope", Shape: o.name + "/" + fm.name, Mk: func() *Block {
					in := fm.mk()
					// what does the name denote inside the function value, and outside?
					in = append(in, IfElse(Bin("==", CallN("type", Name("f")), Str("function")),
						[]Stat{Local(names("inner", "n"), CallN("f", Num(7))), Emit(Str("inside"), CallN("type", Name("inner")), Bin("==", Name("inner"), Name("f")), Name("inner"), Name("n"))},
						[]Stat{Emit(Str("not-a-function"), Name("f"))}))
					return Blk(o.mk(in)...)
				}})
			}
		}
	}
}

// F-fractkey — stores and reads through numeric keys that are not integers, next to a filled list:
// t[k] with k = i + 0.5 for every i around the list (key as constant, in a register, computed),
// for list lengths 0-4; the list elements, the fractional key and the length are observed.
func genFractKey() Gen {
	return func(yield func(*Prog)) {
		for n := 0; n <= 4; n++ {
			for i := 0; i <= n+1; i++ {
				for _, form := range []string{"const", "reg", "expr", "midpoint"} {
					n, i, form := n, i, form
					if form == "midpoint" && (n < 2 || i != 0) {
						continue
					}
					yield(&Prog{Family: "F-fractkey", Shape: fmt.Sprintf("n=%d/k=%d.5/%s", n, i, form), Mk: func() *Block {
						var fs []Field
						for j := 1; j <= n; j++ {
							fs = append(fs, Pos1(Num(float64(j*10))))
						}
						k := float64(i) + 0.5
						st := []Stat{Local1("t", TableE(fs...)), Local1("kr", Num(k))}
						var key func() Expr
						switch form {
						case "const":
							key = func() Expr { return Num(k) }
						case "reg":
							key = func() Expr { return Name("kr") }
						case "expr":
							key = func() Expr { return Bin("+", Num(float64(i)), Num(0.5)) }
						case "midpoint":
							key = func() Expr { return Bin("/", Bin("+", Num(1), Un("#", Name("t"))), Num(2)) }
						}
						obs := func(tag string) Stat {
							a := []Expr{Str(tag), Index(Name("t"), key())}
							for j := 0; j <= n+1; j++ {
								a = append(a, Index(Name("t"), Num(float64(j))))
							}
							return Emit(append(a, Un("#", Name("t")))...)
						}
						st = append(st, obs("before"), Assign1(Index(Name("t"), key()), Str("F")), obs("stored"),
							Assign1(Index(Name("t"), key()), Nil()), obs("erased"))
						return Blk(st...)
					}})
				}
			}
		}
	}
}
