package props

// C10 part 3 — object-level API calls give what the corresponding Lua expression gives.
//
// For every ordered operand pair of an alphabet of 14 values (tables whose metatables share / do not
// share handler functions, a plain table, userdata with and without metatable, numbers, strings, nil,
// true) and each of GetTable SetTable GetField SetField GetGlobal SetGlobal Equal RawEqual LessThan
// Concat ObjLen GetMetatable ToStringMeta Next, the API call and the Lua chunk (`return a[b]`,
// `a[b]=c`, `return a==b`, ...) are run on the same state on identically built operands, from the
// same activation (top level, or inside a host function at depth 1 or 2). Compared: result values
// (by stable names), raised-error yes/no, the log of metamethod handler invocations (event, handler
// identity, argument identities, in order), the raw content of every table afterwards, and that a
// successful API call leaves the stack height unchanged.

import (
	"fmt"
	"os"
	"sort"
	"strings"
	"sync"
	"sync/atomic"

	lua "github.com/yuin/gopher-lua"

	"verif/internal/harness"
)

type c10ObjCase struct {
	Op      string `json:"op"`
	A       int    `json:"a"` // operand indices into the alphabet (-1: unused)
	B       int    `json:"b"`
	C       int    `json:"c"`
	Name    string `json:"name,omitempty"` // field / global name
	Variant string `json:"variant"`        // how the metatables are built: func | chain | locked (globals: none | func | chain)
	Ret     string `json:"ret"`            // what comparison handlers return: true | false | nil | 0 ; "num": __tostring returns a number
	Depth   int    `json:"depth"`
}

var c10ObjNames = []string{"A1", "A2", "B", "C", "P", "U1", "U2", "U0", "1", "2.5", `"s"`, `"10"`, "nil", "true"}

const (
	c10oA1 = iota
	c10oA2
	c10oB
	c10oC
	c10oP
	c10oU1
	c10oU2
	c10oU0
	c10oN1
	c10oN25
	c10oSs
	c10oS10
	c10oNil
	c10oTrue
	c10oCount
)

func c10ObjName(i int) string {
	if i < 0 || i >= len(c10ObjNames) {
		return "-"
	}
	return c10ObjNames[i]
}

func (c *c10ObjCase) String() string {
	return fmt.Sprintf("%s(a=%s, b=%s, c=%s, name=%q) variant=%s handler-return=%s at depth %d", c.Op, c10ObjName(c.A), c10ObjName(c.B), c10ObjName(c.C), c.Name, c.Variant, c.Ret, c.Depth)
}

// ---- Lua sources -------------------------------------------------------------------------------------

const c10HandlerFactory = `return function(emit, tag)
  return {
    __index = function(t, k) local r = emit(tag, "index", t, k) return r, "extra" end,
    __newindex = function(t, k, v) emit(tag, "newindex", t, k, v) return "ignored" end,
    __eq = function(a, b) local r = emit(tag, "eq", a, b) return r, "extra" end,
    __lt = function(a, b) local r = emit(tag, "lt", a, b) return r, "extra" end,
    __le = function(a, b) local r = emit(tag, "le", a, b) return r, "extra" end,
    __concat = function(a, b) local r = emit(tag, "concat", a, b) return r, "extra" end,
    __len = function(a) local r = emit(tag, "len", a) return r, "extra" end,
    __tostring = function(a) local r = emit(tag, "tostring", a) return r, "extra" end,
  }
end`

var c10ObjChunkSrc = map[string]string{
	"GetTable":     "return function(a, b) return a[b] end",
	"SetTable":     "return function(a, b, c) a[b] = c end",
	"GetField/s":   "return function(a) return a.s end",
	"GetField/10":  "return function(a) return a[\"10\"] end",
	"SetField/s":   "return function(a, c) a.s = c end",
	"SetField/10":  "return function(a, c) a[\"10\"] = c end",
	"Equal":        "return function(a, b) return a == b end",
	"RawEqual":     "return function(a, b) return rawequal(a, b) end",
	"LessThan":     "return function(a, b) return a < b end",
	"Concat":       "return function(a, b) return a .. b end",
	"Concat3":      "return function(a, b, c) return a .. b .. c end",
	"ObjLen":       "return function(a) return #a end",
	"GetMetatable": "return function(a) return getmetatable(a) end",
	"ToStringMeta": "return function(a) return tostring(a) end",
	"Next":         "return function(a, b) return next(a, b) end",
	"GetGlobal/gs": "return function() return gs end",
	"GetGlobal/gp": "return function() return gp end",
	"SetGlobal/gs": "return function(c) gs = c end",
	"SetGlobal/gp": "return function(c) gp = c end",
}

var c10ObjProtos struct {
	once    sync.Once
	chunks  map[string]*lua.FunctionProto
	factory *lua.FunctionProto
}

func c10InitObjProtos() {
	c10ObjProtos.once.Do(func() {
		c10ObjProtos.chunks = map[string]*lua.FunctionProto{}
		for k, src := range c10ObjChunkSrc {
			c10ObjProtos.chunks[k] = c10CompileInner(src, "c10obj_"+k)
		}
		c10ObjProtos.factory = c10CompileInner(c10HandlerFactory, "c10obj_factory")
	})
}

// ---- fixture -------------------------------------------------------------------------------------------

type c10ObjFix struct {
	chunks   map[string]*lua.LFunction
	handlers map[string]*lua.LTable // tag -> table of handler functions
	log      []string
	ret      string
	names    map[lua.LValue]string
	strNames map[string]string
}

var c10HandlerTags = []string{"H1", "H2", "H3", "HB", "HG"}

func (e *c10Env) objFix() *c10ObjFix {
	if f, ok := e.extra.(*c10ObjFix); ok {
		return f
	}
	c10InitObjProtos()
	L := e.L
	f := &c10ObjFix{chunks: map[string]*lua.LFunction{}, handlers: map[string]*lua.LTable{}}
	e.extra = f
	for k, p := range c10ObjProtos.chunks {
		f.chunks[k] = L.NewFunctionFromProto(p)
	}
	emit := L.NewFunction(func(L *lua.LState) int {
		tag, ev := L.ToString(1), L.ToString(2)
		var b strings.Builder
		b.WriteString(tag + ":" + ev + "(")
		for i := 3; i <= L.GetTop(); i++ {
			if i > 3 {
				b.WriteString(", ")
			}
			b.WriteString(f.render(L.Get(i)))
		}
		b.WriteString(")")
		f.log = append(f.log, b.String())
		switch ev {
		case "index":
			L.Push(lua.LString(tag + ":i"))
		case "eq", "lt", "le":
			switch f.ret {
			case "false":
				L.Push(lua.LFalse)
			case "nil":
				L.Push(lua.LNil)
			case "0":
				L.Push(lua.LNumber(0))
			default:
				L.Push(lua.LTrue)
			}
		case "concat":
			L.Push(lua.LString(tag + ":c"))
		case "len":
			L.Push(lua.LNumber(42))
		case "tostring":
			if f.ret == "num" {
				L.Push(lua.LNumber(5))
			} else {
				L.Push(lua.LString(tag + ":s"))
			}
		default:
			L.Push(lua.LNil)
		}
		return 1
	})
	factory := L.NewFunctionFromProto(c10ObjProtos.factory)
	for _, tag := range c10HandlerTags {
		L.Push(factory)
		L.Push(emit)
		L.Push(lua.LString(tag))
		L.Call(2, 1)
		f.handlers[tag] = L.Get(-1).(*lua.LTable)
		L.Pop(1)
	}
	return f
}

func (f *c10ObjFix) render(v lua.LValue) string {
	switch x := v.(type) {
	case nil:
		return "<go-nil>"
	case *lua.LNilType:
		return "nil"
	case lua.LBool:
		return x.String()
	case lua.LNumber:
		return fmt.Sprintf("%v", float64(x))
	case lua.LString:
		if n, ok := f.strNames[string(x)]; ok {
			return "<default string of " + n + ">"
		}
		return fmt.Sprintf("%q", string(x))
	}
	if n, ok := f.names[v]; ok {
		return n
	}
	return "<unnamed " + v.Type().String() + ">"
}

type c10Operands struct {
	vals   []lua.LValue
	tables []*lua.LTable
}

var c10MetaEvents = []string{"__index", "__newindex", "__eq", "__lt", "__le", "__concat", "__len", "__tostring"}

// build creates the operand alphabet afresh (identical shape every time) and registers names.
func (f *c10ObjFix) build(L *lua.LState, variant string) *c10Operands {
	f.names = map[lua.LValue]string{}
	f.strNames = map[string]string{}
	o := &c10Operands{}
	named := func(n string, v lua.LValue) lua.LValue {
		f.names[v] = n
		if t, ok := v.(*lua.LTable); ok {
			o.tables = append(o.tables, t)
			f.strNames[t.String()] = n
		}
		if u, ok := v.(*lua.LUserData); ok {
			f.strNames[u.String()] = n
		}
		return v
	}
	for _, tag := range c10HandlerTags {
		h := f.handlers[tag]
		for _, ev := range c10MetaEvents {
			f.names[h.RawGetString(ev)] = "fn:" + tag + "." + ev
		}
	}
	tbl := func(n string, kv ...lua.LValue) *lua.LTable {
		t := L.NewTable()
		for i := 0; i+1 < len(kv); i += 2 {
			t.RawSet(kv[i], kv[i+1])
		}
		named(n, t)
		return t
	}
	mtFrom := func(n, tag string) *lua.LTable {
		mt := tbl(n)
		for _, ev := range c10MetaEvents {
			mt.RawSetString(ev, f.handlers[tag].RawGetString(ev))
		}
		return mt
	}
	S := func(s string) lua.LValue { return lua.LString(s) }
	MA, MB, MC, MU := mtFrom("MA", "H1"), mtFrom("MB", "H1"), mtFrom("MC", "H2"), mtFrom("MU", "H3")
	switch variant {
	case "chain":
		BKA := tbl("BKA", S("s"), S("bka_s"), lua.LNumber(2.5), S("bka_25"))
		bkaMt := tbl("BKA_mt")
		bkaMt.RawSetString("__index", f.handlers["HB"].RawGetString("__index"))
		BKA.Metatable = bkaMt
		NBA := tbl("NBA", S("s"), S("nba_old"))
		nbaMt := tbl("NBA_mt")
		nbaMt.RawSetString("__newindex", f.handlers["HB"].RawGetString("__newindex"))
		NBA.Metatable = nbaMt
		BKC := tbl("BKC", S("10"), S("bkc_10"))
		NBC := tbl("NBC")
		for _, m := range []*lua.LTable{MA, MB, MU} {
			m.RawSetString("__index", BKA)
			m.RawSetString("__newindex", NBA)
		}
		MC.RawSetString("__index", BKC)
		MC.RawSetString("__newindex", NBC)
	case "locked":
		MA.RawSetString("__metatable", S("locked"))
		MB.RawSetString("__metatable", lua.LFalse)
		MC.RawSetString("__metatable", tbl("LOCKC"))
		MU.RawSetString("__metatable", lua.LNumber(7))
	}
	A1 := tbl("A1", lua.LNumber(1), S("a1_1"))
	A2 := tbl("A2")
	B := tbl("B", S("10"), S("b_10"))
	C := tbl("C", S("s"), S("c_s"))
	P := tbl("P", lua.LNumber(1), S("p_1"), S("s"), S("p_s"), lua.LTrue, S("p_true"))
	A1.Metatable, A2.Metatable, B.Metatable, C.Metatable = MA, MA, MB, MC
	ud := func(n string, mt lua.LValue) lua.LValue {
		u := L.NewUserData()
		u.Value = n
		u.Metatable = mt
		return named(n, u)
	}
	U1, U2, U0 := ud("U1", MU), ud("U2", MU), ud("U0", lua.LNil)
	o.vals = []lua.LValue{A1, A2, B, C, P, U1, U2, U0, lua.LNumber(1), lua.LNumber(2.5), S("s"), S("10"), lua.LNil, lua.LTrue}
	return o
}

func (f *c10ObjFix) dump(o *c10Operands, extra ...*lua.LTable) string {
	var parts []string
	all := append(append([]*lua.LTable{}, o.tables...), extra...)
	for _, t := range all {
		var kv []string
		t.ForEach(func(k, v lua.LValue) { kv = append(kv, f.render(k)+"="+f.render(v)) })
		sort.Strings(kv)
		n := f.names[t]
		parts = append(parts, n+"{"+strings.Join(kv, ",")+"}")
	}
	return strings.Join(parts, " ")
}

type c10ObjOut struct {
	err     bool
	errKind string
	errText string
	vals    []string
	log     []string
	post    string
	delta   int
	chain   []string
}

func (o *c10ObjOut) String() string {
	if o.err {
		return fmt.Sprintf("error(%s: %s) log=%v post=%s", o.errKind, o.errText, o.log, o.post)
	}
	return fmt.Sprintf("values=%v log=%v post=%s", o.vals, o.log, o.post)
}

func c10ObjVal(oc *c10ObjCase, ops *c10Operands, i int) lua.LValue {
	if i == -2 {
		return lua.LString("V")
	}
	if i < 0 {
		return lua.LNil
	}
	return ops.vals[i]
}

// c10RunObjSide runs the API call (api=true) or the Lua chunk on freshly built operands.
func c10RunObjSide(e *c10Env, f *c10ObjFix, oc *c10ObjCase, api bool) (out c10ObjOut) {
	L := e.L
	isGlobal := strings.HasSuffix(oc.Op, "Global")
	opVariant := oc.Variant
	if isGlobal {
		opVariant = "func"
	}
	ops := f.build(L, opVariant)
	f.log = f.log[:0]
	f.ret = oc.Ret
	a, b, c := c10ObjVal(oc, ops, oc.A), c10ObjVal(oc, ops, oc.B), c10ObjVal(oc, ops, oc.C)
	// globals scenario: the globals table gets a metatable for the duration of the run
	G := L.Get(lua.GlobalsIndex).(*lua.LTable)
	var gExtra []*lua.LTable
	if isGlobal {
		f.names[G] = "_G"
		G.RawSetString("gp", lua.LString("g_present"))
		G.RawSetString("gs", lua.LNil)
		switch oc.Variant {
		case "func":
			mt := L.NewTable()
			mt.RawSetString("__index", f.handlers["HG"].RawGetString("__index"))
			mt.RawSetString("__newindex", f.handlers["HG"].RawGetString("__newindex"))
			G.Metatable = mt
		case "chain":
			bkg := L.NewTable()
			bkg.RawSetString("gs", lua.LString("bkg_gs"))
			nbg := L.NewTable()
			f.names[bkg], f.names[nbg] = "BKG", "NBG"
			mt := L.NewTable()
			mt.RawSetString("__index", bkg)
			mt.RawSetString("__newindex", nbg)
			G.Metatable = mt
			gExtra = []*lua.LTable{bkg, nbg}
		}
		defer func() {
			G.Metatable = lua.LNil
			G.RawSetString("gp", lua.LNil)
			G.RawSetString("gs", lua.LNil)
		}()
	}
	chunkKey := oc.Op
	if oc.Name != "" {
		chunkKey += "/" + oc.Name
	}
	var rethrow interface{}
	body := func(L *lua.LState) int {
		h := L.GetTop()
		if !api {
			fn := f.chunks[chunkKey]
			if fn == nil {
				harness.Fatal("c10: no chunk %q", chunkKey)
			}
			L.Push(fn)
			n := 0
			push := func(v lua.LValue) { L.Push(v); n++ }
			switch oc.Op {
			case "GetTable", "Equal", "RawEqual", "LessThan", "Concat", "Next":
				push(a)
				push(b)
			case "SetTable", "Concat3":
				push(a)
				push(b)
				push(c)
			case "GetField", "ObjLen", "GetMetatable", "ToStringMeta":
				push(a)
			case "SetField":
				push(a)
				push(c)
			case "GetGlobal":
			case "SetGlobal":
				push(c)
			}
			err := L.PCall(n, lua.MultRet, nil)
			if err != nil {
				out.err, out.errKind, out.errText = true, "lua-error", err.Error()
				if ae, ok := err.(*lua.ApiError); ok && ae.Type == lua.ApiErrorPanic {
					out.errKind = "go-panic"
				}
				return 0
			}
			for i := h + 1; i <= L.GetTop(); i++ {
				out.vals = append(out.vals, f.render(L.Get(i)))
			}
			L.SetTop(h)
			return 0
		}
		var res []lua.LValue
		pv := c10Protect(func() {
			switch oc.Op {
			case "GetTable":
				res = []lua.LValue{L.GetTable(a, b)}
			case "SetTable":
				L.SetTable(a, b, c)
			case "GetField":
				res = []lua.LValue{L.GetField(a, oc.Name)}
			case "SetField":
				L.SetField(a, oc.Name, c)
			case "GetGlobal":
				res = []lua.LValue{L.GetGlobal(oc.Name)}
			case "SetGlobal":
				L.SetGlobal(oc.Name, c)
			case "Equal":
				res = []lua.LValue{lua.LBool(L.Equal(a, b))}
			case "RawEqual":
				res = []lua.LValue{lua.LBool(L.RawEqual(a, b))}
			case "LessThan":
				res = []lua.LValue{lua.LBool(L.LessThan(a, b))}
			case "Concat":
				res = []lua.LValue{lua.LString(L.Concat(a, b))}
			case "Concat3":
				res = []lua.LValue{lua.LString(L.Concat(a, b, c))}
			case "ObjLen":
				res = []lua.LValue{lua.LNumber(L.ObjLen(a))}
			case "GetMetatable":
				res = []lua.LValue{L.GetMetatable(a)}
			case "ToStringMeta":
				res = []lua.LValue{L.ToStringMeta(a)}
			case "Next":
				k, v := L.Next(a.(*lua.LTable), b)
				res = []lua.LValue{k, v}
			default:
				harness.Fatal("c10: op %q", oc.Op)
			}
		})
		if pv != nil {
			out.err, out.errKind, out.errText = true, "go-panic", fmt.Sprint(pv)
			if ae, ok := pv.(*lua.ApiError); ok {
				out.errKind = "lua-error"
				if ae.Type == lua.ApiErrorPanic {
					out.errKind = "go-panic"
				}
			}
			rethrow = pv
			return 0
		}
		out.delta = L.GetTop() - h
		for _, v := range res {
			out.vals = append(out.vals, f.render(v))
		}
		return 0
	}
	wrapped := func(L *lua.LState) int {
		n := body(L)
		if rethrow != nil && oc.Depth > 0 {
			panic(rethrow)
		}
		return n
	}
	res := e.runAt(c10Cfg{Depth: oc.Depth, NArgs: 1}, 0, wrapped)
	out.chain = append(out.chain, res.bad...)
	if oc.Depth > 0 {
		if rethrow != nil && res.err == nil {
			out.chain = append(out.chain, "error-lost: an error raised by the API call inside a host function did not reach the enclosing protected call")
		}
		if rethrow == nil && res.err != nil {
			out.chain = append(out.chain, fmt.Sprintf("chain-error: the activation chain failed: %v", res.err))
		}
	} else if res.panicVal != nil {
		out.chain = append(out.chain, fmt.Sprintf("harness-panic: %v", res.panicVal))
	}
	out.log = append([]string{}, f.log...)
	out.post = f.dump(ops, gExtra...)
	if isGlobal {
		out.post += " gp=" + f.render(G.RawGetString("gp")) + " gs=" + f.render(G.RawGetString("gs"))
	}
	return out
}

func c10RunObjCase(w *c10Worker, oc *c10ObjCase) []c10V {
	v, _, _ := c10RunObjCaseFull(w, oc)
	return v
}

func c10RunObjCaseFull(w *c10Worker, oc *c10ObjCase) ([]c10V, string, string) {
	viol, a, l := c10RunObjCaseInner(w, oc)
	return viol, a.short(), l.short()
}

func (o *c10ObjOut) short() string {
	if o.err {
		return fmt.Sprintf("error(%s) handlers=%v", o.errKind, o.log)
	}
	return fmt.Sprintf("values=%v handlers=%v", o.vals, o.log)
}

func c10RunObjCaseInner(w *c10Worker, oc *c10ObjCase) ([]c10V, *c10ObjOut, *c10ObjOut) {
	e := w.env(false, true, false)
	f := e.objFix()
	apiOut := c10RunObjSide(e, f, oc, true)
	luaOut := c10RunObjSide(e, f, oc, false)
	if c10DumpObj {
		fmt.Fprintf(os.Stderr, "c10obj %s\n   api: %s\n   lua: %s\n", oc.String(), apiOut.String(), luaOut.String())
	}
	var viol []c10V
	opKey := oc.Op
	if oc.Name != "" {
		opKey += "." + oc.Name
	}
	shapeOf := func() string {
		s := c10ObjName(oc.A)
		if oc.B >= 0 {
			s += "," + c10ObjName(oc.B)
		}
		if oc.C >= 0 {
			s += "," + c10ObjName(oc.C)
		} else if oc.C == -2 {
			s += ",V"
		}
		return s
	}
	dctx := "d0"
	if oc.Depth > 0 {
		dctx = "dN"
	}
	fail := func(what, text string) {
		viol = append(viol, c10V{fmt.Sprintf("obj/%s/%s/%s/%s/%s/%s", opKey, what, shapeOf(), oc.Variant, oc.Ret, dctx), text})
	}
	for _, b := range apiOut.chain {
		fail("api-chain-"+c10BadSig(b), b)
	}
	for _, b := range luaOut.chain {
		fail("lua-chain-"+c10BadSig(b), b)
	}
	// narrowing (see assumptions): ObjLen of an object whose Lua length expression raises is not judged
	if oc.Op == "ObjLen" && luaOut.err && !apiOut.err {
		atomic.AddInt64(&c10ObjLenNotJudged, 1)
		return viol, &apiOut, &luaOut
	}
	if oc.Op == "Next" && !luaOut.err {
		for len(luaOut.vals) < 2 {
			luaOut.vals = append(luaOut.vals, "nil")
		}
	}
	switch {
	case apiOut.err != luaOut.err:
		fail("error-mismatch", fmt.Sprintf("API call: %s\nLua chunk: %s", apiOut.String(), luaOut.String()))
		return viol, &apiOut, &luaOut
	case apiOut.err && apiOut.errKind != luaOut.errKind:
		fail("error-kind", fmt.Sprintf("API call: %s\nLua chunk: %s", apiOut.String(), luaOut.String()))
	case !apiOut.err && strings.Join(apiOut.vals, "\x00") != strings.Join(luaOut.vals, "\x00"):
		fail("result", fmt.Sprintf("API call gives %v, Lua chunk gives %v", apiOut.vals, luaOut.vals))
	}
	if strings.Join(apiOut.log, "\x00") != strings.Join(luaOut.log, "\x00") {
		fail("handler-log", fmt.Sprintf("metamethod invocations differ: API call %v, Lua chunk %v", apiOut.log, luaOut.log))
	}
	if apiOut.post != luaOut.post {
		fail("post-state", fmt.Sprintf("tables afterwards differ:\nAPI call:  %s\nLua chunk: %s", apiOut.post, luaOut.post))
	}
	if !apiOut.err && apiOut.delta != 0 {
		fail("stack-leak", fmt.Sprintf("the API call changed the stack height of the calling activation by %d", apiOut.delta))
	}
	// Where the Lua builtin is itself written with the API function (getmetatable, tostring) or the
	// answer follows directly from the manual (==, rawequal), the API result is also compared with
	// an expectation derived from how the operands were built.
	if wantVals, wantLog, ok := c10ObjExpect(oc); ok {
		atomic.AddInt64(&c10ObjThreeWay, 1)
		if apiOut.err {
			fail("expected-error", fmt.Sprintf("API call raised (%s); expected %v", apiOut.errText, wantVals))
		} else {
			if strings.Join(apiOut.vals, "\x00") != strings.Join(wantVals, "\x00") {
				fail("expected-result", fmt.Sprintf("API call gives %v, the Lua 5.1 manual gives %v", apiOut.vals, wantVals))
			}
			if strings.Join(apiOut.log, "\x00") != strings.Join(wantLog, "\x00") {
				fail("expected-log", fmt.Sprintf("API call invoked %v, expected %v", apiOut.log, wantLog))
			}
		}
	}
	return viol, &apiOut, &luaOut
}

var c10ObjThreeWay, c10ObjLenNotJudged int64

// c10ObjExpect: independent expectation for GetMetatable, ToStringMeta, Equal, RawEqual.
func c10ObjExpect(oc *c10ObjCase) (vals, log []string, ok bool) {
	mtOf := func(i int) (mt, tag string) {
		switch i {
		case c10oA1, c10oA2:
			return "MA", "H1"
		case c10oB:
			return "MB", "H1"
		case c10oC:
			return "MC", "H2"
		case c10oU1, c10oU2:
			return "MU", "H3"
		}
		return "", ""
	}
	log = []string{}
	switch oc.Op {
	case "GetMetatable":
		mt, _ := mtOf(oc.A)
		if mt == "" {
			return []string{"nil"}, log, true
		}
		if oc.Variant == "locked" {
			return []string{map[string]string{"MA": `"locked"`, "MB": "false", "MC": "LOCKC", "MU": "7"}[mt]}, log, true
		}
		return []string{mt}, log, true
	case "ToStringMeta":
		_, tag := mtOf(oc.A)
		if tag != "" {
			log = []string{tag + ":tostring(" + c10ObjNames[oc.A] + ")"}
			if oc.Ret == "num" {
				return []string{"5"}, log, true
			}
			return []string{fmt.Sprintf("%q", tag+":s")}, log, true
		}
		switch oc.A {
		case c10oP, c10oU0:
			return []string{"<default string of " + c10ObjNames[oc.A] + ">"}, log, true
		case c10oN1:
			return []string{`"1"`}, log, true
		case c10oN25:
			return []string{`"2.5"`}, log, true
		case c10oSs:
			return []string{`"s"`}, log, true
		case c10oS10:
			return []string{`"10"`}, log, true
		case c10oNil:
			return []string{`"nil"`}, log, true
		case c10oTrue:
			return []string{`"true"`}, log, true
		}
	case "RawEqual":
		return []string{fmt.Sprint(oc.A == oc.B)}, log, true
	case "Equal":
		if oc.A == oc.B {
			return []string{"true"}, log, true
		}
		_, ta := mtOf(oc.A)
		_, tb := mtOf(oc.B)
		isUd := func(i int) bool { return i == c10oU1 || i == c10oU2 }
		if ta != "" && ta == tb && isUd(oc.A) == isUd(oc.B) {
			log = []string{ta + ":eq(" + c10ObjNames[oc.A] + ", " + c10ObjNames[oc.B] + ")"}
			return []string{fmt.Sprint(oc.Ret == "true" || oc.Ret == "0")}, log, true
		}
		return []string{"false"}, log, true
	}
	return nil, nil, false
}

func c10RunObjPart(r *harness.Run) c10PartResult {
	c10InitObjProtos()
	var cases []*c10ObjCase
	all := make([]int, c10oCount)
	for i := range all {
		all[i] = i
	}
	tables := []int{c10oA1, c10oA2, c10oB, c10oC, c10oP}
	lenable := []int{c10oA1, c10oA2, c10oB, c10oC, c10oP, c10oU1, c10oU2, c10oU0, c10oSs, c10oS10}
	reduced := []int{c10oA1, c10oC, c10oP, c10oU1, c10oN1, c10oSs, c10oNil}
	variants := []string{"func", "chain", "locked"}
	depths := []int{0, 1, 2}
	add := func(c c10ObjCase) {
		for _, d := range depths {
			cc := c
			cc.Depth = d
			cases = append(cases, &cc)
		}
	}
	for _, v := range variants {
		for _, a := range all {
			for _, b := range all {
				add(c10ObjCase{Op: "GetTable", A: a, B: b, C: -1, Variant: v, Ret: "true"})
				for _, c := range []int{-2, c10oNil} {
					add(c10ObjCase{Op: "SetTable", A: a, B: b, C: c, Variant: v, Ret: "true"})
				}
				add(c10ObjCase{Op: "RawEqual", A: a, B: b, C: -1, Variant: v, Ret: "true"})
				add(c10ObjCase{Op: "Concat", A: a, B: b, C: -1, Variant: v, Ret: "true"})
				for _, ret := range []string{"true", "false", "nil", "0"} {
					add(c10ObjCase{Op: "Equal", A: a, B: b, C: -1, Variant: v, Ret: ret})
					add(c10ObjCase{Op: "LessThan", A: a, B: b, C: -1, Variant: v, Ret: ret})
				}
			}
			for _, name := range []string{"s", "10"} {
				add(c10ObjCase{Op: "GetField", A: a, B: -1, C: -1, Name: name, Variant: v, Ret: "true"})
				for _, c := range []int{-2, c10oNil} {
					add(c10ObjCase{Op: "SetField", A: a, B: -1, C: c, Name: name, Variant: v, Ret: "true"})
				}
			}
			add(c10ObjCase{Op: "GetMetatable", A: a, B: -1, C: -1, Variant: v, Ret: "true"})
			add(c10ObjCase{Op: "ToStringMeta", A: a, B: -1, C: -1, Variant: v, Ret: "true"})
			add(c10ObjCase{Op: "ToStringMeta", A: a, B: -1, C: -1, Variant: v, Ret: "num"})
		}
		for _, a := range lenable {
			add(c10ObjCase{Op: "ObjLen", A: a, B: -1, C: -1, Variant: v, Ret: "true"})
		}
		for _, a := range tables {
			for _, b := range all {
				add(c10ObjCase{Op: "Next", A: a, B: b, C: -1, Variant: v, Ret: "true"})
			}
		}
		for _, a := range reduced {
			for _, b := range reduced {
				for _, c := range reduced {
					add(c10ObjCase{Op: "Concat3", A: a, B: b, C: c, Variant: v, Ret: "true"})
				}
			}
		}
	}
	for _, v := range []string{"none", "func", "chain"} {
		for _, name := range []string{"gs", "gp"} {
			add(c10ObjCase{Op: "GetGlobal", A: -1, B: -1, C: -1, Name: name, Variant: v, Ret: "true"})
			for _, c := range []int{-2, c10oNil, c10oP} {
				add(c10ObjCase{Op: "SetGlobal", A: -1, B: -1, C: c, Name: name, Variant: v, Ret: "true"})
			}
		}
	}
	nw := harness.Workers()
	workers := make([]*c10Worker, nw)
	for i := range workers {
		workers[i] = &c10Worker{}
	}
	defer func() {
		for _, w := range workers {
			w.closeAll()
		}
	}()
	const chunk = 64
	nchunks := (len(cases) + chunk - 1) / chunk
	var done, withHandlers int64
	var expiredFlag int32
	perOp := map[string]int{}
	for _, c := range cases {
		perOp[c.Op]++
	}
	harness.ParallelShards(nchunks, func(wi, ch int) {
		w := workers[wi]
		for i := ch * chunk; i < (ch+1)*chunk && i < len(cases); i++ {
			if r.Expired() {
				atomic.StoreInt32(&expiredFlag, 1)
				return
			}
			oc := cases[i]
			vs, apiS, luaS := c10RunObjCaseFull(w, oc)
			atomic.AddInt64(&done, 1)
			if oc.Depth == 1 && oc.Variant == "func" && oc.Ret == "true" && (oc.A == c10oA1 || oc.A < 0) && (oc.B == c10oB || oc.B < 0) {
				r.AddSample(map[string]interface{}{"part": "obj", "case": oc.String(), "api": apiS, "lua": luaS})
			}
			f := w.freshBase.objFix()
			nontrivial := len(f.log) > 0 || oc.A < c10oN1
			if len(f.log) > 0 {
				atomic.AddInt64(&withHandlers, 1)
			}
			r.Eval(fmt.Sprintf("%+v", *oc), nontrivial, func() interface{} {
				return map[string]interface{}{"part": "obj", "case": oc.String()}
			})
			for _, v := range vs {
				cp := *oc
				r.Violation(v.Sig, v.What+"\ncase: "+oc.String(), c10Replayable{Part: "obj", Obj: &cp, Text: oc.String()})
			}
		}
	})
	if atomic.LoadInt32(&expiredFlag) != 0 {
		r.NotExhaustive("deadline reached during the object-level comparison")
	}
	r.Count("object_cases", done)
	r.Count("object_cases_invoking_metamethods", withHandlers)
	r.Count("object_cases_also_compared_with_manual", atomic.LoadInt64(&c10ObjThreeWay))
	r.Count("object_cases_objlen_not_judged_lua_raises", atomic.LoadInt64(&c10ObjLenNotJudged))
	return c10PartResult{
		rule:  fmt.Sprintf("objects: 14-value operand alphabet, every ordered pair (reduced 7-value alphabet for triples) x {GetTable,SetTable,GetField,SetField,GetGlobal,SetGlobal,Equal,RawEqual,LessThan,Concat(2,3),ObjLen,GetMetatable,ToStringMeta,Next} x 3 metatable constructions (function handlers / __index,__newindex table chains / __metatable set) x handler return values x activation depth 0,1,2: API call vs Lua chunk on the same state (values, error, handler log, tables afterwards); non-trivial = an object operand or a metamethod ran"),
		cases: done,
		extra: map[string]interface{}{"cases": done, "cases_invoking_metamethods": withHandlers, "cases_per_operation": perOp},
	}
}
